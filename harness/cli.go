package main

// Observation through the command line: the built `coca` binary (COCA_BIN, built from /repo's working tree on
// every run) is executed in a scratch working directory that holds coca_reporter/, as a user would run it; what
// it WRITES there is the observation.  Used next to the library entry points: when the two differ, the report the
// user sees is what counts.

import (
	"encoding/json"
	"os"
	"os/exec"
	"path/filepath"
	"time"
)

type cliSess struct{ dir string }

func cliEnabled() bool { return os.Getenv("COCA_BIN") != "" }

func newCliSess() *cliSess {
	dir, err := os.MkdirTemp(os.Getenv("VERIF_SCRATCH"), "verif-cli-")
	if err != nil {
		panic(err)
	}
	os.Mkdir(filepath.Join(dir, "coca_reporter"), 0o755)
	return &cliSess{dir}
}

func (s *cliSess) close() { os.RemoveAll(s.dir) }

func (s *cliSess) writeJSON(name string, v interface{}) {
	data, _ := json.MarshalIndent(v, "", "\t")
	os.WriteFile(filepath.Join(s.dir, "coca_reporter", name), data, 0o644)
}

func (s *cliSess) remove(name string) { os.Remove(filepath.Join(s.dir, "coca_reporter", name)) }

// run executes `coca args...` in the session directory; ok = exit status 0 within the time limit
func (s *cliSess) run(args ...string) (string, bool) {
	cmd := exec.Command(os.Getenv("COCA_BIN"), args...)
	cmd.Dir = s.dir
	cmd.Env = append(os.Environ(), "TMPDIR="+s.dir, "HOME="+s.dir)
	done := make(chan struct{})
	var out []byte
	var err error
	go func() { out, err = cmd.CombinedOutput(); close(done) }()
	select {
	case <-done:
	case <-time.After(60 * time.Second):
		if cmd.Process != nil {
			cmd.Process.Kill()
		}
		<-done
		return "timeout", false
	}
	return string(out), err == nil
}

func (s *cliSess) read(name string) (string, bool) {
	data, err := os.ReadFile(filepath.Join(s.dir, "coca_reporter", name))
	if err != nil {
		return "", false
	}
	return string(data), true
}
