package main

import (
	"encoding/json"
	"os"
	"path/filepath"
	"sort"
	"strings"

	"github.com/modernizing/coca/pkg/application/analysis/javaapp"
	"github.com/modernizing/coca/pkg/application/api"
	"github.com/modernizing/coca/pkg/application/bs"
	"github.com/modernizing/coca/pkg/application/call"
	"github.com/modernizing/coca/pkg/application/rcall"
	"github.com/modernizing/coca/pkg/domain/core_domain"
)

func sortedFuncs(d core_domain.CodeDataStruct) core_domain.CodeDataStruct {
	fs := append([]core_domain.CodeFunction{}, d.Functions...)
	sort.SliceStable(fs, func(i, j int) bool {
		a, b := fs[i].Position, fs[j].Position
		if a.StartLine != b.StartLine {
			return a.StartLine < b.StartLine
		}
		if a.StartLinePosition != b.StartLinePosition {
			return a.StartLinePosition < b.StartLinePosition
		}
		if fs[i].Name != fs[j].Name {
			return fs[i].Name < fs[j].Name
		}
		// functions without a position of their own (creations in field initialisers): any total order
		return sxOfFunc(fs[i]).String() < sxOfFunc(fs[j]).String()
	})
	d.Functions = fs
	return d
}

// deepSorted orders the functions of a node, of its inner structures and of the inner structures of its
// functions (all of them come out of Go maps)
func deepSorted(d core_domain.CodeDataStruct) core_domain.CodeDataStruct {
	d = sortedFuncs(d)
	fs := append([]core_domain.CodeFunction{}, d.Functions...)
	for i := range fs {
		inner := append([]core_domain.CodeDataStruct{}, fs[i].InnerStructures...)
		for j := range inner {
			inner[j] = deepSorted(inner[j])
		}
		fs[i].InnerStructures = inner
	}
	d.Functions = fs
	inner := append([]core_domain.CodeDataStruct{}, d.InnerStructures...)
	for j := range inner {
		inner[j] = deepSorted(inner[j])
	}
	d.InnerStructures = inner
	return d
}

func keyedModel(nodes []core_domain.CodeDataStruct) Sx {
	out := []Sx{}
	for _, n := range nodes {
		out = append(out, L(A(n.Package+"."+n.NodeName), sxOfDs(sortedFuncs(n))))
	}
	return L(out...)
}

func init() {
	// (((path kind key text) ...) (run ...)) -> one output per run, all runs in this process.
	// run: (ident|full|bs|api (index ...)) | (call root lookup) | (rcall target)
	register("C07", func(in Sx) Sx {
		files := in.Nth(0).Items()
		dir, err := os.MkdirTemp(os.Getenv("VERIF_SCRATCH"), "verif-c07-")
		if err != nil {
			panic(err)
		}
		defer os.RemoveAll(dir)
		var mainPaths []string
		for _, f := range files {
			p := filepath.Join(dir, f.Nth(0).Str())
			os.MkdirAll(filepath.Dir(p), 0o755)
			os.WriteFile(p, []byte(f.Nth(3).Str()), 0o644)
			if f.Nth(1).Str() == "main" {
				mainPaths = append(mainPaths, p)
			}
		}
		noise := 0
		subset := func(idxs []Sx) (string, []string) {
			sub, err := os.MkdirTemp(os.Getenv("VERIF_SCRATCH"), "verif-c07s-")
			if err != nil {
				panic(err)
			}
			var paths []string
			for _, i := range idxs {
				f := files[i.Int()]
				p := filepath.Join(sub, f.Nth(0).Str())
				os.MkdirAll(filepath.Dir(p), 0o755)
				os.WriteFile(p, []byte(f.Nth(3).Str()), 0o644)
				paths = append(paths, p)
			}
			// every other directory run: OTHER files are added next to the selected ones, sorting before them -- a
			// source whose name contains "testData" (skipped by the path rule), a generated source matched by a
			// .gitignore pattern, a text file; none of them may change the entries of the selected files
			noise++
			if noise%2 == 0 && len(paths) > 0 {
				d := filepath.Dir(paths[0])
				os.WriteFile(filepath.Join(d, "A0LatestData.java"), []byte("public class A0LatestData { void a() { } }\n"), 0o644)
				os.WriteFile(filepath.Join(d, "A0_gen.java"), []byte("public class A0_gen { void g() { } }\n"), 0o644)
				os.WriteFile(filepath.Join(d, "A0notes.txt"), []byte("class Fake {}\n"), 0o644)
				os.WriteFile(filepath.Join(d, "A0.gitkeep"), []byte{}, 0o644) // a zero-byte file
				os.WriteFile(filepath.Join(sub, ".gitignore"), []byte("*_gen.java\n"), 0o644)
			}
			return sub, paths
		}
		identApp := javaapp.NewJavaIdentifierApp()
		fullApp := javaapp.NewJavaFullApp()
		idents0 := identApp.AnalysisFiles(mainPaths)
		var deps0 []core_domain.CodeDataStruct
		outs := []Sx{}
		for _, r := range in.Nth(1).Items() {
			kind := r.Nth(0).Str()
			switch kind {
			case "ident", "full":
				var sel []string
				for _, i := range r.Nth(1).Items() {
					sel = append(sel, filepath.Join(dir, files[i.Int()].Nth(0).Str()))
				}
				if kind == "ident" {
					outs = append(outs, keyedModel(identApp.AnalysisFiles(sel)))
				} else {
					nodes := relativise(fullApp.AnalysisFiles(idents0, sel), dir)
					if deps0 == nil {
						for _, n := range nodes {
							deps0 = append(deps0, sortedFuncs(n))
						}
					}
					outs = append(outs, keyedModel(nodes))
				}
			case "fullw":
				// unconventional files (nested, anonymous, enum, record types ...): no model; the whole entry,
				// serialised, keyed by its file
				var sel []string
				for _, i := range r.Nth(1).Items() {
					sel = append(sel, filepath.Join(dir, files[i.Int()].Nth(0).Str()))
				}
				rows := []Sx{}
				for _, i := range r.Nth(1).Items() {
					rows = append(rows, L(A(files[i.Int()].Nth(0).Str()), A("selected")))
				}
				for _, n := range relativise(fullApp.AnalysisFiles(idents0, sel), dir) {
					data, _ := json.Marshal(deepSorted(n))
					rows = append(rows, L(A(n.FilePath), A(string(data))))
				}
				outs = append(outs, L(rows...))
			case "bs":
				sub, _ := subset(r.Nth(1).Items())
				app := bs.NewBadSmellApp()
				smells := app.IdentifyBadSmell(app.AnalysisPath(sub), nil)
				rows := []Sx{}
				for _, m := range smells {
					if m.Bs == "refusedBequest" || m.Bs == "graphConnectedCall" {
						continue
					}
					desc := m.Description
					if m.Bs == "longParameterList" {
						desc = ""
					}
					rel := strings.TrimPrefix(strings.TrimPrefix(m.File, sub), "/")
					rows = append(rows, L(A(rel), L(A(rel), A(m.Line), A(m.Bs), A(desc), N(m.Size))))
				}
				os.RemoveAll(sub)
				outs = append(outs, L(rows...))
			case "api":
				sub, _ := subset(r.Nth(1).Items())
				app := new(api.JavaApiApp)
				rows := []Sx{}
				for _, x := range app.AnalysisPath(sub, nil, map[string]core_domain.CodeDataStruct{}, map[string]string{}) {
					rows = append(rows, L(A(x.PackageName+"."+x.ClassName),
						L(A(x.HttpMethod), A(x.Uri), A(x.PackageName), A(x.ClassName), A(x.MethodName), A(x.RequestBodyClass))))
				}
				os.RemoveAll(sub)
				outs = append(outs, L(rows...))
			case "call":
				outs = append(outs, L(A(call.NewCallGraph().Analysis(r.Nth(1).Str(), deps0, r.Nth(2).Bool()))))
			case "rcall":
				outs = append(outs, L(A(rcall.NewRCallGraph().Analysis(r.Nth(1).Str(), deps0, func(map[string][]string) {}))))
			default:
				outs = append(outs, A("skip"))
			}
		}
		return L(outs...)
	})
}
