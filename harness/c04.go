package main

import (
	"sort"

	"github.com/modernizing/coca/pkg/application/rcall"
)

func init() {
	// (model (target ...)) -> ((map dot) ...), the targets queried back-to-back in this process
	register("C04", func(in Sx) Sx {
		m := modelOf(in.Nth(0))
		outs := []Sx{}
		for _, t := range in.Nth(1).StrList() {
			var got map[string][]string
			dot := rcall.NewRCallGraph().Analysis(t, m, func(rm map[string][]string) { got = rm })
			keys := make([]string, 0, len(got))
			for k := range got {
				keys = append(keys, k)
			}
			sort.Strings(keys)
			entries := []Sx{}
			for _, k := range keys {
				entries = append(entries, L(A(k), Strs(got[k])))
			}
			outs = append(outs, L(L(entries...), A(dot)))
		}
		return L(outs...)
	})
}
