package main

import (
	"encoding/json"
	"sort"

	"github.com/modernizing/coca/pkg/application/rcall"
)

func init() {
	// (model (target ...)) -> ((map dot) ...), the targets queried back-to-back in this process
	register("C04", func(in Sx) Sx {
		m := modelOf(in.Nth(0))
		outs := []Sx{}
		var sess *cliSess
		for _, t := range in.Nth(1).StrList() {
			var got map[string][]string
			dot := rcall.NewRCallGraph().Analysis(t, m, func(rm map[string][]string) { got = rm })
			keys := make([]string, 0, len(got))
			for k := range got {
				keys = append(keys, k)
			}
			sort.Strings(keys)
			entries := []Sx{}
			for _, k := range keys {
				entries = append(entries, L(A(k), Strs(got[k])))
			}
			// every third history also goes through `coca rcall -c TARGET -d deps.json`, all its targets in ONE report
			// directory, one after the other as a user would: rcall.dot and rcallmap.json as they stand after each run
			// are the observation (a report left over from the previous target is seen)
			if cliEnabled() && t != "" && (len(in.Nth(1).Items())+len(in.Nth(0).Items()))%3 == 0 {
				if sess == nil {
					sess = newCliSess()
					defer sess.close()
					sess.writeJSON("deps.json", m)
				}
				if out, ok := sess.run("rcall", "-c", t, "-d", "coca_reporter/deps.json"); !ok {
					dot = "!CLI-ERROR " + panicClass(out)
				} else {
					if text, ok := sess.read("rcall.dot"); ok {
						dot = text
					} else {
						dot = "!CLI-NO-OUTPUT rcall.dot"
					}
					var cm map[string][]string
					if text, ok := sess.read("rcallmap.json"); !ok || json.Unmarshal([]byte(text), &cm) != nil {
						entries = []Sx{L(A("!CLI-NO-OUTPUT rcallmap.json"), Strs(nil))}
					} else {
						ks := make([]string, 0, len(cm))
						for k := range cm {
							ks = append(ks, k)
						}
						sort.Strings(ks)
						entries = []Sx{}
						for _, k := range ks {
							entries = append(entries, L(A(k), Strs(cm[k])))
						}
					}
				}
			}
			outs = append(outs, L(L(entries...), A(dot)))
		}
		return L(outs...)
	})
}
