package main

import (
	"fmt"
	"strconv"
	"strings"
)

// Sx is the wire value shared with the Coq models and the generators.
type Sx struct {
	IsList bool
	Atom   string
	List   []Sx
}

func A(s string) Sx        { return Sx{Atom: s} }
func L(items ...Sx) Sx     { return Sx{IsList: true, List: items} }
func N(n int) Sx           { return A(strconv.Itoa(n)) }
func B(b bool) Sx {
	if b {
		return A("1")
	}
	return A("0")
}
func Strs(l []string) Sx {
	out := make([]Sx, 0, len(l))
	for _, s := range l {
		out = append(out, A(s))
	}
	return Sx{IsList: true, List: out}
}

func (x Sx) Nth(i int) Sx {
	if !x.IsList || i >= len(x.List) {
		return A("")
	}
	return x.List[i]
}
func (x Sx) Str() string { return x.Atom }
func (x Sx) Int() int {
	n, _ := strconv.Atoi(x.Atom)
	return n
}
func (x Sx) Bool() bool { return x.Atom == "1" }
func (x Sx) Items() []Sx {
	if !x.IsList {
		return nil
	}
	return x.List
}
func (x Sx) StrList() []string {
	var out []string
	for _, i := range x.Items() {
		out = append(out, i.Atom)
	}
	return out
}

func (x Sx) write(b *strings.Builder) {
	if x.IsList {
		b.WriteByte('(')
		for i, it := range x.List {
			if i > 0 {
				b.WriteByte(' ')
			}
			it.write(b)
		}
		b.WriteByte(')')
		return
	}
	b.WriteByte('"')
	for i := 0; i < len(x.Atom); i++ {
		c := x.Atom[i]
		switch {
		case c == '"':
			b.WriteString("\\\"")
		case c == '\\':
			b.WriteString("\\\\")
		case c == '\n':
			b.WriteString("\\n")
		case c == '\t':
			b.WriteString("\\t")
		case c == '\r':
			b.WriteString("\\r")
		case c < 32 || c > 126:
			fmt.Fprintf(b, "\\x%02x", c)
		default:
			b.WriteByte(c)
		}
	}
	b.WriteByte('"')
}

func (x Sx) String() string {
	var b strings.Builder
	x.write(&b)
	return b.String()
}

type sxParser struct {
	s string
	i int
}

func ParseSx(s string) (Sx, error) {
	p := &sxParser{s: s}
	v, err := p.value()
	return v, err
}

func hexv(c byte) int {
	switch {
	case c >= '0' && c <= '9':
		return int(c - '0')
	case c >= 'a' && c <= 'f':
		return int(c-'a') + 10
	case c >= 'A' && c <= 'F':
		return int(c-'A') + 10
	}
	return 0
}

func (p *sxParser) value() (Sx, error) {
	for p.i < len(p.s) && p.s[p.i] == ' ' {
		p.i++
	}
	if p.i >= len(p.s) {
		return Sx{}, fmt.Errorf("eof")
	}
	if p.s[p.i] == '(' {
		p.i++
		items := []Sx{}
		for {
			for p.i < len(p.s) && p.s[p.i] == ' ' {
				p.i++
			}
			if p.i >= len(p.s) {
				return Sx{}, fmt.Errorf("unterminated list")
			}
			if p.s[p.i] == ')' {
				p.i++
				return Sx{IsList: true, List: items}, nil
			}
			v, err := p.value()
			if err != nil {
				return Sx{}, err
			}
			items = append(items, v)
		}
	}
	if p.s[p.i] == '"' {
		p.i++
		var b strings.Builder
		for {
			if p.i >= len(p.s) {
				return Sx{}, fmt.Errorf("unterminated string")
			}
			c := p.s[p.i]
			if c == '"' {
				p.i++
				return Sx{Atom: b.String()}, nil
			}
			if c == '\\' {
				if p.i+1 >= len(p.s) {
					return Sx{}, fmt.Errorf("bad escape")
				}
				d := p.s[p.i+1]
				switch d {
				case 'n':
					b.WriteByte('\n')
					p.i += 2
				case 't':
					b.WriteByte('\t')
					p.i += 2
				case 'r':
					b.WriteByte('\r')
					p.i += 2
				case 'x':
					if p.i+3 >= len(p.s) {
						return Sx{}, fmt.Errorf("bad hex escape")
					}
					b.WriteByte(byte(hexv(p.s[p.i+2])*16 + hexv(p.s[p.i+3])))
					p.i += 4
				default:
					b.WriteByte(d)
					p.i += 2
				}
				continue
			}
			b.WriteByte(c)
			p.i++
		}
	}
	return Sx{}, fmt.Errorf("unexpected %q at %d", p.s[p.i], p.i)
}
