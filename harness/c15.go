package main

import (
	"sort"

	"github.com/modernizing/coca/pkg/application/git"
)

func commitsOf(in Sx) []git.CommitMessage {
	var out []git.CommitMessage
	for _, c := range in.Items() {
		cm := git.CommitMessage{Rev: c.Nth(0).Str(), Author: c.Nth(1).Str(), Date: c.Nth(2).Str(), Message: c.Nth(3).Str()}
		for _, ch := range c.Nth(5).Items() {
			cm.Changes = append(cm.Changes, git.FileChange{Added: ch.Nth(0).Int(), Deleted: ch.Nth(1).Int(),
				File: ch.Nth(5).Str(), Mode: ch.Nth(6).Str()})
		}
		out = append(out, cm)
	}
	return out
}

func init() {
	// ((rev author date msg type ((added deleted old new delete file mode) ...)) ...) -> five summaries
	register("C15", func(in Sx) Sx {
		team := []Sx{}
		for _, r := range git.GetTeamSummary(commitsOf(in)) {
			team = append(team, L(A(r.EntityName), N(r.AuthorCount), N(r.RevsCount)))
		}
		age := []Sx{}
		for _, r := range git.CalculateCodeAge(commitsOf(in)) {
			age = append(age, L(A(r.EntityName), A(r.Age.Format("2006-01-02"))))
		}
		top := []Sx{}
		for _, r := range git.GetTopAuthors(commitsOf(in)) {
			top = append(top, L(A(r.Name), N(r.CommitCount), N(r.LineCount)))
		}
		b := git.BasicSummary(commitsOf(in))
		cm := git.BuildChangeMap(commitsOf(in))
		kws := []string{}
		for k := range cm {
			kws = append(kws, k)
		}
		sort.Strings(kws)
		cl := []Sx{}
		for _, k := range kws {
			files := []string{}
			for f := range cm[k] {
				files = append(files, f)
			}
			sort.Strings(files)
			fs := []Sx{}
			for _, f := range files {
				fs = append(fs, L(A(f), N(cm[k][f])))
			}
			cl = append(cl, L(A(k), L(fs...)))
		}
		return L(L(team...), L(age...), L(top...), L(N(b.Commits), N(b.Entities), N(b.Changes), N(b.Authors)), L(cl...))
	})
}
