package main

import (
	"encoding/json"
	"fmt"
	"os"
	"os/exec"
	"path/filepath"
	"sort"
	"strconv"
	"strings"

	"github.com/modernizing/coca/pkg/application/git"
)

// tableRows parses the tables `coca git` prints (tablewriter: | a | b | c |) into their data rows, one list per table
func tableRows(out string) [][][]string {
	var tables [][][]string
	var cur [][]string
	inTable := false
	for _, ln := range strings.Split(out, "\n") {
		t := strings.TrimSpace(ln)
		if strings.HasPrefix(t, "+-") {
			inTable = true
			continue
		}
		if !strings.HasPrefix(t, "|") {
			if inTable && cur != nil {
				tables = append(tables, cur)
				cur = nil
			}
			inTable = false
			continue
		}
		cells := strings.Split(strings.Trim(t, "|"), "|")
		rule := true
		for i := range cells {
			cells[i] = strings.TrimSpace(cells[i])
			if strings.Trim(cells[i], "-") != "" {
				rule = false
			}
		}
		if rule {
			continue // the line under the header
		}
		cur = append(cur, cells)
	}
	if cur != nil {
		tables = append(tables, cur)
	}
	return tables
}

func init() {
	// the same five summaries, observed through the command: the history is materialised as a real repository (one
	// commit per entry: files created with `added` lines, later entries append lines), `coca git -b`, `-t` and `-o`
	// are run in it WITHOUT -f, and their tables are the team / top-author / basic observations; code age and the
	// change log come from the library over the commits the command itself wrote to commits.json
	register("C15.cli", func(in Sx) Sx {
		bin := os.Getenv("COCA_BIN")
		if bin == "" {
			return L(A("!NOCLI"))
		}
		dir, err := os.MkdirTemp(os.Getenv("VERIF_SCRATCH"), "verif-c15-")
		if err != nil {
			panic(err)
		}
		defer os.RemoveAll(dir)
		base := []string{"GIT_CONFIG_NOSYSTEM=1", "HOME=/nonexistent"}
		mustGit(dir, base, "init", "-q", "-b", "main", ".")
		mustGit(dir, base, "config", "user.email", "a@example.invalid")
		mustGit(dir, base, "config", "user.name", "nobody")
		mustGit(dir, base, "config", "commit.gpgsign", "false")
		serial := 0
		for _, c := range in.Items() {
			for _, ch := range c.Nth(5).Items() {
				p := filepath.Join(dir, ch.Nth(5).Str())
				os.MkdirAll(filepath.Dir(p), 0o755)
				f, _ := os.OpenFile(p, os.O_APPEND|os.O_CREATE|os.O_WRONLY, 0o644)
				for i := 0; i < ch.Nth(0).Int(); i++ {
					serial++
					fmt.Fprintf(f, "line %d\n", serial)
				}
				f.Close()
			}
			mustGit(dir, base, "add", "-A", ".")
			mustGit(dir, commitEnv(c.Nth(1).Str(), c.Nth(2).Str()), "commit", "-q", "-m", c.Nth(3).Str())
		}
		run := func(flag ...string) (string, bool) {
			cmd := exec.Command(bin, append([]string{"git"}, flag...)...)
			cmd.Dir = dir
			cmd.Env = append(os.Environ(), append(base, "TMPDIR="+dir)...)
			out, err := cmd.CombinedOutput()
			return string(out), err == nil
		}
		num := func(s string) Sx { n, _ := strconv.Atoi(s); return N(n) }
		team, top := []Sx{}, []Sx{}
		basic := L(N(0), N(0), N(0), N(0))
		cell := func(r []string, i int) string {
			if i < len(r) {
				return r[i]
			}
			return ""
		}
		if len(in.Items())%2 == 0 {
			// every other repository: the three tables asked for in ONE invocation, `coca git -b -t -o`; each table is what
			// stands under its own header, whatever stands there (a row that belongs to another table is a row of this one)
			out, ok := run("-b", "-t", "-o")
			if !ok {
				return L(A("!CLI-ERROR"), A(panicClass(out)))
			}
			tables := tablesByHeader(out)
			if len(tables) != 3 {
				return L(A("!CLI-BAD-TABLES"), N(len(tables)))
			}
			vals := map[string]string{}
			for _, r := range tables[0][1:] {
				vals[cell(r, 0)] = cell(r, 1)
			}
			basic = L(num(vals["Commits"]), num(vals["Entities"]), num(vals["Changes"]), num(vals["Authors"]))
			for _, r := range tables[1][1:] {
				team = append(team, L(A(cell(r, 0)), num(cell(r, 2)), num(cell(r, 1))))
			}
			for _, r := range tables[2][1:] {
				top = append(top, L(A(cell(r, 0)), num(cell(r, 1)), num(cell(r, 2))))
			}
		} else if out, ok := run("-t"); !ok {
			return L(A("!CLI-ERROR"), A(panicClass(out)))
		} else {
			for _, tb := range tableRows(out) {
				for i, r := range tb {
					if i == 0 || len(r) != 3 {
						continue
					}
					team = append(team, L(A(r[0]), num(r[2]), num(r[1])))
				}
			}
		}
		if len(in.Items())%2 == 0 {
			// done above
		} else if out, ok := run("-o"); !ok {
			return L(A("!CLI-ERROR"), A(panicClass(out)))
		} else {
			for _, tb := range tableRows(out) {
				for i, r := range tb {
					if i == 0 || len(r) != 3 {
						continue
					}
					top = append(top, L(A(r[0]), num(r[1]), num(r[2])))
				}
			}
		}
		if out, ok := run("-b"); ok && len(in.Items())%2 == 1 {
			vals := map[string]string{}
			for _, tb := range tableRows(out) {
				for _, r := range tb {
					if len(r) == 2 {
						vals[r[0]] = r[1]
					}
				}
			}
			basic = L(num(vals["Commits"]), num(vals["Entities"]), num(vals["Changes"]), num(vals["Authors"]))
		}
		var cs []git.CommitMessage
		data, err := os.ReadFile(filepath.Join(dir, "coca_reporter", "commits.json"))
		if err != nil || json.Unmarshal(data, &cs) != nil {
			return L(A("!CLI-NO-OUTPUT"), A("commits.json"))
		}
		age := []Sx{}
		for _, r := range git.CalculateCodeAge(cs) {
			age = append(age, L(A(r.EntityName), A(r.Age.Format("2006-01-02"))))
		}
		cm := git.BuildChangeMap(cs)
		kws := []string{}
		for k := range cm {
			kws = append(kws, k)
		}
		sort.Strings(kws)
		cl := []Sx{}
		for _, k := range kws {
			files := []string{}
			for f := range cm[k] {
				files = append(files, f)
			}
			sort.Strings(files)
			fs := []Sx{}
			for _, f := range files {
				fs = append(fs, L(A(f), N(cm[k][f])))
			}
			cl = append(cl, L(A(k), L(fs...)))
		}
		return L(L(team...), L(age...), L(top...), basic, L(cl...))
	})
}

// tablesByHeader splits the tables a command prints one under the other: a table starts at the row that is followed by
// the rule line |---|---|; rows are the cells of the | lines
func tablesByHeader(out string) [][][]string {
	var lines [][]string
	var isRule []bool
	for _, ln := range strings.Split(out, "\n") {
		t := strings.TrimSpace(ln)
		if !strings.HasPrefix(t, "|") {
			continue
		}
		cells := strings.Split(strings.Trim(t, "|"), "|")
		rule := true
		for i := range cells {
			cells[i] = strings.TrimSpace(cells[i])
			if strings.Trim(cells[i], "-") != "" {
				rule = false
			}
		}
		lines = append(lines, cells)
		isRule = append(isRule, rule)
	}
	var tables [][][]string
	for i, cells := range lines {
		if isRule[i] {
			continue
		}
		if i+1 < len(lines) && isRule[i+1] {
			tables = append(tables, [][]string{cells})
			continue
		}
		if len(tables) > 0 {
			tables[len(tables)-1] = append(tables[len(tables)-1], cells)
		}
	}
	return tables
}

func commitsOf(in Sx) []git.CommitMessage {
	var out []git.CommitMessage
	for _, c := range in.Items() {
		cm := git.CommitMessage{Rev: c.Nth(0).Str(), Author: c.Nth(1).Str(), Date: c.Nth(2).Str(), Message: c.Nth(3).Str()}
		for _, ch := range c.Nth(5).Items() {
			cm.Changes = append(cm.Changes, git.FileChange{Added: ch.Nth(0).Int(), Deleted: ch.Nth(1).Int(),
				File: ch.Nth(5).Str(), Mode: ch.Nth(6).Str()})
		}
		out = append(out, cm)
	}
	return out
}

func init() {
	// ((rev author date msg type ((added deleted old new delete file mode) ...)) ...) -> five summaries
	register("C15", func(in Sx) Sx {
		team := []Sx{}
		for _, r := range git.GetTeamSummary(commitsOf(in)) {
			team = append(team, L(A(r.EntityName), N(r.AuthorCount), N(r.RevsCount)))
		}
		age := []Sx{}
		for _, r := range git.CalculateCodeAge(commitsOf(in)) {
			age = append(age, L(A(r.EntityName), A(r.Age.Format("2006-01-02"))))
		}
		top := []Sx{}
		for _, r := range git.GetTopAuthors(commitsOf(in)) {
			top = append(top, L(A(r.Name), N(r.CommitCount), N(r.LineCount)))
		}
		b := git.BasicSummary(commitsOf(in))
		cm := git.BuildChangeMap(commitsOf(in))
		kws := []string{}
		for k := range cm {
			kws = append(kws, k)
		}
		sort.Strings(kws)
		cl := []Sx{}
		for _, k := range kws {
			files := []string{}
			for f := range cm[k] {
				files = append(files, f)
			}
			sort.Strings(files)
			fs := []Sx{}
			for _, f := range files {
				fs = append(fs, L(A(f), N(cm[k][f])))
			}
			cl = append(cl, L(A(k), L(fs...)))
		}
		return L(L(team...), L(age...), L(top...), L(N(b.Commits), N(b.Entities), N(b.Changes), N(b.Authors)), L(cl...))
	})
}
