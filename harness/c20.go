package main

import (
	"fmt"
	"go/parser"
	"go/token"
	"io"
	"os"
	"path/filepath"
	"strings"

	"github.com/modernizing/coca/pkg/adapter/cocafile"
	"github.com/modernizing/coca/pkg/application/analysis"
	"github.com/modernizing/coca/pkg/application/analysis/app_concept"
	"github.com/modernizing/coca/pkg/application/analysis/goapp"
	"github.com/modernizing/coca/pkg/application/analysis/pyapp"
	"github.com/modernizing/coca/pkg/domain/core_domain"
)

// C20: source text -> projection of the front-end's result (names, kinds, membership,
// parameters, fields, calls, imports; no positions).  A panic of the front-end is part of
// the observation: ("PANIC" class).  A text the language parser itself rejects is
// ("REJECTED" why) -- the generators must not produce one.

func c20P3s(ps []core_domain.CodeProperty) Sx {
	out := []Sx{}
	for _, p := range ps {
		out = append(out, L(A(p.ParamName), A(p.TypeType), A(p.TypeValue)))
	}
	return L(out...)
}

func c20Props(ps []core_domain.CodeProperty) Sx {
	out := []Sx{}
	for _, p := range ps {
		out = append(out, L(A(p.ParamName), A(p.TypeType), A(p.TypeValue), c20P3s(p.Parameters), c20P3s(p.ReturnTypes)))
	}
	return L(out...)
}

func c20Funcs(fs []core_domain.CodeFunction) Sx {
	out := []Sx{}
	for _, f := range fs {
		calls := []Sx{}
		for _, c := range f.FunctionCalls {
			calls = append(calls, L(A(c.Package), A(c.Type), A(c.NodeName), A(c.FunctionName)))
		}
		out = append(out, L(A(f.Name), c20P3s(f.Parameters), c20P3s(f.MultipleReturns), L(calls...)))
	}
	return L(out...)
}

func c20GoProjection(cf core_domain.CodeContainer) Sx {
	imports := []Sx{}
	for _, i := range cf.Imports {
		imports = append(imports, L(A(i.Source), A(i.AsName)))
	}
	dss := []Sx{}
	for _, d := range cf.DataStructures {
		fcalls := []Sx{}
		for _, c := range d.FunctionCalls {
			fcalls = append(fcalls, L(A(c.Package), A(c.NodeName)))
		}
		dss = append(dss, L(A(d.NodeName), A(d.Package), c20Props(d.InOutProperties), c20Funcs(d.Functions), L(fcalls...)))
	}
	members := []Sx{}
	for _, m := range cf.Members {
		members = append(members, L(A(m.DataStructID), A(m.Type), c20Funcs(m.FunctionNodes)))
	}
	return L(A("ok"), A(cf.PackageName), L(imports...), L(dss...), L(members...))
}

func c20Annots(as []core_domain.CodeAnnotation) Sx {
	out := []Sx{}
	for _, a := range as {
		args := []string{}
		for _, kv := range a.KeyValues {
			args = append(args, kv.Value)
		}
		out = append(out, L(A(a.Name), Strs(args)))
	}
	return L(out...)
}

func c20PyFuncs(fs []core_domain.CodeFunction) Sx {
	out := []Sx{}
	for _, f := range fs {
		out = append(out, L(A(f.Name), c20Annots(f.Annotations)))
	}
	return L(out...)
}

func c20PyProjection(cf core_domain.CodeContainer) Sx {
	imports := []Sx{}
	for _, i := range cf.Imports {
		imports = append(imports, L(A(i.Source), Strs(i.UsageName)))
	}
	classes := []Sx{}
	for _, d := range cf.DataStructures {
		classes = append(classes, L(A(d.NodeName), c20Annots(d.Annotations), c20PyFuncs(d.Functions)))
	}
	members := []Sx{}
	for _, m := range cf.Members {
		members = append(members, L(A(m.Name), c20PyFuncs(m.FunctionNodes)))
	}
	return L(A("ok"), L(imports...), L(classes...), L(members...))
}

// c20Guard runs f and turns a panic into the observation ("PANIC" class).
func c20Guard(f func() Sx) (out Sx) {
	defer func() {
		if r := recover(); r != nil {
			out = L(A("PANIC"), A(panicClass(fmt.Sprint(r))))
		}
	}()
	return f()
}

// c20CaptureStderr runs f with os.Stderr redirected (the ANTLR console error listener
// reports syntax errors there) and returns what was written.
func c20CaptureStderr(f func()) string {
	r, w, err := os.Pipe()
	if err != nil {
		f()
		return ""
	}
	saved := os.Stderr
	os.Stderr = w
	done := make(chan string, 1)
	go func() {
		b, _ := io.ReadAll(r)
		done <- string(b)
	}()
	func() {
		defer func() {
			os.Stderr = saved
			w.Close()
		}()
		f()
	}()
	s := <-done
	r.Close()
	return s
}

func c20Go(code string) Sx {
	if _, err := parser.ParseFile(token.NewFileSet(), "demo.go", code, 0); err != nil {
		return L(A("REJECTED"), A(err.Error()))
	}
	return c20Guard(func() Sx {
		app := new(goapp.GoIdentApp)
		return c20GoProjection(app.Analysis(code, "demo.go"))
	})
}

func c20Py(code string) Sx {
	var out Sx
	errs := c20CaptureStderr(func() {
		out = c20Guard(func() Sx {
			app := new(pyapp.PythonIdentApp)
			return c20PyProjection(app.Analysis(code, "demo.py"))
		})
	})
	for _, ln := range strings.Split(errs, "\n") {
		if strings.HasPrefix(ln, "line ") {
			return L(A("REJECTED"), A(ln))
		}
	}
	return out
}

// c20Common writes the text as the only source file of a scratch directory and runs
// analysis.CommonAnalysis (function base) on it, from inside that directory (CommonAnalysis
// writes coca_reporter/members.json relative to the working directory).
// -> ("ok" ((NodeName (function names)) ...)) | ("PANIC" class) | ("REJECTED" why)
func c20Common(lang string, code string) Sx {
	base := os.Getenv("VERIF_SCRATCH")
	if base == "" {
		base = "/var/tmp"
	}
	dir, err := os.MkdirTemp(base, "verif-c20-")
	if err != nil {
		return L(A("!ERR"), A(err.Error()))
	}
	defer os.RemoveAll(dir)
	src := filepath.Join(dir, "src")
	if err := os.Mkdir(src, 0o755); err != nil {
		return L(A("!ERR"), A(err.Error()))
	}
	name, filter := "demo.go", cocafile.GoFileFilter
	var app app_concept.AbstractAnalysisApp = new(goapp.GoIdentApp)
	if lang == "py" {
		name, filter, app = "demo.py", cocafile.PythonFileFilter, new(pyapp.PythonIdentApp)
	} else if _, err := parser.ParseFile(token.NewFileSet(), name, code, 0); err != nil {
		return L(A("REJECTED"), A(err.Error()))
	}
	if err := os.WriteFile(filepath.Join(src, name), []byte(code), 0o644); err != nil {
		return L(A("!ERR"), A(err.Error()))
	}
	if len(code)%2 == 1 {
		// every other tree: a .gitignore whose pattern matches a FILE that sorts before the analysed one (generated
		// code next to the sources); it must contribute nothing and must not hide its neighbours
		gen := "package demo\n\ntype Generated struct{}\n\nfunc GeneratedFn() {}\n"
		genName := "aaa_gen.go"
		if lang == "py" {
			gen, genName = "class Generated:\n    def gen(self): pass\n", "aaa_gen.py"
		}
		_ = os.WriteFile(filepath.Join(src, ".gitignore"), []byte("*_gen.go\n*_gen.py\n"), 0o644)
		_ = os.WriteFile(filepath.Join(src, genName), []byte(gen), 0o644)
	}
	if len(code)%3 == 0 {
		// every third tree: a second source of the SAME base name in another directory that declares nothing (a package
		// clause only / a comment only): each file is analysed under its own path
		other := filepath.Join(dir, "src", "zz_other")
		os.MkdirAll(other, 0o755)
		empty := "package zzother\n"
		if lang == "py" {
			empty = "# nothing here\n"
		}
		_ = os.WriteFile(filepath.Join(other, name), []byte(empty), 0o644)
	}
	wd, _ := os.Getwd()
	if err := os.Chdir(dir); err != nil {
		return L(A("!ERR"), A(err.Error()))
	}
	defer os.Chdir(wd)
	var out Sx
	errs := c20CaptureStderr(func() {
		out = c20Guard(func() Sx {
			dss := analysis.CommonAnalysis(io.Discard, src, app, filter, true)
			items := []Sx{}
			for _, d := range dss {
				fns := []string{}
				for _, f := range d.Functions {
					fns = append(fns, f.Name)
				}
				items = append(items, L(A(d.NodeName), Strs(fns)))
			}
			return L(A("ok"), L(items...))
		})
	})
	if lang == "py" {
		for _, ln := range strings.Split(errs, "\n") {
			if strings.HasPrefix(ln, "line ") {
				return L(A("REJECTED"), A(ln))
			}
		}
	}
	return out
}

func init() {
	// (lang text) -> flattened list of analysis.CommonAnalysis over a directory holding the file
	register("C20.common", func(in Sx) Sx { return c20Common(in.Nth(0).Str(), in.Nth(1).Str()) })
	// (text) -> projection of goapp.GoIdentApp.Analysis(text, "demo.go")
	register("C20.go", func(in Sx) Sx { return c20Go(in.Nth(0).Str()) })
	// (text) -> projection of pyapp.PythonIdentApp.Analysis(text, "demo.py")
	register("C20.py", func(in Sx) Sx { return c20Py(in.Nth(0).Str()) })
	// ("go"|"py" text): the op the check uses (one op per property)
	register("C20", func(in Sx) Sx {
		switch in.Nth(0).Str() {
		case "go":
			return c20Go(in.Nth(1).Str())
		case "py":
			return c20Py(in.Nth(1).Str())
		case "go-common":
			return c20Common("go", in.Nth(1).Str())
		default:
			return c20Common("py", in.Nth(1).Str())
		}
	})
}
