package main

import (
	"github.com/modernizing/coca/pkg/domain/core_domain"
)

// wire codec of the code model; field order as in coq/Model/CodeModel.v

func posOf(x Sx) core_domain.CodePosition {
	return core_domain.CodePosition{StartLine: x.Nth(0).Int(), StartLinePosition: x.Nth(1).Int(),
		StopLine: x.Nth(2).Int(), StopLinePosition: x.Nth(3).Int()}
}
func sxOfPos(p core_domain.CodePosition) Sx {
	return L(N(p.StartLine), N(p.StartLinePosition), N(p.StopLine), N(p.StopLinePosition))
}
func propsOf(x Sx) []core_domain.CodeProperty {
	var out []core_domain.CodeProperty
	for _, p := range x.Items() {
		out = append(out, core_domain.CodeProperty{TypeType: p.Nth(0).Str(), TypeValue: p.Nth(1).Str()})
	}
	return out
}
func sxOfProps(ps []core_domain.CodeProperty) Sx {
	out := []Sx{}
	for _, p := range ps {
		out = append(out, L(A(p.TypeType), A(p.TypeValue)))
	}
	return L(out...)
}
func callOf(x Sx) core_domain.CodeCall {
	return core_domain.CodeCall{Package: x.Nth(0).Str(), Type: x.Nth(1).Str(), NodeName: x.Nth(2).Str(),
		FunctionName: x.Nth(3).Str(), Parameters: propsOf(x.Nth(4)), Position: posOf(x.Nth(5))}
}
func sxOfCall(c core_domain.CodeCall) Sx {
	return L(A(c.Package), A(c.Type), A(c.NodeName), A(c.FunctionName), sxOfProps(c.Parameters), sxOfPos(c.Position))
}
func callsOf(x Sx) []core_domain.CodeCall {
	var out []core_domain.CodeCall
	for _, c := range x.Items() {
		out = append(out, callOf(c))
	}
	return out
}
func sxOfCalls(cs []core_domain.CodeCall) Sx {
	out := []Sx{}
	for _, c := range cs {
		out = append(out, sxOfCall(c))
	}
	return L(out...)
}
func annotsOf(x Sx) []core_domain.CodeAnnotation {
	var out []core_domain.CodeAnnotation
	for _, a := range x.Items() {
		an := core_domain.CodeAnnotation{Name: a.Nth(0).Str()}
		for _, kv := range a.Nth(1).Items() {
			an.KeyValues = append(an.KeyValues, core_domain.AnnotationKeyValue{Key: kv.Nth(0).Str(), Value: kv.Nth(1).Str()})
		}
		out = append(out, an)
	}
	return out
}
func sxOfAnnots(as []core_domain.CodeAnnotation) Sx {
	out := []Sx{}
	for _, a := range as {
		kvs := []Sx{}
		for _, kv := range a.KeyValues {
			kvs = append(kvs, L(A(kv.Key), A(kv.Value)))
		}
		out = append(out, L(A(a.Name), L(kvs...)))
	}
	return L(out...)
}
func funcOf(x Sx) core_domain.CodeFunction {
	return core_domain.CodeFunction{Name: x.Nth(0).Str(), ReturnType: x.Nth(1).Str(), Parameters: propsOf(x.Nth(2)),
		FunctionCalls: callsOf(x.Nth(3)), Override: x.Nth(4).Bool(), Annotations: annotsOf(x.Nth(5)),
		IsConstructor: x.Nth(6).Bool(), IsReturnNull: x.Nth(7).Bool(), Modifiers: x.Nth(8).StrList(),
		Position: posOf(x.Nth(9))}
}
func sxOfFunc(f core_domain.CodeFunction) Sx {
	return L(A(f.Name), A(f.ReturnType), sxOfProps(f.Parameters), sxOfCalls(f.FunctionCalls), B(f.Override),
		sxOfAnnots(f.Annotations), B(f.IsConstructor), B(f.IsReturnNull), Strs(f.Modifiers), sxOfPos(f.Position))
}
func dsOf(x Sx) core_domain.CodeDataStruct {
	d := core_domain.CodeDataStruct{NodeName: x.Nth(0).Str(), Type: x.Nth(1).Str(), Package: x.Nth(2).Str(),
		FilePath: x.Nth(3).Str(), Extend: x.Nth(5).Str(), Implements: x.Nth(6).StrList(),
		Annotations: annotsOf(x.Nth(8)), FunctionCalls: callsOf(x.Nth(9))}
	for _, f := range x.Nth(4).Items() {
		d.Fields = append(d.Fields, core_domain.CodeField{TypeType: f.Nth(0).Str(), TypeValue: f.Nth(1).Str(), Modifiers: f.Nth(2).StrList()})
	}
	for _, f := range x.Nth(7).Items() {
		d.Functions = append(d.Functions, funcOf(f))
	}
	for _, i := range x.Nth(10).Items() {
		d.Imports = append(d.Imports, core_domain.CodeImport{Source: i.Str()})
	}
	return d
}
func sxOfDs(d core_domain.CodeDataStruct) Sx {
	fields := []Sx{}
	for _, f := range d.Fields {
		fields = append(fields, L(A(f.TypeType), A(f.TypeValue), Strs(f.Modifiers)))
	}
	funcs := []Sx{}
	for _, f := range d.Functions {
		funcs = append(funcs, sxOfFunc(f))
	}
	imps := []Sx{}
	for _, i := range d.Imports {
		imps = append(imps, A(i.Source))
	}
	return L(A(d.NodeName), A(d.Type), A(d.Package), A(d.FilePath), L(fields...), A(d.Extend), Strs(d.Implements),
		L(funcs...), sxOfAnnots(d.Annotations), sxOfCalls(d.FunctionCalls), L(imps...))
}
func modelOf(x Sx) []core_domain.CodeDataStruct {
	var out []core_domain.CodeDataStruct
	for _, d := range x.Items() {
		out = append(out, dsOf(d))
	}
	return out
}
func sxOfModel(m []core_domain.CodeDataStruct) Sx {
	out := []Sx{}
	for _, d := range m {
		out = append(out, sxOfDs(d))
	}
	return L(out...)
}
