package main

import (
	"encoding/hex"
	"encoding/json"
	"fmt"
	"os"
	"os/exec"
	"path/filepath"
	"strings"

	"github.com/modernizing/coca/pkg/application/git"
)

func sxOfCommits(cs []git.CommitMessage) Sx {
	out := []Sx{}
	for _, c := range cs {
		chs := []Sx{}
		for _, ch := range c.Changes {
			chs = append(chs, L(N(ch.Added), N(ch.Deleted), A(ch.File), A(ch.Mode)))
		}
		out = append(out, L(A(c.Rev), A(c.Author), A(c.Date), A(c.Message), L(chs...)))
	}
	return L(out...)
}

func gitRun(dir string, env []string, args ...string) (string, error) {
	cmd := exec.Command("git", args...)
	cmd.Dir = dir
	cmd.Env = append(os.Environ(), env...)
	out, err := cmd.CombinedOutput()
	return string(out), err
}

func mustGit(dir string, env []string, args ...string) string {
	out, err := gitRun(dir, env, args...)
	if err != nil {
		panic(fmt.Sprintf("git %v: %v: %s", args, err, out))
	}
	return out
}

func commitEnv(author, date string) []string {
	d := date + "T12:00:00"
	return []string{"GIT_AUTHOR_NAME=" + author, "GIT_AUTHOR_EMAIL=a@example.invalid", "GIT_AUTHOR_DATE=" + d,
		"GIT_COMMITTER_NAME=" + author, "GIT_COMMITTER_EMAIL=a@example.invalid", "GIT_COMMITTER_DATE=" + d,
		"GIT_CONFIG_NOSYSTEM=1", "HOME=/nonexistent"}
}

// a second, unrelated history: parsed between obtaining a result and looking at it
const decoyLog = "[d0d0d0d] Decoy Author 2001-01-01 decoy: one\n\n3\t1\tdecoy/a.txt\n create mode 100644 decoy/a.txt\n\n[d0d0d0e] Decoy Author 2001-01-02 decoy: two\n\n1\t1\tdecoy/a.txt\n"

func init() {
	// (raw expected) -> parsed commits (library entry point)
	register("C14.parse", func(in Sx) Sx {
		// the result is held across another parse before it is serialised (a caller may keep it)
		commits := git.BuildMessageByInput(in.Nth(0).Str())
		_ = git.BuildMessageByInput(decoyLog)
		return sxOfCommits(commits)
	})

	// (script (git-arg ...)) -> (raw-log parsed-by-`coca git` parsed-by-library truth)
	register("C14.git", func(in Sx) Sx {
		dir, err := os.MkdirTemp(os.Getenv("VERIF_SCRATCH"), "verif-c14-")
		if err != nil {
			panic(err)
		}
		defer os.RemoveAll(dir)
		base := []string{"GIT_CONFIG_NOSYSTEM=1", "HOME=/nonexistent"}
		mustGit(dir, base, "init", "-q", "-b", "main", ".")
		mustGit(dir, base, "config", "user.email", "a@example.invalid")
		mustGit(dir, base, "config", "user.name", "nobody")
		mustGit(dir, base, "config", "commit.gpgsign", "false")
		for _, st := range in.Nth(0).Items() {
			switch st.Nth(0).Str() {
			case "commit":
				for _, op := range st.Nth(4).Items() {
					p := filepath.Join(dir, op.Nth(1).Str())
					switch op.Nth(0).Str() {
					case "write":
						os.MkdirAll(filepath.Dir(p), 0o755)
						os.WriteFile(p, []byte(op.Nth(2).Str()), 0o644)
					case "bin":
						os.MkdirAll(filepath.Dir(p), 0o755)
						b, _ := hex.DecodeString(op.Nth(2).Str())
						os.WriteFile(p, b, 0o644)
					case "rm":
						os.Remove(p)
					case "chmod":
						os.Chmod(p, 0o755)
					case "mv":
						q := filepath.Join(dir, op.Nth(2).Str())
						os.MkdirAll(filepath.Dir(q), 0o755)
						os.Rename(p, q)
					}
				}
				mustGit(dir, base, "add", "-A", ".")
				mustGit(dir, commitEnv(st.Nth(1).Str(), st.Nth(2).Str()), "commit", "-q", "--allow-empty", "-m", st.Nth(3).Str())
			case "branch":
				mustGit(dir, base, "checkout", "-q", "-b", st.Nth(1).Str())
			case "checkout":
				mustGit(dir, base, "checkout", "-q", st.Nth(1).Str())
			case "merge":
				mustGit(dir, commitEnv(st.Nth(2).Str(), st.Nth(3).Str()), "merge", "-q", "--no-ff", "-m", st.Nth(4).Str(), st.Nth(1).Str())
			}
		}
		// the log exactly as cmd/git.go asks for it
		raw := mustGit(dir, base, in.Nth(1).StrList()...)
		lib := runCase(func(Sx) Sx {
			commits := git.BuildMessageByInput(raw)
			_ = git.BuildMessageByInput(decoyLog)
			return sxOfCommits(commits)
		}, A(""))
		// the CLI path
		cli := L(A("!NOCLI"))
		if bin := os.Getenv("COCA_BIN"); bin != "" {
			cmd := exec.Command(bin, "git")
			cmd.Dir = dir
			cmd.Env = append(os.Environ(), base...)
			if out, err := cmd.CombinedOutput(); err != nil {
				cli = L(A("!CLI-ERROR"), A(panicClass(string(out))))
			} else if data, err := os.ReadFile(filepath.Join(dir, "coca_reporter", "commits.json")); err != nil {
				cli = L(A("!CLI-NO-OUTPUT"))
			} else {
				var cs []git.CommitMessage
				if err := json.Unmarshal(data, &cs); err != nil {
					cli = L(A("!CLI-BAD-JSON"))
				} else {
					cli = sxOfCommits(cs)
				}
			}
			os.RemoveAll(filepath.Join(dir, "coca_reporter"))
		}
		// ground truth from plumbing commands
		truth := []Sx{}
		for _, c := range strings.Fields(mustGit(dir, base, "rev-list", "--reverse", "HEAD")) {
			parents := strings.Fields(strings.TrimSpace(mustGit(dir, base, "rev-list", "--parents", "-n", "1", c)))
			if len(parents) > 2 {
				continue
			}
			hdr := strings.Split(strings.TrimSuffix(mustGit(dir, base, "show", "-s", "--date=short", "--format=%h%x00%aN%x00%ad%x00%s", c), "\n"), "\x00")
			num := strings.Split(mustGit(dir, base, "diff-tree", "--no-commit-id", "-r", "-M", "--root", "--numstat", "-z", c), "\x00")
			st := strings.Split(mustGit(dir, base, "diff-tree", "--no-commit-id", "-r", "-M", "--root", "--name-status", "-z", c), "\x00")
			status := map[string]string{}
			for i := 0; i+1 < len(st); {
				s := st[i]
				if strings.HasPrefix(s, "R") || strings.HasPrefix(s, "C") {
					status[st[i+2]] = s[:1]
					i += 3
				} else {
					status[st[i+1]] = s
					i += 2
				}
			}
			chs := []Sx{}
			for i := 0; i < len(num); {
				if num[i] == "" {
					i++
					continue
				}
				f := strings.SplitN(num[i], "\t", 3)
				if len(f) < 3 {
					i++
					continue
				}
				old, new := f[2], f[2]
				if f[2] == "" {
					old, new = num[i+1], num[i+2]
					i += 3
				} else {
					i++
				}
				chs = append(chs, L(A(f[0]), A(f[1]), A(old), A(new), A(status[new])))
			}
			if len(chs) == 0 {
				continue
			}
			truth = append(truth, L(A(hdr[0]), A(hdr[1]), A(hdr[2]), A(hdr[3]), L(chs...)))
		}
		return L(A(raw), cli, lib, L(truth...))
	})
}
