package main

import (
	"encoding/json"
	"os"
	"path/filepath"
	"sort"
	"strings"

	"github.com/awalterschulze/gographviz"
	"github.com/modernizing/coca/pkg/application/arch"
	"github.com/modernizing/coca/pkg/application/arch/tequila"
	"github.com/modernizing/coca/pkg/domain/core_domain"
)

func sxPairsSorted(ps [][2]string) Sx {
	sort.Slice(ps, func(i, j int) bool {
		if ps[i][0] != ps[j][0] {
			return ps[i][0] < ps[j][0]
		}
		return ps[i][1] < ps[j][1]
	})
	out := []Sx{}
	for _, p := range ps {
		out = append(out, L(A(p[0]), A(p[1])))
	}
	return L(out...)
}

func graphObs(g *tequila.FullGraph) (Sx, Sx) {
	nodes := []string{}
	for k := range g.NodeList {
		nodes = append(nodes, k)
	}
	sort.Strings(nodes)
	rels := [][2]string{}
	for _, r := range g.RelationList {
		rels = append(rels, [2]string{r.From, r.To})
	}
	return Strs(nodes), sxPairsSorted(rels)
}

func unq(s string) string { return strings.Trim(s, "\"") }

// dotObs parses the DOT text back: displayed keys (cluster labels from the root joined by "."
// plus the node label) and drawn edges between keys.
func dotObs(text string) (bool, []string, [][2]string) {
	ast, err := gographviz.ParseString(text)
	if err != nil {
		return false, nil, nil
	}
	g := gographviz.NewGraph()
	if err := gographviz.Analyse(ast, g); err != nil {
		return false, nil, nil
	}
	keyOf := map[string]string{}
	keys := []string{}
	for _, n := range g.Nodes.Nodes {
		label := unq(n.Attrs["label"])
		path := []string{label}
		cur := n.Name
		for {
			parents := g.Relations.ChildToParents[cur]
			parent := ""
			for p := range parents {
				// an edge statement at top level re-declares its nodes in the root graph:
				// the cluster is the parent that matters
				if parent == "" || parent == g.Name {
					parent = p
				}
			}
			if parent == "" || parent == g.Name {
				break
			}
			if sg, ok := g.SubGraphs.SubGraphs[parent]; ok {
				path = append([]string{unq(sg.Attrs["label"])}, path...)
			}
			cur = parent
		}
		k := strings.Join(path, ".")
		keyOf[n.Name] = k
		keys = append(keys, k)
	}
	sort.Strings(keys)
	edges := [][2]string{}
	for _, e := range g.Edges.Edges {
		edges = append(edges, [2]string{keyOf[e.Src], keyOf[e.Dst]})
	}
	return true, keys, edges
}

func init() {
	// (model (ident-key ...) kind (filter ...)) -> observations
	// (model idents ...) -> fan table of the package-merged graph: ((name fan-in fan-out total) ...)
	register("C13.fan", func(in Sx) Sx {
		deps := modelOf(in.Nth(0))
		identMap := map[string]core_domain.CodeDataStruct{}
		for _, k := range in.Nth(1).StrList() {
			identMap[k] = core_domain.CodeDataStruct{}
		}
		g := arch.NewArchApp().Analysis(deps, identMap)
		rows := []Sx{}
		for _, f := range g.SortedByFan(tequila.MergePackageFunc) {
			rows = append(rows, L(A(f.Name), N(f.FanIn), N(f.FanOut), N(f.FanIn+f.FanOut)))
		}
		return L(rows...)
	})
	register("C13", func(in Sx) Sx {
		deps := modelOf(in.Nth(0))
		identMap := map[string]core_domain.CodeDataStruct{}
		for _, k := range in.Nth(1).StrList() {
			identMap[k] = core_domain.CodeDataStruct{}
		}
		kind := in.Nth(2).Str()
		filters := in.Nth(3).StrList()
		g := arch.NewArchApp().Analysis(deps, identMap)
		an, ar := graphObs(g)
		g2 := g
		if len(deps)%2 == 1 {
			// every other graph has been merged before, by the OTHER function (a fan table was printed, another view
			// drawn): a merge is judged on the graph and the function it is given, whatever was computed on it earlier
			if kind == "package" {
				_ = g.MergeHeaderFile(tequila.MergeHeaderFunc)
			} else {
				_ = g.SortedByFan(tequila.MergePackageFunc)
			}
		}
		switch kind {
		case "header":
			g2 = g.MergeHeaderFile(tequila.MergeHeaderFunc)
		case "package":
			g2 = g.MergeHeaderFile(tequila.MergePackageFunc)
		case "both":
			g2 = g.MergeHeaderFile(tequila.MergeHeaderFunc).MergeHeaderFile(tequila.MergePackageFunc)
		}
		mn, mr := graphObs(g2)
		include := func(key string) bool {
			for _, f := range filters {
				if strings.Contains(key, f) {
					return true
				}
			}
			return false
		}
		text := g2.ToMapDot(include).String()
		// every other query with a filter also goes through `coca arch -d deps.json -x FILTERS [-H] [-P]`, run in a
		// report directory in which an unfiltered (larger) graph was drawn just before: coca_reporter/arch.dot as it
		// stands afterwards is the observation
		usable := len(filters) > 0
		for _, f := range filters {
			if f == "" || strings.Contains(f, ",") {
				usable = false
			}
		}
		if cliEnabled() && usable && (len(text)+len(filters))%2 == 0 {
			sess := newCliSess()
			defer sess.close()
			// the model is given with -d at a place of its own; coca_reporter/deps.json is a stale file of another project
			os.MkdirAll(filepath.Join(sess.dir, "model"), 0o755)
			data, _ := json.MarshalIndent(deps, "", "\t")
			os.WriteFile(filepath.Join(sess.dir, "model", "deps.json"), data, 0o644)
			sess.writeJSON("deps.json", []core_domain.CodeDataStruct{
				{NodeName: "OldFacade", Type: "Class", Package: "org.legacy", Extend: "org.legacy.OldBase"},
				{NodeName: "OldBase", Type: "Class", Package: "org.legacy"}})
			idents := []core_domain.CodeDataStruct{}
			for _, k := range in.Nth(1).StrList() {
				i := strings.LastIndex(k, ".")
				if i < 0 {
					idents = append(idents, core_domain.CodeDataStruct{NodeName: k})
				} else {
					idents = append(idents, core_domain.CodeDataStruct{Package: k[:i], NodeName: k[i+1:]})
				}
			}
			sess.writeJSON("identify.json", idents)
			sess.run("arch", "-d", "model/deps.json", "-x", "")
			args := []string{"arch", "-d", "model/deps.json", "-x", strings.Join(filters, ",")}
			if kind == "header" || kind == "both" {
				args = append(args, "-H")
			}
			if kind == "package" || kind == "both" {
				args = append(args, "-P")
			}
			if out, ok := sess.run(args...); !ok {
				text = "!CLI-ERROR " + panicClass(out)
			} else if t, ok := sess.read("arch.dot"); !ok {
				text = "!CLI-NO-OUTPUT arch.dot"
			} else {
				text = t
			}
		}
		wf, keys, edges := dotObs(text)
		return L(an, ar, mn, mr, B(wf), Strs(keys), sxPairsSorted(edges))
	})
}
