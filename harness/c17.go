package main

import (
	"bytes"
	"encoding/json"
	"fmt"
	"os"
	"path/filepath"
	"sort"
	"strings"

	"github.com/modernizing/coca/cmd"
	"github.com/modernizing/coca/pkg/application/todo"
	"github.com/modernizing/coca/pkg/application/todo/astitodo"
)

// c17ViaCommand runs the cobra command twice in this process (in a scratch working directory): a decoy scan with
// another extension, then the real one; returns what the second run wrote to coca_reporter/simple-todos.json
func c17ViaCommand(root string, exts []string) (res []*astitodo.TODO, ok bool) {
	wd, err := os.Getwd()
	if err != nil {
		return nil, false
	}
	work, err := os.MkdirTemp(os.Getenv("VERIF_SCRATCH"), "verif-c17cmd-")
	if err != nil {
		return nil, false
	}
	defer os.RemoveAll(work)
	decoy := filepath.Join(work, "decoy")
	os.MkdirAll(decoy, 0o755)
	os.WriteFile(filepath.Join(decoy, "Decoy.decoyext"), []byte("// TODO decoy entry\nclass Decoy {}\n"), 0o644)
	os.WriteFile(filepath.Join(decoy, "Decoy.java"), []byte("// TODO decoy java entry\nclass Decoy {}\n"), 0o644)
	if err := os.Chdir(work); err != nil {
		return nil, false
	}
	defer os.Chdir(wd)
	defer func() {
		if r := recover(); r != nil {
			panic(r) // a panic of the scan is part of the observation of the caller
		}
	}()
	var buf bytes.Buffer
	root1 := cmd.NewRootCmd(&buf)
	root1.SetArgs([]string{"todo", "-p", decoy, "-e", ".decoyext,.java"})
	if err := root1.Execute(); err != nil {
		return nil, false
	}
	root2 := cmd.NewRootCmd(&buf)
	root2.SetArgs([]string{"todo", "-p", root, "-e", strings.Join(exts, ",")})
	if err := root2.Execute(); err != nil {
		return nil, false
	}
	data, err := os.ReadFile(filepath.Join(work, "coca_reporter", "simple-todos.json"))
	if err != nil {
		return nil, false
	}
	if err := json.Unmarshal(data, &res); err != nil {
		return nil, false
	}
	return res, true
}

func init() {
	// (exts ((name kind items text) ...)) -> (status ((file line assignee message) ...))
	// The entries are materialised in a scratch directory (kind d: a directory), the real
	// todo.TodoApp.AnalysisPath scans it with the extension list, the report is returned with
	// file names relative to the directory, ordered by file name (stable: the order of the
	// scan inside a file is kept).  A panic of the scan is part of the observation.
	register("C17", func(in Sx) (out Sx) {
		base := os.Getenv("VERIF_SCRATCH")
		if base == "" {
			base = "/var/tmp"
		}
		_ = os.MkdirAll(base, 0o755)
		dir, err := os.MkdirTemp(base, "verif-c17-")
		if err != nil {
			return L(A("!ERR"), A("scratch: "+err.Error()))
		}
		defer os.RemoveAll(dir)
		for _, e := range in.Nth(1).Items() {
			p := filepath.Join(dir, filepath.FromSlash(e.Nth(0).Str()))
			if e.Nth(1).Str() == "d" {
				err = os.MkdirAll(p, 0o755)
			} else {
				if err = os.MkdirAll(filepath.Dir(p), 0o755); err == nil {
					err = os.WriteFile(p, []byte(e.Nth(3).Str()), 0o644)
				}
			}
			if err != nil {
				return L(A("!ERR"), A("materialise: "+err.Error()))
			}
		}
		// every other tree: a root .gitignore whose pattern matches a FILE that sorts first (generated code without any
		// comment keyword): it reports nothing and must not hide the files behind it
		if len(in.Nth(1).Items())%2 == 0 {
			os.WriteFile(filepath.Join(dir, ".gitignore"), []byte("*_generated.java\n*_generated.py\n"), 0o644)
			os.WriteFile(filepath.Join(dir, "0_generated.java"), []byte("class Generated0 { int x; }\n"), 0o644)
			os.WriteFile(filepath.Join(dir, "0_generated.py"), []byte("x = 1\n"), 0o644)
		}
		exts := in.Nth(0).StrList()
		defer func() {
			if r := recover(); r != nil {
				out = L(A("panic:"+panicClass(fmt.Sprint(r))), L())
			}
		}()
		todos := todo.NewTodoApp().AnalysisPath(rootArg(dir, in.Nth(1)), exts)
		// every third tree also goes through the command, executed twice in this process the way the project's own
		// command tests do: first on another directory with another extension list, then `todo -p DIR -e EXTS` --
		// coca_reporter/simple-todos.json of the second run is the observation (what an earlier run selected must
		// not be scanned again)
		usable := len(exts) > 0
		for _, e := range exts {
			if e == "" || strings.Contains(e, ",") {
				usable = false
			}
		}
		if usable && len(in.Nth(1).Items())%3 == 0 {
			if got, ok := c17ViaCommand(rootArg(dir, in.Nth(1)), exts); ok {
				todos = got
			} else {
				return L(A("!CLI-ERROR"), L())
			}
		}
		type row struct {
			file string
			sx   Sx
		}
		rows := []row{}
		for _, t := range todos {
			rel, rerr := filepath.Rel(dir, t.Filename)
			if rerr != nil {
				rel = t.Filename
			}
			rel = filepath.ToSlash(rel)
			rows = append(rows, row{rel, L(A(rel), N(t.Line), A(t.Assignee), A(t.Message))})
		}
		sort.SliceStable(rows, func(i, j int) bool { return rows[i].file < rows[j].file })
		items := []Sx{}
		for _, r := range rows {
			items = append(items, r.sx)
		}
		return L(A("ok"), L(items...))
	})
}
