package main

import (
	"fmt"
	"os"
	"path/filepath"
	"sort"

	"github.com/modernizing/coca/pkg/application/todo"
)

func init() {
	// (exts ((name kind items text) ...)) -> (status ((file line assignee message) ...))
	// The entries are materialised in a scratch directory (kind d: a directory), the real
	// todo.TodoApp.AnalysisPath scans it with the extension list, the report is returned with
	// file names relative to the directory, ordered by file name (stable: the order of the
	// scan inside a file is kept).  A panic of the scan is part of the observation.
	register("C17", func(in Sx) (out Sx) {
		base := os.Getenv("VERIF_SCRATCH")
		if base == "" {
			base = "/var/tmp"
		}
		_ = os.MkdirAll(base, 0o755)
		dir, err := os.MkdirTemp(base, "verif-c17-")
		if err != nil {
			return L(A("!ERR"), A("scratch: "+err.Error()))
		}
		defer os.RemoveAll(dir)
		for _, e := range in.Nth(1).Items() {
			p := filepath.Join(dir, filepath.FromSlash(e.Nth(0).Str()))
			if e.Nth(1).Str() == "d" {
				err = os.MkdirAll(p, 0o755)
			} else {
				if err = os.MkdirAll(filepath.Dir(p), 0o755); err == nil {
					err = os.WriteFile(p, []byte(e.Nth(3).Str()), 0o644)
				}
			}
			if err != nil {
				return L(A("!ERR"), A("materialise: "+err.Error()))
			}
		}
		exts := in.Nth(0).StrList()
		defer func() {
			if r := recover(); r != nil {
				out = L(A("panic:"+panicClass(fmt.Sprint(r))), L())
			}
		}()
		todos := todo.NewTodoApp().AnalysisPath(rootArg(dir, in.Nth(1)), exts)
		type row struct {
			file string
			sx   Sx
		}
		rows := []row{}
		for _, t := range todos {
			rel, rerr := filepath.Rel(dir, t.Filename)
			if rerr != nil {
				rel = t.Filename
			}
			rel = filepath.ToSlash(rel)
			rows = append(rows, row{rel, L(A(rel), N(t.Line), A(t.Assignee), A(t.Message))})
		}
		sort.SliceStable(rows, func(i, j int) bool { return rows[i].file < rows[j].file })
		items := []Sx{}
		for _, r := range rows {
			items = append(items, r.sx)
		}
		return L(A("ok"), L(items...))
	})
}
