module verifharness

go 1.23

require (
	github.com/awalterschulze/gographviz v0.0.0-20190522210029-fa59802746ab
	github.com/modernizing/coca v0.0.0
)

require github.com/yourbasic/radix v0.0.0-20180308122924-cbe1cc82e907 // indirect

replace github.com/modernizing/coca => /repo
