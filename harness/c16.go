package main

import (
	"bytes"
	"encoding/csv"
	"encoding/json"
	"os"
	"os/exec"
	"path/filepath"
	"strconv"
	"strings"
)

// c16Summary: the fields of processor.LanguageSummary / FileJob read back from sort_cloc.json
type c16Summary struct {
	Name  string
	Files []struct {
		Location string
		Code     int64
	}
}

// parses the tables processTopFile prints: "Language: X" followed by a tablewriter table
// | LENGTH | COMPLEXITY | LOCATION |, one "| n | n | path |" line per file
func c16ParseTables(stdout string) (Sx, bool) {
	tabs := []Sx{}
	var name string
	var rows []Sx
	open := false
	flush := func() {
		if open {
			tabs = append(tabs, L(A(name), L(rows...)))
		}
	}
	for _, ln := range strings.Split(stdout, "\n") {
		if strings.HasPrefix(ln, "Language: ") {
			flush()
			name, rows, open = strings.TrimPrefix(ln, "Language: "), []Sx{}, true
			continue
		}
		if !open || !strings.HasPrefix(ln, "|") || strings.HasPrefix(ln, "|--") {
			continue
		}
		cells := strings.Split(ln, "|")
		if len(cells) != 5 {
			return Sx{}, false
		}
		c0, c1, c2 := strings.TrimSpace(cells[1]), strings.TrimSpace(cells[2]), strings.TrimSpace(cells[3])
		if c0 == "LENGTH" && c1 == "COMPLEXITY" && c2 == "LOCATION" {
			continue
		}
		n, err := strconv.Atoi(c0)
		if err != nil {
			return Sx{}, false
		}
		rows = append(rows, L(N(n), A(c2)))
	}
	flush()
	return L(tabs...), true
}

func init() {
	// ((mode dirarg root (include-ext ...) top-size (subdir ...) (file ...)) ((relative-path text) ...))
	//   -> ("bydir" header (row ...)) | ("top" sections tables)
	register("C16", func(in Sx) Sx {
		abs := in.Nth(0)
		mode, dirarg := abs.Nth(0).Str(), abs.Nth(1).Str()
		include, top := abs.Nth(3).StrList(), abs.Nth(4).Int()
		bin := os.Getenv("COCA_BIN")
		if bin == "" {
			return L(A("!NOCLI"))
		}
		base := os.Getenv("VERIF_SCRATCH")
		if base == "" {
			base = "/var/tmp"
		}
		scratch, err := os.MkdirTemp(base, "verif-c16-")
		if err != nil {
			panic(err)
		}
		defer os.RemoveAll(scratch)
		cwd := filepath.Join(scratch, "w")
		tmp := filepath.Join(scratch, "tmp")
		tree := filepath.Join(cwd, dirarg)
		for _, d := range []string{cwd, tmp, tree} {
			if err := os.MkdirAll(d, 0o755); err != nil {
				panic(err)
			}
		}
		for _, d := range abs.Nth(5).StrList() {
			if err := os.MkdirAll(filepath.Join(tree, d), 0o755); err != nil {
				panic(err)
			}
		}
		for _, f := range in.Nth(1).Items() {
			p := filepath.Join(tree, filepath.FromSlash(f.Nth(0).Str()))
			if err := os.MkdirAll(filepath.Dir(p), 0o755); err != nil {
				panic(err)
			}
			if err := os.WriteFile(p, []byte(f.Nth(1).Str()), 0o644); err != nil {
				panic(err)
			}
		}
		args := []string{"cloc", dirarg}
		if mode == "top" {
			args = append(args, "--top-file", "--top-size", strconv.Itoa(top))
		} else {
			args = append(args, "--by-directory")
		}
		if len(include) > 0 {
			args = append(args, "--include-ext", strings.Join(include, ","))
		}
		if sortBy := in.Nth(2).Str(); sortBy != "" {
			args = append(args, "--sort", sortBy)
		}
		cmd := exec.Command(bin, args...)
		cmd.Dir = cwd
		cmd.Env = append(os.Environ(), "TMPDIR="+tmp, "HOME="+tmp)
		var stdout, stderr bytes.Buffer
		cmd.Stdout, cmd.Stderr = &stdout, &stderr
		if err := cmd.Run(); err != nil {
			return L(A("!CLI-ERROR"), A(panicClass(stderr.String()+stdout.String())))
		}
		rep := filepath.Join(cwd, "coca_reporter")
		if mode == "top" {
			data, err := os.ReadFile(filepath.Join(rep, "sort_cloc.json"))
			if err != nil {
				return L(A("!CLI-NO-OUTPUT"), A("sort_cloc.json"))
			}
			var sums []c16Summary
			if err := json.Unmarshal(data, &sums); err != nil {
				return L(A("!CLI-BAD-JSON"))
			}
			secs := []Sx{}
			for _, s := range sums {
				fs := []Sx{}
				for _, f := range s.Files {
					fs = append(fs, L(A(f.Location), N(int(f.Code))))
				}
				secs = append(secs, L(A(s.Name), L(fs...)))
			}
			tabs, ok := c16ParseTables(stdout.String())
			if !ok {
				return L(A("!CLI-BAD-TABLE"))
			}
			return L(A("top"), L(secs...), tabs)
		}
		f, err := os.Open(filepath.Join(rep, "cloc.csv"))
		if err != nil {
			return L(A("!CLI-NO-OUTPUT"), A("cloc.csv"))
		}
		defer f.Close()
		r := csv.NewReader(f)
		r.FieldsPerRecord = -1
		recs, err := r.ReadAll()
		if err != nil || len(recs) == 0 {
			return L(A("!CLI-BAD-CSV"))
		}
		rows := []Sx{}
		for _, rec := range recs[1:] {
			rows = append(rows, Strs(rec))
		}
		return L(A("bydir"), Strs(recs[0]), L(rows...))
	})
}
