// Harness: runs coca's real entry points on the cases produced by the generators.
// stdin: one case per line, "<op> <s-expression>"; stdout: one s-expression per line
// ("!PANIC <msg>" atom when the entry point panicked, "!TIMEOUT" then exit 3 when a case
// exceeded its time limit).  Handlers register themselves in init().
package main

import (
	"bufio"
	"fmt"
	"os"
	"strings"
	"time"
)

type handler func(in Sx) Sx

var handlers = map[string]handler{}

func register(name string, h handler) { handlers[name] = h }

func runCase(h handler, in Sx) (out Sx) {
	defer func() {
		if r := recover(); r != nil {
			out = L(A("!PANIC"), A(panicClass(fmt.Sprint(r))))
		}
	}()
	return h(in)
}

// panicClass maps a panic message to a small, address-free class.
func panicClass(msg string) string {
	switch {
	case strings.Contains(msg, "index out of range"):
		return "index out of range"
	case strings.Contains(msg, "slice bounds out of range"):
		return "slice bounds out of range"
	case strings.Contains(msg, "nil pointer dereference"):
		return "nil pointer dereference"
	case strings.Contains(msg, "interface conversion"):
		return "interface conversion"
	case strings.Contains(msg, "assignment to entry in nil map"):
		return "nil map"
	}
	if len(msg) > 80 {
		msg = msg[:80]
	}
	return msg
}

func main() {
	limit := 20 * time.Second
	if v := os.Getenv("VERIF_CASE_TIMEOUT"); v != "" {
		if d, err := time.ParseDuration(v); err == nil {
			limit = d
		}
	}
	// coca prints progress to stdout; keep our protocol on the real stdout and send
	// everything else to stderr.
	realOut := os.Stdout
	os.Stdout = os.Stderr
	w := bufio.NewWriter(realOut)
	defer w.Flush()
	sc := bufio.NewScanner(os.Stdin)
	sc.Buffer(make([]byte, 1<<20), 1<<30)
	for sc.Scan() {
		line := sc.Text()
		if line == "" {
			continue
		}
		sp := strings.IndexByte(line, ' ')
		if sp < 0 {
			sp = len(line)
		}
		op := line[:sp]
		h, ok := handlers[op]
		if !ok {
			fmt.Fprintf(w, "(\"!ERR\" \"unknown op %s\")\n", op)
			w.Flush()
			continue
		}
		in, err := ParseSx(line[sp:])
		if err != nil {
			fmt.Fprintf(w, "(\"!ERR\" \"parse: %v\")\n", err)
			w.Flush()
			continue
		}
		done := make(chan Sx, 1)
		go func() { done <- runCase(h, in) }()
		select {
		case out := <-done:
			fmt.Fprintln(w, out.String())
			w.Flush()
		case <-time.After(limit):
			fmt.Fprintln(w, "(\"!TIMEOUT\")")
			w.Flush()
			os.Exit(3)
		}
	}
}
