package main

import (
	"bytes"
	"strings"
	depapp "github.com/modernizing/coca/analysis/dep/app"
	"fmt"
	"os"
	"path/filepath"

	"github.com/modernizing/coca/pkg/application/deps"
	"github.com/modernizing/coca/pkg/domain/core_domain"
)

func c19Scratch() string {
	base := os.Getenv("VERIF_SCRATCH")
	if base == "" {
		base = "/var/tmp"
	}
	_ = os.MkdirAll(base, 0o755)
	dir, err := os.MkdirTemp(base, "verif-c19-")
	if err != nil {
		panic("scratch: " + err.Error())
	}
	return dir
}

func c19Deps(ds []core_domain.CodeDependency) Sx {
	out := []Sx{}
	for _, d := range ds {
		out = append(out, L(A(d.GroupId), A(d.ArtifactId), A(d.Scope)))
	}
	return L(out...)
}

func init() {
	// ("maven" text)                      -> deps.AnalysisMaven on a scratch pom.xml
	// ("gradle" text)                     -> deps.AnalysisGradleString
	// ("unused" ((relpath content) ...))  -> the `coca deps` pipeline over a scratch project:
	//                                        java files -> class nodes -> DepAnalysisApp.AnalysisPath
	// every result: ((groupId artifactId scope) ...) or ("PANIC" class)
	register("C19", func(in Sx) (out Sx) {
		// A panic of the code under test is an ordinary observation here, ("PANIC" class):
		// tools/check never lets two "!"-markers agree, so a crash that is a known finding
		// could not be told from a broken correspondence.
		defer func() {
			if r := recover(); r != nil {
				out = L(A("PANIC"), A(panicClass(fmt.Sprint(r))))
			}
		}()
		switch in.Nth(0).Str() {
		case "maven":
			dir := c19Scratch()
			defer os.RemoveAll(dir)
			p := filepath.Join(dir, "pom.xml")
			if err := os.WriteFile(p, []byte(in.Nth(1).Str()), 0o644); err != nil {
				panic("scratch: " + err.Error())
			}
			return c19Deps(deps.AnalysisMaven(p))
		case "gradle":
			return c19Deps(deps.AnalysisGradleString(in.Nth(1).Str()))
		case "unused":
			dir := c19Scratch()
			defer os.RemoveAll(dir)
			for _, f := range in.Nth(1).Items() {
				p := filepath.Join(dir, filepath.FromSlash(f.Nth(0).Str()))
				if err := os.MkdirAll(filepath.Dir(p), 0o755); err != nil {
					panic("scratch: " + err.Error())
				}
				if err := os.WriteFile(p, []byte(f.Nth(1).Str()), 0o644); err != nil {
					panic("scratch: " + err.Error())
				}
			}
			// the sub-command itself (analysis/dep/app, `deps -p DIR`): its table is the observation point
			// the working directory holds the report files of an earlier `coca analysis` of ANOTHER project
			wd0, _ := os.Getwd()
			work := c19Scratch()
			defer os.RemoveAll(work)
			os.MkdirAll(filepath.Join(work, "coca_reporter"), 0o755)
			os.WriteFile(filepath.Join(work, "coca_reporter", "deps.json"),
				[]byte(`[{"NodeName":"Old","Type":"Class","Package":"old.pkg","Imports":[{"Source":"old.lib.Thing"}]}]`), 0o644)
			os.WriteFile(filepath.Join(work, "coca_reporter", "identify.json"), []byte(`[]`), 0o644)
			if err := os.Chdir(work); err == nil {
				defer os.Chdir(wd0)
			}
			var buf bytes.Buffer
			cmd := depapp.NewRootCmd(&buf)
			cmd.SetArgs([]string{"deps", "-p", dir})
			if err := cmd.Execute(); err != nil {
				return L(A("!ERR"), A(err.Error()))
			}
			rows := []Sx{}
			for _, line := range strings.Split(buf.String(), "\n") {
				line = strings.TrimSpace(line)
				if !strings.HasPrefix(line, "|") || strings.HasPrefix(line, "|-") {
					continue
				}
				cells := strings.Split(strings.Trim(line, "|"), "|")
				if len(cells) != 3 {
					return L(A("!ERR"), A("unexpected table row: "+line))
				}
				if strings.TrimSpace(cells[0]) == "GROUPID" && strings.TrimSpace(cells[1]) == "ARTIFACTID" {
					continue // the header
				}
				rows = append(rows, L(A(strings.TrimSpace(cells[0])), A(strings.TrimSpace(cells[1])), A(strings.TrimSpace(cells[2]))))
			}
			return L(rows...)
		}
		return L(A("!ERR"), A("unknown C19 kind"))
	})
}
