package main

import (
	"encoding/json"
	"os"
	"os/exec"
	"path/filepath"
	"sort"
	"strings"

	"github.com/modernizing/coca/pkg/application/analysis/javaapp"
	"github.com/modernizing/coca/pkg/application/api"
	"github.com/modernizing/coca/pkg/adapter/cocafile"
	"github.com/modernizing/coca/pkg/application/bs"
	"github.com/modernizing/coca/pkg/application/concept"
	"github.com/modernizing/coca/pkg/application/count"
	"github.com/modernizing/coca/pkg/application/evaluate"
	"github.com/modernizing/coca/pkg/application/evaluate/evaluator"
	"strconv"
	"github.com/modernizing/coca/pkg/infrastructure/string_helper"
	"github.com/modernizing/coca/pkg/application/tbs"
	"github.com/modernizing/coca/pkg/domain/api_domain"
	"github.com/modernizing/coca/pkg/domain/bs_domain"
	"github.com/modernizing/coca/pkg/domain/core_domain"
)

// writeTree materialises ((relpath text) ...) under a fresh scratch directory.
func writeTree(files Sx) string {
	dir, err := os.MkdirTemp(os.Getenv("VERIF_SCRATCH"), "verif-java-")
	if err != nil {
		panic(err)
	}
	for _, f := range files.Items() {
		p := filepath.Join(dir, f.Nth(0).Str())
		os.MkdirAll(filepath.Dir(p), 0o755)
		os.WriteFile(p, []byte(f.Nth(1).Str()), 0o644)
	}
	return dir
}

// the directory as the user names it: for every other tree "DIR/." (what `-p .` amounts to: the walk root is then
// called "."), so that a walker that treats dot-names specially is seen
func rootArg(dir string, files Sx) string {
	if len(files.Items())%2 == 1 {
		return dir + string(filepath.Separator) + "."
	}
	return dir
}

// two trees in five are analysed from INSIDE the project, the way the README runs the commands (`cd project; coca ... -p .`,
// -p defaults to "."): the walk then yields paths without any directory in front of src/...
func enterRoot(dir string, files Sx) (string, func()) {
	if r := len(files.Items()) % 5; r == 1 || r == 3 {
		if wd, err := os.Getwd(); err == nil && os.Chdir(dir) == nil {
			return ".", func() { os.Chdir(wd) }
		}
	}
	return rootArg(dir, files), func() {}
}

func relativise(nodes []core_domain.CodeDataStruct, dir string) []core_domain.CodeDataStruct {
	out := make([]core_domain.CodeDataStruct, len(nodes))
	for i, n := range nodes {
		n.FilePath = strings.TrimPrefix(strings.TrimPrefix(n.FilePath, dir), "/")
		if len(n.InnerStructures) > 0 {
			n.InnerStructures = relativise(n.InnerStructures, dir) // nested types carry the path of their file too
		}
		out[i] = n
	}
	return out
}

func init() {
	// ((relpath text) ...) -> (identifier-pass nodes, full-pass nodes) of `coca analysis -p DIR`
	register("java.passes", func(in Sx) Sx {
		dir := writeTree(in)
		defer os.RemoveAll(dir)
		if len(in.Items())%3 == 2 {
			// every third project is analysed in a process that analysed ANOTHER tree before: classes of the same simple
			// names in a package of their own (an earlier module of a multi-module build); nothing of it may remain
			decoy := []Sx{}
			for _, f := range in.Items() {
				name := strings.TrimSuffix(filepath.Base(f.Nth(0).Str()), ".java")
				if name == "" || name == filepath.Base(f.Nth(0).Str()) || strings.ContainsAny(name, ".- ") {
					continue
				}
				decoy = append(decoy, L(A("zz/decoy/"+name+".java"), A("package zz.decoy;\npublic class "+name+" {\n  public void m() { }\n}\n")))
			}
			if len(decoy) > 0 {
				ddir := writeTree(L(decoy...))
				dIdentApp := javaapp.NewJavaIdentifierApp()
				dIdents := dIdentApp.AnalysisPath(ddir)
				dFullApp := javaapp.NewJavaFullApp()
				_ = dFullApp.AnalysisPath(ddir, dIdents)
				os.RemoveAll(ddir)
			}
		}
		root, leave := enterRoot(dir, in)
		defer leave()
		identApp := javaapp.NewJavaIdentifierApp()
		idents := identApp.AnalysisPath(root)
		fullApp := javaapp.NewJavaFullApp()
		full := fullApp.AnalysisPath(root, idents)
		return L(sxOfModel(relativise(idents, dir)), sxOfModel(relativise(full, dir)))
	})
}

func init() {
	// ((relpath text) ...) -> API entries of `coca api` (identifier pass, full pass, then the API scan)
	register("java.api", func(in Sx) Sx {
		dir := writeTree(in)
		defer os.RemoveAll(dir)
		identApp := javaapp.NewJavaIdentifierApp()
		idents := identApp.AnalysisPath(rootArg(dir, in))
		identMap := core_domain.BuildIdentifierMap(idents)
		diMap := core_domain.BuildDIMap(idents, identMap)
		fullApp := javaapp.NewJavaFullApp()
		deps := fullApp.AnalysisPath(rootArg(dir, in), idents)
		app := new(api.JavaApiApp)
		out := []Sx{}
		// the result is held across a scan of another directory before it is serialised
		apis := app.AnalysisPath(rootArg(dir, in), deps, identMap, diMap)
		decoy := writeTree(L(L(A("d/DecoyController.java"), A("package d;\n@RestController\npublic class DecoyController {\n  @GetMapping(\"/decoy\")\n  public String decoy() { return null; }\n  @PostMapping(\"/decoy2\")\n  public String decoy2() { return null; }\n}\n"))))
		_ = new(api.JavaApiApp).AnalysisPath(decoy, nil, map[string]core_domain.CodeDataStruct{}, map[string]string{})
		os.RemoveAll(decoy)
		// every other project also goes through the commands, as the README runs them: `coca analysis -p DIR`, then
		// `coca api -f -p DIR -d coca_reporter/deps.json`; what the user gets is apis.json (the entries) and api.csv
		// (one row per entry that reaches the table): the entries of apis.json that have their row in api.csv are
		// the observation, a row without an entry is listed under the verb "!CSV-ONLY"
		if cliEnabled() && len(in.Items())%2 == 0 {
			sess := newCliSess()
			defer sess.close()
			root := rootArg(dir, in)
			// the report directory was used before, for another project: its apis.json is still there
			sess.writeJSON("apis.json", []api_domain.RestAPI{{Uri: "/stale/one", HttpMethod: "GET", MethodName: "old", PackageName: "old.pkg", ClassName: "OldController"},
				{Uri: "/stale/two", HttpMethod: "POST", MethodName: "older", PackageName: "old.pkg", ClassName: "OldController"}})
			if o, ok := sess.run("analysis", "-p", root); !ok {
				return L(L(A("!CLI-ERROR analysis"), A(panicClass(o)), A(""), A(""), A(""), A("")))
			}
			if o, ok := sess.run("api", "-f", "-p", root, "-d", "coca_reporter/deps.json"); !ok {
				return L(L(A("!CLI-ERROR api"), A(panicClass(o)), A(""), A(""), A(""), A("")))
			}
			var listed []api_domain.RestAPI
			if text, ok := sess.read("apis.json"); !ok || json.Unmarshal([]byte(text), &listed) != nil {
				return L(L(A("!CLI-NO-OUTPUT apis.json"), A(""), A(""), A(""), A(""), A("")))
			}
			csv, ok := sess.read("api.csv")
			if !ok {
				return L(L(A("!CLI-NO-OUTPUT api.csv"), A(""), A(""), A(""), A(""), A("")))
			}
			rows := map[string]int{}
			parseable := true
			for i, ln := range strings.Split(csv, "\n") {
				if i == 0 || strings.TrimSpace(ln) == "" {
					continue
				}
				cells := strings.Split(ln, ",")
				if len(cells) != 4 {
					parseable = false
					break
				}
				rows[strings.TrimSpace(cells[1])+" "+strings.TrimSpace(cells[2])+" "+strings.TrimSpace(cells[3])]++
			}
			if parseable {
				apis = nil
				for _, r := range listed {
					k := r.HttpMethod + " " + strings.TrimSpace(r.Uri) + " " + r.PackageName + "." + r.ClassName + "." + r.MethodName
					if rows[k] > 0 {
						rows[k]--
						apis = append(apis, r)
					}
				}
				for k, n := range rows {
					for ; n > 0; n-- {
						apis = append(apis, api_domain.RestAPI{HttpMethod: "!CSV-ONLY", Uri: k})
					}
				}
			}
		}
		for _, r := range apis {
			out = append(out, L(A(r.HttpMethod), A(r.Uri), A(r.PackageName), A(r.ClassName), A(r.MethodName), A(r.RequestBodyClass)))
		}
		return L(out...)
	})
}

func init() {
	// (((relpath text) ...) (ignored-kind ...)) -> (identified smells, `coca bs -s type` groups)
	// refusedBequest and graphConnectedCall are outside C10 and dropped from both lists.
	register("java.bs", func(in Sx) Sx {
		dir := writeTree(in.Nth(0))
		defer os.RemoveAll(dir)
		ignore := in.Nth(1).StrList()
		app := bs.NewBadSmellApp()
		nodes := app.AnalysisPath(rootArg(dir, in.Nth(0)))
		// the result is held across an analysis of another directory before it is used
		decoy := writeTree(L(L(A("d/Decoy.java"), A("package d;\npublic class Decoy {\n  public int getA() { return 1; }\n}\n"))))
		_ = bs.NewBadSmellApp().AnalysisPath(decoy)
		os.RemoveAll(decoy)
		smells := app.IdentifyBadSmell(nodes, ignore)
		keep := func(k string) bool { return k != "refusedBequest" && k != "graphConnectedCall" }
		toSx := func(m bs_domain.BadSmellModel) Sx {
			desc := m.Description
			if m.Bs == "longParameterList" {
				desc = ""
			}
			return L(A(strings.TrimPrefix(strings.TrimPrefix(m.File, dir), "/")), A(m.Line), A(m.Bs), A(desc), N(m.Size))
		}
		list := []Sx{}
		for _, m := range smells {
			if keep(m.Bs) {
				list = append(list, toSx(m))
			}
		}
		// every other tree: the list itself through `coca bs -p DIR [-x KINDS]` (coca_reporter/bs.json without -s)
		if cliEnabled() && len(in.Nth(0).Items())%2 == 1 {
			sess := newCliSess()
			defer sess.close()
			args := []string{"bs", "-p", rootArg(dir, in.Nth(0))}
			if len(ignore) > 0 {
				args = append(args, "-x", strings.Join(ignore, ","))
			}
			var got []bs_domain.BadSmellModel
			if o, ok := sess.run(args...); !ok {
				list = []Sx{L(A("!CLI-ERROR"), A(panicClass(o)), A(""), A(""), N(0))}
			} else if text, ok := sess.read("bs.json"); !ok || json.Unmarshal([]byte(text), &got) != nil {
				list = []Sx{L(A("!CLI-NO-OUTPUT"), A("bs.json"), A(""), A(""), N(0))}
			} else {
				list = []Sx{}
				for _, m := range got {
					if keep(m.Bs) {
						list = append(list, toSx(m))
					}
				}
			}
		}
		// the CLI path for -s type (isSmellHaveSize is private to cmd)
		groups := L(A("!NOCLI"))
		if bin := os.Getenv("COCA_BIN"); bin != "" {
			wd, _ := os.MkdirTemp(os.Getenv("VERIF_SCRATCH"), "verif-bs-")
			defer os.RemoveAll(wd)
			args := []string{"bs", "-p", dir, "-s", "type"}
			if len(ignore) > 0 {
				args = append(args, "-x", strings.Join(ignore, ","))
			}
			cmd := exec.Command(bin, args...)
			cmd.Dir = wd
			if out, err := cmd.CombinedOutput(); err != nil {
				groups = L(A("!CLI-ERROR"), A(panicClass(string(out))))
			} else if data, err := os.ReadFile(filepath.Join(wd, "coca_reporter", "bs.json")); err != nil {
				groups = L(A("!CLI-NO-OUTPUT"))
			} else {
				var m map[string][]bs_domain.BadSmellModel
				if err := json.Unmarshal(data, &m); err != nil {
					groups = L(A("!CLI-BAD-JSON"), A(string(data)))
				} else {
					keys := []string{}
					for k := range m {
						if keep(k) {
							keys = append(keys, k)
						}
					}
					sort.Strings(keys)
					gs := []Sx{}
					for _, k := range keys {
						items := []Sx{}
						for _, x := range m[k] {
							items = append(items, toSx(x))
						}
						gs = append(gs, L(A(k), L(items...)))
					}
					groups = L(gs...)
				}
			}
		}
		return L(L(list...), groups)
	})
}

func init() {
	// ((relpath text) ...) -> test smells of `coca tbs -p DIR`
	register("java.tbs", func(in Sx) Sx {
		dir := writeTree(in)
		defer os.RemoveAll(dir)
		root, leave := enterRoot(dir, in)
		files := cocafile.GetJavaTestFiles(root)
		identApp := javaapp.NewJavaIdentifierApp()
		identifiers := identApp.AnalysisFiles(files)
		identMap := core_domain.BuildIdentifierMap(identifiers)
		fullApp := javaapp.NewJavaFullApp()
		classNodes := fullApp.AnalysisFiles(identifiers, files)
		out := []Sx{}
		for _, r := range tbs.NewTbsApp().AnalysisPath(classNodes, identMap) {
			out = append(out, L(A(r.Type), A(strings.TrimPrefix(strings.TrimPrefix(r.FileName, dir), "/")), N(r.Line)))
		}
		leave()
		// every other tree is observed through `coca tbs -p DIR`: coca_reporter/tbs.json
		if cliEnabled() && len(in.Items())%2 == 1 {
			sess := newCliSess()
			defer sess.close()
			if o, ok := sess.run("tbs", "-p", rootArg(dir, in)); !ok {
				return L(L(A("!CLI-ERROR"), A(panicClass(o)), N(0)))
			}
			var rows []tbs.TestBadSmell
			if text, ok := sess.read("tbs.json"); !ok || json.Unmarshal([]byte(text), &rows) != nil {
				return L(L(A("!CLI-NO-OUTPUT"), A("tbs.json"), N(0)))
			}
			out = []Sx{}
			for _, r := range rows {
				out = append(out, L(A(r.Type), A(strings.TrimPrefix(strings.TrimPrefix(r.FileName, dir), "/")), N(r.Line)))
			}
		}
		return L(out...)
	})
}

// rows in the order `coca count` / `coca concept` print them
// cliTable runs a command and returns the data rows of the (first) table it prints
func cliTable(sess *cliSess, args ...string) ([][]string, bool) {
	out, ok := sess.run(args...)
	if !ok {
		return nil, false
	}
	tables := tableRows(out)
	if len(tables) == 0 {
		return [][]string{}, true
	}
	if len(tables[0]) == 0 {
		return [][]string{}, true
	}
	return tables[0][1:], true
}

func sxCounts(m map[string]int) Sx {
	out := []Sx{}
	for _, p := range string_helper.SortWord(m) {
		out = append(out, L(A(p.Key), N(p.Value)))
	}
	return L(out...)
}

func init() {
	// ("count" model) -> reference counts ; ("java" ((relpath text) ...)) -> (counts summary concept)
	register("C18", func(in Sx) Sx {
		if in.Nth(0).Str() == "count" {
			m := modelOf(in.Nth(1))
			// every other model through `coca count -d deps.json`: the rows of the table it prints
			if cliEnabled() && len(in.Nth(1).Items())%2 == 1 {
				sess := newCliSess()
				defer sess.close()
				sess.writeJSON("deps.json", m)
				if rows, ok := cliTable(sess, "count", "-d", "coca_reporter/deps.json"); ok {
					out := []Sx{}
					for _, r := range rows {
						if len(r) == 2 {
							n, _ := strconv.Atoi(r[0])
							out = append(out, L(A(r[1]), N(n)))
						}
					}
					return L(out...)
				}
				return L(L(A("!CLI-ERROR count"), N(0)))
			}
			return sxCounts(count.BuildCallMap(m))
		}
		dir := writeTree(in.Nth(1))
		defer os.RemoveAll(dir)
		identApp := javaapp.NewJavaIdentifierApp()
		idents := identApp.AnalysisPath(rootArg(dir, in.Nth(1)))
		fullApp := javaapp.NewJavaFullApp()
		deps := fullApp.AnalysisPath(rootArg(dir, in.Nth(1)), idents)
		res := evaluate.NewEvaluateAnalyser().Analysis(deps, idents)
		nullable := append([]string{}, res.Nullable.Items...)
		sort.Strings(nullable)
		words := []Sx{}
		for _, p := range concept.NewConceptAnalyser().Analysis(&deps) {
			words = append(words, L(A(p.Key), N(p.Value)))
		}
		counts := sxCounts(count.BuildCallMap(deps))
		summary := L(N(res.Summary.ClassCount), N(res.Summary.MethodCount), N(res.Summary.StaticMethodCount), N(res.Summary.UtilsCount), Strs(nullable))
		// every other project through the commands, on the report files a `coca analysis` leaves behind (written here from
		// the same two passes): `coca count`, `coca concept` (their tables) and `coca evaluate` (evaluate.json)
		if cliEnabled() && len(in.Nth(1).Items())%2 == 1 {
			sess := newCliSess()
			defer sess.close()
			sess.writeJSON("deps.json", deps)
			sess.writeJSON("identify.json", idents)
			if rows, ok := cliTable(sess, "count", "-d", "coca_reporter/deps.json"); ok {
				cs := []Sx{}
				for _, r := range rows {
					if len(r) == 2 {
						n, _ := strconv.Atoi(r[0])
						cs = append(cs, L(A(r[1]), N(n)))
					}
				}
				counts = L(cs...)
			} else {
				counts = L(L(A("!CLI-ERROR count"), N(0)))
			}
			if rows, ok := cliTable(sess, "concept", "-d", "coca_reporter/deps.json"); ok {
				words = []Sx{}
				for _, r := range rows {
					if len(r) == 2 {
						n, _ := strconv.Atoi(r[1])
						words = append(words, L(A(r[0]), N(n)))
					}
				}
			} else {
				words = []Sx{L(A("!CLI-ERROR concept"), N(0))}
			}
			if o, ok := sess.run("evaluate", "-d", "coca_reporter/deps.json"); !ok {
				summary = L(N(0), N(0), N(0), N(0), Strs([]string{"!CLI-ERROR evaluate " + panicClass(o)}))
			} else {
				var ev evaluator.EvaluateModel
				if text, ok := sess.read("evaluate.json"); !ok || json.Unmarshal([]byte(text), &ev) != nil {
					summary = L(N(0), N(0), N(0), N(0), Strs([]string{"!CLI-NO-OUTPUT evaluate.json"}))
				} else {
					nl := append([]string{}, ev.Nullable.Items...)
					sort.Strings(nl)
					summary = L(N(ev.Summary.ClassCount), N(ev.Summary.MethodCount), N(ev.Summary.StaticMethodCount), N(ev.Summary.UtilsCount), Strs(nl))
				}
			}
		}
		return L(counts, summary, L(words...))
	})
}

func init() {
	// ((relpath text) ...) -> the service summary of `coca evaluate` (lifecycle map, return-type map, related
	// parameters), maps listed by key; observed by C08 only (no Coq model of this part)
	register("C18.svc", func(in Sx) Sx {
		dir := writeTree(in)
		defer os.RemoveAll(dir)
		identApp := javaapp.NewJavaIdentifierApp()
		idents := identApp.AnalysisPath(rootArg(dir, in))
		fullApp := javaapp.NewJavaFullApp()
		deps := fullApp.AnalysisPath(rootArg(dir, in), idents)
		res := evaluate.NewEvaluateAnalyser().Analysis(deps, idents)
		mapSx := func(m map[string][]string) Sx {
			keys := make([]string, 0, len(m))
			for k := range m {
				keys = append(keys, k)
			}
			sort.Strings(keys)
			out := []Sx{}
			for _, k := range keys {
				out = append(out, L(A(k), Strs(m[k])))
			}
			return L(out...)
		}
		return L(mapSx(res.ServiceSummary.LifecycleMap), mapSx(res.ServiceSummary.ReturnTypeMap), Strs(res.ServiceSummary.RelatedMethod))
	})
}
