package main

import (
	"os"
	"path/filepath"
	"strings"

	"github.com/modernizing/coca/pkg/application/analysis/javaapp"
	"github.com/modernizing/coca/pkg/application/api"
	"github.com/modernizing/coca/pkg/domain/core_domain"
)

// writeTree materialises ((relpath text) ...) under a fresh scratch directory.
func writeTree(files Sx) string {
	dir, err := os.MkdirTemp(os.Getenv("VERIF_SCRATCH"), "verif-java-")
	if err != nil {
		panic(err)
	}
	for _, f := range files.Items() {
		p := filepath.Join(dir, f.Nth(0).Str())
		os.MkdirAll(filepath.Dir(p), 0o755)
		os.WriteFile(p, []byte(f.Nth(1).Str()), 0o644)
	}
	return dir
}

func relativise(nodes []core_domain.CodeDataStruct, dir string) []core_domain.CodeDataStruct {
	out := make([]core_domain.CodeDataStruct, len(nodes))
	for i, n := range nodes {
		n.FilePath = strings.TrimPrefix(strings.TrimPrefix(n.FilePath, dir), "/")
		out[i] = n
	}
	return out
}

func init() {
	// ((relpath text) ...) -> (identifier-pass nodes, full-pass nodes) of `coca analysis -p DIR`
	register("java.passes", func(in Sx) Sx {
		dir := writeTree(in)
		defer os.RemoveAll(dir)
		identApp := javaapp.NewJavaIdentifierApp()
		idents := identApp.AnalysisPath(dir)
		fullApp := javaapp.NewJavaFullApp()
		full := fullApp.AnalysisPath(dir, idents)
		return L(sxOfModel(relativise(idents, dir)), sxOfModel(relativise(full, dir)))
	})
}

func init() {
	// ((relpath text) ...) -> API entries of `coca api` (identifier pass, full pass, then the API scan)
	register("java.api", func(in Sx) Sx {
		dir := writeTree(in)
		defer os.RemoveAll(dir)
		identApp := javaapp.NewJavaIdentifierApp()
		idents := identApp.AnalysisPath(dir)
		identMap := core_domain.BuildIdentifierMap(idents)
		diMap := core_domain.BuildDIMap(idents, identMap)
		fullApp := javaapp.NewJavaFullApp()
		deps := fullApp.AnalysisPath(dir, idents)
		app := new(api.JavaApiApp)
		out := []Sx{}
		for _, r := range app.AnalysisPath(dir, deps, identMap, diMap) {
			out = append(out, L(A(r.HttpMethod), A(r.Uri), A(r.PackageName), A(r.ClassName), A(r.MethodName), A(r.RequestBodyClass)))
		}
		return L(out...)
	})
}
