package main

import (
	"github.com/modernizing/coca/pkg/application/call"
	apidomain "github.com/modernizing/coca/pkg/domain/api_domain"
)

func init() {
	// (model (query ...)) -> (out ...); queries: ("call" root lookup) | ("api" (apis) (di))
	register("C03", func(in Sx) Sx {
		m := modelOf(in.Nth(0))
		outs := []Sx{}
		var sess *cliSess
		cliDone := false
		for _, q := range in.Nth(1).Items() {
			if q.Nth(0).Str() == "call" {
				dot := call.NewCallGraph().Analysis(q.Nth(1).Str(), m, q.Nth(2).Bool())
				// the same query through `coca call -c ROOT -d deps.json [-l]` (the first call query of every
				// third history): what the command writes to coca_reporter/call.dot is the observation
				if cliEnabled() && !cliDone && (len(q.Nth(1).Str())+len(in.Nth(1).Items()))%3 == 0 {
					cliDone = true
					if sess == nil {
						sess = newCliSess()
						defer sess.close()
						sess.writeJSON("deps.json", m)
					}
					args := []string{"call", "-c", q.Nth(1).Str(), "-d", "coca_reporter/deps.json"}
					if q.Nth(2).Bool() {
						args = append(args, "-l")
					}
					sess.remove("call.dot")
					if out, ok := sess.run(args...); !ok {
						dot = "!CLI-ERROR " + panicClass(out)
					} else if text, ok := sess.read("call.dot"); !ok {
						dot = "!CLI-NO-OUTPUT call.dot"
					} else {
						dot = text
					}
				}
				outs = append(outs, L(A(dot)))
				continue
			}
			var apis []apidomain.RestAPI
			for _, a := range q.Nth(1).Items() {
				apis = append(apis, apidomain.RestAPI{HttpMethod: a.Nth(0).Str(), Uri: a.Nth(1).Str(),
					PackageName: a.Nth(2).Str(), ClassName: a.Nth(3).Str(), MethodName: a.Nth(4).Str()})
			}
			di := map[string]string{}
			for _, kv := range q.Nth(2).Items() {
				di[kv.Nth(0).Str()] = kv.Nth(1).Str()
			}
			dot, counts := call.NewCallGraph().AnalysisByFiles(apis, m, di)
			sizes := []Sx{}
			for _, c := range counts {
				sizes = append(sizes, N(c.Size))
			}
			outs = append(outs, L(A(dot), L(sizes...)))
		}
		return L(outs...)
	})
}
