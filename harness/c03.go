package main

import (
	"github.com/modernizing/coca/pkg/application/call"
	apidomain "github.com/modernizing/coca/pkg/domain/api_domain"
)

func init() {
	// (model (query ...)) -> (out ...); queries: ("call" root lookup) | ("api" (apis) (di))
	register("C03", func(in Sx) Sx {
		m := modelOf(in.Nth(0))
		outs := []Sx{}
		for _, q := range in.Nth(1).Items() {
			if q.Nth(0).Str() == "call" {
				dot := call.NewCallGraph().Analysis(q.Nth(1).Str(), m, q.Nth(2).Bool())
				outs = append(outs, L(A(dot)))
				continue
			}
			var apis []apidomain.RestAPI
			for _, a := range q.Nth(1).Items() {
				apis = append(apis, apidomain.RestAPI{HttpMethod: a.Nth(0).Str(), Uri: a.Nth(1).Str(),
					PackageName: a.Nth(2).Str(), ClassName: a.Nth(3).Str(), MethodName: a.Nth(4).Str()})
			}
			di := map[string]string{}
			for _, kv := range q.Nth(2).Items() {
				di[kv.Nth(0).Str()] = kv.Nth(1).Str()
			}
			dot, counts := call.NewCallGraph().AnalysisByFiles(apis, m, di)
			sizes := []Sx{}
			for _, c := range counts {
				sizes = append(sizes, N(c.Size))
			}
			outs = append(outs, L(A(dot), L(sizes...)))
		}
		return L(outs...)
	})
}
