package main

import (
	"bufio"
	"bytes"
	"fmt"
	"os"
	"os/exec"
	"path/filepath"
	"sort"
	"strings"

	"github.com/modernizing/coca/pkg/application/analysis/javaapp"
	rename "github.com/modernizing/coca/pkg/application/refactor/rename"
	"github.com/modernizing/coca/pkg/domain/core_domain"
)

// orderFunctions fixes the (Go map) order of CodeDataStruct.Functions: stable sort by
// (StartLine, StartLinePosition, Name), ascending or descending.
func orderFunctions(nodes []core_domain.CodeDataStruct, desc bool) {
	less := func(a, b core_domain.CodeFunction) bool {
		if a.Position.StartLine != b.Position.StartLine {
			return a.Position.StartLine < b.Position.StartLine
		}
		if a.Position.StartLinePosition != b.Position.StartLinePosition {
			return a.Position.StartLinePosition < b.Position.StartLinePosition
		}
		return a.Name < b.Name
	}
	for i := range nodes {
		fs := nodes[i].Functions
		sort.SliceStable(fs, func(x, y int) bool {
			if desc {
				return less(fs[y], fs[x])
			}
			return less(fs[x], fs[y])
		})
	}
}

// freshPasses analyses a tree in a NEW process (the listeners keep package-level state).
func freshPasses(files Sx) Sx {
	self, err := os.Executable()
	if err != nil {
		return L(A("!NOSELF"))
	}
	cmd := exec.Command(self)
	cmd.Stdin = strings.NewReader("java.passes " + files.String() + "\n")
	var out bytes.Buffer
	cmd.Stdout = &out
	if err := cmd.Run(); err != nil {
		return L(A("!REANALYSIS-FAILED"), A(fmt.Sprint(err)))
	}
	sc := bufio.NewScanner(&out)
	sc.Buffer(make([]byte, 1<<20), 1<<30)
	for sc.Scan() {
		if line := sc.Text(); line != "" {
			x, err := ParseSx(line)
			if err != nil {
				return L(A("!REANALYSIS-UNPARSABLE"))
			}
			return x
		}
	}
	return L(A("!REANALYSIS-EMPTY"))
}

func init() {
	// (facts texts conf order cands facts2) ->
	//   (status ((path bytes) ...) deps (idents full))     see coq/Entry/C05.v
	register("C05", func(in Sx) Sx {
		texts := in.Nth(1)
		conf := in.Nth(2).Str()
		desc := in.Nth(3).Str() == "desc"
		dir := writeTree(texts)
		defer os.RemoveAll(dir)
		identApp := javaapp.NewJavaIdentifierApp()
		idents := identApp.AnalysisPath(rootArg(dir, texts))
		fullApp := javaapp.NewJavaFullApp()
		deps := fullApp.AnalysisPath(rootArg(dir, texts), idents)
		orderFunctions(deps, desc)
		status := L(A("ok"))
		func() {
			defer func() {
				if r := recover(); r != nil {
					status = L(A("PANIC"), A(panicClass(fmt.Sprint(r))))
				}
			}()
			// every third project is renamed by the command itself, run the way the README shows it (with -p):
			// `coca refactor -R rename.conf -d coca_reporter/deps.json -p DIR` in a scratch report directory
			if cliEnabled() && (len(texts.Items())+len(conf))%3 == 0 {
				sess := newCliSess()
				defer sess.close()
				sess.writeJSON("deps.json", deps)
				os.WriteFile(filepath.Join(sess.dir, "rename.conf"), []byte(conf), 0o644)
				if out, ok := sess.run("refactor", "-R", "rename.conf", "-d", "coca_reporter/deps.json", "-p", rootArg(dir, texts)); !ok {
					status = L(A("PANIC"), A(panicClass(out)))
				}
				return
			}
			if (len(texts.Items())+len(conf))%3 == 1 {
				// every third project has a history: the same request was carried out in this process before and the
				// sources were then put back byte for byte (an undo, a `git checkout`); the request is judged on the tree
				// as it stands now, whatever the process did earlier
				rename.RenameMethodApp(deps).Refactoring(conf)
				for _, f := range texts.Items() {
					os.WriteFile(filepath.Join(dir, f.Nth(0).Str()), []byte(f.Nth(1).Str()), 0o644)
				}
			}
			rename.RenameMethodApp(deps).Refactoring(conf)
		}()
		files := []Sx{}
		for _, f := range texts.Items() {
			b, err := os.ReadFile(filepath.Join(dir, f.Nth(0).Str()))
			if err != nil {
				continue
			}
			files = append(files, L(A(f.Nth(0).Str()), A(string(b))))
		}
		re := L(L(), L())
		if status.Nth(0).Str() == "ok" {
			re = freshPasses(L(files...))
		}
		return L(status, L(files...), sxOfModel(relativise(deps, dir)), re)
	})
}
