package main

import (
	"bytes"
	"os"
	"os/exec"
	"path/filepath"
	"strings"

	"github.com/modernizing/coca/pkg/application/refactor/unused"
)

// one `coca refactor`-style removal on dir: NewRemoveUnusedImportApp(dir).Analysis() + Refactoring(results).
// A Go panic is an observation ("PANIC"), not a harness failure: the files keep what was written before it.
func c06RunOnce(dir string) (status string) {
	defer func() {
		if r := recover(); r != nil {
			status = "PANIC"
		}
	}()
	app := unused.NewRemoveUnusedImportApp(dir)
	results := app.Analysis()
	app.Refactoring(results)
	return "ok"
}

func c06Read(dir string, rels []string) Sx {
	out := []Sx{}
	for _, r := range rels {
		b, err := os.ReadFile(filepath.Join(dir, r))
		if err != nil {
			out = append(out, A("!MISSING"))
			continue
		}
		out = append(out, A(string(b)))
	}
	return L(out...)
}

// after = orig minus some lines flagged as import lines (greedy, like the specification)
func c06OnlyImportLinesDropped(orig []string, isImp []bool, after []string) bool {
	j := 0
	for i, l := range orig {
		if j < len(after) && after[j] == l {
			j++
			continue
		}
		if i < len(isImp) && isImp[i] {
			continue
		}
		return false
	}
	return j == len(after)
}

func c06CopyTree(src, dst string, rels []string) {
	for _, r := range rels {
		b, err := os.ReadFile(filepath.Join(src, r))
		if err != nil {
			continue
		}
		p := filepath.Join(dst, r)
		os.MkdirAll(filepath.Dir(p), 0o755)
		os.WriteFile(p, b, 0o644)
	}
}

func init() {
	// (dir) -> (status): one removal in THIS process on an existing directory (used for the new-process run)
	register("C06.run", func(in Sx) Sx {
		return L(A(c06RunOnce(in.Nth(0).Str())))
	})

	// ((relpath text (import-line-flag ...)) ...) in walk order
	//   -> ((status1 (bytes ...)) (status2 (bytes ...)) (status3 (bytes ...)))
	// run 1 in this process; run 2 in this process on the result; run 2 in a new process on a copy of
	// the result of run 1.  The second runs are skipped ("SKIP") when run 1 panicked or deleted anything
	// but import lines (the files are then no longer the units the generator described).
	register("C06", func(in Sx) Sx {
		dir, err := os.MkdirTemp(os.Getenv("VERIF_SCRATCH"), "verif-c06-")
		if err != nil {
			panic(err)
		}
		defer os.RemoveAll(dir)
		rels := []string{}
		for _, f := range in.Items() {
			p := filepath.Join(dir, f.Nth(0).Str())
			os.MkdirAll(filepath.Dir(p), 0o755)
			os.WriteFile(p, []byte(f.Nth(1).Str()), 0o644)
			rels = append(rels, f.Nth(0).Str())
		}
		// every other tree: files that declare no type, sorted before all sources -- a package-info.java, a zero-byte
		// .java file, a .gitkeep; they hold no import and must not keep the files behind them from being cleaned
		if len(in.Items())%2 == 0 {
			os.MkdirAll(filepath.Join(dir, "0meta"), 0o755)
			os.WriteFile(filepath.Join(dir, "0meta", "package-info.java"), []byte("/** docs */\npackage zero.meta;\n"), 0o644)
			os.WriteFile(filepath.Join(dir, "0meta", "Blank.java"), []byte{}, 0o644)
			os.WriteFile(filepath.Join(dir, "0meta", ".gitkeep"), []byte{}, 0o644)
		}
		st1 := c06RunOnce(dir)
		r1 := c06Read(dir, rels)
		skip := st1 != "ok"
		for k, f := range in.Items() {
			flags := []bool{}
			for _, b := range f.Nth(2).Items() {
				flags = append(flags, b.Bool())
			}
			if !c06OnlyImportLinesDropped(strings.Split(f.Nth(1).Str(), "\n"), flags, strings.Split(r1.Nth(k).Str(), "\n")) {
				skip = true
			}
		}
		if skip {
			return L(L(A(st1), r1), L(A("SKIP"), L()), L(A("SKIP"), L()))
		}
		dir2, err := os.MkdirTemp(os.Getenv("VERIF_SCRATCH"), "verif-c06b-")
		if err != nil {
			panic(err)
		}
		defer os.RemoveAll(dir2)
		c06CopyTree(dir, dir2, rels)

		st2 := c06RunOnce(dir)
		r2 := c06Read(dir, rels)

		st3 := "!CHILD"
		cmd := exec.Command(os.Args[0])
		cmd.Stdin = strings.NewReader("C06.run " + L(A(dir2)).String() + "\n")
		var outb bytes.Buffer
		cmd.Stdout = &outb
		if err := cmd.Run(); err == nil {
			if v, perr := ParseSx(strings.TrimSpace(outb.String())); perr == nil {
				st3 = v.Nth(0).Str()
			}
		}
		r3 := c06Read(dir2, rels)
		return L(L(A(st1), r1), L(A(st2), r2), L(A(st3), r3))
	})
}
