package main

import (
	"bytes"
	"os"
	"os/exec"
	"strings"
	"sync"
)

func init() {
	// (op input n) -> (out_1 ... out_n): the operation executed n times, each in its own OS process
	// (every process draws its own map-iteration seeds)
	register("C08", func(in Sx) Sx {
		op := in.Nth(0).Str()
		n := in.Nth(2).Int()
		exe, err := os.Executable()
		if err != nil {
			panic(err)
		}
		line := op + " " + in.Nth(1).String() + "\n"
		outs := make([]Sx, n)
		var wg sync.WaitGroup
		for k := 0; k < n; k++ {
			wg.Add(1)
			go func(k int) {
				defer wg.Done()
				cmd := exec.Command(exe)
				cmd.Stdin = strings.NewReader(line)
				var stdout bytes.Buffer
				cmd.Stdout = &stdout
				cmd.Env = os.Environ()
				err := cmd.Run()
				text := strings.TrimSpace(stdout.String())
				if text == "" {
					msg := "no output"
					if err != nil {
						msg = panicClass(err.Error())
					}
					outs[k] = L(A("!CRASH"), A(msg))
					return
				}
				parsed, perr := ParseSx(text)
				if perr != nil {
					outs[k] = L(A("!ERR"), A("unparsable child output"))
					return
				}
				outs[k] = parsed
			}(k)
		}
		wg.Wait()
		return L(outs...)
	})
}
