package main

import (
	"encoding/json"
	"fmt"
	"os"
	"path/filepath"
	"runtime/debug"

	"github.com/antlr/antlr4/runtime/Go/antlr/v4"
	parser "github.com/modernizing/coca/languages/java"
	"github.com/modernizing/coca/pkg/application/analysis/javaapp"
	"github.com/modernizing/coca/pkg/application/api"
	"github.com/modernizing/coca/pkg/application/bs"
	"github.com/modernizing/coca/pkg/application/refactor/unused"
	"github.com/modernizing/coca/pkg/application/todo"
	"github.com/modernizing/coca/pkg/domain/core_domain"
)

type countingErrors struct {
	*antlr.DefaultErrorListener
	n     int
	first string
}

func (c *countingErrors) SyntaxError(_ antlr.Recognizer, _ interface{}, line, column int, msg string, _ antlr.RecognitionException) {
	if c.n == 0 {
		c.first = fmt.Sprintf("%d:%d %s", line, column, msg)
	}
	c.n++
}

// syntaxErrors parses the text with the grammar coca ships and reports the first syntax error ("" if none).
func syntaxErrors(text string) string {
	errs := &countingErrors{DefaultErrorListener: antlr.NewDefaultErrorListener()}
	lexer := parser.NewJavaLexer(antlr.NewInputStream(text))
	lexer.RemoveErrorListeners()
	lexer.AddErrorListener(errs)
	p := parser.NewJavaParser(antlr.NewCommonTokenStream(lexer, 0))
	p.RemoveErrorListeners()
	p.AddErrorListener(errs)
	p.CompilationUnit()
	return errs.first
}

// guarded runs one pass; the result is ("ok" n) with the number of entries, or ("panic" class).
func guarded(f func() (int, interface{})) (out Sx) {
	defer func() {
		if r := recover(); r != nil {
			if os.Getenv("VERIF_TRACE") != "" {
				fmt.Fprintf(os.Stderr, "PANIC %v\n%s\n", r, debug.Stack())
			}
			out = L(A("panic"), A(panicClass(fmt.Sprint(r))))
		}
	}()
	n, v := f()
	if _, err := json.Marshal(v); err != nil {
		return L(A("unserialisable"), A(err.Error()))
	}
	return L(A("ok"), N(n))
}

func init() {
	// ((relpath text) ...) -> ((syntax-error ...) (pass result) ...)
	register("C09", func(in Sx) Sx {
		syn := []Sx{}
		for _, f := range in.Items() {
			syn = append(syn, A(syntaxErrors(f.Nth(1).Str())))
		}
		dir := writeTree(in)
		defer os.RemoveAll(dir)
		var idents, deps []core_domain.CodeDataStruct
		res := []Sx{L(syn...)}
		res = append(res, L(A("ident"), guarded(func() (int, interface{}) {
			identApp := javaapp.NewJavaIdentifierApp()
			idents = identApp.AnalysisPath(rootArg(dir, in))
			return len(idents), idents
		})))
		res = append(res, L(A("full"), guarded(func() (int, interface{}) {
			fullApp := javaapp.NewJavaFullApp()
			deps = fullApp.AnalysisPath(rootArg(dir, in), idents)
			return len(deps), deps
		})))
		res = append(res, L(A("bs"), guarded(func() (int, interface{}) {
			app := bs.NewBadSmellApp()
			nodes := app.AnalysisPath(rootArg(dir, in))
			smells := app.IdentifyBadSmell(nodes, nil)
			return len(*nodes), smells
		})))
		res = append(res, L(A("api"), guarded(func() (int, interface{}) {
			identMap := core_domain.BuildIdentifierMap(idents)
			diMap := core_domain.BuildDIMap(idents, identMap)
			apis := new(api.JavaApiApp).AnalysisPath(rootArg(dir, in), deps, identMap, diMap)
			return len(apis), apis
		})))
		res = append(res, L(A("refactor"), guarded(func() (int, interface{}) {
			nodes := unused.NewRemoveUnusedImportApp(dir).Analysis()
			return len(nodes), nodes
		})))
		res = append(res, L(A("todo"), guarded(func() (int, interface{}) {
			todos := todo.NewTodoApp().AnalysisPath(rootArg(dir, in), []string{".java"})
			return len(todos), todos
		})))
		_ = filepath.Join
		return L(res...)
	})
}
