(* Generic driver around the extracted models: each input line is
     <entry-name> <s-expression>
   and each output line is the s-expression returned by that entry (or "!ERR ...").
   Unverified glue: the s-expression reader/printer below. *)
open All

let buf = Buffer.create 4096

let rec print_sx b = function
  | A s ->
    Buffer.add_char b '"';
    String.iter (fun c ->
      match c with
      | '"' -> Buffer.add_string b "\\\""
      | '\\' -> Buffer.add_string b "\\\\"
      | '\n' -> Buffer.add_string b "\\n"
      | '\t' -> Buffer.add_string b "\\t"
      | '\r' -> Buffer.add_string b "\\r"
      | c when Char.code c < 32 || Char.code c > 126 ->
        Buffer.add_string b (Printf.sprintf "\\x%02x" (Char.code c))
      | c -> Buffer.add_char b c) s;
    Buffer.add_char b '"'
  | L l ->
    Buffer.add_char b '(';
    List.iteri (fun i x -> if i > 0 then Buffer.add_char b ' '; print_sx b x) l;
    Buffer.add_char b ')'

exception Parse_error of string

let parse_sx (s : string) (start : int) : sx * int =
  let n = String.length s in
  let rec skip i = if i < n && (s.[i] = ' ') then skip (i + 1) else i in
  let hex c = match c with
    | '0'..'9' -> Char.code c - 48
    | 'a'..'f' -> Char.code c - 87
    | 'A'..'F' -> Char.code c - 55
    | _ -> raise (Parse_error "hex") in
  let rec value i =
    let i = skip i in
    if i >= n then raise (Parse_error "eof")
    else if s.[i] = '(' then items (i + 1) []
    else if s.[i] = '"' then begin
      let b = Buffer.create 16 in
      let rec go j =
        if j >= n then raise (Parse_error "unterminated string")
        else match s.[j] with
          | '"' -> j + 1
          | '\\' ->
            if j + 1 >= n then raise (Parse_error "bad escape");
            (match s.[j + 1] with
             | 'n' -> Buffer.add_char b '\n'; go (j + 2)
             | 't' -> Buffer.add_char b '\t'; go (j + 2)
             | 'r' -> Buffer.add_char b '\r'; go (j + 2)
             | 'x' ->
               if j + 3 >= n then raise (Parse_error "bad hex escape");
               Buffer.add_char b (Char.chr (hex s.[j + 2] * 16 + hex s.[j + 3])); go (j + 4)
             | c -> Buffer.add_char b c; go (j + 2))
          | c -> Buffer.add_char b c; go (j + 1) in
      let j = go (i + 1) in
      (A (Buffer.contents b), j)
    end
    else raise (Parse_error (Printf.sprintf "unexpected %c at %d" s.[i] i))
  and items i acc =
    let i = skip i in
    if i >= n then raise (Parse_error "unterminated list")
    else if s.[i] = ')' then (L (List.rev acc), i + 1)
    else let (v, j) = value i in items j (v :: acc) in
  value start

let () =
  try
    while true do
      let line = input_line stdin in
      if String.length line > 0 then begin
        let sp = try String.index line ' ' with Not_found -> String.length line in
        let name = String.sub line 0 sp in
        (try
           let (x, _) = parse_sx line sp in
           match dispatch name x with
           | Some y ->
             Buffer.clear buf; print_sx buf y; print_string (Buffer.contents buf); print_newline ()
           | None -> print_string ("!ERR unknown entry " ^ name); print_newline ()
         with
         | Parse_error m -> print_string ("!ERR parse " ^ m); print_newline ()
         | Stack_overflow -> print_string "!ERR stack overflow"; print_newline ())
      end
    done
  with End_of_file -> ()
