(* Driver entry points for C13. Input: (model (ident-key ...) kind (filter ...)),
   kind = "none" | "header" | "package" | "both". *)
From Coq Require Import String List Bool Arith.
From Coca Require Import Lib.Sx Lib.GoMap Lib.Str Model.CodeModel Model.Arch Model.ArchSpec.
Import ListNotations.
Open Scope list_scope.
Open Scope string_scope.

Definition sx_of_pairs (l : list (string * string)) : sx := L (map (fun p => L [A (fst p); A (snd p)]) l).
Definition pairs_of_sx (x : sx) : list (string * string) :=
  map (fun e => (sx_str (sx_nth 0 e), sx_str (sx_nth 1 e))) (sx_list x).

Definition apply_kind (kind : string) (g : fullgraph) : fullgraph :=
  if String.eqb kind "header" then merge_graph merge_header_func g
  else if String.eqb kind "package" then merge_graph merge_package_func g
  else if String.eqb kind "both" then merge_graph merge_package_func (merge_graph merge_header_func g)
  else g.

Definition c13_model (x : sx) : sx :=
  let deps := model_of_sx (sx_nth 0 x) in
  let idents := sx_strs (sx_nth 1 x) in
  let kind := sx_str (sx_nth 2 x) in
  let filters := sx_strs (sx_nth 3 x) in
  let g := analysis deps idents in
  let g2 := apply_kind kind g in
  L [sx_of_strs (mkeys (g_nodes g)); sx_of_pairs (map snd (g_rels g));
     sx_of_strs (mkeys (g_nodes g2)); sx_of_pairs (map snd (g_rels g2));
     A "1"; sx_of_strs (displayed filters g2); sx_of_pairs (drawn_edges filters g2)].

Definition c13_spec (x : sx) : sx :=
  let inp := sx_nth 0 x in
  let o := sx_nth 1 x in
  sx_of_strs (c13_verdict (model_of_sx (sx_nth 0 inp)) (sx_strs (sx_nth 1 inp)) (sx_str (sx_nth 2 inp))
                          (sx_strs (sx_nth 3 inp))
                          (sx_strs (sx_nth 0 o)) (pairs_of_sx (sx_nth 1 o))
                          (sx_strs (sx_nth 2 o)) (pairs_of_sx (sx_nth 3 o))
                          (sx_bool (sx_nth 4 o)) (sx_strs (sx_nth 5 o)) (pairs_of_sx (sx_nth 6 o))).

(* the fan table of the package-merged graph: (name fan-in fan-out total) *)
Definition c13_fan_model (x : sx) : sx :=
  let g := analysis (model_of_sx (sx_nth 0 x)) (sx_strs (sx_nth 1 x)) in
  L (map (fun r => L [A (fst (fst r)); sx_of_nat (snd (fst r)); sx_of_nat (snd r); sx_of_nat (fan_total r)])
         (sorted_by_fan merge_package_func g)).

Definition entries : list entry := [("C13.model", c13_model); ("C13.spec", c13_spec); ("C13.fan", c13_fan_model)].
