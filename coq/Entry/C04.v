(* Driver entry points for C04. Input: (model (target ...)) -- the targets are queried
   one after the other in one process starting from the initial globals. *)
From Coq Require Import String List Bool Arith.
From Coca Require Import Lib.Sx Lib.GoMap Lib.Dot Model.CodeModel Model.RCall Model.RCallSpec.
Import ListNotations.
Open Scope list_scope.
Open Scope string_scope.

Definition sx_of_rmap (mm : gomap (list string)) : sx :=
  L (map (fun kv => L [A (fst kv); sx_of_strs (snd kv)]) mm).
Definition rmap_of_sx (x : sx) : gomap (list string) :=
  map (fun e => (sx_str (sx_nth 0 e), sx_strs (sx_nth 1 e))) (sx_list x).

Definition c04_model (x : sx) : sx :=
  let m := model_of_sx (sx_nth 0 x) in
  let targets := sx_strs (sx_nth 1 x) in
  L (map (fun o => L [sx_of_rmap (fst o); A (snd o)])
         (ranalysis_history rstate0 (map (fun t => (t, m)) targets))).

(* (input observed) -> per query, the failing clauses *)
Definition c04_spec (x : sx) : sx :=
  let inp := sx_nth 0 x in
  let m := model_of_sx (sx_nth 0 inp) in
  let targets := sx_strs (sx_nth 1 inp) in
  let outs := sx_list (sx_nth 1 x) in
  L (map (fun to => sx_of_strs (c04_verdict m (fst to) (rmap_of_sx (sx_nth 0 (snd to)))
                                            (sx_str (sx_nth 1 (snd to)))))
         (combine targets outs)).

Definition entries : list entry := [("C04.model", c04_model); ("C04.spec", c04_spec)].
