(* Driver entry points for C11. Input: (files expectations): files as for C01. *)
From Coq Require Import String List Bool Arith.
From Coca Require Import Lib.Sx Lib.GoMap Lib.Str Model.CodeModel Model.JavaFull Model.JavaIdent
     Model.JavaFactsCodec Model.JavaSelect Model.Tbs Model.TbsSpec Entry.C01.
Import ListNotations.
Open Scope list_scope.
Open Scope string_scope.

Definition atom_of_sx (x : sx) : atom :=
  let k := sx_str (sx_nth 0 x) in
  if String.eqb k "print" then APrint (sx_nat (sx_nth 1 x))
  else if String.eqb k "sleep" then ASleep (sx_nat (sx_nth 1 x))
  else if String.eqb k "redundant" then ARedundant (sx_bool (sx_nth 1 x)) (sx_str (sx_nth 2 x))
  else if String.eqb k "assert" then AAssert (sx_str (sx_nth 1 x))
  else if String.eqb k "helper" then AHelper (sx_bool (sx_nth 1 x))
  else if String.eqb k "new" then ANew
  else ACall.

Definition xtfile_of_sx (x : sx) : xtfile :=
  mkXTF (sx_str (sx_nth 0 x)) (sx_bool (sx_nth 1 x))
        (map (fun m => mkXT (sx_str (sx_nth 0 m)) (sx_nat (sx_nth 1 m)) (sx_bool (sx_nth 2 m)) (sx_bool (sx_nth 3 m))
                            (map atom_of_sx (sx_list (sx_nth 4 m)))) (sx_list (sx_nth 2 x))).

(* cmd/tbs.go: test files -> identifier pass -> full pass -> TbsApp.AnalysisPath *)
Definition run_tbs (files : list (string * bool * junit)) : list tsmell :=
  let selected := get_files_with_filter java_test_file_filter (map fst files) in
  let units := map snd (List.filter (fun f => str_mem (fst (fst f)) selected) files) in
  let idents := snd (ident_files istate0 units) in
  let names := map ds_full_name idents in
  tbs_analysis (snd (analysis_files fstate0 names units)).

Definition sx_of_tsmell (t : tsmell) : sx := L [A (t_type t); A (t_file t); sx_of_nat (t_line t)].
Definition tsmell_of_sx (x : sx) : tsmell := mkT (sx_str (sx_nth 1 x)) (sx_str (sx_nth 0 x)) (sx_nat (sx_nth 2 x)).

Definition c11_model (x : sx) : sx :=
  L (map sx_of_tsmell (run_tbs (map file_of_sx (sx_list (sx_nth 0 x))))).

Definition c11_spec (x : sx) : sx :=
  let inp := sx_nth 0 x in
  sx_of_strs (c11_verdict (map xtfile_of_sx (sx_list (sx_nth 1 inp))) (map tsmell_of_sx (sx_list (sx_nth 1 x)))).

Definition entries : list entry := [("C11.model", c11_model); ("C11.spec", c11_spec)].
