(* Driver entry points for C07. Input: (files runs).
   files: ((path kind key fact) ...)  kind = main (unit facts) | bs (bad-smell facts) | api (API facts)
   runs:  ((kind (index ...)) ...)    kind = ident | full | bs | api  (indices into files), or (call ..) / (rcall ..)
   All runs happen in one process, one after the other, after an identifier pass over all main files
   whose result is the identifier set of every full-pass run. *)
From Coq Require Import String List Bool Arith.
From Coca Require Import Lib.Sx Lib.GoMap Lib.Str Model.CodeModel Model.JavaFull Model.JavaFactsCodec Model.JavaIdent
     Model.ApiScan Model.BadSmell Entry.C10 Entry.C12.
Import ListNotations.
Open Scope list_scope.
Open Scope string_scope.

Record pstate := mkPS { ps_i : istate; ps_f : fstate; ps_a : astate }.

Definition pick {A : Type} (l : list A) (idxs : list nat) : list A :=
  flat_map (fun i => match nth_error l i with Some x => [x] | None => [] end) idxs.

(* entries are listed with the key of the file they belong to *)
Definition keyed_model (m : list ds) : sx := L (map (fun d => L [A (ds_full_name d); sx_of_ds d]) m).

Definition run_one (files : list sx) (names0 : list string) (st : pstate) (r : sx) : pstate * sx :=
  let k := sx_str (sx_nth 0 r) in
  let sel := pick files (map sx_nat (sx_list (sx_nth 1 r))) in
  let facts := map (fun f => sx_nth 3 f) sel in
  if String.eqb k "ident" then
    let '(s', out) := ident_files (ps_i st) (map unit_of_sx facts) in
    (mkPS s' (ps_f st) (ps_a st), keyed_model out)
  else if String.eqb k "full" then
    let '(s', out) := analysis_files (ps_f st) names0 (map unit_of_sx facts) in
    (mkPS (ps_i st) s' (ps_a st), keyed_model out)
  else if String.eqb k "bs" then
    (st, L (map (fun s => L [A (sm_file s); sx_of_smell s]) (identify_bad_smell (map bn_of_sx facts) [])))
  else if String.eqb k "api" then
    match api_files (ps_a st) (map aunit_of_sx facts) with
    | Some (s', out) => (mkPS (ps_i st) (ps_f st) s', L (map (fun r => L [A (r_pkg r ++ "." ++ r_class r); sx_of_rest r]) out))
    | None => (st, L [A "!PANIC"; A "slice bounds out of range"])
    end
  else (st, A "skip").

Fixpoint run_all (files : list sx) (names0 : list string) (st : pstate) (rs : list sx) : list sx :=
  match rs with
  | [] => []
  | r :: rest => let '(st', o) := run_one files names0 st r in o :: run_all files names0 st' rest
  end.

Definition c07_model (x : sx) : sx :=
  let files := sx_list (sx_nth 0 x) in
  let mains := filter (fun f => String.eqb (sx_str (sx_nth 1 f)) "main") files in
  let '(i1, idents0) := ident_files istate0 (map (fun f => unit_of_sx (sx_nth 3 f)) mains) in
  let names0 := map ds_full_name idents0 in
  L (run_all files names0 (mkPS i1 fstate0 astate0) (sx_list (sx_nth 1 x))).

(* ---- the decider, over the implementation's output only ----
   observed: per run, a list of (file-key entry) pairs, in processing order.  For every kind of pass,
   the entries attributed to one file must be the same in every run that processed the file, and a
   run must yield entries for the files it processed only. *)
Fixpoint sx_eqb (a b : sx) {struct a} : bool :=
  match a, b with
  | A s, A t => String.eqb s t
  | L l, L m =>
    (fix go (l : list sx) (m : list sx) : bool :=
       match l, m with
       | [], [] => true
       | x :: l', y :: m' => sx_eqb x y && go l' m'
       | _, _ => false
       end) l m
  | _, _ => false
  end.

Definition entries_of (key : string) (out : sx) : list sx :=
  map (fun p => sx_nth 1 p) (filter (fun p => String.eqb (sx_str (sx_nth 0 p)) key) (sx_list out)).

Definition run_kind (r : sx) : string := sx_str (sx_nth 0 r).
Definition run_keys (files : list sx) (r : sx) : list string :=
  map (fun f => sx_str (sx_nth 2 f)) (pick files (map sx_nat (sx_list (sx_nth 1 r)))).

(* first run of the same kind that processed the file: its entries are the reference *)
Fixpoint reference (files : list sx) (kind key : string) (runs outs : list sx) : option (list sx) :=
  match runs, outs with
  | r :: rs, o :: os =>
    if String.eqb (run_kind r) kind && str_mem key (run_keys files r) then Some (entries_of key o)
    else reference files kind key rs os
  | _, _ => None
  end.

Definition crashed (o : sx) : bool :=
  match o with L (A t :: _) => has_prefix "!" t | A t => has_prefix "!" t | _ => false end.

Definition c07_verdict (files runs outs : list sx) : list string :=
  let file_kinds := ["ident"; "full"; "fullw"; "bs"; "api"] in
  ((if existsb crashed outs then ["crash"] else []) ++
  flat_map (fun ro =>
              let r := fst ro in let o := snd ro in
              let kind := run_kind r in
              if negb (str_mem kind file_kinds) then [] else
              let keys := run_keys files r in
              ((if forallb (fun p => str_mem (sx_str (sx_nth 0 p)) keys) (sx_list o) then [] else [(kind ++ "_foreign_entry")%string]) ++
              flat_map (fun key =>
                          match reference files kind key runs outs with
                          | Some ref => if sx_eqb (L ref) (L (entries_of key o)) then [] else [(kind ++ "_entry_differs")%string]
                          | None => []
                          end) keys)%list)
           (combine runs outs) ++
  (* call / rcall: the same query gives the same graph every time *)
  flat_map (fun ro =>
              let r := fst ro in let o := snd ro in
              if String.eqb (run_kind r) "call" || String.eqb (run_kind r) "rcall" then
                match find (fun ro' => sx_eqb (fst ro') r) (combine runs outs) with
                | Some ro' => if sx_eqb (snd ro') o then [] else [(run_kind r ++ "_graph_differs")%string]
                | None => []
                end
              else [])
           (combine runs outs))%list.

Definition c07_spec (x : sx) : sx :=
  let inp := sx_nth 0 x in
  sx_of_strs (c07_verdict (sx_list (sx_nth 0 inp)) (sx_list (sx_nth 1 inp)) (sx_list (sx_nth 1 x))).

Definition entries : list entry := [("C07.model", c07_model); ("C07.spec", c07_spec)].
