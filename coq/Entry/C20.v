(* Driver entry points for C20.  Input: ("go" gfile) or ("py" pmodule), see the codecs below;
   the generators (tools/props/C20.py) render the same abstract value to source text for
   the real front-ends.  Output: the projection harness/c20.go returns. *)
From Coq Require Import String List Bool Arith.
From Coca Require Import Lib.Sx Lib.Str Model.GoFront Model.PyFront Model.FrontSpec.
Import ListNotations.
Open Scope list_scope.
Open Scope string_scope.

(* ------------------------------------------------------------------ Go: abstract file codec *)
Definition gtype_of_sx (x : sx) : gtype :=
  let k := sx_str (sx_nth 0 x) in
  if String.eqb k "id" then TId (sx_str (sx_nth 1 x))
  else if String.eqb k "star" then TStar (sx_str (sx_nth 1 x))
  else if String.eqb k "sel" then TSel (sx_str (sx_nth 1 x)) (sx_str (sx_nth 2 x))
  else if String.eqb k "starsel" then TStarSel (sx_str (sx_nth 1 x)) (sx_str (sx_nth 2 x))
  else if String.eqb k "arr" then TArr (sx_str (sx_nth 1 x))
  else if String.eqb k "arrsel" then TArrSel (sx_str (sx_nth 1 x)) (sx_str (sx_nth 2 x))
  else if String.eqb k "inline" then TInline
  else TEmpty.

Definition gparam_of_sx (x : sx) : gparam := mkGParam (sx_strs (sx_nth 0 x)) (gtype_of_sx (sx_nth 1 x)).
Definition gparams_of_sx (x : sx) : list gparam := map gparam_of_sx (sx_list x).

Definition gatom_of_sx (x : sx) : gatom :=
  let k := sx_str (sx_nth 0 x) in
  if String.eqb k "id" then AId (sx_str (sx_nth 1 x))
  else if String.eqb k "str" then AStr (sx_str (sx_nth 1 x))
  else if String.eqb k "int" then AInt (sx_str (sx_nth 1 x))
  else ASel (sx_str (sx_nth 1 x)) (sx_str (sx_nth 2 x)).

(* (x f (atom ...)) *)
Definition gcall_of_sx (x : sx) : gcall :=
  mkGCall (sx_str (sx_nth 0 x)) (sx_str (sx_nth 1 x)) (map gatom_of_sx (sx_list (sx_nth 2 x))).

(* ("call" x f (atom ...)) or an atom *)
Definition gexpr_of_sx (x : sx) : gexpr :=
  if String.eqb (sx_str (sx_nth 0 x)) "call"
  then XCall (mkGCall (sx_str (sx_nth 1 x)) (sx_str (sx_nth 2 x)) (map gatom_of_sx (sx_list (sx_nth 3 x))))
  else XAtom (gatom_of_sx x).

Definition glhs_of_sx (x : sx) : glhs :=
  if String.eqb (sx_str (sx_nth 0 x)) "id" then LId (sx_str (sx_nth 1 x))
  else LSel (sx_str (sx_nth 1 x)) (sx_str (sx_nth 2 x)).

(* ("if" (stmt ...) (stmt ...) hint) : hint ("none" | "block" | "elseif") only tells the renderer how
   to write the else branch; ("block" (stmt ...)).  The fuel bounds the nesting depth. *)
Fixpoint gstmt_of_sx (fuel : nat) (x : sx) : gstmt :=
  match fuel with
  | 0 => SBlock []
  | S f =>
    let k := sx_str (sx_nth 0 x) in
    if String.eqb k "expr" then SExpr (gcall_of_sx (sx_nth 1 x))
    else if String.eqb k "defer" then SDefer (gcall_of_sx (sx_nth 1 x))
    else if String.eqb k "assign" then
      SAssign (map glhs_of_sx (sx_list (sx_nth 1 x))) (map gexpr_of_sx (sx_list (sx_nth 2 x)))
    else if String.eqb k "return" then SReturn (map gexpr_of_sx (sx_list (sx_nth 1 x)))
    else if String.eqb k "calllit" then
      SCallLit (gcall_of_sx (sx_nth 1 x)) (map (gstmt_of_sx f) (sx_list (sx_nth 2 x)))
    else if String.eqb k "if" then
      SIf (map (gstmt_of_sx f) (sx_list (sx_nth 1 x))) (map (gstmt_of_sx f) (sx_list (sx_nth 2 x)))
    else SBlock (map (gstmt_of_sx f) (sx_list (sx_nth 1 x)))
  end.

Definition grecv_of_sx (x : sx) : option grecv :=
  match sx_list x with
  | [] => None
  | _ => Some (mkGRecv (sx_str (sx_nth 0 x)) (sx_str (sx_nth 1 x)) (sx_bool (sx_nth 2 x)))
  end.

Definition gimethod_of_sx (x : sx) : gimethod :=
  mkGIM (sx_str (sx_nth 0 x)) (gparams_of_sx (sx_nth 1 x)) (gparams_of_sx (sx_nth 2 x)).

Definition gdecl_of_sx (x : sx) : gdecl :=
  let k := sx_str (sx_nth 0 x) in
  if String.eqb k "struct" then DStruct (sx_str (sx_nth 1 x)) (gparams_of_sx (sx_nth 2 x))
  else if String.eqb k "iface" then DIface (sx_str (sx_nth 1 x)) (map gimethod_of_sx (sx_list (sx_nth 2 x)))
  else if String.eqb k "type" then DType (sx_str (sx_nth 1 x)) (gtype_of_sx (sx_nth 2 x))
  else DFunc (grecv_of_sx (sx_nth 1 x)) (sx_str (sx_nth 2 x))
             (gparams_of_sx (sx_nth 3 x)) (gparams_of_sx (sx_nth 4 x))
             (if sx_bool (sx_nth 5 x) then Some (map (gstmt_of_sx 32) (sx_list (sx_nth 6 x))) else None).

Definition gfile_of_sx (x : sx) : gfile :=
  mkGFile (sx_str (sx_nth 0 x))
          (map (fun i => (sx_str (sx_nth 0 i), sx_str (sx_nth 1 i))) (sx_list (sx_nth 1 x)))
          (map gdecl_of_sx (sx_list (sx_nth 2 x))).

(* ------------------------------------------------------------------ Go: projection codec *)
Definition sx_of_p3 (p : p3) : sx := L [A (p3_name p); A (p3_tt p); A (p3_tv p)].
Definition p3_of_sx (x : sx) : p3 := (sx_str (sx_nth 0 x), sx_str (sx_nth 1 x), sx_str (sx_nth 2 x)).

Definition sx_of_oprop (p : oprop) : sx :=
  L [A (op_name p); A (op_tt p); A (op_tv p); L (map sx_of_p3 (op_params p)); L (map sx_of_p3 (op_results p))].
Definition oprop_of_sx (x : sx) : oprop :=
  mkOProp (sx_str (sx_nth 0 x)) (sx_str (sx_nth 1 x)) (sx_str (sx_nth 2 x))
          (map p3_of_sx (sx_list (sx_nth 3 x))) (map p3_of_sx (sx_list (sx_nth 4 x))).

Definition sx_of_ocall (c : ocall) : sx := L [A (oc_pkg c); A (oc_type c); A (oc_node c); A (oc_fn c)].
Definition ocall_of_sx (x : sx) : ocall :=
  mkOCall (sx_str (sx_nth 0 x)) (sx_str (sx_nth 1 x)) (sx_str (sx_nth 2 x)) (sx_str (sx_nth 3 x)).

Definition sx_of_ofunc (f : ofunc) : sx :=
  L [A (of_name f); L (map sx_of_p3 (of_params f)); L (map sx_of_p3 (of_returns f));
     L (map sx_of_ocall (of_calls f))].
Definition ofunc_of_sx (x : sx) : ofunc :=
  mkOFunc (sx_str (sx_nth 0 x)) (map p3_of_sx (sx_list (sx_nth 1 x))) (map p3_of_sx (sx_list (sx_nth 2 x)))
          (map ocall_of_sx (sx_list (sx_nth 3 x))).

Definition sx_of_pair (p : string * string) : sx := L [A (fst p); A (snd p)].
Definition pair_of_sx (x : sx) : string * string := (sx_str (sx_nth 0 x), sx_str (sx_nth 1 x)).

Definition sx_of_ods (d : ods) : sx :=
  L [A (od_name d); A (od_pkg d); L (map sx_of_oprop (od_props d)); L (map sx_of_ofunc (od_funcs d));
     L (map sx_of_pair (od_fcalls d))].
Definition ods_of_sx (x : sx) : ods :=
  mkODs (sx_str (sx_nth 0 x)) (sx_str (sx_nth 1 x)) (map oprop_of_sx (sx_list (sx_nth 2 x)))
        (map ofunc_of_sx (sx_list (sx_nth 3 x))) (map pair_of_sx (sx_list (sx_nth 4 x))).

Definition sx_of_omember (m : omember) : sx :=
  L [A (om_dsid m); A (om_type m); L (map sx_of_ofunc (om_funcs m))].
Definition omember_of_sx (x : sx) : omember :=
  mkOMember (sx_str (sx_nth 0 x)) (sx_str (sx_nth 1 x)) (map ofunc_of_sx (sx_list (sx_nth 2 x))).

Definition sx_of_gresult (r : gresult) : sx :=
  match r with
  | GPanic c => L [A "PANIC"; A c]
  | GOk o => L [A "ok"; A (o_pkg o); L (map sx_of_pair (o_imports o)); L (map sx_of_ods (o_dss o));
                L (map sx_of_omember (o_members o))]
  end.
Definition gresult_of_sx (x : sx) : gresult :=
  if String.eqb (sx_str (sx_nth 0 x)) "ok" then
    GOk (mkOFile (sx_str (sx_nth 1 x)) (map pair_of_sx (sx_list (sx_nth 2 x)))
                 (map ods_of_sx (sx_list (sx_nth 3 x))) (map omember_of_sx (sx_list (sx_nth 4 x))))
  else GPanic (sx_str (sx_nth 1 x)).

(* ------------------------------------------------------------------ Python codecs *)
Definition pdeco_of_sx (x : sx) : pdeco := (sx_str (sx_nth 0 x), sx_strs (sx_nth 1 x)).
Definition sx_of_pdeco (d : pdeco) : sx := L [A (fst d); sx_of_strs (snd d)].

(* (is_class (deco ...) name (node ...)) ; the fuel bounds the nesting depth *)
Fixpoint pnode_of_sx (fuel : nat) (x : sx) : pnode :=
  match fuel with
  | 0 => PNode false [] "" []
  | S f =>
    PNode (sx_bool (sx_nth 0 x)) (map pdeco_of_sx (sx_list (sx_nth 1 x))) (sx_str (sx_nth 2 x))
          (map (pnode_of_sx f) (sx_list (sx_nth 3 x)))
  end.

Definition pitem_of_sx (x : sx) : pitem :=
  let k := sx_str (sx_nth 0 x) in
  if String.eqb k "import" then PImport (map pair_of_sx (sx_list (sx_nth 1 x)))
  else if String.eqb k "from" then
    PFrom (sx_str (sx_nth 1 x)) (map pair_of_sx (sx_list (sx_nth 2 x))) (sx_bool (sx_nth 3 x))
  else PDecl (pnode_of_sx 64 (sx_nth 1 x)).

Definition pmodule_of_sx (x : sx) : pmodule := map pitem_of_sx (sx_list x).

Definition sx_of_pfunc (f : pfunc) : sx := L [A (fst f); L (map sx_of_pdeco (snd f))].
Definition pfunc_of_sx (x : sx) : pfunc := (sx_str (sx_nth 0 x), map pdeco_of_sx (sx_list (sx_nth 1 x))).

Definition sx_of_presult (r : presult) : sx :=
  match r with
  | PPanic c => L [A "PANIC"; A c]
  | POk o =>
    L [A "ok";
       L (map (fun i => L [A (fst i); sx_of_strs (snd i)]) (pf_imports o));
       L (map (fun c => L [A (pc_name c); L (map sx_of_pdeco (pc_decos c)); L (map sx_of_pfunc (pc_funcs c))])
              (pf_classes o));
       L (map (fun m => L [A (fst m); L (map sx_of_pfunc (snd m))]) (pf_members o))]
  end.
Definition presult_of_sx (x : sx) : presult :=
  if String.eqb (sx_str (sx_nth 0 x)) "ok" then
    POk (mkPFile (map (fun i => (sx_str (sx_nth 0 i), sx_strs (sx_nth 1 i))) (sx_list (sx_nth 1 x)))
                 (map (fun c => (sx_str (sx_nth 0 c), map pdeco_of_sx (sx_list (sx_nth 1 c)),
                                 map pfunc_of_sx (sx_list (sx_nth 2 c)))) (sx_list (sx_nth 2 x)))
                 (map (fun m => (sx_str (sx_nth 0 m), map pfunc_of_sx (sx_list (sx_nth 1 m))))
                      (sx_list (sx_nth 3 x))))
  else PPanic (sx_str (sx_nth 1 x)).

(* ------------------------------------------------------------------ entries *)
Definition sx_of_common (r : option (list (string * list string))) : sx :=
  match r with
  | None => L [A "PANIC"; A "nil pointer dereference"]
  | Some l => L [A "ok"; L (map (fun e => L [A (fst e); sx_of_strs (snd e)]) l)]
  end.
Definition common_of_sx (x : sx) : option (list (string * list string)) :=
  if String.eqb (sx_str (sx_nth 0 x)) "ok"
  then Some (map (fun e => (sx_str (sx_nth 0 e), sx_strs (sx_nth 1 e))) (sx_list (sx_nth 1 x)))
  else None.

(* modes: "go" / "py" = one file through GoIdentApp / PythonIdentApp .Analysis;
          "go-common" / "py-common" = the same file in a directory through analysis.CommonAnalysis *)
Definition c20_model (x : sx) : sx :=
  let mode := sx_str (sx_nth 0 x) in
  if String.eqb mode "go" then sx_of_gresult (go_front (gfile_of_sx (sx_nth 1 x)))
  else if String.eqb mode "py" then sx_of_presult (py_front (pmodule_of_sx (sx_nth 1 x)))
  else if String.eqb mode "go-common" then sx_of_common (go_common (go_front (gfile_of_sx (sx_nth 1 x))))
  else sx_of_common (py_common (py_front (pmodule_of_sx (sx_nth 1 x)))).

(* (input observed) -> failing clauses *)
Definition c20_spec (x : sx) : sx :=
  let inp := sx_nth 0 x in
  let o := sx_nth 1 x in
  let mode := sx_str (sx_nth 0 inp) in
  if String.eqb mode "go" then sx_of_strs (go_verdict (gfile_of_sx (sx_nth 1 inp)) (gresult_of_sx o))
  else if String.eqb mode "py" then sx_of_strs (py_verdict (pmodule_of_sx (sx_nth 1 inp)) (presult_of_sx o))
  else if String.eqb mode "go-common" then
    sx_of_strs (match common_of_sx o with
                | None => common_verdict false true
                | Some l => common_verdict (go_common_ok (gfile_of_sx (sx_nth 1 inp)) l) false end)
  else
    sx_of_strs (match common_of_sx o with
                | None => common_verdict false true
                | Some l => common_verdict (py_common_ok (pmodule_of_sx (sx_nth 1 inp)) l) false end).

Definition entries : list entry := [("C20.model", c20_model); ("C20.spec", c20_spec)].
