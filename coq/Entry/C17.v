(* Driver entry points for C17.
   Input:    (exts ((name kind ((item-kind body) ...) text) ...))   kind: f = file, d = directory
   Observed: (status ((file line assignee message) ...))            status: ok | panic:<class> *)
From Coq Require Import String List Bool Arith.
From Coca Require Import Lib.Sx Lib.Str Model.Todo Model.TodoSpec.
Import ListNotations.
Open Scope list_scope.
Open Scope string_scope.

Definition ikind_of (s : string) : ikind :=
  if String.eqb s "str" then IStr
  else if String.eqb s "tpl" then ITpl
  else if String.eqb s "chr" then IChr
  else if String.eqb s "sq" then ISq
  else if String.eqb s "line" then ILine
  else if String.eqb s "block" then IBlock
  else if String.eqb s "ublock" then IUBlock
  else if String.eqb s "hash" then IHash
  else ICode.

Definition item_of_sx (x : sx) : item := mkItem (ikind_of (sx_str (sx_nth 0 x))) (sx_str (sx_nth 1 x)).

Definition afile_of_sx (x : sx) : afile :=
  mkAFile (sx_str (sx_nth 0 x)) (String.eqb (sx_str (sx_nth 1 x)) "d")
          (map item_of_sx (sx_list (sx_nth 2 x))) (sx_str (sx_nth 3 x)).

Definition fentry_of_sx (x : sx) : fentry :=
  mkEntry (sx_str (sx_nth 0 x)) (String.eqb (sx_str (sx_nth 1 x)) "d") (sx_str (sx_nth 3 x)).

Definition sx_of_todo (t : todo) : sx :=
  L [A (td_file t); sx_of_nat (td_line t); A (td_assignee t); A (td_message t)].

Definition c17_model (x : sx) : sx :=
  match analysis_path (sx_strs (sx_nth 0 x)) (map fentry_of_sx (sx_list (sx_nth 1 x))) with
  | Report l => L [A "ok"; L (map sx_of_todo l)]
  | Crash w => L [A ("panic:" ++ w); L []]
  end.

Definition orow_of_sx (x : sx) : orow :=
  mkRow (sx_str (sx_nth 0 x)) (sx_nat (sx_nth 1 x)) (sx_str (sx_nth 2 x)) (sx_str (sx_nth 3 x)).

Definition c17_spec (x : sx) : sx :=
  let inp := sx_nth 0 x in
  let o := sx_nth 1 x in
  sx_of_strs (c17_verdict (sx_strs (sx_nth 0 inp)) (map afile_of_sx (sx_list (sx_nth 1 inp)))
                          (negb (String.eqb (sx_str (sx_nth 0 o)) "ok"))
                          (map orow_of_sx (sx_list (sx_nth 1 o)))).

(* does the case satisfy the hypotheses of the theorems (every file well-formed, no directory selected) *)
Definition c17_wf (x : sx) : sx :=
  sx_of_bool (case_ok (sx_strs (sx_nth 0 x)) (map afile_of_sx (sx_list (sx_nth 1 x)))).

Definition entries : list entry := [("C17.model", c17_model); ("C17.spec", c17_spec); ("C17.wf", c17_wf)].
