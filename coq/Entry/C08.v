(* Driver entry points for C08. Input: (report inner-input).  The implementation side runs the report's
   harness operation N times, each in its own OS process; the observation is the list of the N outputs. *)
From Coq Require Import String List Bool Arith.
From Coca Require Import Lib.Sx Lib.Str Lib.Shape
     Entry.C01 Entry.C03 Entry.C04 Entry.C07 Entry.C10 Entry.C11 Entry.C12 Entry.C13 Entry.C15 Entry.C16 Entry.C18 Entry.C20.
Import ListNotations.
Open Scope list_scope.
Open Scope string_scope.

(* a type entry: the order of the functions comes out of a Go map *)
Definition ds_shape : shape :=
  STuple [SExact; SExact; SExact; SExact; SExact; SExact; SExact; SBag SExact; SExact; SExact; SExact].

Definition shape_of (report : string) : shape :=
  if String.eqb report "C01" then STuple [SList ds_shape; SList ds_shape]           (* code model *)
  else if String.eqb report "C03" then SList (STuple [SLines; SExact])               (* call graph: edge set *)
  else if String.eqb report "C04" then SList (STuple [SList (STuple [SExact; SBag SExact]); SLines])
  else if String.eqb report "C10" then                                               (* bad smells; -s type groups *)
    STuple [SBag SExact; SList (STuple [SExact; SSortedBy 4 SExact])]
  else if String.eqb report "C11" then SBag SExact                                   (* test smells *)
  else if String.eqb report "C12" then SBag SExact                                   (* API list *)
  else if String.eqb report "C13" then                                               (* architecture nodes / edges *)
    STuple [SBag SExact; SBag SExact; SBag SExact; SBag SExact; SExact; SBag SExact; SBag SExact]
  else if String.eqb report "C13fan" then SSortedBy 3 SExact                         (* fan table: by total, descending *)
  else if String.eqb report "C15" then                                               (* git summaries: sorted tables *)
    STuple [SSortedBy 2 SExact; SSortedBy 1 SExact; SSortedBy 1 SExact; SExact; SDeepBag]
  else if String.eqb report "C16" then SDeepBag                                      (* line counts per directory *)
  else if String.eqb report "C18" then                                               (* counts, summary, concepts *)
    STuple [SList SExact; STuple [SExact; SExact; SExact; SExact; SBag SExact]; SList SExact]
  else SDeepBag.                                                                     (* C20: Go / Python models *)

Definition model_of (report : string) : sx -> sx :=
  if String.eqb report "C01" then c01_model
  else if String.eqb report "C03" then c03_model
  else if String.eqb report "C04" then c04_model
  else if String.eqb report "C10" then c10_model
  else if String.eqb report "C11" then c11_model
  else if String.eqb report "C12" then c12_model
  else if String.eqb report "C13" then c13_model
  else if String.eqb report "C13fan" then c13_fan_model
  else if String.eqb report "C15" then c15_model
  else if String.eqb report "C16" then c16_model
  else if String.eqb report "C18" then c18_model
  else if String.eqb report "C18svc" then (fun _ => A "no-model")
  else if String.eqb report "C07" then c07_model
  else c20_model.

Definition c08_model (x : sx) : sx := model_of (sx_str (sx_nth 0 x)) (sx_nth 1 x).

Definition is_crash (o : sx) : bool :=
  match o with L (A t :: _) => has_prefix "!" t | _ => false end.

(* every run has the normal form of the first one *)
Definition c08_verdict (sh : shape) (runs : list sx) : list string :=
  match runs with
  | [] => ["no_runs"]
  | r0 :: rest =>
    ((if existsb is_crash runs then ["crash"] else []) ++
     (if forallb (fun r => String.eqb (nf sh r) (nf sh r0)) rest then [] else ["runs_differ"]))%list
  end.

Definition c08_spec (x : sx) : sx :=
  let inp := sx_nth 0 x in
  sx_of_strs (c08_verdict (shape_of (sx_str (sx_nth 0 inp))) (sx_list (sx_nth 1 x))).

Definition entries : list entry := [("C08.model", c08_model); ("C08.spec", c08_spec)].
