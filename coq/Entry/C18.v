(* Driver entry points for C18. Input: files as for C01 (all selected). *)
From Coq Require Import String List Bool Arith.
From Coca Require Import Lib.Sx Lib.GoMap Lib.Str Model.CodeModel Model.JavaFull Model.JavaIdent
     Model.JavaFactsCodec Model.JavaSelect Model.Evaluate Model.EvaluateSpec Entry.C01.
Import ListNotations.
Open Scope list_scope.
Open Scope string_scope.

Definition sx_of_counts (l : list (string * nat)) : sx := L (map (fun kv => L [A (fst kv); sx_of_nat (snd kv)]) l).
Definition counts_of_sx (x : sx) : list (string * nat) :=
  map (fun kv => (sx_str (sx_nth 0 kv), sx_nat (sx_nth 1 kv))) (sx_list x).

(* input: ("count" code-model) | ("java" files) *)
Definition c18_model (x : sx) : sx :=
  if String.eqb (sx_str (sx_nth 0 x)) "count" then
    sx_of_counts (count_report (model_of_sx (sx_nth 1 x)))
  else
  let '(idents, deps) := run_passes (map file_of_sx (sx_list (sx_nth 1 x))) in
  let e := evaluate deps idents in
  L [sx_of_counts (count_report deps);
     L [sx_of_nat (es_classes e); sx_of_nat (es_methods e); sx_of_nat (es_static e); sx_of_nat (es_utils e);
        sx_of_strs (es_nullable e)];
     sx_of_counts (concept_analysis deps)].

Definition c18_spec (x : sx) : sx :=
  let inp := sx_nth 0 x in
  let o := sx_nth 1 x in
  if String.eqb (sx_str (sx_nth 0 inp)) "count" then
    sx_of_strs (count_verdict (model_of_sx (sx_nth 1 inp)) (counts_of_sx o))
  else
  let files := map file_of_sx (sx_list (sx_nth 1 inp)) in
  let units := map snd files in
  let s := sx_nth 1 o in
  sx_of_strs (summary_verdict units (mkES (sx_nat (sx_nth 0 s)) (sx_nat (sx_nth 1 s)) (sx_nat (sx_nth 2 s))
                                          (sx_nat (sx_nth 3 s)) (sx_strs (sx_nth 4 s))) ++
              concept_verdict units (counts_of_sx (sx_nth 2 o)))%list.

Definition entries : list entry := [("C18.model", c18_model); ("C18.spec", c18_spec)].
