(* Driver entry points for C06.
   Input: (files afiles)
     files  = ((path pkg ((text ((qname star static) ...)) ...) ((role text) ...)) ...)   in filepath.Walk order
     afiles = ((path (line ...) ((text ((kind simple) ...)) ...) ((role name) ...) (mention ...)) ...)
   Output of the model / the harness: ((status (bytes ...)) (status (bytes ...)) (status (bytes ...)))
     = first run, second run in the same process, second run in a new process. *)
From Coq Require Import String List Bool Arith.
From Coca Require Import Lib.Sx Lib.Str Lib.GoMap Model.UnusedImport Model.UnusedImportSpec Model.UnusedImportFacts.
Import ListNotations.
Open Scope list_scope.
Open Scope string_scope.

Definition imp_of_sx (x : sx) : impfact :=
  mkIF (sx_str (sx_nth 0 x)) (sx_bool (sx_nth 1 x)) (sx_bool (sx_nth 2 x)).
Definition line_of_sx (x : sx) : jline :=
  mkLine (sx_str (sx_nth 0 x)) (map imp_of_sx (sx_list (sx_nth 1 x))).
Definition occ_of_sx (x : sx) : occ := mkOcc (sx_str (sx_nth 0 x)) (sx_str (sx_nth 1 x)).
Definition file_of_sx (x : sx) : jfile :=
  mkFile (sx_str (sx_nth 0 x)) (sx_str (sx_nth 1 x)) (map line_of_sx (sx_list (sx_nth 2 x)))
         (map occ_of_sx (sx_list (sx_nth 3 x))) false.

Definition aimp_of_sx (x : sx) : aimp := mkAI (sx_str (sx_nth 0 x)) (sx_str (sx_nth 1 x)).
Definition afile_of_sx (x : sx) : afile :=
  mkAF (sx_str (sx_nth 0 x)) (sx_strs (sx_nth 1 x))
       (map (fun e => (sx_str (sx_nth 0 e), map aimp_of_sx (sx_list (sx_nth 1 e)))) (sx_list (sx_nth 2 x)))
       (map (fun e => (sx_str (sx_nth 0 e), sx_str (sx_nth 1 e))) (sx_list (sx_nth 3 x)))
       (sx_strs (sx_nth 4 x)).

Definition sx_of_run (r : run_status * world) : sx :=
  L [A (status_str (fst r)); L (map (fun f => A (join nl (file_texts f))) (snd r))].

Definition model_with (cfg : ui_cfg) (x : sx) : sx :=
  let w := map file_of_sx (sx_list (sx_nth 0 x)) in
  let '(r1, r2, r3) := observe cfg w in
  L [sx_of_run r1; sx_of_run r2; sx_of_run r3].

(* the model of the sources as they are (switches read from the Go files), of the code as first
   verified, and of the code with every repair *)
Definition c06_model : sx -> sx := model_with cfg_repo.
Definition c06_model_prefix : sx -> sx := model_with cfg_prefix.
Definition c06_model_fixed : sx -> sx := model_with cfg_fixed.

(* any combination of repairs: (files afiles (perfile lines wildcard decl primary)) *)
Definition c06_model_flags (x : sx) : sx :=
  let fl := sx_nth 2 x in
  model_with (mkCfg (sx_bool (sx_nth 0 fl)) (sx_bool (sx_nth 1 fl)) (sx_bool (sx_nth 2 fl))
                    (sx_bool (sx_nth 3 fl)) (sx_bool (sx_nth 4 fl))) x.

Definition lines_of_run (x : sx) : list (list string) :=
  map (fun c => split nl (sx_str c)) (sx_list (sx_nth 1 x)).

Fixpoint facts_clauses (fs : list jfile) (afs : list afile) : list string :=
  match fs, afs with
  | [], [] => []
  | f :: r, a :: s =>
    ((if consistent_b cfg_fixed f a then [] else [tag "generator_facts_inconsistent" (jf_path f)]) ++
     (if wf_file_b cfg_fixed f then [] else [tag "generator_file_not_wf" (jf_path f)]) ++
     facts_clauses r s)%list
  | _, _ => ["generator_file_count"]
  end.

Definition c06_spec (x : sx) : sx :=
  let inp := sx_nth 0 x in
  let fs := map file_of_sx (sx_list (sx_nth 0 inp)) in
  let afs := map afile_of_sx (sx_list (sx_nth 1 inp)) in
  let o := sx_nth 1 x in
  let r1 := sx_nth 0 o in let r2 := sx_nth 1 o in let r3 := sx_nth 2 o in
  sx_of_strs ((facts_clauses fs afs ++
               (if paths_distinct_b (map jf_path fs) then [] else ["generator_paths_not_distinct"]) ++
               c06_verdict afs (sx_str (sx_nth 0 r1)) (lines_of_run r1)
                           (sx_str (sx_nth 0 r2)) (lines_of_run r2)
                           (sx_str (sx_nth 0 r3)) (lines_of_run r3))%list).

(* which repairs the sources carry, for the report *)
Definition c06_cfg (_ : sx) : sx :=
  L [sx_of_bool (fx_perfile cfg_repo); sx_of_bool (fx_lines cfg_repo); sx_of_bool (fx_wildcard cfg_repo);
     sx_of_bool (fx_decl cfg_repo); sx_of_bool (fx_primary cfg_repo)].

Definition entries : list entry :=
  [("C06.model", c06_model); ("C06.model_prefix", c06_model_prefix); ("C06.model_fixed", c06_model_fixed);
   ("C06.model_flags", c06_model_flags);
   ("C06.spec", c06_spec); ("C06.cfg", c06_cfg)].
