(* Driver entry points for C12. Input: (api-units expectations). *)
From Coq Require Import String List Bool Arith.
From Coca Require Import Lib.Sx Lib.GoMap Lib.Str Model.ApiScan Model.ApiSpec.
Import ListNotations.
Open Scope list_scope.
Open Scope string_scope.

Definition aannot_of_sx (x : sx) : aannot :=
  mkAA (sx_str (sx_nth 0 x)) (sx_bool (sx_nth 1 x)) (sx_str (sx_nth 2 x)) (sx_bool (sx_nth 3 x))
       (map (fun p => (sx_str (sx_nth 0 p), sx_str (sx_nth 1 p))) (sx_list (sx_nth 4 x))).
Definition aparam_of_sx (x : sx) : aparam :=
  mkAP (sx_bool (sx_nth 0 x)) (sx_str (sx_nth 1 x)) (sx_str (sx_nth 2 x)) (map aannot_of_sx (sx_list (sx_nth 3 x))).
Definition amember_of_sx (x : sx) : amember :=
  mkAM (sx_bool (sx_nth 0 x)) (sx_str (sx_nth 1 x)) (map aannot_of_sx (sx_list (sx_nth 2 x)))
       (map aparam_of_sx (sx_list (sx_nth 3 x))).
Definition aunit_of_sx (x : sx) : aunit :=
  mkAU (sx_str (sx_nth 0 x)) (sx_bool (sx_nth 1 x)) (sx_strs (sx_nth 2 x)) (sx_bool (sx_nth 3 x))
       (sx_str (sx_nth 4 x)) (sx_str (sx_nth 5 x)) (sx_bool (sx_nth 6 x))
       (map aannot_of_sx (sx_list (sx_nth 7 x))) (map amember_of_sx (sx_list (sx_nth 8 x))).

Definition sx_of_rest (r : rest_entry) : sx :=
  L [A (r_verb r); A (r_uri r); A (r_pkg r); A (r_class r); A (r_method r); A (r_body r)].
Definition rest_of_sx (x : sx) : rest_entry :=
  mkRest (sx_str (sx_nth 1 x)) (sx_str (sx_nth 0 x)) (sx_str (sx_nth 4 x)) (sx_str (sx_nth 5 x))
         (sx_str (sx_nth 2 x)) (sx_str (sx_nth 3 x)).

Definition xclass_of_sx (x : sx) : xclass :=
  mkXC (sx_str (sx_nth 0 x)) (sx_str (sx_nth 1 x)) (sx_bool (sx_nth 2 x)) (sx_str (sx_nth 3 x))
       (map (fun h => mkXH (sx_str (sx_nth 0 h)) (sx_str (sx_nth 1 h)) (sx_str (sx_nth 2 h)) (sx_str (sx_nth 3 h)))
            (sx_list (sx_nth 4 x))).

Definition c12_model (x : sx) : sx :=
  match api_files astate0 (map aunit_of_sx (sx_list (sx_nth 0 x))) with
  | Some (_, out) => L (map sx_of_rest out)
  | None => L [A "!PANIC"; A "slice bounds out of range"]
  end.

Definition c12_spec (x : sx) : sx :=
  let inp := sx_nth 0 x in
  sx_of_strs (c12_verdict (map xclass_of_sx (sx_list (sx_nth 1 inp))) (map rest_of_sx (sx_list (sx_nth 1 x)))).

Definition entries : list entry := [("C12.model", c12_model); ("C12.spec", c12_spec)].
