(* Driver entry points for C03. Input: (model (query ...)), queries answered back-to-back
   in one process:  ("call" root lookup)  |  ("api" ((verb uri pkg class method) ...) ((k v) ...)) *)
From Coq Require Import String List Bool Arith.
From Coca Require Import Lib.Sx Lib.GoMap Lib.Dot Model.CodeModel Model.CallGraph Model.CallGraphSpec
     Generated.Constants.
Import ListNotations.
Open Scope list_scope.
Open Scope string_scope.

Definition api_of_sx (x : sx) : rest_api :=
  mkApi (sx_str (sx_nth 0 x)) (sx_str (sx_nth 1 x)) (sx_str (sx_nth 2 x)) (sx_str (sx_nth 3 x))
        (sx_str (sx_nth 4 x)).
Definition di_of_sx (x : sx) : gomap string :=
  fold_left (fun acc kv => mput acc (sx_str (sx_nth 0 kv)) (sx_str (sx_nth 1 kv))) (sx_list x) [].

Fixpoint run_queries (cnt : nat) (m : list ds) (qs : list sx) : list sx :=
  match qs with
  | [] => []
  | q :: r =>
    if String.eqb (sx_str (sx_nth 0 q)) "call" then
      let '(cnt', dot) := canalysis cnt (sx_str (sx_nth 1 q)) m (sx_bool (sx_nth 2 q)) in
      L [A dot] :: run_queries cnt' m r
    else
      let '(dot, sizes) := analysis_by_files (map api_of_sx (sx_list (sx_nth 1 q))) m (di_of_sx (sx_nth 2 q)) in
      L [A dot; L (map sx_of_nat sizes)] :: run_queries cnt m r
  end.

Definition c03_model (x : sx) : sx :=
  L (run_queries 0 (model_of_sx (sx_nth 0 x)) (sx_list (sx_nth 1 x))).

Definition budget : nat := S maxLoopCount.

Definition c03_spec (x : sx) : sx :=
  let inp := sx_nth 0 x in
  let m := model_of_sx (sx_nth 0 inp) in
  let qs := sx_list (sx_nth 1 inp) in
  let outs := sx_list (sx_nth 1 x) in
  L (map (fun qo =>
            let '(q, o) := qo in
            if String.eqb (sx_str (sx_nth 0 q)) "call" then
              sx_of_strs (c03_call_verdict budget m (sx_str (sx_nth 1 q)) (sx_bool (sx_nth 2 q))
                                           (sx_str (sx_nth 0 o)))
            else
              sx_of_strs (c03_api_verdict budget m (di_of_sx (sx_nth 2 q))
                                          (map api_of_sx (sx_list (sx_nth 1 q)))
                                          (sx_str (sx_nth 0 o)) (map sx_nat (sx_list (sx_nth 1 o)))))
         (combine qs outs)).

Definition entries : list entry := [("C03.model", c03_model); ("C03.spec", c03_spec)].
