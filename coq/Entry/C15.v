(* Driver entry points for C15. Input: ((rev author date msg type ((added deleted old new delete file mode) ...)) ...) *)
From Coq Require Import String List Bool Arith ZArith.
From Coca Require Import Lib.Sx Lib.GoMap Lib.Str Model.GitSummary Model.GitSummarySpec.
Import ListNotations.
Open Scope list_scope.
Open Scope string_scope.

Definition sx_of_Z (z : Z) : sx :=
  if Z.ltb z 0 then A ("-" ++ string_of_nat (Z.abs_nat z)) else A (string_of_nat (Z.abs_nat z)).
Definition sx_Z (x : sx) : Z :=
  let s := sx_str x in
  if has_prefix "-" s then Z.opp (Z.of_nat (nat_of_string (drop 1 s))) else Z.of_nat (nat_of_string s).

Definition achange_of_sx (x : sx) : achange :=
  mkA (sx_nat (sx_nth 0 x)) (sx_nat (sx_nth 1 x)) (sx_str (sx_nth 2 x)) (sx_str (sx_nth 3 x))
      (sx_bool (sx_nth 4 x)) (sx_str (sx_nth 5 x)).
Definition acommit_of_sx (x : sx) : acommit :=
  mkAC (sx_str (sx_nth 0 x)) (sx_str (sx_nth 1 x)) (sx_str (sx_nth 2 x)) (sx_str (sx_nth 3 x))
       (sx_str (sx_nth 4 x)) (map achange_of_sx (sx_list (sx_nth 5 x))).
Definition commit_of_sx (x : sx) : commit :=
  mkCommit (sx_str (sx_nth 0 x)) (sx_str (sx_nth 1 x)) (sx_str (sx_nth 2 x)) (sx_str (sx_nth 3 x))
           (map (fun c => mkChange (sx_nat (sx_nth 0 c)) (sx_nat (sx_nth 1 c)) (sx_str (sx_nth 5 c)) (sx_str (sx_nth 6 c)))
                (sx_list (sx_nth 5 x))).

Definition c15_model (x : sx) : sx :=
  let cs := map commit_of_sx (sx_list x) in
  let '(c, e, ch, a) := basic_summary cs in
  L [ L (map (fun r => L [A (fst (fst r)); sx_of_nat (snd (fst r)); sx_of_nat (snd r)]) (team_summary cs));
      L (map (fun r => L [A (fst r); A (snd r)]) (code_age cs));
      L (map (fun r => L [A (fst (fst r)); sx_of_nat (snd (fst r)); sx_of_Z (snd r)]) (top_authors cs));
      L [sx_of_nat c; sx_of_nat e; sx_of_Z ch; sx_of_nat a];
      L (map (fun kv => L [A (fst kv); L (map (fun fn => L [A (fst fn); sx_of_nat (snd fn)]) (snd kv))])
             (build_change_map cs)) ].

Definition c15_spec (x : sx) : sx :=
  let cs := map acommit_of_sx (sx_list (sx_nth 0 x)) in
  let o := sx_nth 1 x in
  let team := map (fun r => (sx_str (sx_nth 0 r), sx_nat (sx_nth 1 r), sx_nat (sx_nth 2 r))) (sx_list (sx_nth 0 o)) in
  let age := map (fun r => (sx_str (sx_nth 0 r), sx_str (sx_nth 1 r))) (sx_list (sx_nth 1 o)) in
  let top := map (fun r => (sx_str (sx_nth 0 r), sx_nat (sx_nth 1 r), sx_Z (sx_nth 2 r))) (sx_list (sx_nth 2 o)) in
  let b := sx_nth 3 o in
  let basic := (sx_nat (sx_nth 0 b), sx_nat (sx_nth 1 b), sx_Z (sx_nth 2 b), sx_nat (sx_nth 3 b)) in
  let cl := map (fun kv => (sx_str (sx_nth 0 kv),
                            map (fun fn => (sx_str (sx_nth 0 fn), sx_nat (sx_nth 1 fn))) (sx_list (sx_nth 1 kv))))
                (sx_list (sx_nth 4 o)) in
  sx_of_strs (c15_verdict cs team age top basic cl).

Definition c15_wf (x : sx) : sx := sx_of_bool (all_decode_b (map acommit_of_sx (sx_list x))).

Definition entries : list entry := [("C15.model", c15_model); ("C15.spec", c15_spec); ("C15.wf", c15_wf)].
