(* Driver entry points for C01 (and the shared Java pipeline).
   Input: ((path ignored is_java_unit unit-facts) ...) in directory-walk order. *)
From Coq Require Import String List Bool Arith.
From Coca Require Import Lib.Sx Lib.GoMap Lib.Str Model.CodeModel Model.JavaFull Model.JavaIdent
     Model.JavaFactsCodec Model.JavaSelect Model.JavaDeclSpec.
Import ListNotations.
Open Scope list_scope.
Open Scope string_scope.

Definition file_of_sx (x : sx) : string * bool * junit :=
  (sx_str (sx_nth 0 x), sx_bool (sx_nth 1 x), unit_of_sx (sx_nth 3 x)).

(* the two passes of `coca analysis` over a directory *)
Definition run_passes (files : list (string * bool * junit)) : list ds * list ds :=
  let selected := get_files_with_filter java_code_file_filter (map fst files) in
  (* a selected file that declares no type (an empty .java file, package-info.java) is walked by a listener of its own
     whose class body is never left: it contributes no entry to either pass and its state dies with the listener *)
  let units := map snd (List.filter (fun f => str_mem (fst (fst f)) selected && negb (String.eqb (u_name (snd f)) "")) files) in
  let idents := snd (ident_files istate0 units) in
  let names := map ds_full_name idents in
  (idents, snd (analysis_files fstate0 names units)).

Definition c01_model (x : sx) : sx :=
  let '(i, f) := run_passes (map file_of_sx (sx_list x)) in
  L [sx_of_model i; sx_of_model f].

Definition c01_spec (x : sx) : sx :=
  let files := map file_of_sx (sx_list (sx_nth 0 x)) in
  let o := sx_nth 1 x in
  sx_of_strs (c01_verdict files (model_of_sx (sx_nth 0 o)) (model_of_sx (sx_nth 1 o))).

Definition entries : list entry := [("C01.model", c01_model); ("C01.spec", c01_spec)].
