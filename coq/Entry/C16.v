(* Driver entry points for C16.
   Input: (mode dirarg root (include-ext ...) top-size (subdir ...) (file ...)),
          file = ((name ...) language extension code comment blank), mode = "bydir" | "top".
   Output: ("bydir" header (row ...))  or  ("top" ((lang ((location code) ...)) ...) ((lang ((code shown-location) ...)) ...)). *)
From Coq Require Import String List Bool Arith.
From Coca Require Import Lib.Sx Lib.GoMap Model.Cloc Model.ClocSpec.
Import ListNotations.
Open Scope list_scope.
Open Scope string_scope.

Definition cfile_of_sx (x : sx) : cfile :=
  mkCFile (sx_strs (sx_nth 0 x)) (sx_str (sx_nth 1 x)) (sx_str (sx_nth 2 x))
          (sx_nat (sx_nth 3 x)) (sx_nat (sx_nth 4 x)) (sx_nat (sx_nth 5 x)).

Definition copts_of_sx (x : sx) : copts :=
  mkCOpts (sx_str (sx_nth 1 x)) (sx_str (sx_nth 2 x)) (sx_strs (sx_nth 3 x)) (sx_nat (sx_nth 4 x)).

Definition ctree_of_sx (x : sx) : ctree :=
  mkCTree (sx_strs (sx_nth 5 x)) (map cfile_of_sx (sx_list (sx_nth 6 x))).

Definition sx_of_sections (l : list (string * list (string * nat))) : sx :=
  L (map (fun s => L [A (fst s); L (map (fun f => L [A (fst f); sx_of_nat (snd f)]) (snd s))]) l).
Definition sx_of_tables (l : list (string * list (nat * string))) : sx :=
  L (map (fun s => L [A (fst s); L (map (fun f => L [sx_of_nat (fst f); A (snd f)]) (snd s))]) l).
Definition sections_of_sx (x : sx) : list (string * list (string * nat)) :=
  map (fun s => (sx_str (sx_nth 0 s),
                 map (fun f => (sx_str (sx_nth 0 f), sx_nat (sx_nth 1 f))) (sx_list (sx_nth 1 s)))) (sx_list x).
Definition tables_of_sx (x : sx) : list (string * list (nat * string)) :=
  map (fun s => (sx_str (sx_nth 0 s),
                 map (fun f => (sx_nat (sx_nth 0 f), sx_str (sx_nth 1 f))) (sx_list (sx_nth 1 s)))) (sx_list x).

Definition c16_model (x : sx) : sx :=
  let o := copts_of_sx x in
  let t := ctree_of_sx x in
  if String.eqb (sx_str (sx_nth 0 x)) "top" then
    let '(sums, tabs) := process_top_file o t in
    L [A "top"; sx_of_sections (map (fun s => (ls_name s, ls_files s)) sums); sx_of_tables tabs]
  else
    match process_by_directory o t with
    | header :: rows => L [A "bydir"; sx_of_strs header; L (map sx_of_strs rows)]
    | [] => L [A "bydir"; L []; L []]
    end.

(* (input observed) -> failing clauses *)
Definition c16_spec (x : sx) : sx :=
  let inp := sx_nth 0 x in
  let obs := sx_nth 1 x in
  let o := copts_of_sx inp in
  let t := ctree_of_sx inp in
  if negb (String.eqb (sx_str (sx_nth 0 inp)) (sx_str (sx_nth 0 obs))) then sx_of_strs ["observation_shape"]
  else if String.eqb (sx_str (sx_nth 0 inp)) "top" then
    sx_of_strs (c16_top_verdict o t (sections_of_sx (sx_nth 1 obs)) (tables_of_sx (sx_nth 2 obs)))
  else
    sx_of_strs (c16_bydir_verdict o t (sx_strs (sx_nth 1 obs)) (map sx_strs (sx_list (sx_nth 2 obs)))).

Definition entries : list entry := [("C16.model", c16_model); ("C16.spec", c16_spec)].
