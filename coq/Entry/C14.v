(* Driver entry points for C14. Input: (raw-log-text (expected-commit ...)),
   commit = (rev author date msg ((added deleted file mode) ...)). *)
From Coq Require Import String List Bool Arith.
From Coca Require Import Lib.Sx Lib.GoMap Lib.Str Model.GitSummary Model.GitLogParse Model.GitLogSpec.
Import ListNotations.
Open Scope list_scope.
Open Scope string_scope.

Definition sx_of_commit (c : commit) : sx :=
  L [A (cm_rev c); A (cm_author c); A (cm_date c); A (cm_msg c);
     L (map (fun ch => L [sx_of_nat (ch_added ch); sx_of_nat (ch_deleted ch); A (ch_file ch); A (ch_mode ch)])
            (cm_changes c))].
Definition commit_of_sx4 (x : sx) : commit :=
  mkCommit (sx_str (sx_nth 0 x)) (sx_str (sx_nth 1 x)) (sx_str (sx_nth 2 x)) (sx_str (sx_nth 3 x))
           (map (fun c => mkChange (sx_nat (sx_nth 0 c)) (sx_nat (sx_nth 1 c)) (sx_str (sx_nth 2 c)) (sx_str (sx_nth 3 c)))
                (sx_list (sx_nth 4 x))).

Definition c14_model (x : sx) : sx :=
  L (map sx_of_commit (build_message_by_input (sx_str (sx_nth 0 x)))).

Definition c14_spec (x : sx) : sx :=
  let expected := map commit_of_sx4 (sx_list (sx_nth 1 (sx_nth 0 x))) in
  let observed := map commit_of_sx4 (sx_list (sx_nth 1 x)) in
  sx_of_strs (c14_verdict expected observed).

Definition entries : list entry := [("C14.model", c14_model); ("C14.spec", c14_spec)].
