(* Driver entry points for C10. Input: (bs-nodes (ignored-kind ...)). *)
From Coq Require Import String List Bool Arith.
From Coca Require Import Lib.Sx Lib.GoMap Lib.Str Model.BadSmell Model.BadSmellSpec.
Import ListNotations.
Open Scope list_scope.
Open Scope string_scope.

Definition bm_of_sx (x : sx) : bs_method :=
  mkBM (sx_str (sx_nth 0 x)) (sx_nat (sx_nth 1 x)) (sx_nat (sx_nth 2 x)) (sx_nat (sx_nth 3 x))
       (sx_nat (sx_nth 4 x)) (sx_nat (sx_nth 5 x))
       (map (fun c => (sx_nat (sx_nth 0 c), sx_nat (sx_nth 1 c))) (sx_list (sx_nth 6 x))).
Definition bn_of_sx (x : sx) : bs_node :=
  mkBN (sx_str (sx_nth 0 x)) (sx_str (sx_nth 1 x)) (map bm_of_sx (sx_list (sx_nth 2 x))).

Definition sx_of_smell (s : smell) : sx :=
  L [A (sm_file s); A (sm_line s); A (sm_bs s); A (sm_desc s); sx_of_nat (sm_size s)].
Definition smell_of_sx (x : sx) : smell :=
  mkSmell (sx_str (sx_nth 0 x)) (sx_str (sx_nth 1 x)) (sx_str (sx_nth 2 x)) (sx_str (sx_nth 3 x)) (sx_nat (sx_nth 4 x)).

Definition c10_model (x : sx) : sx :=
  let nodes := map bn_of_sx (sx_list (sx_nth 0 x)) in
  let ignore := sx_strs (sx_nth 1 x) in
  let l := identify_bad_smell nodes ignore in
  L [L (map sx_of_smell l);
     L (map (fun kv => L [A (fst kv); L (map sx_of_smell (snd kv))]) (sort_smell_by_type l))].

Definition c10_spec (x : sx) : sx :=
  let inp := sx_nth 0 x in
  let o := sx_nth 1 x in
  sx_of_strs (c10_verdict (map bn_of_sx (sx_list (sx_nth 0 inp))) (sx_strs (sx_nth 1 inp))
                          (map smell_of_sx (sx_list (sx_nth 0 o)))
                          (map (fun kv => (sx_str (sx_nth 0 kv), map smell_of_sx (sx_list (sx_nth 1 kv)))) (sx_list (sx_nth 1 o)))).

Definition entries : list entry := [("C10.model", c10_model); ("C10.spec", c10_spec)].
