(* Driver entry points for C19.
   Input (one of):
     ("maven"  doc)
     ("gradle" script)
     ("unused" () | (doc)   () | (script)   (javafile ...))
   doc      = (xnode ...)                      top-level nodes of the pom
   xnode    = ("E" name attrs (xnode ...)) | ("S" name attrs) | ("T" s) | ("D" s) | ("C" s) | ("P" s)
            | ("X" version encoding)
   script   = (indent (item ...))
   item     = ("block" name (stmt ...)) | ("other" text)
   stmt     = ("str" cfg q paren closure g a v) | ("map" cfg paren g a v)
            | ("call" cfg paren fname ((k v) ...)) | ("comment" s)           q = "s" | "d"
   javafile = (relpath package ((static qualified wildcard) ...) kind name)
   Output: ((groupId artifactId scope) ...) or ("PANIC" class) -- a Go panic of the code under
   test is an ordinary observation (the harness op recovers it itself), so that a crash can be
   matched against the model and against a known finding.  *)
From Coq Require Import String List Bool Arith.
From Coca Require Import Lib.Sx Lib.Str Model.Deps Model.DepsSpec.
Import ListNotations.
Open Scope list_scope.
Open Scope string_scope.

Fixpoint xnode_of_sx (x : sx) : xnode :=
  match x with
  | L (A tag :: A name :: _ :: L cs :: _) =>
    if String.eqb tag "E" then XE name (map xnode_of_sx cs) else XC ""
  | L (A tag :: A v :: A e :: _) =>
    if String.eqb tag "X" then XX v e else XC ""
  | L (A tag :: A s :: _) =>
    if String.eqb tag "S" then XE s []
    else if String.eqb tag "T" then XT s
    else if String.eqb tag "D" then XD s
    else if String.eqb tag "C" then XC s
    else XP s
  | _ => XC ""
  end.

Definition doc_of_sx (x : sx) : list xnode := map xnode_of_sx (sx_list x).

Definition stmt_of_sx (x : sx) : gstmt :=
  let tag := sx_str (sx_nth 0 x) in
  let cfg := sx_str (sx_nth 1 x) in
  if String.eqb tag "str" then
    GStr cfg (if String.eqb (sx_str (sx_nth 2 x)) "d" then QDouble else QSingle)
         (sx_bool (sx_nth 3 x)) (sx_bool (sx_nth 4 x))
         (sx_str (sx_nth 5 x)) (sx_str (sx_nth 6 x)) (sx_str (sx_nth 7 x))
  else if String.eqb tag "map" then
    GMap cfg (sx_bool (sx_nth 2 x)) (sx_str (sx_nth 3 x)) (sx_str (sx_nth 4 x)) (sx_str (sx_nth 5 x))
  else if String.eqb tag "call" then
    GCall cfg (sx_bool (sx_nth 2 x)) (sx_str (sx_nth 3 x))
          (map (fun kv => (sx_str (sx_nth 0 kv), sx_str (sx_nth 1 kv))) (sx_list (sx_nth 4 x)))
  else GComment cfg.

Definition item_of_sx (x : sx) : gitem :=
  if String.eqb (sx_str (sx_nth 0 x)) "block"
  then GBlock (sx_str (sx_nth 1 x)) (map stmt_of_sx (sx_list (sx_nth 2 x)))
  else GOther (sx_str (sx_nth 1 x)).

Definition script_of_sx (x : sx) : list gitem := map item_of_sx (sx_list (sx_nth 1 x)).

Definition imports_of_sx (files : sx) : list string :=
  flat_map (fun f => map (fun i => sx_str (sx_nth 1 i)) (sx_list (sx_nth 2 f))) (sx_list files).

Definition project_of_sx (x : sx) : project :=
  mkProject
    (match sx_list (sx_nth 1 x) with d :: _ => Some (doc_of_sx d) | [] => None end)
    (match sx_list (sx_nth 2 x) with s :: _ => Some (script_of_sx s) | [] => None end)
    (imports_of_sx (sx_nth 3 x)).

Definition sx_of_deps (ds : list dep) : sx :=
  L (map (fun d => L [A (d_group d); A (d_artifact d); A (d_scope d)]) ds).
Definition deps_of_sx (x : sx) : list dep :=
  map (fun d => mkDep (sx_str (sx_nth 0 d)) (sx_str (sx_nth 1 d)) (sx_str (sx_nth 2 d))) (sx_list x).

Definition sx_of_res (r : res (list dep)) : sx :=
  match r with
  | Ok ds => sx_of_deps ds
  | Panic c => L [A "PANIC"; A c]
  end.

Definition c19_model (x : sx) : sx :=
  let kind := sx_str (sx_nth 0 x) in
  if String.eqb kind "maven" then sx_of_res (analysis_maven (doc_of_sx (sx_nth 1 x)))
  else if String.eqb kind "gradle" then sx_of_res (analysis_gradle (script_of_sx (sx_nth 1 x)))
  else sx_of_res (analysis_path (project_of_sx x)).

(* (input observed) -> failing clauses *)
Definition is_panic_sx (x : sx) : bool :=
  match x with
  | L (A tag :: _) => String.eqb tag "PANIC"
  | _ => false
  end.

Definition c19_spec (x : sx) : sx :=
  let inp := sx_nth 0 x in
  let obs := deps_of_sx (sx_nth 1 x) in
  let kind := sx_str (sx_nth 0 inp) in
  sx_of_strs
    (if is_panic_sx (sx_nth 1 x) then ["no_crash"]
     else if String.eqb kind "maven" then c19_maven_verdict (doc_of_sx (sx_nth 1 inp)) obs
     else if String.eqb kind "gradle" then c19_gradle_verdict (script_of_sx (sx_nth 1 inp)) obs
     else c19_unused_verdict (project_of_sx inp) obs).

(* does the case satisfy the hypothesis of the exactness theorems? *)
Definition c19_wf (x : sx) : sx :=
  let kind := sx_str (sx_nth 0 x) in
  sx_of_bool
    (if String.eqb kind "maven" then wf_pom_b (doc_of_sx (sx_nth 1 x))
     else if String.eqb kind "gradle" then wf_gradle_b (script_of_sx (sx_nth 1 x))
     else wf_project_b (project_of_sx x)).

(* what the specification expects (for reports) *)
Definition c19_expected (x : sx) : sx :=
  let kind := sx_str (sx_nth 0 x) in
  sx_of_deps
    (if String.eqb kind "maven" then spec_maven (doc_of_sx (sx_nth 1 x))
     else if String.eqb kind "gradle" then spec_gradle (script_of_sx (sx_nth 1 x))
     else spec_unused (project_of_sx x)).

Definition entries : list entry :=
  [("C19.model", c19_model); ("C19.spec", c19_spec); ("C19.wf", c19_wf); ("C19.expected", c19_expected)].
