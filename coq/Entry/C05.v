(* Driver entry points for C05 (method rename).
   Input: (facts texts conf order cands facts2)
     facts   files of the project as for C01 (path ignored is_java_unit unit-facts), walk order
     texts   ((path bytes) ...) the same files
     conf    contents of the rename file
     order   "asc" | "desc": how the harness orders CodeDataStruct.Functions before the refactoring
     cands   ((path ((line bytecol bytelen new site) ...)) ...) candidate tokens per file
     facts2  facts of the renamed project (what a re-analysis has to find)
   Model output / first three components of the harness output:
     (status ((path bytes) ...) deps)   status = ("ok") | ("PANIC" class) | ("FATAL")
   The harness appends (idents full) of a fresh analysis of the rewritten tree. *)
From Coq Require Import String List Bool Arith.
From Coca Require Import Lib.Sx Lib.GoMap Lib.Str Model.CodeModel Model.JavaFull Model.JavaIdent
     Model.JavaFactsCodec Model.JavaSelect Model.Rename Model.RenameSpec Entry.C01.
Import ListNotations.
Open Scope list_scope.
Open Scope string_scope.

Definition texts_of_sx (x : sx) : gomap string :=
  map (fun t => (sx_str (sx_nth 0 t), sx_str (sx_nth 1 t))) (sx_list x).
Definition sx_of_texts (m : gomap string) : sx := L (map (fun kv => L [A (fst kv); A (snd kv)]) m).

Definition sx_of_outcome (o : outcome) : sx :=
  match o with
  | OOk => L [A "ok"]
  | OPanic c => L [A "PANIC"; A c]
  | OFatal => L [A "FATAL"]
  end.

(* the code model handed to the refactoring: the full pass over the facts, functions ordered *)
Definition deps_of (x : sx) : list ds :=
  order_funcs (String.eqb (sx_str (sx_nth 3 x)) "desc")
              (snd (run_passes (map file_of_sx (sx_list (sx_nth 0 x))))).

Definition c05_model (x : sx) : sx :=
  let deps := deps_of x in
  let '(files, o) := rename_method (texts_of_sx (sx_nth 1 x)) deps (sx_str (sx_nth 2 x)) in
  L [sx_of_outcome o; sx_of_texts files; sx_of_model deps].

Definition cand_of_sx (x : sx) : cand :=
  mkCand (sx_nat (sx_nth 0 x)) (sx_nat (sx_nth 1 x)) (sx_nat (sx_nth 2 x)) (sx_str (sx_nth 3 x)) (sx_bool (sx_nth 4 x)).

Definition fspecs_of (x : sx) : list fspec :=
  let texts := texts_of_sx (sx_nth 1 x) in
  let cands := map (fun e => (sx_str (sx_nth 0 e), map cand_of_sx (sx_list (sx_nth 1 e)))) (sx_list (sx_nth 4 x)) in
  map (fun kv => mkFS (fst kv) (snd kv) (mget_d [] cands (fst kv))) texts.

Definition c05_spec (x : sx) : sx :=
  let inp := sx_nth 0 x in
  let o := sx_nth 1 x in
  let ok := String.eqb (sx_str (sx_nth 0 (sx_nth 0 o))) "ok" in
  let re := sx_nth 3 o in
  let '(ei, ef) := run_passes (map file_of_sx (sx_list (sx_nth 5 inp))) in
  sx_of_strs (c05_verdict (fspecs_of inp) ok (texts_of_sx (sx_nth 1 o)) ei ef
                          (model_of_sx (sx_nth 0 re)) (model_of_sx (sx_nth 1 re))).

Definition entries : list entry := [("C05.model", c05_model); ("C05.spec", c05_spec)].
