(* Driver entry points for C02. Input: (files expectations): files as for C01;
   expectations = ((pkg name (line ...) ((fname line col ((kind name line col pkg node [via-this]) ...)) ...)) ...) *)
From Coq Require Import String List Bool Arith.
From Coca Require Import Lib.Sx Lib.GoMap Lib.Str Model.CodeModel Model.JavaFull Model.JavaIdent
     Model.JavaFactsCodec Model.JavaSelect Model.JavaCallSpec Entry.C01.
Import ListNotations.
Open Scope list_scope.
Open Scope string_scope.

Definition xcall_of_sx (x : sx) : xcall :=
  mkX (sx_str (sx_nth 0 x)) (sx_str (sx_nth 1 x)) (sx_nat (sx_nth 2 x)) (sx_nat (sx_nth 3 x))
      (sx_str (sx_nth 4 x)) (sx_str (sx_nth 5 x)) (sx_bool (sx_nth 6 x)).
Definition xfunc_of_sx (x : sx) : xfunc :=
  mkXF (sx_str (sx_nth 0 x)) (sx_nat (sx_nth 1 x)) (sx_nat (sx_nth 2 x)) (map xcall_of_sx (sx_list (sx_nth 3 x)))
       (sx_nat (sx_nth 4 x)).
Definition xunit_of_sx (x : sx) : xunit :=
  mkXU (sx_str (sx_nth 0 x)) (sx_str (sx_nth 1 x)) (sx_strs (sx_nth 2 x)) (map xfunc_of_sx (sx_list (sx_nth 3 x))).

Definition c02_model (x : sx) : sx := c01_model (sx_nth 0 x).

Definition c02_spec (x : sx) : sx :=
  let inp := sx_nth 0 x in
  let o := sx_nth 1 x in
  sx_of_strs (c02_verdict (map xunit_of_sx (sx_list (sx_nth 1 inp))) (model_of_sx (sx_nth 1 o))).

Definition entries : list entry := [("C02.model", c02_model); ("C02.spec", c02_spec)].
