(* Driver entry points for C09. Input: (((relpath text) ...) min-entries).
   The model of "every pass completes": every file parses without syntax error (they are valid by
   construction), every pass reports ok. *)
From Coq Require Import String List Bool Arith.
From Coca Require Import Lib.Sx Lib.Str Model.JavaSelect.
Import ListNotations.
Open Scope list_scope.
Open Scope string_scope.

Definition passes : list string := ["ident"; "full"; "bs"; "api"; "refactor"; "todo"].

Definition c09_model (x : sx) : sx :=
  L (L (map (fun _ => A "") (sx_list (sx_nth 0 x))) :: map (fun p => L [A p; L [A "ok"]]) passes).

(* observed: ((syntax-error ...) (pass (status n)) ...) *)
Definition c09_verdict (nfiles min_entries : nat) (obs : list sx) : list string :=
  flat_map (fun o =>
              let p := sx_str (sx_nth 0 o) in
              let st := sx_str (sx_nth 0 (sx_nth 1 o)) in
              let n := sx_nat (sx_nth 1 (sx_nth 1 o)) in
              if String.eqb st "panic" then [p ++ "_crash"]
              else if negb (String.eqb st "ok") then [p ++ "_" ++ st]
              else if (String.eqb p "ident" || String.eqb p "full") && Nat.ltb n min_entries then [p ++ "_project_aborted"]
              else if String.eqb p "bs" && negb (Nat.eqb n nfiles) then ["bs_project_aborted"]
              else [])
           (tl obs).

Definition c09_spec (x : sx) : sx :=
  let inp := sx_nth 0 x in
  (* the passes select the files GetJavaFiles selects (test files and testData are left out) *)
  let paths := map (fun f => (sx_str (sx_nth 0 f), false)) (sx_list (sx_nth 0 inp)) in
  sx_of_strs (c09_verdict (List.length (get_files_with_filter java_code_file_filter paths))
                          (sx_nat (sx_nth 1 inp)) (sx_list (sx_nth 1 x))).

Definition entries : list entry := [("C09.model", c09_model); ("C09.spec", c09_spec)].
