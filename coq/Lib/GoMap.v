(* Go maps keyed by strings, as association lists in first-insertion order.
   [get] returns the zero value supplied by the caller when the key is absent. *)
From Coq Require Import String List Bool.
Import ListNotations.
Open Scope list_scope.
Open Scope string_scope.

Section GoMap.
  Context {V : Type}.

  Definition gomap := list (string * V).

  Fixpoint mget (m : gomap) (k : string) : option V :=
    match m with
    | [] => None
    | (k', v) :: r => if String.eqb k' k then Some v else mget r k
    end.

  Definition mget_d (d : V) (m : gomap) (k : string) : V :=
    match mget m k with Some v => v | None => d end.

  Fixpoint mput (m : gomap) (k : string) (v : V) : gomap :=
    match m with
    | [] => [(k, v)]
    | (k', v') :: r => if String.eqb k' k then (k', v) :: r else (k', v') :: mput r k v
    end.

  Fixpoint mdel (m : gomap) (k : string) : gomap :=
    match m with
    | [] => []
    | (k', v') :: r => if String.eqb k' k then r else (k', v') :: mdel r k
    end.

  Definition mhas (m : gomap) (k : string) : bool :=
    match mget m k with Some _ => true | None => false end.

  Definition mkeys (m : gomap) : list string := map fst m.

  Lemma mget_mput_same : forall m k v, mget (mput m k v) k = Some v.
  Proof.
    induction m as [|[k' v'] r IH]; intros k v; simpl.
    - now rewrite String.eqb_refl.
    - destruct (String.eqb k' k) eqn:E; simpl; rewrite E; auto.
  Qed.

  Lemma mget_mput_other : forall m k k' v, k <> k' -> mget (mput m k v) k' = mget m k'.
  Proof.
    induction m as [|[k0 v0] r IH]; intros k k' v Hne; simpl.
    - destruct (String.eqb k k') eqn:E; auto. apply String.eqb_eq in E. contradiction.
    - destruct (String.eqb k0 k) eqn:E; simpl.
      + apply String.eqb_eq in E. subst k0.
        destruct (String.eqb k k') eqn:E2; auto. apply String.eqb_eq in E2. contradiction.
      + destruct (String.eqb k0 k'); auto.
  Qed.

  Lemma mget_mput : forall m k k' v,
      mget (mput m k v) k' = if String.eqb k k' then Some v else mget m k'.
  Proof.
    intros m k k' v. destruct (String.eqb k k') eqn:E.
    - apply String.eqb_eq in E. subst. apply mget_mput_same.
    - apply String.eqb_neq in E. now apply mget_mput_other.
  Qed.

  Lemma mget_d_mput : forall d m k k' v,
      mget_d d (mput m k v) k' = if String.eqb k k' then v else mget_d d m k'.
  Proof.
    intros. unfold mget_d. rewrite mget_mput. destruct (String.eqb k k'); auto.
  Qed.

  Lemma mkeys_mput_in : forall m k v k', In k' (mkeys (mput m k v)) <-> k' = k \/ In k' (mkeys m).
  Proof.
    unfold mkeys. induction m as [|[k0 v0] r IH]; intros k v k'; simpl.
    - intuition.
    - destruct (String.eqb k0 k) eqn:E; simpl.
      + apply String.eqb_eq in E. subst. intuition.
      + rewrite IH. intuition.
  Qed.

  Lemma mget_some_in_keys : forall m k v, mget m k = Some v -> In k (mkeys m).
  Proof.
    unfold mkeys. induction m as [|[k0 v0] r IH]; intros k v; simpl; [discriminate|].
    destruct (String.eqb k0 k) eqn:E.
    - apply String.eqb_eq in E. auto.
    - intros H. right. eapply IH; eauto.
  Qed.

  Lemma mget_none_not_in_keys : forall m k, mget m k = None -> ~ In k (mkeys m).
  Proof.
    unfold mkeys. induction m as [|[k0 v0] r IH]; intros k; simpl; [auto|].
    destruct (String.eqb k0 k) eqn:E; [discriminate|].
    intros H [H1|H1].
    - subst. rewrite String.eqb_refl in E. discriminate.
    - eapply IH; eauto.
  Qed.
End GoMap.

Arguments gomap V : clear implicits.
