(* The fragment of DOT that coca prints: a digraph whose body is a sequence of
   blank lines, [rankdir = LR;] and ["a" -> "b";] statements, one per line.
   [dot_parse] returns the edge list, or None when the text is not of that shape
   (in particular when a quoted string is broken by an unescaped quote or a
   trailing backslash). *)
From Coq Require Import String List Ascii Arith Bool.
From Coca Require Export Lib.Str.
Import ListNotations.
Open Scope list_scope.
Open Scope string_scope.

(* body of a quoted string, after the opening quote: (content, rest after the closing quote).
   backslash + quote is an escaped quote; backslash + any other byte is kept as two bytes. *)
Fixpoint qstring (s acc : list ascii) : option (list ascii * list ascii) :=
  match s with
  | [] => None
  | c :: r =>
    if Ascii.eqb c c_dquote then Some (rev acc, r)
    else if Ascii.eqb c c_bslash then
      match r with
      | [] => None
      | d :: r' =>
        if Ascii.eqb d c_dquote then qstring r' (c_dquote :: acc)
        else qstring r' (d :: c :: acc)
      end
    else if Ascii.eqb c c_nl then None
    else qstring r (c :: acc)
  end.

Fixpoint strip_prefix (p s : list ascii) : option (list ascii) :=
  match p with
  | [] => Some s
  | c :: p' =>
    match s with
    | [] => None
    | d :: s' => if Ascii.eqb c d then strip_prefix p' s' else None
    end
  end.

Definition arrow : list ascii := chars " -> ".
Definition stmt_end : list ascii := chars (";" ++ nl).
Definition rankdir : list ascii := chars ("rankdir = LR;" ++ nl).
Definition footer : list ascii := chars ("}" ++ nl).

(* one edge statement starting at an opening quote *)
Definition parse_edge (s : list ascii) : option ((string * string) * list ascii) :=
  match s with
  | c :: r =>
    if Ascii.eqb c c_dquote then
      match qstring r [] with
      | None => None
      | Some (a, r1) =>
        match strip_prefix arrow r1 with
        | None => None
        | Some r2 =>
          match r2 with
          | c2 :: r3 =>
            if Ascii.eqb c2 c_dquote then
              match qstring r3 [] with
              | None => None
              | Some (b, r4) =>
                match strip_prefix stmt_end r4 with
                | None => None
                | Some r5 => Some ((unchars a, unchars b), r5)
                end
              end
            else None
          | [] => None
          end
        end
      end
    else None
  | [] => None
  end.

Fixpoint parse_body (fuel : nat) (s : list ascii) (acc : list (string * string))
  : option (list (string * string)) :=
  match fuel with
  | 0 => None
  | S f =>
    match s with
    | [] => None
    | c :: r =>
      if Ascii.eqb c c_nl then parse_body f r acc
      else match strip_prefix footer s with
           | Some [] => Some (rev acc)
           | Some (_ :: _) => None
           | None =>
             match strip_prefix rankdir s with
             | Some r' => parse_body f r' acc
             | None =>
               match parse_edge s with
               | Some (e, r') => parse_body f r' (e :: acc)
               | None => None
               end
             end
           end
    end
  end.

Definition dot_parse (text : string) : option (list (string * string)) :=
  let s := chars text in
  match strip_prefix (chars ("digraph G {" ++ nl)) s with
  | Some r => parse_body (S (List.length r)) r []
  | None =>
    match strip_prefix (chars ("digraph G { " ++ nl)) s with
    | Some r => parse_body (S (List.length r)) r []
    | None => None
    end
  end.

(* ---- printing side: the statements coca emits, and escapeStr ---- *)

(* strings.ReplaceAll(s, "\"", "\\\"") *)
Fixpoint escape_quotes (s : string) : string :=
  match s with
  | EmptyString => EmptyString
  | String c r =>
    if Ascii.eqb c c_dquote then String c_bslash (String c_dquote (escape_quotes r))
    else String c (escape_quotes r)
  end.

Inductive stmt := SEdge (a b : string) | SBlank | SRankdir.

Definition render_stmt (s : stmt) : string :=
  match s with
  | SEdge a b => dquote ++ escape_quotes a ++ dquote ++ " -> " ++ dquote ++ escape_quotes b ++ dquote ++ ";" ++ nl
  | SBlank => nl
  | SRankdir => "rankdir = LR;" ++ nl
  end.

Definition render_stmts (l : list stmt) : string := String.concat "" (map render_stmt l).

Definition stmt_edges (l : list stmt) : list (string * string) :=
  flat_map (fun s => match s with SEdge a b => [(a, b)] | _ => [] end) l.

(* a name that can be printed inside a DOT quoted string after escaping its quotes *)
Definition plain_char (c : ascii) : bool := negb (Ascii.eqb c c_bslash) && negb (Ascii.eqb c c_nl).
Definition plain (s : string) : bool := forallb plain_char (chars s).
