(* Normal forms of reports "as collections": which lists of an output are ordered and which are
   collections (their order comes from the iteration order of a Go map, or is not promised).
   nf maps an output to a string; two outputs are "identical as a collection" iff their normal
   forms are equal. *)
From Coq Require Import String List Bool Arith Ascii.
From Coca Require Import Lib.Sx Lib.Str.
Import ListNotations.
Open Scope list_scope.
Open Scope string_scope.

Inductive shape : Type :=
| SExact                                  (* compared as written *)
| SDeepBag                                (* every list, at every depth, is a collection *)
| SBag (s : shape)                        (* a collection of s *)
| SList (s : shape)                       (* an ordered list of s *)
| STuple (l : list shape)                 (* fixed positions *)
| SLines                                  (* a text whose lines are a collection (edges of a dot graph) *)
| SSortedBy (key : nat) (s : shape).      (* rows sorted by column key: the sequence of keys is promised,
                                             rows with equal keys may come in any order *)

(* byte-wise order on strings *)
Fixpoint sleb (a b : string) : bool :=
  match a, b with
  | EmptyString, _ => true
  | String _ _, EmptyString => false
  | String c a', String d b' =>
    let x := nat_of_ascii c in let y := nat_of_ascii d in
    if Nat.ltb x y then true else if Nat.ltb y x then false else sleb a' b'
  end.

Fixpoint sinsert (x : string) (l : list string) : list string :=
  match l with
  | [] => [x]
  | y :: r => if sleb x y then x :: l else y :: sinsert x r
  end.
Definition ssort (l : list string) : list string := fold_right sinsert [] l.

(* an injective-enough rendering: atoms are length-prefixed *)
Definition atom (s : string) : string := string_of_nat (String.length s) ++ ":" ++ s.
Definition group (o c : string) (l : list string) : string := o ++ String.concat "," l ++ c.

Fixpoint dump (x : sx) : string :=
  match x with
  | A s => atom s
  | L l => group "(" ")" (map dump l)
  end.

Fixpoint deep (x : sx) : string :=
  match x with
  | A s => atom s
  | L l => group "{" "}" (ssort (map deep l))
  end.

Fixpoint zip_nf (nf : shape -> sx -> string) (ss : list shape) (l : list sx) : list string :=
  match ss, l with
  | s :: ss', x :: l' => nf s x :: zip_nf nf ss' l'
  | [], l => map dump l
  | _, [] => []
  end.

Fixpoint nf (s : shape) (x : sx) {struct s} : string :=
  match s with
  | SExact => dump x
  | SDeepBag => deep x
  | SBag s' => match x with L l => group "{" "}" (ssort (map (nf s') l)) | A a => atom a end
  | SList s' => match x with L l => group "[" "]" (map (nf s') l) | A a => atom a end
  | STuple ss =>
    match x with
    | L l => group "<" ">"
                   ((fix go (ss : list shape) (l : list sx) : list string :=
                       match ss, l with
                       | s' :: ss', y :: l' => nf s' y :: go ss' l'
                       | [], l => map dump l
                       | _, [] => []
                       end) ss l)
    | A a => atom a
    end
  | SLines => match x with A a => group "{" "}" (ssort (split nl a)) | L _ => dump x end
  | SSortedBy k s' =>
    match x with
    | L l => group "[" "]" (map (fun r => dump (sx_nth k r)) l) ++ group "{" "}" (ssort (map (nf s') l))
    | A a => atom a
    end
  end.
