(* Hand-compiled scanners for the few regular expressions coca uses, with the
   leftmost-first (backtracking, greedy) semantics of Go's regexp for those patterns. *)
From Coq Require Import String List Ascii Arith Bool.
From Coca Require Import Lib.Str.
Import ListNotations.
Open Scope list_scope.
Open Scope string_scope.

(* \s = [\t\n\f\r ] *)
Definition is_ws (c : ascii) : bool :=
  let n := nat_of_ascii c in
  Nat.eqb n 32 || Nat.eqb n 9 || Nat.eqb n 10 || Nat.eqb n 12 || Nat.eqb n 13.

Definition is_digit (c : ascii) : bool :=
  let n := nat_of_ascii c in Nat.leb 48 n && Nat.leb n 57.

(* \w = [0-9A-Za-z_] *)
Definition is_word (c : ascii) : bool :=
  let n := nat_of_ascii c in
  (Nat.leb 48 n && Nat.leb n 57) || (Nat.leb 65 n && Nat.leb n 90) || (Nat.leb 97 n && Nat.leb n 122)
  || Nat.eqb n 95.

(* a greedy dot-star group followed by the continuation k: the longest prefix (without
   newline) after which k succeeds *)
Fixpoint greedy_star_from {R : Type} (k : string -> option R) (s : string) (i : nat) : option (string * R) :=
  let here := match k (drop i s) with Some r => Some (take i s, r) | None => None end in
  let ok_prefix := negb (contains (take i s) nl) in
  match i with
  | 0 => here
  | S i' => if ok_prefix then match here with Some x => Some x | None => greedy_star_from k s i' end
            else greedy_star_from k s i'
  end.

Definition greedy_star {R : Type} (k : string -> option R) (s : string) : option (string * R) :=
  greedy_star_from k s (String.length s).

(* a literal *)
Definition expect (lit : string) (s : string) : option string :=
  if has_prefix lit s then Some (drop (String.length lit) s) else None.

(* one \s *)
Definition expect_ws (s : string) : option string :=
  match s with
  | String c r => if is_ws c then Some r else None
  | EmptyString => None
  end.

Definition bind {A B : Type} (x : option A) (f : A -> option B) : option B :=
  match x with Some a => f a | None => None end.

(* the longest prefix of characters satisfying p *)
Fixpoint span (p : ascii -> bool) (s : string) : string * string :=
  match s with
  | String c r => if p c then let '(a, b) := span p r in (String c a, b) else (EmptyString, s)
  | EmptyString => (EmptyString, EmptyString)
  end.
