(* Bounded breadth-first reachability over a successor function on strings, with
   soundness and (bounded) completeness.  Used by the call-graph specifications. *)
From Coq Require Import String List Bool Arith Lia.
From Coca Require Import Lib.Str.
Import ListNotations.
Open Scope string_scope.
Open Scope list_scope.

Section Reach.
  Variable succ : string -> list string.

  Fixpoint reach_set (fuel : nat) (frontier seen : list string) : list string :=
    match fuel with
    | 0 => seen
    | S f =>
      let next := filter (fun x => negb (str_mem x seen)) (flat_map succ frontier) in
      match next with
      | [] => seen
      | _ => reach_set f next (seen ++ next)
      end
    end.

  Definition reach_within (n : nat) (t : string) : list string := reach_set n [t] [t].

  (* g is reachable from h in exactly the steps of a chain of length <= k *)
  Inductive ReachN : nat -> string -> string -> Prop :=
  | rn_here : forall k h, ReachN k h h
  | rn_step : forall k h h1 g, In h1 (succ h) -> ReachN k h1 g -> ReachN (S k) h g.

  Inductive Reach (t : string) : string -> Prop :=
  | r_refl : Reach t t
  | r_step : forall h g, Reach t h -> In g (succ h) -> Reach t g.

  Lemma Reach_trans : forall t a g, Reach t a -> Reach a g -> Reach t g.
  Proof.
    intros t a g Hta Hag. induction Hag as [|h g Hah IH Hin]; [assumption|].
    eapply r_step; eauto.
  Qed.

  Lemma ReachN_Reach : forall k h g, ReachN k h g -> Reach h g.
  Proof.
    induction 1 as [|k h h1 g Hin Hr IH]; [constructor|].
    eapply Reach_trans; [|exact IH]. eapply r_step; [constructor|assumption].
  Qed.

  Lemma ReachN_mono : forall k k' h g, ReachN k h g -> k <= k' -> ReachN k' h g.
  Proof.
    intros k k' h g H. revert k'. induction H as [|k h h1 g Hin Hr IH]; intros k' Hle.
    - constructor.
    - destruct k' as [|k']; [lia|]. eapply rn_step; [eassumption|]. apply IH. lia.
  Qed.

  Lemma ReachN_snoc : forall k h g g', ReachN k h g -> In g' (succ g) -> ReachN (S k) h g'.
  Proof.
    intros k h g g' H. induction H as [k h|k h h1 g Hin Hr IH]; intros Hg'.
    - eapply rn_step; [eassumption|constructor].
    - eapply rn_step; [eassumption|]. now apply IH.
  Qed.

  Lemma reach_set_incl : forall fuel fr seen x, In x seen -> In x (reach_set fuel fr seen).
  Proof.
    induction fuel as [|f IH]; intros fr seen x Hx; simpl; [assumption|].
    destruct (filter _ _) eqn:E; [assumption|].
    apply IH. apply in_or_app. now left.
  Qed.

  (* soundness: everything in the result is reachable from something initially seen *)
  Lemma reach_set_sound : forall fuel fr seen t,
      (forall x, In x seen -> Reach t x) -> (forall x, In x fr -> In x seen) ->
      forall x, In x (reach_set fuel fr seen) -> Reach t x.
  Proof.
    induction fuel as [|f IH]; intros fr seen t Hseen Hfr x Hx; simpl in Hx; [auto|].
    destruct (filter (fun x => negb (str_mem x seen)) (flat_map succ fr)) as [|n0 ns] eqn:E; [auto|].
    eapply IH; [| |exact Hx].
    - intros y Hy. apply in_app_or in Hy. destruct Hy as [Hy|Hy]; [auto|].
      rewrite <- E in Hy. apply filter_In in Hy. destruct Hy as [Hy _].
      apply in_flat_map in Hy. destruct Hy as [h [Hh Hy]].
      eapply r_step; [|exact Hy]. auto.
    - intros y Hy. apply in_or_app. now right.
  Qed.

  Theorem reach_within_sound : forall n t x, In x (reach_within n t) -> Reach t x.
  Proof.
    intros n t x H. unfold reach_within in H.
    eapply reach_set_sound; [| |exact H].
    - intros y [Hy|[]]. subst. constructor.
    - auto.
  Qed.

  (* completeness within the bound *)
  Definition Inv (fr seen : list string) : Prop :=
    (forall x, In x fr -> In x seen) /\
    (forall h, In h seen -> ~ In h fr -> forall y, In y (succ h) -> In y seen).

  Lemma reach_set_complete : forall fuel fr seen,
      Inv fr seen ->
      forall k h g, In h seen -> ReachN k h g -> k <= fuel -> In g (reach_set fuel fr seen).
  Proof.
    induction fuel as [|f IHf]; intros fr seen HInv k h g Hh Hr Hk.
    - assert (k = 0) by lia. subst k. inversion Hr; subst. simpl. assumption.
    - revert h Hh Hr Hk. induction k as [|k IHk]; intros h Hh Hr Hk.
      + inversion Hr; subst. now apply reach_set_incl.
      + inversion Hr as [|k0 h0 h1 g0 Hin Hr']; subst.
        * now apply reach_set_incl.
        * destruct (str_mem h1 seen) eqn:Hm.
          -- apply str_mem_In in Hm. apply (IHk h1 Hm); [assumption|lia].
          -- assert (Hnot : ~ In h1 seen).
             { intros Hc. apply str_mem_In in Hc. congruence. }
             assert (Hfr : In h fr).
             { destruct HInv as [_ H2]. destruct (in_dec string_dec h fr) as [|Hn]; [assumption|].
               exfalso. apply Hnot. eapply H2; eauto. }
             cbn [reach_set].
             assert (Hnext : In h1 (filter (fun x => negb (str_mem x seen)) (flat_map succ fr))).
             { apply filter_In. split.
               - apply in_flat_map. exists h. split; assumption.
               - now rewrite Hm. }
             destruct (filter (fun x => negb (str_mem x seen)) (flat_map succ fr)) as [|n0 ns] eqn:E;
               [contradiction|].
             apply (IHf (n0 :: ns) (seen ++ n0 :: ns)) with (k := k) (h := h1).
             ++ split.
                ** intros x Hx. apply in_or_app. now right.
                ** intros h' Hh' Hnfr y Hy.
                   apply in_app_or in Hh'. destruct Hh' as [Hh'|Hh']; [|contradiction].
                   destruct (str_mem y seen) eqn:Hy'.
                   --- apply str_mem_In in Hy'. apply in_or_app. now left.
                   --- destruct HInv as [H1 H2].
                       destruct (in_dec string_dec h' fr) as [Hin'|Hnin'].
                       +++ apply in_or_app. right. rewrite <- E. apply filter_In. split.
                           *** apply in_flat_map. exists h'. split; assumption.
                           *** now rewrite Hy'.
                       +++ apply in_or_app. left. eapply H2; eauto.
             ++ apply in_or_app. now right.
             ++ assumption.
             ++ lia.
  Qed.

  Theorem reach_within_complete : forall n t g k,
      ReachN k t g -> k <= n -> In g (reach_within n t).
  Proof.
    intros n t g k Hr Hk. unfold reach_within.
    eapply reach_set_complete; [| |exact Hr|exact Hk].
    - split.
      + auto.
      + intros h [Hh|[]] Hn. subst. exfalso. apply Hn. now left.
    - now left.
  Qed.
End Reach.

(* Conversion hint: unfold the definitions built on top of [reach_within] before unrolling
   the fuelled fixpoint (otherwise the kernel unrolls it on partially concrete fuel). *)
Strategy 100 [reach_within reach_set].
