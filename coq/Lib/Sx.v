(* S-expression values: the one wire format between the generators (Python), the
   extracted models (OCaml) and the Go harness.  Decoders are total: a malformed
   value decodes to a default, and the generators never produce one (the driver
   checks [wf] separately where it matters). *)
From Coq Require Import String List Ascii Arith Bool.
Import ListNotations.
Open Scope list_scope.
Open Scope string_scope.

Inductive sx : Type :=
| A (s : string)
| L (l : list sx).

Definition sx_str (x : sx) : string :=
  match x with A s => s | L _ => "" end.

Definition sx_list (x : sx) : list sx :=
  match x with A _ => [] | L l => l end.

Definition sx_nth (n : nat) (x : sx) : sx := nth n (sx_list x) (A "").

(* decimal natural numbers *)
Definition digit_of_ascii (c : ascii) : option nat :=
  let n := nat_of_ascii c in
  if andb (Nat.leb 48 n) (Nat.leb n 57) then Some (n - 48) else None.

Fixpoint nat_of_string_acc (s : string) (acc : nat) : nat :=
  match s with
  | EmptyString => acc
  | String c r =>
    match digit_of_ascii c with
    | Some d => nat_of_string_acc r (acc * 10 + d)
    | None => acc
    end
  end.

Definition nat_of_string (s : string) : nat := nat_of_string_acc s 0.

Definition sx_nat (x : sx) : nat := nat_of_string (sx_str x).

Definition ascii_of_digit (d : nat) : ascii := ascii_of_nat (48 + d).

Fixpoint string_of_nat_fuel (fuel n : nat) (acc : string) : string :=
  match fuel with
  | 0 => acc
  | S f =>
    let acc' := String (ascii_of_digit (Nat.modulo n 10)) acc in
    if Nat.ltb n 10 then acc' else string_of_nat_fuel f (Nat.div n 10) acc'
  end.

Definition string_of_nat (n : nat) : string := string_of_nat_fuel (S n) n "".

Definition sx_of_nat (n : nat) : sx := A (string_of_nat n).
Definition sx_of_bool (b : bool) : sx := A (if b then "1" else "0").
Definition sx_bool (x : sx) : bool := String.eqb (sx_str x) "1".
Definition sx_of_strs (l : list string) : sx := L (map A l).
Definition sx_strs (x : sx) : list string := map sx_str (sx_list x).

(* An entry point offered to the driver: name, function. *)
Definition entry : Type := (string * (sx -> sx))%type.

Fixpoint lookup_entry (name : string) (es : list entry) : option (sx -> sx) :=
  match es with
  | [] => None
  | (n, f) :: r => if String.eqb n name then Some f else lookup_entry name r
  end.
