(* Comparison operators as extracted from the Go sources by tools/gen_constants.py:
   the models evaluate the operator text, so a flipped comparison in the code changes
   the model (and breaks the lemmas that pin the operator). *)
From Coq Require Import String Arith Bool.
Open Scope string_scope.

Definition cmp_eval (op : string) (a b : nat) : bool :=
  if String.eqb op ">" then Nat.ltb b a
  else if String.eqb op ">=" then Nat.leb b a
  else if String.eqb op "<" then Nat.ltb a b
  else if String.eqb op "<=" then Nat.leb a b
  else if String.eqb op "==" then Nat.eqb a b
  else if String.eqb op "!=" then negb (Nat.eqb a b)
  else false.
