(* Byte-string helpers mirroring the Go [strings] functions the models use. *)
From Coq Require Import String List Ascii Arith Bool Lia.
Import ListNotations.
Open Scope list_scope.
Open Scope string_scope.

Definition nl : string := String (ascii_of_nat 10) EmptyString.
Definition tab : string := String (ascii_of_nat 9) EmptyString.
Definition dquote : string := String (ascii_of_nat 34) EmptyString.
Definition bslash : string := String (ascii_of_nat 92) EmptyString.
Definition c_nl : ascii := ascii_of_nat 10.
Definition c_dquote : ascii := ascii_of_nat 34.
Definition c_bslash : ascii := ascii_of_nat 92.

Definition chars (s : string) : list ascii := list_ascii_of_string s.
Definition unchars (l : list ascii) : string := string_of_list_ascii l.

Lemma unchars_chars : forall s, unchars (chars s) = s.
Proof. apply string_of_list_ascii_of_string. Qed.
Lemma chars_unchars : forall l, chars (unchars l) = l.
Proof. apply list_ascii_of_string_of_list_ascii. Qed.

Lemma chars_app : forall a b, chars (a ++ b) = (chars a ++ chars b)%list.
Proof. induction a; simpl; intros; f_equal; auto. Qed.

Lemma append_assoc : forall a b c : string, (a ++ b) ++ c = a ++ (b ++ c).
Proof. induction a; simpl; intros; f_equal; auto. Qed.

Lemma append_nil_r : forall a : string, a ++ "" = a.
Proof. induction a; simpl; f_equal; auto. Qed.

Lemma length_append : forall a b : string, String.length (a ++ b) = String.length a + String.length b.
Proof. induction a; simpl; intros; auto. Qed.

(* strings.HasPrefix *)
Fixpoint has_prefix (p s : string) : bool :=
  match p with
  | EmptyString => true
  | String c p' =>
    match s with
    | EmptyString => false
    | String d s' => if Ascii.eqb c d then has_prefix p' s' else false
    end
  end.

Lemma has_prefix_spec : forall p s, has_prefix p s = true <-> exists r, s = p ++ r.
Proof.
  induction p as [|c p IH]; intros s; simpl.
  - split; eauto.
  - destruct s as [|d s]; simpl.
    + split; [discriminate|]. intros [r H]. discriminate.
    + destruct (Ascii.eqb c d) eqn:E.
      * apply Ascii.eqb_eq in E. subst d. rewrite IH. split; intros [r H]; exists r.
        -- now subst.
        -- now inversion H.
      * split; [discriminate|]. intros [r H]. inversion H. subst.
        rewrite Ascii.eqb_refl in E. discriminate.
  Qed.

Fixpoint drop (n : nat) (s : string) : string :=
  match n with
  | 0 => s
  | S n' => match s with EmptyString => EmptyString | String _ s' => drop n' s' end
  end.

Fixpoint take (n : nat) (s : string) : string :=
  match n with
  | 0 => EmptyString
  | S n' => match s with EmptyString => EmptyString | String c s' => String c (take n' s') end
  end.

Lemma take_drop : forall n s, take n s ++ drop n s = s.
Proof. induction n; destruct s; simpl; auto. now rewrite IHn. Qed.

(* strings.HasSuffix *)
Definition has_suffix (suf s : string) : bool :=
  let ls := String.length s in
  let lf := String.length suf in
  if Nat.leb lf ls then String.eqb (drop (ls - lf) s) suf else false.

(* strings.Index: position of the first occurrence *)
Fixpoint index_from (fuel : nat) (pos : nat) (sep s : string) : option nat :=
  if has_prefix sep s then Some pos else
  match fuel with
  | 0 => None
  | S f =>
    match s with
    | EmptyString => None
    | String _ s' => index_from f (S pos) sep s'
    end
  end.

Definition str_index (sep s : string) : option nat := index_from (String.length s) 0 sep s.

Definition contains (s sub : string) : bool :=
  match str_index sub s with Some _ => true | None => false end.

(* strings.Split(s, sep) for non-empty sep *)
Fixpoint split_fuel (fuel : nat) (sep s : string) : list string :=
  match fuel with
  | 0 => [s]
  | S f =>
    match str_index sep s with
    | None => [s]
    | Some i => take i s :: split_fuel f sep (drop (i + String.length sep) s)
    end
  end.

Definition split (sep s : string) : list string := split_fuel (S (String.length s)) sep s.

(* strings.Join *)
Fixpoint join (sep : string) (l : list string) : string :=
  match l with
  | [] => ""
  | [x] => x
  | x :: r => x ++ sep ++ join sep r
  end.

(* strings.ReplaceAll(s, old, new) for non-empty old *)
Fixpoint replace_all_fuel (fuel : nat) (old new s : string) : string :=
  match fuel with
  | 0 => s
  | S f =>
    match str_index old s with
    | None => s
    | Some i => take i s ++ new ++ replace_all_fuel f old new (drop (i + String.length old) s)
    end
  end.

Definition replace_all (old new s : string) : string :=
  replace_all_fuel (S (String.length s)) old new s.

(* strings.LastIndex for a one-byte separator *)
Fixpoint last_index_char_from (pos : nat) (c : ascii) (s : string) (best : option nat) : option nat :=
  match s with
  | EmptyString => best
  | String d s' => last_index_char_from (S pos) c s' (if Ascii.eqb c d then Some pos else best)
  end.

Definition last_index_char (c : ascii) (s : string) : option nat := last_index_char_from 0 c s None.

Definition str_mem (s : string) (l : list string) : bool := existsb (String.eqb s) l.

Lemma str_mem_In : forall s l, str_mem s l = true <-> In s l.
Proof.
  unfold str_mem. intros s l. rewrite existsb_exists. split.
  - intros [x [Hin He]]. apply String.eqb_eq in He. now subst.
  - intros H. exists s. split; auto. apply String.eqb_refl.
Qed.

(* ASCII case folding (strings.EqualFold / strings.ToLower on ASCII text) *)
Definition lower_ascii (c : ascii) : ascii :=
  let n := nat_of_ascii c in
  if Nat.leb 65 n && Nat.leb n 90 then ascii_of_nat (n + 32) else c.
Fixpoint to_lower (s : string) : string :=
  match s with
  | EmptyString => EmptyString
  | String c r => String (lower_ascii c) (to_lower r)
  end.
Definition equal_fold (a b : string) : bool := String.eqb (to_lower a) (to_lower b).

(* utf8.RuneCountInString on valid UTF-8: the bytes that are not continuation bytes (10xxxxxx).  ANTLR's columns
   count characters, so the end column of a name is its start column plus its number of characters. *)
Definition is_cont_byte (c : ascii) : bool :=
  let n := nat_of_ascii c in Nat.leb 128 n && Nat.leb n 191.
Fixpoint rune_count (s : string) : nat :=
  match s with
  | EmptyString => 0
  | String c r => (if is_cont_byte c then 0 else 1) + rune_count r
  end.

(* the text after the first n characters / the first n characters (character = a byte that is not a continuation
   byte, with the continuation bytes that follow it) *)
Fixpoint skip_cont (s : string) : string :=
  match s with
  | String c r => if is_cont_byte c then skip_cont r else s
  | EmptyString => EmptyString
  end.

Fixpoint take_cont (s : string) : string :=
  match s with
  | String c r => if is_cont_byte c then String c (take_cont r) else EmptyString
  | EmptyString => EmptyString
  end.

Fixpoint drop_runes (n : nat) (s : string) : string :=
  match n with
  | 0 => s
  | S n' => match s with EmptyString => EmptyString | String _ r => drop_runes n' (skip_cont r) end
  end.

Fixpoint take_runes (n : nat) (s : string) : string :=
  match n with
  | 0 => EmptyString
  | S n' => match s with
            | EmptyString => EmptyString
            | String c r => String c (take_cont r ++ take_runes n' (skip_cont r))
            end
  end.
