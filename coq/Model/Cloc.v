(* Model of the GLUE of `coca cloc DIR --by-directory` and `coca cloc DIR --top-file`
   (cmd/cloc.go, pkg/application/cloc/cloc_app.go, pkg/domain/cloc/cloc_summary.go); definitions only.

   The counting engine github.com/boyter/scc is NOT modelled: every file of the tree comes with
   its language, its extension as scc sees it and its ground-truth (code, comment, blank) counts,
   and [scc_run] is the oracle "one processor.Process() call with Format=json": which files the
   walk reaches (path deny list = the default of --exclude-dir, matched with strings.HasSuffix
   on the joined path of every entry below the start directory; the --include-ext allow list),
   one summary per language, sorted by file count then name (SortBy = "files"). *)
From Coq Require Import String List Bool Arith Ascii.
From Coca Require Import Lib.Sx Lib.GoMap Lib.Str Lib.Cmp Model.GitSummary Generated.Constants.
Import ListNotations.
Open Scope list_scope.
Open Scope string_scope.

(* ------------------------------------------------------------------ the tree with ground truth *)
(* cf_path: the names from the analysed directory down to the file, e.g. ["a"; "sub"; "x.go"] *)
Record cfile := mkCFile { cf_path : list string; cf_lang : string; cf_ext : string;
                          cf_code : nat; cf_comment : nat; cf_blank : nat }.
(* ct_dirs: the immediate subdirectories in ioutil.ReadDir order (sorted by name) *)
Record ctree := mkCTree { ct_dirs : list string; ct_files : list cfile }.
(* co_dirarg: args[0] as typed; co_root: filepath.Clean of it (what scc prefixes to locations) *)
Record copts := mkCOpts { co_dirarg : string; co_root : string; co_include : list string; co_top : nat }.

(* ------------------------------------------------------------------ scc oracle *)
(* filepath.Join(root, comps...) for a clean root *)
Definition loc_str (root : string) (comps : list string) : string :=
  if String.eqb root "." then join "/" comps else root ++ "/" ++ join "/" comps.

Definition denied (p : string) : bool := existsb (fun d => has_suffix d p) cloc_exclude_dirs.

Fixpoint is_prefix_of (p l : list string) : bool :=
  match p, l with
  | [], _ => true
  | x :: p', y :: l' => String.eqb x y && is_prefix_of p' l'
  | _ :: _, [] => false
  end.

(* every entry strictly below the start directory (its first [start] names) passes the deny list *)
Definition walk_ok (root : string) (start : nat) (path : list string) : bool :=
  forallb (fun k => negb (denied (loc_str root (firstn k path))))
          (seq (S start) (List.length path - start)).

Definition ext_ok (o : copts) (f : cfile) : bool :=
  match co_include o with [] => true | l => str_mem (cf_ext f) l end.

(* the run started at root/prefix counts the file *)
Definition visible (o : copts) (prefix : list string) (f : cfile) : bool :=
  is_prefix_of prefix (cf_path f) && Nat.ltb (List.length prefix) (List.length (cf_path f)) &&
  ext_ok o f && walk_ok (co_root o) (List.length prefix) (cf_path f).

(* processor.LanguageSummary, the fields the glue reads; ls_files = (Location, Code) *)
Record lsum := mkLSum { ls_name : string; ls_code : nat; ls_count : nat; ls_files : list (string * nat) }.

Fixpoint dedup (l : list string) : list string :=
  match l with
  | [] => []
  | x :: r => x :: filter (fun y => negb (String.eqb x y)) (dedup r)
  end.

Definition lang_files (l : string) (fs : list cfile) : list cfile :=
  filter (fun f => String.eqb (cf_lang f) l) fs.

Definition sum_code (fs : list cfile) : nat := list_sum (map cf_code fs).

Definition summarize (root : string) (fs : list cfile) : list lsum :=
  map (fun l => let fl := lang_files l fs in
                mkLSum l (sum_code fl) (List.length fl)
                       (map (fun f => (loc_str root (cf_path f), cf_code f)) fl))
      (dedup (map cf_lang fs)).

(* sortLanguageSummary, default case: more files first, then by name *)
Definition lang_le (a b : lsum) : bool :=
  Nat.ltb (ls_count b) (ls_count a) ||
  (Nat.eqb (ls_count a) (ls_count b) && str_leb (ls_name a) (ls_name b)).

Definition scc_run (o : copts) (prefix : list string) (t : ctree) : list lsum :=
  sort_by lang_le (summarize (co_root o) (filter (visible o prefix) (ct_files t))).

(* ------------------------------------------------------------------ cloc_app.go *)
(* IsIgnoreDir *)
Definition is_ignore_dir (base_name : string) : bool :=
  existsb (fun d => String.eqb d base_name) cloc_ignore_dirs.

(* BuildBaseKey: the names of base_cloc.json in file order *)
Definition build_base_key (base : list lsum) : list string := map ls_name base.

(* MergeDirKeys: the keys, then the languages that only a per-directory json names, in the order
   of outputFiles (= ReadDir order of the reported directories) and of each json's summaries *)
Definition add_keys (keys news : list string) : list string :=
  fold_left (fun ks key => if str_mem key ks then ks else (ks ++ [key])%list) news keys.

Definition merge_dir_keys (keys : list string) (files : list (string * list lsum)) : list string :=
  fold_left (fun ks file => add_keys ks (build_base_key (snd file))) files keys.

(* SortLangeByCode: every summary's Files by Code, larger first (sort.Slice; stable stand-in) *)
Definition sort_files_by_code (fs : list (string * nat)) : list (string * nat) :=
  sort_by (fun a b => Nat.leb (snd b) (snd a)) fs.

Definition sort_lange_by_code (l : list lsum) : list lsum :=
  map (fun s => mkLSum (ls_name s) (ls_code s) (ls_count s) (sort_files_by_code (ls_files s))) l.

(* ------------------------------------------------------------------ cmd/cloc.go: processDirs *)
Definition reporter_path : string := "coca_reporter".

Definition output_file (base_name : string) : string :=
  reporter_path ++ "/cloc/" ++ base_name ++ ".json".

(* one counter run per immediate subdirectory that is not ignored: (outputFile, its content);
   filepath.Base(firstDir + "/" + name) = name *)
Definition process_dirs (o : copts) (t : ctree) : list (string * list lsum) :=
  map (fun d => (output_file d, scc_run o [d] t))
      (filter (fun d => negb (is_ignore_dir d)) (ct_dirs t)).

(* ------------------------------------------------------------------ cloc_summary.go *)
(* filepath.Base for a path that does not end with a separator: the text after the last "/" *)
Fixpoint seg_after (c : ascii) (s acc : string) : string :=
  match s with
  | EmptyString => acc
  | String d r => if Ascii.eqb d c then seg_after c r "" else seg_after c r (acc ++ String d "")
  end.
Definition path_base (p : string) : string := seg_after "/"%char p "".

(* filepath.Ext: the suffix starting at the last "." of the last element *)
Fixpoint ext_of (s : string) : string :=
  match s with
  | EmptyString => ""
  | String d r =>
    match ext_of r with
    | EmptyString => if Ascii.eqb d "."%char then s else ""
    | e => e
    end
  end.
Definition path_ext (p : string) : string := ext_of (path_base p).

(* strings.TrimSuffix *)
Definition trim_suffix (s suf : string) : string :=
  if has_suffix suf s then take (String.length s - String.length suf) s else s.

Definition dir_name_of (file_path : string) : string :=
  trim_suffix (path_base file_path) (path_ext file_path).

Definition zero_sum : lsum := mkLSum "" 0 0 [].

Definition find_lang (key : string) (l : list lsum) : option lsum :=
  find (fun s => String.eqb key (ls_name s)) l.

(* BuildLanguageMap: languageMap[dirName] = { key -> summary of that name, or the zero value } *)
Definition dir_lang_map (keys : list string) (content : list lsum) : gomap lsum :=
  fold_left (fun m key =>
               match find_lang key content with
               | Some s => mput m key (mkLSum key (ls_code s) (ls_count s) (ls_files s))
               | None => mput m key zero_sum
               end) keys [].

Definition build_language_map (keys : list string) (lm : gomap (gomap lsum)) (file : string * list lsum)
  : gomap (gomap lsum) :=
  mput lm (dir_name_of (fst file)) (dir_lang_map keys (snd file)).

(* BuildClocCsvData: name, summary (accumulated over the keys), one cell per key *)
Definition row_codes (keys : list string) (dir_summary : gomap lsum) : list nat :=
  map (fun key => ls_code (mget_d zero_sum dir_summary key)) keys.

Definition csv_row (keys : list string) (entry : string * gomap lsum) : list string :=
  let codes := row_codes keys (snd entry) in
  fst entry :: string_of_nat (fold_left Nat.add codes 0) :: map string_of_nat codes.

Definition build_cloc_csv_data (lm : gomap (gomap lsum)) (keys : list string) : list (list string) :=
  ("package" :: "summary" :: keys) :: map (csv_row keys) lm.

(* ------------------------------------------------------------------ cmd/cloc.go: processByDirectory *)
Definition base_keys (o : copts) (t : ctree) : list string := build_base_key (scc_run o [] t).

(* keys = BuildBaseKey(base_cloc.json), then MergeDirKeys(keys, outputFiles)  (fix 5353339) *)
Definition header_keys (o : copts) (t : ctree) : list string :=
  merge_dir_keys (base_keys o t) (process_dirs o t).

Definition language_map (o : copts) (t : ctree) : gomap (gomap lsum) :=
  fold_left (build_language_map (header_keys o t)) (process_dirs o t) [].

(* the records of coca_reporter/cloc.csv: header first, then the rows in map order *)
Definition process_by_directory (o : copts) (t : ctree) : list (list string) :=
  build_cloc_csv_data (language_map o t) (header_keys o t).

(* ------------------------------------------------------------------ cmd/cloc.go: processTopFile *)
(* strings.TrimLeft(s, cutset) *)
Fixpoint trim_left (cutset : string) (s : string) : string :=
  match s with
  | EmptyString => ""
  | String c r => if existsb (Ascii.eqb c) (chars cutset) then trim_left cutset r else s
  end.

Definition top_sizes (o : copts) (n : nat) : nat :=
  if cmp_eval cloc_top_size_cmp n (co_top o) then co_top o else n.

(* one table: (Length, Location as displayed) per row *)
Definition top_table (o : copts) (s : lsum) : string * list (nat * string) :=
  (ls_name s,
   map (fun f => (snd f, trim_left (co_dirarg o) (fst f)))
       (firstn (top_sizes o (List.length (ls_files s))) (ls_files s))).

(* (content of sort_cloc.json, the tables printed on stdout) *)
Definition process_top_file (o : copts) (t : ctree) : list lsum * list (string * list (nat * string)) :=
  let sums := sort_lange_by_code (scc_run o [] t) in
  (sums, if Nat.leb (List.length sums) cloc_top_lang_limit then map (top_table o) sums else []).
