(* Independent statement of C05: "method rename rewrites only the renamed identifier tokens".

   The abstract project comes from the generator: for every file its original bytes and, for
   every line, the CANDIDATE tokens (every identifier token whose text is the old method name) with
   their BYTE column, the byte length of the old name, the new name, and whether the token is a
   site (the identifier of a declaration of the renamed method, or the callee identifier of a call
   attributed to it).  The decider looks at the OBSERVED bytes of every file after the refactoring:

     crash                the refactoring did not return normally
     other_bytes_changed  a file is not its original with some candidates replaced by the new name
                          (a byte outside the candidate tokens differs, or the line structure changed)
     site_not_renamed     ... it is, but a site still carries the old name
     extra_rename         ... it is, but a candidate that is not a site carries the new name
     reanalysis           the model of the rewritten tree is not the model of the renamed project

   No function of Model/Rename.v is used here. *)
From Coq Require Import String List Bool Arith Ascii.
From Coca Require Import Lib.Sx Lib.GoMap Lib.Str Model.CodeModel Model.GitSummary.
Import ListNotations.
Open Scope list_scope.
Open Scope string_scope.

Record cand := mkCand {
  k_line : nat;        (* 1-based line *)
  k_col : nat;         (* byte offset in the line *)
  k_len : nat;         (* byte length of the old name *)
  k_new : string;      (* the new name *)
  k_site : bool }.     (* must be renamed *)

Record fspec := mkFS { fs_path : string; fs_orig : string; fs_cands : list cand }.

(* lines of a file: the text between line feeds *)
Fixpoint lines_of (s : string) : list string :=
  match s with
  | EmptyString => [EmptyString]
  | String c r =>
    if Ascii.eqb c c_nl then EmptyString :: lines_of r
    else match lines_of r with
         | x :: t => String c x :: t
         | [] => [String c EmptyString]
         end
  end.

(* [orig] with the candidates flagged in [flags] replaced, from byte [pos] on;
   candidates in increasing column order *)
Fixpoint rebuild (orig : string) (pos : nat) (cs : list cand) (flags : list bool) : string :=
  match cs, flags with
  | c :: cr, b :: br =>
    take (k_col c - pos) (drop pos orig) ++
    (if b then k_new c else take (k_len c) (drop (k_col c) orig)) ++
    rebuild orig (k_col c + k_len c) cr br
  | _, _ => drop pos orig
  end.

(* the expected line: exactly the sites replaced *)
Definition expected_line (orig : string) (cs : list cand) : string := rebuild orig 0 cs (map k_site cs).

(* candidates of one line are in range, in increasing order and do not overlap *)
Fixpoint cands_wf (orig : string) (pos : nat) (cs : list cand) : bool :=
  match cs with
  | [] => true
  | c :: r => Nat.leb pos (k_col c) && Nat.leb (k_col c + k_len c) (String.length orig) &&
              cands_wf orig (k_col c + k_len c) r
  end.

(* which candidates carry the new name in [obs] (the rest of the observed line from the point that
   corresponds to byte [pos] of the original): Some flags iff obs = rebuild orig pos cs flags;
   the expected reading is tried first *)
Fixpoint explain (orig obs : string) (pos : nat) (cs : list cand) : option (list bool) :=
  match cs with
  | [] => if String.eqb (drop pos orig) obs then Some [] else None
  | c :: r =>
    let gap := take (k_col c - pos) (drop pos orig) in
    if has_prefix gap obs then
      let obs1 := drop (String.length gap) obs in
      let old := take (k_len c) (drop (k_col c) orig) in
      let try_new :=
        if has_prefix (k_new c) obs1
        then match explain orig (drop (String.length (k_new c)) obs1) (k_col c + k_len c) r with
             | Some l => Some (true :: l) | None => None end
        else None in
      let try_old :=
        if has_prefix old obs1
        then match explain orig (drop (String.length old) obs1) (k_col c + k_len c) r with
             | Some l => Some (false :: l) | None => None end
        else None in
      if k_site c
      then match try_new with Some l => Some l | None => try_old end
      else match try_old with Some l => Some l | None => try_new end
    else None
  end.

Definition flag_clauses (cs : list cand) (flags : list bool) : list string :=
  flat_map (fun cb => if k_site (fst cb) && negb (snd cb) then ["site_not_renamed"]
                      else if negb (k_site (fst cb)) && snd cb then ["extra_rename"] else [])
           (combine cs flags).

Definition line_verdict (orig obs : string) (cs : list cand) : list string :=
  if negb (cands_wf orig 0 cs) then ["bad_case"] else
  match explain orig obs 0 cs with
  | None => ["other_bytes_changed"]
  | Some flags => flag_clauses cs flags
  end.

Definition cands_of_line (n : nat) (cs : list cand) : list cand := filter (fun c => Nat.eqb (k_line c) n) cs.

(* line by line; [n] is the 1-based number of the first line of [orig] *)
Fixpoint lines_verdict (n : nat) (orig obs : list string) (cs : list cand) : list string :=
  match orig, obs with
  | [], [] => []
  | o :: orest, b :: brest => (line_verdict o b (cands_of_line n cs) ++ lines_verdict (S n) orest brest cs)%list
  | _, _ => ["other_bytes_changed"]                   (* a line appeared or disappeared *)
  end.

Definition file_verdict (f : fspec) (obs : string) : list string :=
  ((if forallb (fun c => Nat.leb 1 (k_line c) && Nat.leb (k_line c) (List.length (lines_of (fs_orig f)))) (fs_cands f)
    then [] else ["bad_case"]) ++
   lines_verdict 1 (lines_of (fs_orig f)) (lines_of obs) (fs_cands f))%list.

(* the expected bytes of a file *)
Fixpoint expected_lines (n : nat) (orig : list string) (cs : list cand) : list string :=
  match orig with
  | [] => []
  | o :: r => expected_line o (cands_of_line n cs) :: expected_lines (S n) r cs
  end.
Definition expected_file (f : fspec) : string := join nl (expected_lines 1 (lines_of (fs_orig f)) (fs_cands f)).

Definition tag_path (p : string) (cl : list string) : list string := map (fun c => c ++ ":" ++ p) cl.

Definition missing_clause (p : string) : string := "other_bytes_changed:" ++ p ++ ":missing".

Definition files_verdict (files : list fspec) (obs : gomap string) : list string :=
  (flat_map (fun f => match mget obs (fs_path f) with
                      | None => [missing_clause (fs_path f)]
                      | Some o => tag_path (fs_path f) (file_verdict f o)
                      end) files ++
   (if Nat.eqb (List.length obs) (List.length files) then [] else ["other_bytes_changed:file_set"]))%list.

(* ---- re-analysis: the two code models are equal up to the order of the functions of a type
        (the full pass lists them in Go map order) ---- *)
Fixpoint sx_eqb (a b : sx) : bool :=
  match a, b with
  | A s, A t => String.eqb s t
  | L l, L m =>
    (fix go (l m : list sx) : bool :=
       match l, m with
       | [], [] => true
       | x :: l', y :: m' => sx_eqb x y && go l' m'
       | _, _ => false
       end) l m
  | _, _ => false
  end.

Definition fkey_le (a b : func) : bool :=
  let pa := f_pos a in let pb := f_pos b in
  Nat.ltb (p_sl pa) (p_sl pb) ||
  (Nat.eqb (p_sl pa) (p_sl pb) &&
   (Nat.ltb (p_sc pa) (p_sc pb) ||
    (Nat.eqb (p_sc pa) (p_sc pb) && str_leb (f_name a) (f_name b)))).

Definition canon_ds (d : ds) : ds :=
  mkDs (d_node d) (d_type d) (d_pkg d) (d_path d) (d_fields d) (d_extend d) (d_impls d)
       (sort_by fkey_le (d_funcs d)) (d_annots d) (d_calls d) (d_imports d).

Definition same_model (a b : list ds) : bool :=
  sx_eqb (sx_of_model (map canon_ds a)) (sx_of_model (map canon_ds b)).

(* [expected_*]: the analysis of the renamed project; [re_*]: the analysis of the rewritten tree *)
Definition c05_verdict (files : list fspec) (ok : bool) (obs : gomap string)
           (expected_idents expected_full re_idents re_full : list ds) : list string :=
  let bytes := ((if ok then [] else ["crash"]) ++ files_verdict files obs)%list in
  match bytes with
  | [] => if same_model expected_idents re_idents && same_model expected_full re_full then [] else ["reanalysis"]
  | _ => bytes
  end.
