(* Independent statement of C19 over the abstract inputs (xml tree, build.gradle statement
   list, imports), as boolean deciders applied to the OBSERVED output.  Nothing here goes
   through the token machine or the listener model of Model/Deps.v; only the data types,
   [trim_space] and [contains] are shared. *)
From Coq Require Import String List Ascii Bool Arith.
From Coca Require Import Lib.Str Model.Deps.
Import ListNotations.
Open Scope list_scope.
Open Scope string_scope.

(* ------------------------------------------------------------------ pom.xml *)
(* the text content of an element: its character data (text runs and CDATA sections), each
   piece without surrounding blanks, comments and processing instructions dropped *)
Definition piece (x : xnode) : string :=
  match x with
  | XT s => trim_space s
  | XD s => trim_space s
  | _ => ""
  end.

Fixpoint elem_text (cs : list xnode) : string :=
  match cs with
  | [] => ""
  | x :: r => piece x ++ elem_text r
  end.

(* the child lists of the element children called [name], in document order *)
Fixpoint child_elems (name : string) (cs : list xnode) : list (list xnode) :=
  match cs with
  | [] => []
  | XE n sub :: r => if String.eqb n name then sub :: child_elems name r else child_elems name r
  | _ :: r => child_elems name r
  end.

Definition field (name : string) (dep_children : list xnode) : string :=
  match child_elems name dep_children with
  | f :: _ => elem_text f
  | [] => ""
  end.

Definition declared_dep (dep_children : list xnode) : dep :=
  mkDep (field "groupId" dep_children) (field "artifactId" dep_children) (field "scope" dep_children).

(* the root element of a document: its last top-level element (a document has one) *)
Fixpoint doc_root (doc : list xnode) (dflt : list xnode) : list xnode :=
  match doc with
  | [] => dflt
  | XE _ sub :: r => doc_root r sub
  | _ :: r => doc_root r dflt
  end.

(* the declared dependencies: the <dependency> children of the <dependencies> child of the
   root, in order, each with the text of its own groupId / artifactId / scope child
   (nested ones -- exclusions, dependencyManagement, profiles, plugins -- do not count) *)
Definition spec_maven (doc : list xnode) : list dep :=
  match child_elems "dependencies" (doc_root doc []) with
  | deps :: _ => map declared_dep (child_elems "dependency" deps)
  | [] => []
  end.

(* ------------------------------------------------------------------ build.gradle *)
(* string notation declares group:artifact under its configuration, whatever the quotes and
   parentheses; every other notation is skipped *)
Definition spec_stmt (s : gstmt) : list dep :=
  match s with
  | GStr cfg _ _ _ g a _ => [mkDep g a cfg]
  | _ => []
  end.

Definition spec_item (it : gitem) : list dep :=
  match it with
  | GBlock name stmts => if String.eqb name "dependencies" then flat_map spec_stmt stmts else []
  | GOther _ => []
  end.

Definition spec_gradle (items : list gitem) : list dep := flat_map spec_item items.

(* ------------------------------------------------------------------ unused report *)
Definition spec_declared (p : project) : list dep :=
  ((match p_pom p with Some doc => spec_maven doc | None => [] end) ++
   (match p_gradle p with Some items => spec_gradle items | None => [] end))%list.

Definition group_imported (imports : list string) (d : dep) : bool :=
  existsb (fun imp => contains imp (d_group d)) imports.

Definition spec_unused (p : project) : list dep :=
  filter (fun d => negb (group_imported (p_imports p) d)) (spec_declared p).

(* ------------------------------------------------------------------ verdicts *)
Definition dep_eqb (x y : dep) : bool :=
  String.eqb (d_group x) (d_group y) && String.eqb (d_artifact x) (d_artifact y) &&
  String.eqb (d_scope x) (d_scope y).

Fixpoint deps_eqb (a b : list dep) : bool :=
  match a, b with
  | [], [] => true
  | x :: a', y :: b' => dep_eqb x y && deps_eqb a' b'
  | _, _ => false
  end.

Definition c19_maven_verdict (doc : list xnode) (obs : list dep) : list string :=
  if deps_eqb obs (spec_maven doc) then [] else ["maven_deps"].

Definition c19_gradle_verdict (items : list gitem) (obs : list dep) : list string :=
  if deps_eqb obs (spec_gradle items) then [] else ["gradle_deps"].

Definition c19_unused_verdict (p : project) (obs : list dep) : list string :=
  if deps_eqb obs (spec_unused p) then [] else ["unused"].

(* ------------------------------------------------------------------ decidable hypotheses *)
Definition blank (s : string) : bool := String.eqb (trim_space s) "".

Definition is_elem (x : xnode) : bool := match x with XE _ _ => true | _ => false end.

(* no character data other than blanks directly below this element *)
Definition no_loose_text (cs : list xnode) : bool :=
  forallb (fun x => match x with XT s => blank s | XD s => blank s | _ => true end) cs.

(* a value element: no child elements (its character data may come in any number of pieces,
   separated by comments or CDATA boundaries) *)
Definition wf_field (cs : list xnode) : bool :=
  forallb (fun x => negb (is_elem x)) cs.

Definition is_field_name (n : string) : bool :=
  String.eqb n "groupId" || String.eqb n "artifactId" || String.eqb n "scope".

Definition wf_dep (cs : list xnode) : bool :=
  no_loose_text cs &&
  forallb (fun x => match x with XE n f => if is_field_name n then wf_field f else true | _ => true end) cs &&
  Nat.leb (List.length (child_elems "groupId" cs)) 1 &&
  Nat.leb (List.length (child_elems "artifactId" cs)) 1 &&
  Nat.leb (List.length (child_elems "scope" cs)) 1.

Definition wf_deps_block (cs : list xnode) : bool :=
  no_loose_text cs &&
  forallb (fun x => match x with XE n sub => String.eqb n "dependency" && wf_dep sub | _ => true end) cs.

(* every XML declaration is one the decoder reads: version 1.0, UTF-8 *)
Definition decls_ok (doc : list xnode) : bool :=
  forallb (fun x => match x with XX v e => decl_supported v e | _ => true end) doc.

Definition wf_pom_b (doc : list xnode) : bool :=
  let rc := doc_root doc [] in
  decls_ok doc &&
  no_loose_text rc &&
  match child_elems "dependencies" rc with
  | deps :: _ => wf_deps_block deps
  | [] => true
  end.

Fixpoint has_char (c : ascii) (s : string) : bool :=
  match s with
  | EmptyString => false
  | String d r => Ascii.eqb d c || has_char c r
  end.

Definition plain_name (s : string) : bool :=
  negb (has_char squote_c s) && negb (has_char c_dquote s) && negb (has_char (ascii_of_nat 58) s).

(* every notation is allowed: string notation in single or double quotes (plain, parenthesised,
   with a closure), map notation, project(..) / fileTree(..) / any other call (plain or
   parenthesised), comments; the group and artifact of a string coordinate contain no quote and
   no ':' *)
Definition wf_stmt (s : gstmt) : bool :=
  match s with
  | GStr _ _ _ _ g a _ => plain_name g && plain_name a
  | _ => true
  end.

Definition wf_item (it : gitem) : bool :=
  match it with
  | GBlock name stmts => if String.eqb name "dependencies" then forallb wf_stmt stmts else true
  | GOther _ => true
  end.

(* any number of dependencies blocks, empty ones included *)
Definition wf_gradle_b (items : list gitem) : bool := forallb wf_item items.

Definition wf_project_b (p : project) : bool :=
  (match p_pom p with Some doc => wf_pom_b doc | None => true end) &&
  (match p_gradle p with Some items => wf_gradle_b items | None => true end).
