(* Model of `coca refactor`'s unused-import removal:
     pkg/application/refactor/base/java_refactor_listener.go   (the ANTLR listener)
     pkg/application/refactor/base/models/jfull_identifier.go  (the tables behind a JFullIdentifier)
     pkg/application/refactor/unused/remove_unused_import.go   (Analysis / Refactoring / removeLine)

   The ANTLR parser is not modelled.  A file is the list of its lines (strings.Split(text, "\n")),
   each line carrying the import declarations that start on it, plus the occurrences the listener
   callbacks see in the rest of the unit, in source order: (callback, text it reads).
   Every package-level variable of the three Go files is a field of [gstate].

   Five independent repairs of the Go code are switches of the model ([ui_cfg]); [cfg_repo] reads them
   from the Go sources (Generated.Constants), [cfg_prefix] is the code as first verified, [cfg_fixed]
   the code with every patch of fixes/unused-*.diff applied. *)
From Coq Require Import String List Bool Arith Ascii.
From Coca Require Import Lib.Str Lib.GoMap Generated.Constants.
Import ListNotations.
Open Scope list_scope.
Open Scope string_scope.

Record ui_cfg := mkCfg {
  fx_perfile : bool;   (* tables and path are members of the JFullIdentifier value (unused-per-file-results.diff) *)
  fx_lines : bool;     (* BuildErrorLines: one entry per line, no line that holds an import in use (unused-shared-line.diff) *)
  fx_wildcard : bool;  (* the `*` test no longer sits inside the loop over the referenced names (unused-wildcard-empty-table.diff) *)
  fx_decl : bool;      (* enum / @interface declarations name the node (unused-enum-annotation-files.diff) *)
  fx_primary : bool }. (* a bare identifier is a reference (unused-static-constant.diff) *)

Definition cfg_prefix : ui_cfg := mkCfg false false false false false.
Definition cfg_fixed : ui_cfg := mkCfg true true true true true.
Definition cfg_repo : ui_cfg :=
  mkCfg unused_fix_perfile unused_fix_lines unused_fix_wildcard unused_fix_decl unused_fix_primary.

(* ---------------------------------------------------------------- facts *)
(* importDeclaration : IMPORT STATIC? qualifiedName ('.' '*')? ';' *)
Record impfact := mkIF { if_qname : string; if_star : bool; if_static : bool }.
Record jline := mkLine { ln_text : string; ln_imps : list impfact }.
Record occ := mkOcc { oc_role : string; oc_text : string }.
Record jfile := mkFile { jf_path : string; jf_pkg : string; jf_lines : list jline; jf_occs : list occ;
                         jf_corrupt : bool (* a line without import was deleted: the facts are void *) }.

(* models.JImport (StopLine is never read) *)
Record jimport := mkImp { im_name : string; im_line : nat }.

(* models.JFullIdentifier; path and tables exist only with fx_perfile *)
Record jident := mkId { id_pkg : string; id_name : string; id_type : string; id_path : string;
                        id_fields : gomap string; id_imports : list jimport; id_methods : list string }.
Definition ident0 : jident := mkId "" "" "" "" [] [] [].

Record gstate := mkG {
  g_current_file : string;     (* unused.currentFile *)
  g_config_path : string;      (* unused.configPath *)
  g_node : jident;             (* base.node *)
  g_fields : gomap string;     (* models.fields  (name -> Source) *)
  g_imports : list jimport;    (* models.imports *)
  g_methods : list string;     (* models.methods *)
  g_pkginfo : string }.        (* models.pkgInfo *)
Definition gstate0 : gstate := mkG "" "" ident0 [] [] [] "".

Definition with_node (g : gstate) (n : jident) : gstate :=
  mkG (g_current_file g) (g_config_path g) n (g_fields g) (g_imports g) (g_methods g) (g_pkginfo g).

(* ---------------------------------------------------------------- jfull_identifier.go *)
(* NewJFullIdentifier *)
Definition new_ident (cfg : ui_cfg) (g : gstate) : gstate * jident :=
  if fx_perfile cfg then (g, ident0)
  else (mkG (g_current_file g) (g_config_path g) (g_node g) [] [] [] (g_pkginfo g), ident0).

Definition node_set_tables (n : jident) (f : gomap string) (i : list jimport) (m : list string) : jident :=
  mkId (id_pkg n) (id_name n) (id_type n) (id_path n) f i m.

(* AddField: fields[field.Name] = field *)
Definition add_field (cfg : ui_cfg) (g : gstate) (name : string) : gstate :=
  let n := g_node g in
  if fx_perfile cfg
  then with_node g (node_set_tables n (mput (id_fields n) name (id_pkg n)) (id_imports n) (id_methods n))
  else mkG (g_current_file g) (g_config_path g) n (mput (g_fields g) name (id_pkg n)) (g_imports g)
           (g_methods g) (g_pkginfo g).

Definition add_import (cfg : ui_cfg) (g : gstate) (i : jimport) : gstate :=
  let n := g_node g in
  if fx_perfile cfg
  then with_node g (node_set_tables n (id_fields n) (id_imports n ++ [i])%list (id_methods n))
  else mkG (g_current_file g) (g_config_path g) n (g_fields g) (g_imports g ++ [i])%list
           (g_methods g) (g_pkginfo g).

Definition add_method (cfg : ui_cfg) (g : gstate) (m : string) : gstate :=
  let n := g_node g in
  if fx_perfile cfg
  then with_node g (node_set_tables n (id_fields n) (id_imports n) (id_methods n ++ [m])%list)
  else mkG (g_current_file g) (g_config_path g) n (g_fields g) (g_imports g)
           (g_methods g ++ [m])%list (g_pkginfo g).

Definition get_fields (cfg : ui_cfg) (g : gstate) (n : jident) : gomap string :=
  if fx_perfile cfg then id_fields n else g_fields g.
Definition get_imports (cfg : ui_cfg) (g : gstate) (n : jident) : list jimport :=
  if fx_perfile cfg then id_imports n else g_imports g.

(* ---------------------------------------------------------------- java_refactor_listener.go *)
Definition is_upper_ascii (c : ascii) : bool :=
  let n := nat_of_ascii c in Nat.leb 65 n && Nat.leb n 90.

(* isUppercaseText (ASCII texts; the empty text, on which Go indexes out of range, is never produced) *)
Definition is_uppercase_text (t : string) : bool :=
  negb (contains t ".") &&
  match t with EmptyString => false | String c _ => is_upper_ascii c end.

Definition set_decl (g : gstate) (ty name : string) : gstate :=
  let n := g_node g in
  with_node g (mkId (id_pkg n) name ty (id_path n) (id_fields n) (id_imports n) (id_methods n)).

Definition always_roles : list string :=
  ["typeType"; "classOrInterfaceType"; "annotation"; "createdName"; "methodCall"; "catchType";
   "qualifiedNameList"; "lambdaParameters"].
Definition upper_roles : list string := ["expressionList"; "statement"; "expression0"].

(* one callback; the role names the ANTLR context, the text is what the callback reads from it *)
Definition enter_occ (cfg : ui_cfg) (g : gstate) (o : occ) : gstate :=
  let r := oc_role o in
  let t := oc_text o in
  if String.eqb r "classDeclaration" then set_decl g "Class" t
  else if String.eqb r "interfaceDeclaration" then set_decl g "Interface" t
  else if String.eqb r "enumDeclaration" then (if fx_decl cfg then set_decl g "Enum" t else g)
  else if String.eqb r "annotationTypeDeclaration" then (if fx_decl cfg then set_decl g "Annotation" t else g)
  else if String.eqb r "explicitConstructorCall" then g   (* methodCall this(...) / super(...): no identifier, no name *)
  else if str_mem r always_roles then add_field cfg g t
  else if str_mem r upper_roles then (if is_uppercase_text t then add_field cfg g t else g)
  else if String.eqb r "primary" then (if fx_primary cfg then add_field cfg g t else g)
  else if String.eqb r "interfaceMethodDeclaration" then add_method cfg g t
  else g.

(* EnterPackageDeclaration *)
Definition enter_package (g : gstate) (pkg : string) : gstate :=
  let n := g_node g in
  mkG (g_current_file g) (g_config_path g)
      (mkId pkg (id_name n) (id_type n) (id_path n) (id_fields n) (id_imports n) (id_methods n))
      (g_fields g) (g_imports g) (g_methods g) pkg.

(* EnterImportDeclaration *)
Definition import_text (i : impfact) : string :=
  if if_star i then if_qname i ++ ".*" else if_qname i.

Fixpoint imports_from (n : nat) (ls : list jline) : list jimport :=
  match ls with
  | [] => []
  | l :: r => (map (fun i => mkImp (import_text i) n) (ln_imps l) ++ imports_from (S n) r)%list
  end.

(* the tree walk over one compilation unit: package, imports, the rest *)
Definition walk (cfg : ui_cfg) (g : gstate) (f : jfile) : gstate :=
  let g1 := if String.eqb (jf_pkg f) "" then g else enter_package g (jf_pkg f) in
  let g2 := fold_left (add_import cfg) (imports_from 1 (jf_lines f)) g1 in
  fold_left (enter_occ cfg) (jf_occs f) g2.

(* ---------------------------------------------------------------- remove_unused_import.go *)
Definition set_current (g : gstate) (p : string) : gstate :=
  mkG p (g_config_path g) (g_node g) (g_fields g) (g_imports g) (g_methods g) (g_pkginfo g).
Definition set_config (g : gstate) (p : string) : gstate :=
  mkG (g_current_file g) p (g_node g) (g_fields g) (g_imports g) (g_methods g) (g_pkginfo g).

(* the body of Analysis' loop for one file *)
Definition analyse_file (cfg : ui_cfg) (g : gstate) (f : jfile) : gstate :=
  let g1 := set_current g (jf_path f) in
  let '(g2, node) := new_ident cfg g1 in
  let node := if fx_perfile cfg
              then mkId (id_pkg node) (id_name node) (id_type node) (g_current_file g1)
                        (id_fields node) (id_imports node) (id_methods node)
              else node in
  walk cfg (with_node g2 node) f.          (* InitNode, Walk *)

Fixpoint analysis (cfg : ui_cfg) (g : gstate) (files : list jfile) : gstate * list jident :=
  match files with
  | [] => (g, [])
  | f :: r =>
    let g1 := analyse_file cfg g f in
    let '(g2, nodes) := analysis cfg g1 r in
    (g2, g_node g1 :: nodes)               (* GetNodeInfo *)
  end.

(* ss[len(ss)-1] of strings.Split(name, ".") *)
Fixpoint last_seg_acc (s acc : string) : string :=
  match s with
  | EmptyString => acc
  | String c r => if Ascii.eqb c "."%char then last_seg_acc r "" else last_seg_acc r (acc ++ String c "")
  end.
Definition last_segment (s : string) : string := last_seg_acc s "".

Definition import_ok (cfg : ui_cfg) (fields : gomap string) (im : jimport) : bool :=
  let lf := last_segment (im_name im) in
  if fx_wildcard cfg
  then String.eqb lf "*" || existsb (fun kv => String.eqb (fst kv) lf) fields
  else existsb (fun kv => String.eqb (fst kv) lf || String.eqb lf "*") fields.

Definition nat_mem (n : nat) (l : list nat) : bool := existsb (Nat.eqb n) l.

(* removableLines of the repaired BuildErrorLines *)
Fixpoint removable_lines (errs used : list nat) (last : option nat) : list nat :=
  match errs with
  | [] => []
  | l :: r =>
    if nat_mem l used || match last with Some k => Nat.eqb k l | None => false end
    then removable_lines r used last
    else l :: removable_lines r used (Some l)
  end.

Definition build_error_lines (cfg : ui_cfg) (fields : gomap string) (imports : list jimport) : list nat :=
  let errs := map im_line (filter (fun im => negb (import_ok cfg fields im)) imports) in
  if fx_lines cfg
  then removable_lines errs (map im_line (filter (import_ok cfg fields) imports)) None
  else errs.

Fixpoint delete_nth {A : Type} (n : nat) (l : list A) : list A :=
  match l with
  | [] => []
  | x :: r => match n with 0 => r | S n' => x :: delete_nth n' r end
  end.

(* strings.Split(strings.Join([]string{}, "\n"), "\n") = [""] : what the next removeLine reads *)
Definition norm_lines (l : list jline) : list jline :=
  match l with [] => [mkLine "" []] | _ => l end.

Record rm_result := mkRm { rm_lines : list jline; rm_corrupt : bool; rm_panic : bool }.

(* removeImportByLines + removeLine on the lines of one file; [count] is removedErrorCount.
   line - count < 0 and line - count >= len(array) are Go's slice-bounds panics. *)
Fixpoint remove_by_lines (count : nat) (errs : list nat) (lines : list jline) (corrupt : bool) : rm_result :=
  match errs with
  | [] => mkRm lines corrupt false
  | l :: r =>
    if Nat.ltb l count then mkRm lines corrupt true else
    let idx := l - count in
    if Nat.ltb idx (List.length lines)
    then remove_by_lines (S count) r (norm_lines (delete_nth idx lines))
           (corrupt || match nth_error lines idx with
                       | Some ln => match ln_imps ln with [] => true | _ => false end
                       | None => false end)
    else mkRm lines corrupt true
  end.

(* the directory: files in filepath.Walk order *)
Definition world := list jfile.

Fixpoint find_file (w : world) (p : string) : option jfile :=
  match w with
  | [] => None
  | f :: r => if String.eqb (jf_path f) p then Some f else find_file r p
  end.

Definition put_file (w : world) (p : string) (lines : list jline) (corrupt : bool) : world :=
  map (fun f => if String.eqb (jf_path f) p
                then mkFile (jf_path f) (jf_pkg f) lines (jf_occs f) corrupt else f) w.

(* Refactoring; true = a panic stopped it (files written so far stay written) *)
Fixpoint refactoring (cfg : ui_cfg) (g : gstate) (w : world) (nodes : list jident) : world * bool :=
  match nodes with
  | [] => (w, false)
  | n :: r =>
    if String.eqb (id_name n) "" then refactoring cfg g w r else
    let errs := build_error_lines cfg (get_fields cfg g n) (get_imports cfg g n) in
    let path := if fx_perfile cfg then id_path n else g_current_file g in
    match errs with
    | [] => refactoring cfg g w r
    | _ =>
      match find_file w path with
      | None => (w, true)                  (* ioutil.ReadFile fails: panic(err) *)
      | Some f =>
        let res := remove_by_lines 1 errs (jf_lines f) (jf_corrupt f) in
        let w' := put_file w path (rm_lines res) (rm_corrupt res) in
        if rm_panic res then (w', true) else refactoring cfg g w' r
      end
    end
  end.

(* NewRemoveUnusedImportApp(dir); Analysis(); Refactoring(results) *)
Definition run_once (cfg : ui_cfg) (g : gstate) (w : world) : gstate * world * bool :=
  let '(g1, nodes) := analysis cfg (set_config g "dir") w in
  let '(w', p) := refactoring cfg g1 w nodes in
  (g1, w', p).

Inductive run_status := RunOk | RunPanic | RunSkipped.

Definition status_str (s : run_status) : string :=
  match s with RunOk => "ok" | RunPanic => "PANIC" | RunSkipped => "SKIP" end.

Definition any_corrupt (w : world) : bool := existsb jf_corrupt w.

(* what the check observes: the files after the first run, after a second run in the same
   process, and after a second run in a new process.  The second run is observed only when the
   first one ended normally and deleted nothing but import lines (otherwise the files are no
   longer the units the facts describe). *)
Definition observe (cfg : ui_cfg) (w : world)
  : (run_status * world) * (run_status * world) * (run_status * world) :=
  let '(g1, w1, p1) := run_once cfg gstate0 w in
  if p1 then ((RunPanic, w1), (RunSkipped, []), (RunSkipped, []))
  else if any_corrupt w1 then ((RunOk, w1), (RunSkipped, []), (RunSkipped, []))
  else
    let '(_, w2, p2) := run_once cfg g1 w1 in
    let '(_, w3, p3) := run_once cfg gstate0 w1 in
    ((RunOk, w1), (if p2 then RunPanic else RunOk, w2), (if p3 then RunPanic else RunOk, w3)).

Definition file_texts (f : jfile) : list string := map ln_text (jf_lines f).
