(* Model of pkg/application/git/{git.go,log_parser.go (rename decoding),changelog.go}
   over a parsed history (definitions only). *)
From Coq Require Import String List Bool Arith Ascii ZArith.
From Coca Require Import Lib.Sx Lib.GoMap Lib.Str Lib.Scan.
Import ListNotations.
Open Scope list_scope.
Open Scope string_scope.

Record fchange := mkChange { ch_added : nat; ch_deleted : nat; ch_file : string; ch_mode : string }.
Record commit := mkCommit { cm_rev : string; cm_author : string; cm_date : string; cm_msg : string;
                            cm_changes : list fchange }.

(* complexMoveReg: four greedy groups around "{", " => " and "}" *)
Definition complex_move (s : string) : option (string * string * string * string) :=
  match greedy_star (fun r1 =>
          bind (expect "{" r1) (fun r2 =>
            greedy_star (fun r3 =>
              bind (expect_ws r3) (fun r4 =>
              bind (expect "=>" r4) (fun r5 =>
              bind (expect_ws r5) (fun r6 =>
                greedy_star (fun r7 =>
                  bind (expect "}" r7) (fun r8 =>
                    if contains r8 nl then None else Some r8)) r6)))) r2)) s with
  | Some (g1, Some_g) =>
    match Some_g with
    | (g2, (g3, g4)) => Some (g1, g2, g3, g4)
    end
  | None => None
  end.

(* basicMvReg: two greedy groups around " => " *)
Definition basic_move (s : string) : option (string * string) :=
  greedy_star (fun r1 =>
    bind (expect_ws r1) (fun r2 =>
    bind (expect "=>" r2) (fun r3 =>
    bind (expect_ws r3) (fun r4 => if contains r4 nl then None else Some r4)))) s.

Definition trim_prefix (p s : string) : string :=
  if has_prefix p s then drop (String.length p) s else s.

(* UpdateMessageForChange: (changedFile, oldFileName, newFileName) *)
Definition update_message_for_change (file : string) : string * string * string :=
  match complex_move file with
  | Some (g1, g2, g3, g4) =>
    let old_last := if String.eqb g2 "" then trim_prefix "/" g4 else g4 in
    let new_last := if String.eqb g3 "" then trim_prefix "/" g4 else g4 in
    let old := g1 ++ g2 ++ old_last in
    let new := g1 ++ g3 ++ new_last in
    (new, old, new)
  | None => (file, file, file)
  end.

Record pinfo := mkInfo { pi_name : string; pi_authors : list string; pi_revs : list string; pi_age : string }.

Definition set_add (x : string) (l : list string) : list string := if str_mem x l then l else (l ++ [x])%list.

(* switchMapFile *)
Definition switch_map_file (infos : gomap pinfo) (old new : string) : gomap pinfo :=
  match mget infos old with
  | Some i => mput (mdel infos old) new (mkInfo new (pi_authors i) (pi_revs i) (pi_age i))
  | None => infos
  end.

Definition apply_change (c : commit) (infos : gomap pinfo) (ch : fchange) : gomap pinfo :=
  let file := ch_file ch in
  let '(infos1, name) :=
    match complex_move file with
    | Some _ =>
      let '(changed, old, new) := update_message_for_change file in
      ((if String.eqb changed old then infos else switch_map_file infos old new), changed)
    | None =>
      match basic_move file with
      | Some (g1, g2) => (switch_map_file infos g1 g2, g2)
      | None => (infos, file)
      end
    end in
  let infos2 :=
    match mget infos1 name with
    | Some i =>
      if String.eqb (pi_name i) "" then
        mput infos1 name (mkInfo name [cm_author c] [cm_rev c] (cm_date c))
      else mput infos1 name (mkInfo (pi_name i) (set_add (cm_author c) (pi_authors i))
                                    (set_add (cm_rev c) (pi_revs i)) (pi_age i))
    | None => mput infos1 name (mkInfo name [cm_author c] [cm_rev c] (cm_date c))
    end in
  if String.eqb (ch_mode ch) "delete" then mdel infos2 name else infos2.

(* BuildCommitMessageMap *)
Definition build_commit_message_map (cs : list commit) : gomap pinfo :=
  fold_left (fun infos c => fold_left (apply_change c) (cm_changes c) infos) cs [].

(* a stable insertion sort: the executable stand-in for sort.Slice (which is not stable; the
   checks compare tie groups as multisets) *)
Fixpoint insert_by {A : Type} (le : A -> A -> bool) (x : A) (l : list A) : list A :=
  match l with
  | [] => [x]
  | y :: r => if le x y then x :: l else y :: insert_by le x r
  end.
Definition sort_by {A : Type} (le : A -> A -> bool) (l : list A) : list A :=
  fold_left (fun acc x => insert_by le x acc) (rev l) [].
(* note: folding the reversed list and inserting before the first element that is not
   smaller keeps the original order among equal keys *)

(* GetTeamSummary: (EntityName, AuthorCount, RevsCount), most revisions first *)
Definition team_summary (cs : list commit) : list (string * nat * nat) :=
  sort_by (fun a b => Nat.leb (snd b) (snd a))
          (map (fun kv => let i := snd kv in (pi_name i, List.length (pi_authors i), List.length (pi_revs i)))
               (build_commit_message_map cs)).

(* CalculateCodeAge: (EntityName, first date), oldest first (dates are YYYY-MM-DD strings) *)
Fixpoint str_leb (a b : string) : bool :=
  match a, b with
  | EmptyString, _ => true
  | String _ _, EmptyString => false
  | String c a', String d b' =>
    let x := nat_of_ascii c in let y := nat_of_ascii d in
    if Nat.ltb x y then true else if Nat.ltb y x then false else str_leb a' b'
  end.

Definition code_age (cs : list commit) : list (string * string) :=
  sort_by (fun a b => str_leb (snd a) (snd b))
          (map (fun kv => let i := snd kv in (pi_name i, pi_age i)) (build_commit_message_map cs)).

(* GetTopAuthors: (Name, CommitCount, LineCount), most commits first *)
Definition line_delta (c : commit) : Z :=
  fold_left (fun acc ch => (acc + Z.of_nat (ch_added ch) - Z.of_nat (ch_deleted ch))%Z) (cm_changes c) 0%Z.

Definition top_authors_map (cs : list commit) : gomap (nat * Z) :=
  fold_left (fun m c =>
               let '(n, l) := mget_d (0, 0%Z) m (cm_author c) in
               mput m (cm_author c) (S n, (l + line_delta c)%Z)) cs [].

Definition top_authors (cs : list commit) : list (string * nat * Z) :=
  sort_by (fun a b => Nat.leb (snd (fst b)) (snd (fst a)))
          (map (fun kv => (fst kv, fst (snd kv), snd (snd kv))) (top_authors_map cs)).

(* BasicSummary: (Commits, Entities, Changes, Authors) *)
Definition basic_summary (cs : list commit) : nat * nat * Z * nat :=
  let authors := fold_left (fun acc c => set_add (cm_author c) acc) cs [] in
  let files := fold_left (fun acc c => fold_left (fun acc ch => set_add (ch_file ch) acc) (cm_changes c) acc) cs [] in
  let changes := fold_left (fun acc c =>
                   fold_left (fun acc ch =>
                     let a := if Nat.ltb 0 (ch_added ch) then (acc + 1)%Z else acc in
                     if Nat.ltb 0 (ch_deleted ch) then (a - 1)%Z else a) (cm_changes c) acc) cs 0%Z in
  (List.length cs, List.length files, changes, List.length authors).

(* changeLogRegex (word prefix, optional parenthesised scope, colon, blank, rest):
   the keyword, when the message matches *)
Definition changelog_keyword (msg : string) : option string :=
  if contains msg nl then None else
  let '(kw, rest) := span is_word msg in
  match rest with
  | String c r =>
    if Ascii.eqb c ":"%char then (if has_prefix " " r then Some kw else None)
    else if Ascii.eqb c "("%char then
      match greedy_star (fun r1 => bind (expect ")" r1) (fun r2 => expect ": " r2)) r with
      | Some _ => Some kw
      | None => None
      end
    else None
  | EmptyString => None
  end.

(* BuildChangeMap: keyword -> file -> number of changes *)
Definition build_change_map (cs : list commit) : gomap (gomap nat) :=
  fold_left (fun m c =>
               match changelog_keyword (cm_msg c) with
               | None => m
               | Some kw =>
                 let inner0 := mget_d [] m kw in
                 let inner := fold_left (fun im ch =>
                                           let '(file, old, new) := update_message_for_change (ch_file ch) in
                                           let f := if String.eqb file old then
                                                      match basic_move file with Some (_, g2) => g2 | None => file end
                                                    else new in
                                           mput im f (S (mget_d 0 im f))) (cm_changes c) inner0 in
                 mput m kw inner
               end) cs [].
