(* Executable model of coca's Python front-end over an ABSTRACT module (the ANTLR parser is
   not re-implemented; the generator renders the abstract module to source text):
     pkg/infrastructure/ast/ast_python/python_ident_listener.go
         EnterImport_stmt, EnterFrom_stmt, Enter/ExitClassdef, Enter/ExitFuncdef,
         BuildDecoratorsByIndex, BuildDecorator, BuildArgList
     pkg/application/analysis/pyapp/py_ident_app.go   PythonIdentApp.Analysis
   State of /repo modelled: after the fix commits bae8eb2 (a stack of enclosing classes:
   leaving a class returns to the enclosing one), 59ca923 (funcdefDepth: a def nested in a
   def is ignored) and f295c5c (the depth is counted per class: saved and reset on class
   entry, restored on exit).  A def with no enclosing def inside its class is appended to
   the current class if there is one and to the file's members otherwise.
   [import a as x, b as y, c]: one CodeImport, Source a, UsageName [x; "basy"; c]
   (GetText of the remaining dotted_as_name nodes, blanks dropped).
   Each case runs in a fresh process, so the pointer starts nil. *)
From Coq Require Import String List Bool Arith.
From Coq Require Import Ascii.
From Coca Require Import Lib.Str.
Import ListNotations.
Open Scope list_scope.
Open Scope string_scope.

(* ------------------------------------------------------------------ abstract module *)
Definition pdeco : Type := (string * list string)%type.     (* dotted name, argument texts *)

(* a class or a def with the classes/defs nested in its body, in source order *)
Inductive pnode : Type :=
| PNode (is_class : bool) (decos : list pdeco) (name : string) (kids : list pnode).

Inductive pitem : Type :=
| PImport (names : list (string * string))                    (* import a.b as c, d     *)
| PFrom (src : string) (names : list (string * string)) (paren : bool)
                                                              (* from src import x as y *)
| PDecl (n : pnode).

Definition pmodule : Type := list pitem.

(* ------------------------------------------------------------------ observable result *)
Definition pfunc : Type := (string * list pdeco)%type.                       (* Name, Annotations *)
Definition pclass : Type := (string * list pdeco * list pfunc)%type.         (* NodeName, Annotations, Functions *)
Definition pmember : Type := (string * list pfunc)%type.                     (* Name, FunctionNodes *)
Definition pimport : Type := (string * list string)%type.                    (* Source, UsageName *)

Record pfile := mkPFile {
  pf_imports : list pimport; pf_classes : list pclass; pf_members : list pmember }.

Inductive presult : Type := POk (f : pfile) | PPanic (cls : string).

Record pstate := mkPS {
  ps_imports : list pimport;
  ps_classes : list pclass;
  ps_members : list pmember;
  ps_cur : option pclass;            (* currentDataStruct *)
  ps_outer : list (option pclass);   (* outerDataStructs, innermost first *)
  ps_depths : list nat;              (* outerFuncdefDepths, innermost first *)
  ps_depth : nat;                    (* funcdefDepth: enclosing defs inside the current class *)
  ps_crashed : bool }.

Definition pstate0 : pstate := mkPS [] [] [] None [] [] 0 false.

(* GetText of "name as alias": the tokens without the blanks *)
Definition as_text (na : string * string) : string :=
  if String.eqb (snd na) "" then fst na else fst na ++ "as" ++ snd na.

(* EnterImport_stmt *)
Definition import_entry (names : list (string * string)) : pimport :=
  match names with
  | [] => ("", [])
  | (d, a) :: rest =>
    (d, ((if String.eqb a "" then [] else [a]) ++ map as_text rest)%list)
  end.

(* EnterFrom_stmt *)
Definition from_entry (src : string) (names : list (string * string)) : pimport :=
  (src, split "," (join "," (map as_text names))).

Definition enter_node (is_class : bool) (decos : list pdeco) (name : string) (st : pstate) : pstate :=
  if ps_crashed st then st else
  if is_class then
    (* EnterClassdef: remember the enclosing class and its def depth; this class becomes
       current and counts its own defs from 0 *)
    mkPS (ps_imports st) (ps_classes st) (ps_members st) (Some (name, decos, []))
         (ps_cur st :: ps_outer st) (ps_depth st :: ps_depths st) 0 false
  else
    (* EnterFuncdef: funcdefDepth++; a def nested in a def is ignored *)
    if Nat.ltb 0 (ps_depth st) then
      mkPS (ps_imports st) (ps_classes st) (ps_members st) (ps_cur st) (ps_outer st) (ps_depths st)
           (S (ps_depth st)) false
    else
      match ps_cur st with
      | Some (cn, cd, fs) =>
        mkPS (ps_imports st) (ps_classes st) (ps_members st) (Some (cn, cd, (fs ++ [(name, decos)])%list))
             (ps_outer st) (ps_depths st) (S (ps_depth st)) false
      | None =>
        mkPS (ps_imports st) (ps_classes st) (ps_members st ++ [(name, [(name, decos)])])%list None
             (ps_outer st) (ps_depths st) (S (ps_depth st)) false
      end.

Definition exit_node (is_class : bool) (st : pstate) : pstate :=
  if ps_crashed st then st else
  if is_class then
    (* ExitClassdef: record the class, back to the enclosing one and its def depth *)
    match ps_cur st, ps_outer st, ps_depths st with
    | Some c, o :: rest, dp :: drest =>
      mkPS (ps_imports st) (ps_classes st ++ [c])%list (ps_members st) o rest drest dp false
    | _, _, _ => mkPS (ps_imports st) (ps_classes st) (ps_members st) None [] [] (ps_depth st) true
    end
  else
    mkPS (ps_imports st) (ps_classes st) (ps_members st) (ps_cur st) (ps_outer st) (ps_depths st)
         (pred (ps_depth st)) false.

Fixpoint walk (n : pnode) (st : pstate) : pstate :=
  match n with
  | PNode k decos name kids =>
    let st1 := enter_node k decos name st in
    let st2 := (fix go (l : list pnode) (s : pstate) : pstate :=
                  match l with
                  | [] => s
                  | c :: r => go r (walk c s)
                  end) kids st1 in
    exit_node k st2
  end.

Definition item_step (st : pstate) (it : pitem) : pstate :=
  if ps_crashed st then st else
  match it with
  | PImport names =>
    mkPS (ps_imports st ++ [import_entry names])%list (ps_classes st) (ps_members st) (ps_cur st)
         (ps_outer st) (ps_depths st) (ps_depth st) false
  | PFrom src names _ =>
    mkPS (ps_imports st ++ [from_entry src names])%list (ps_classes st) (ps_members st) (ps_cur st)
         (ps_outer st) (ps_depths st) (ps_depth st) false
  | PDecl n => walk n st
  end.

Definition py_front (m : pmodule) : presult :=
  let st := fold_left item_step m pstate0 in
  if ps_crashed st then PPanic "nil pointer dereference"
  else POk (mkPFile (ps_imports st) (ps_classes st) (ps_members st)).

(* analysis.CommonAnalysis on a directory holding this one module (isFunctionBase = true) *)
Definition py_is_upper_first (s : string) : bool :=
  match s with
  | String c _ => let n := nat_of_ascii c in Nat.leb 65 n && Nat.leb n 90
  | EmptyString => false
  end.

Definition py_common (r : presult) : option (list (string * list string)) :=
  match r with
  | PPanic _ => None
  | POk o =>
    Some (map (fun c : pclass => (fst (fst c), map fst (snd c))) (pf_classes o) ++
          flat_map (fun m : pmember =>
                      flat_map (fun fn : pfunc => if py_is_upper_first (fst fn) then [(fst fn, [])] else [])
                               (snd m)) (pf_members o))%list
  end.
