(* Independent statement of C16 as boolean deciders over (tree with ground truth, options,
   OBSERVED report).  Only the data types of Model/Cloc.v are shared with the model.

   By-directory report (records of coca_reporter/cloc.csv):
     header_shape         the header starts with "package","summary"
     header_languages     every language found in the reported part of the tree (the files directly in
                          DIR and the subdirectories that are not VCS/IDE/report directories, after the
                          extension filter) is named in the header, and no language is named twice
     header_known_languages  the header invents nothing: every language it names occurs in some file of
                          the whole tree (VCS/IDE/report directories included, after the extension
                          filter); a language found only under .idea or coca_reporter may be named, its
                          column is then all zero
     rows_exact           exactly one row per immediate subdirectory that is not a VCS/IDE/report directory
     row_width            every row has one cell per header column
     cell_correct         a cell equals the code lines of that language inside that subdirectory
     missing_language_zero  ... and is 0 when the subdirectory has none
     summary_is_sum       a row's summary is the sum of its per-language cells
     summary_is_total     ... and therefore the code lines of the subdirectory over all languages
   Top-file report (coca_reporter/sort_cloc.json + the tables on stdout):
     top_languages        one section per language found
     top_file_figures     every listed file is a file of the tree of that language with its code lines
     top_files_complete   every file outside VCS/IDE/report directories is listed
     top_file_sorted      files in non-increasing order of code lines (listing and tables)
     top_file_truncated   one table per section, with min(top-size, n) rows
     top_file_location    table row i shows file i of the listing by its path relative to DIR
                          (a single leading "/" is tolerated) *)
From Coq Require Import String List Bool Arith Ascii.
From Coca Require Import Lib.Sx Lib.Str Model.Cloc.
Import ListNotations.
Open Scope list_scope.
Open Scope string_scope.

(* "a VCS/IDE/report directory" *)
Definition spec_skip_dirs : list string := [".git"; ".svn"; ".hg"; ".idea"; "coca_reporter"].
Definition skipped (d : string) : bool := str_mem d spec_skip_dirs.

Definition in_scope (o : copts) (f : cfile) : bool :=
  match co_include o with [] => true | l => str_mem (cf_ext f) l end.

(* the immediate subdirectory a file lives in (None: directly in DIR) *)
Definition top_dir (f : cfile) : option string :=
  match cf_path f with d :: _ :: _ => Some d | _ => None end.

Definition under (d : string) (f : cfile) : bool :=
  match top_dir f with Some d' => String.eqb d d' | None => false end.

Definition counted (o : copts) (f : cfile) : bool :=
  in_scope o f && match top_dir f with Some d => negb (skipped d) | None => true end.

Definition expected_cell (o : copts) (t : ctree) (d l : string) : nat :=
  list_sum (map cf_code (filter (fun f => in_scope o f && under d f && String.eqb (cf_lang f) l) (ct_files t))).

Definition expected_total (o : copts) (t : ctree) (d : string) : nat :=
  list_sum (map cf_code (filter (fun f => in_scope o f && under d f) (ct_files t))).

Definition expected_rows (t : ctree) : list string := filter (fun d => negb (skipped d)) (ct_dirs t).

Fixpoint nodup_b (l : list string) : bool :=
  match l with [] => true | x :: r => negb (str_mem x r) && nodup_b r end.

Definition count_of (s : string) (l : list string) : nat := List.length (filter (String.eqb s) l).
Definition same_names (a b : list string) : bool :=
  Nat.eqb (List.length a) (List.length b) && forallb (fun x => Nat.eqb (count_of x a) (count_of x b)) (a ++ b)%list.

Definition strs_eqb (a b : list string) : bool :=
  Nat.eqb (List.length a) (List.length b) && forallb (fun p => String.eqb (fst p) (snd p)) (combine a b).

Definition is_number (s : string) : bool := String.eqb (string_of_nat (nat_of_string s)) s.

Definition clause (ok : bool) (name : string) : list string := if ok then [] else [name].

(* ------------------------------------------------------------------ by-directory *)
Definition row_name (r : list string) : string := hd "" r.
Definition row_summary (r : list string) : string := nth 1 r "".
Definition row_cells (r : list string) : list string := skipn 2 r.

Definition cells_ok (nonzero : bool) (o : copts) (t : ctree) (langs : list string) (r : list string) : bool :=
  forallb (fun lc =>
             let e := expected_cell o t (row_name r) (fst lc) in
             if Bool.eqb (negb (Nat.eqb e 0)) nonzero then String.eqb (snd lc) (string_of_nat e) else true)
          (combine langs (row_cells r)).

Definition c16_bydir_verdict (o : copts) (t : ctree) (header : list string) (rows : list (list string))
  : list string :=
  let langs := skipn 2 header in
  let exp_langs := map cf_lang (filter (counted o) (ct_files t)) in
  (clause (strs_eqb (firstn 2 header) ["package"; "summary"]) "header_shape" ++
   clause (forallb (fun l => str_mem l langs) exp_langs && nodup_b langs) "header_languages" ++
   clause (forallb (fun l => existsb (fun f => in_scope o f && String.eqb (cf_lang f) l) (ct_files t)) langs)
          "header_known_languages" ++
   clause (same_names (map row_name rows) (expected_rows t)) "rows_exact" ++
   clause (forallb (fun r => Nat.eqb (List.length r) (List.length header)) rows) "row_width" ++
   clause (forallb (cells_ok true o t langs) rows) "cell_correct" ++
   clause (forallb (cells_ok false o t langs) rows) "missing_language_zero" ++
   clause (forallb (fun r => forallb is_number (row_summary r :: row_cells r) &&
                             Nat.eqb (nat_of_string (row_summary r))
                                     (list_sum (map nat_of_string (row_cells r)))) rows) "summary_is_sum" ++
   clause (forallb (fun r => String.eqb (row_summary r)
                                        (string_of_nat (expected_total o t (row_name r)))) rows)
          "summary_is_total")%list.

(* ------------------------------------------------------------------ top-file *)
(* the Location scc reports for a file *)
Definition spec_location (o : copts) (f : cfile) : string :=
  (if String.eqb (co_root o) "." then "" else co_root o ++ "/") ++ join "/" (cf_path f).

Definition rel_path (f : cfile) : string := join "/" (cf_path f).

Definition file_at (o : copts) (t : ctree) (loc : string) : option cfile :=
  find (fun f => String.eqb (spec_location o f) loc) (ct_files t).

Fixpoint non_increasing (l : list nat) : bool :=
  match l with
  | a :: ((b :: _) as r) => Nat.leb b a && non_increasing r
  | _ => true
  end.

Definition strip_slash (s : string) : string :=
  match s with String c r => if Ascii.eqb c "/"%char then r else s | _ => s end.

Definition section_figures_ok (o : copts) (t : ctree) (sec : string * list (string * nat)) : bool :=
  nodup_b (map fst (snd sec)) &&
  forallb (fun lc => match file_at o t (fst lc) with
                     | Some f => in_scope o f && String.eqb (cf_lang f) (fst sec) && Nat.eqb (cf_code f) (snd lc)
                     | None => false
                     end) (snd sec).

Definition listed (secs : list (string * list (string * nat))) (l loc : string) : bool :=
  existsb (fun sec => String.eqb (fst sec) l && str_mem loc (map fst (snd sec))) secs.

Definition table_rows_ok (check_loc : bool) (o : copts) (t : ctree)
           (st : (string * list (string * nat)) * (string * list (nat * string))) : bool :=
  forallb (fun fr =>
             let '((loc, code), (shown_code, shown_loc)) := fr in
             if check_loc then
               match file_at o t loc with
               | Some f => String.eqb (strip_slash shown_loc) (rel_path f)
               | None => true
               end
             else Nat.eqb code shown_code)
          (combine (snd (fst st)) (snd (snd st))).

Definition c16_top_verdict (o : copts) (t : ctree)
           (secs : list (string * list (string * nat))) (tabs : list (string * list (nat * string)))
  : list string :=
  let names := map fst secs in
  (clause (nodup_b names &&
           forallb (fun f => str_mem (cf_lang f) names) (filter (counted o) (ct_files t)) &&
           forallb (fun n => existsb (fun f => in_scope o f && String.eqb (cf_lang f) n) (ct_files t)) names)
          "top_languages" ++
   clause (forallb (section_figures_ok o t) secs &&
           forallb (table_rows_ok false o t) (combine secs tabs)) "top_file_figures" ++
   clause (forallb (fun f => listed secs (cf_lang f) (spec_location o f)) (filter (counted o) (ct_files t)))
          "top_files_complete" ++
   clause (forallb (fun sec => non_increasing (map snd (snd sec))) secs &&
           forallb (fun tab => non_increasing (map fst (snd tab))) tabs) "top_file_sorted" ++
   clause (strs_eqb (map fst tabs) names &&
           forallb (fun st => Nat.eqb (List.length (snd (snd st)))
                                      (Nat.min (co_top o) (List.length (snd (fst st)))))
                   (combine secs tabs)) "top_file_truncated" ++
   clause (forallb (table_rows_ok true o t) (combine secs tabs)) "top_file_location")%list.
