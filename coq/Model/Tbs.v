(* Model of pkg/application/tbs/tbs_app.go over the code model (definitions only). *)
From Coq Require Import String List Bool Arith.
From Coca Require Import Lib.Sx Lib.GoMap Lib.Str Model.CodeModel Generated.Constants.
Import ListNotations.
Open Scope list_scope.
Open Scope string_scope.

Record tsmell := mkT { t_file : string; t_type : string; t_line : nat }.

Definition is_ignore_or_test (a : annot) : bool := String.eqb (an_name a) "Test" || String.eqb (an_name a) "Ignore".
Definition is_junit_test (f : func) : bool := existsb is_ignore_or_test (f_annots f).

Definition is_system_output (c : call) : bool :=
  String.eqb (c_node c) "System.out" &&
  (String.eqb (c_fn c) "println" || String.eqb (c_fn c) "printf" || String.eqb (c_fn c) "print").
Definition is_thread_sleep (c : call) : bool := String.eqb (c_fn c) "sleep" && String.eqb (c_node c) "Thread".
Definition has_assertion (c : call) : bool :=
  existsb (fun a => has_prefix a (to_lower (c_fn c))) ASSERTION_LIST.

(* BuildCallMethodMap: every method under its full name and under full name # number of parameters; of several
   candidates for one key the one declared first in the source is kept (the order of the functions of a type is not
   fixed, the map is) *)
Definition declared_before (a b : func) : bool :=
  Nat.ltb (p_sl (f_pos a)) (p_sl (f_pos b)) ||
  (Nat.eqb (p_sl (f_pos a)) (p_sl (f_pos b)) && Nat.ltb (p_sc (f_pos a)) (p_sc (f_pos b))).

Definition put_first (m : gomap func) (k : string) (f : func) : gomap func :=
  match mget m k with
  | Some prev => if declared_before f prev then mput m k f else m
  | None => mput m k f
  end.

Definition call_method_key (full : string) (n : nat) : string := full ++ "#" ++ string_of_nat n.

Definition call_method_map (deps : list ds) : gomap func :=
  fold_left (fun m d =>
               fold_left (fun m f =>
                            put_first (put_first m (func_full_name d f) f)
                                      (call_method_key (func_full_name d f) (List.length (f_params f))) f)
                         (d_funcs d) m) deps [].

(* updateMethodCallsForSelfCall: the calls of same-class helpers are appended (one level) *)
Definition update_calls_for_self_call (f : func) (d : ds) (cmm : gomap func) : list call :=
  fold_left (fun cur mc =>
               if String.eqb (c_node mc) (d_node d) then
                 (* the overload the number of arguments selects, else the method of that name *)
                 match (match mget cmm (call_method_key (call_full_name mc) (List.length (c_params mc))) with
                        | Some jm => Some jm
                        | None => mget cmm (call_full_name mc)
                        end) with
                 | Some jm => if String.eqb (f_name jm) "" then cur else (cur ++ f_calls jm)%list
                 | None => cur
                 end
               else cur) (f_calls f) (f_calls f).

Definition two_identical_args (c : call) : bool :=
  match c_params c with
  | [a; b] => String.eqb (pr_value a) (pr_value b)
  | _ => false
  end.

(* the loop over the (extended) calls: findings, the per-name groups, and whether an assertion was
   seen; checkAssert fires at the last index *)
Fixpoint calls_loop (file : string) (f : func) (calls : list call) (idx total : nat) (has_assert : bool)
         (groups : gomap (list call)) (acc : list tsmell) : list tsmell * gomap (list call) :=
  match calls with
  | [] => (acc, groups)
  | c :: rest =>
    let last := Nat.eqb idx (total - 1) in
    if String.eqb (c_fn c) "" then
      let acc1 := if last && negb has_assert then (acc ++ [mkT file "UnknownTest" (p_sl (f_pos f))])%list else acc in
      calls_loop file f rest (S idx) total has_assert groups acc1
    else
      let k := call_full_name c in
      let groups1 := mput groups k (mget_d [] groups k ++ [c])%list in
      let acc1 := if is_system_output c then (acc ++ [mkT file "RedundantPrintTest" (p_sl (c_pos c))])%list else acc in
      let acc2 := if is_thread_sleep c then (acc1 ++ [mkT file "SleepyTest" (p_sl (c_pos c))])%list else acc1 in
      let acc3 := if two_identical_args c then (acc2 ++ [mkT file "RedundantAssertionTest" (p_sl (f_pos f))])%list else acc2 in
      let ha := has_assert || has_assertion c in
      let acc4 := if last && negb ha then (acc3 ++ [mkT file "UnknownTest" (p_sl (f_pos f))])%list else acc3 in
      calls_loop file f rest (S idx) total ha groups1 acc4
  end.

Definition method_smells (cmm : gomap func) (d : ds) (f : func) : list tsmell :=
  if negb (is_junit_test f) then [] else
  let calls := update_calls_for_self_call f d cmm in
  let file := d_path d in
  let line := p_sl (f_pos f) in
  let annot_smells :=
    flat_map (fun a =>
                ((if String.eqb (an_name a) "Ignore" then [mkT file "IgnoreTest" 0] else []) ++
                 (if String.eqb (an_name a) "Test" && Nat.leb (List.length calls) 1
                  then [mkT file "EmptyTest" line] else []))%list) (f_annots f) in
  let '(loop_smells, groups) := calls_loop file f calls 0 (List.length calls) false [] [] in
  let dup := existsb (fun kv => Nat.leb DuplicatedAssertionLimitLength (List.length (snd kv)) &&
                                has_assertion (last (snd kv) (mkCall "" "" "" "" [] (mkPos 0 0 0 0)))) groups in
  (annot_smells ++ loop_smells ++ (if dup then [mkT file "DuplicateAssertTest" line] else []))%list.

(* TbsApp.AnalysisPath *)
Definition tbs_analysis (deps : list ds) : list tsmell :=
  let cmm := call_method_map deps in
  flat_map (fun d => flat_map (method_smells cmm d) (d_funcs d)) deps.
