(* Independent statement of C03 over the code model, as boolean deciders applied to the
   OBSERVED output (DOT text, Size column). *)
From Coq Require Import String List Bool Arith.
From Coca Require Import Lib.Sx Lib.GoMap Lib.Dot Lib.Reach Model.CodeModel Model.CallGraph Model.RCallSpec.
Import ListNotations.
Open Scope list_scope.
Open Scope string_scope.

(* calls recorded in the model for the method(s) named [a], in declaration order *)
Definition spec_callees_raw (m : list ds) (a : string) : list string :=
  flat_map (fun d =>
    flat_map (fun f => if String.eqb (func_full_name d f) a then all_call_strings f else [])
             (d_funcs d)) m.

(* ... after replacing an injected interface by its registered implementation *)
Definition spec_callees (m : list ds) (di : gomap string) (a : string) : list string :=
  map (subst_di di) (spec_callees_raw m a).

Definition all_method_names (m : list ds) : list string := declared_methods m.

Definition freach (m : list ds) (di : gomap string) (root : string) : list string :=
  reach_within (spec_callees m di) (16 + List.length (all_method_names m)) root.

Definition has_edge (edges : list (string * string)) (a b : string) : bool :=
  existsb (fun e => String.eqb (fst e) a && String.eqb (snd e) b) edges.

(* an edge of the forward chain: a recorded call whose caller is reachable from the root *)
Definition fwd_edge_ok (m : list ds) (di : gomap string) (root : string) (e : string * string) : bool :=
  str_mem (snd e) (spec_callees m di (fst e)) && str_mem (fst e) (freach m di root).

(* an edge of the reverse chain appended by the lookup option (C04's clause) *)
Definition rev_edge_ok (m : list ds) (root : string) (e : string * string) : bool :=
  str_mem (fst e) (spec_callers m (snd e)) && str_mem (snd e) (rreach m root).

Definition edges_sound_b (m : list ds) (di : gomap string) (root : string) (lookup : bool)
           (edges : list (string * string)) : bool :=
  forallb (fun e => fwd_edge_ok m di root e || (lookup && rev_edge_ok m root e)) edges.

Definition root_complete_b (m : list ds) (di : gomap string) (root : string)
           (edges : list (string * string)) : bool :=
  forallb (fun b => has_edge edges root b) (spec_callees m di root).

(* number of expansions of the unfolded call tree below [a], computed inside a remaining
   budget [r] (None: more than r expansions, or deeper than fuel): one for [a] itself plus
   those of every callee that has callees of its own, left to right *)
Fixpoint sum_children (rec : nat -> string -> option nat) (succ : string -> list string)
         (cs : list string) (r : nat) : option nat :=
  match cs with
  | [] => Some 0
  | c :: rest =>
    match succ c with
    | [] => sum_children rec succ rest r
    | _ =>
      match rec r c with
      | None => None
      | Some k =>
        match sum_children rec succ rest (r - k) with
        | Some j => Some (k + j)
        | None => None
        end
      end
    end
  end.

Fixpoint expansions (fuel : nat) (succ : string -> list string) (r : nat) (a : string) : option nat :=
  match fuel with
  | 0 => None
  | S f =>
    match r with
    | 0 => None
    | S r' => option_map S (sum_children (expansions f succ) succ (succ a) r')
    end
  end.

Definition fits (budget : nat) (m : list ds) (di : gomap string) (root : string) : bool :=
  match expansions (S budget) (spec_callees m di) budget root with
  | Some _ => true
  | None => false
  end.

(* when the call tree fits the budget the edge set is exactly the reachable call relation *)
Definition exact_in_budget_b (budget : nat) (m : list ds) (di : gomap string) (root : string)
           (edges : list (string * string)) : bool :=
  negb (fits budget m di root) ||
  forallb (fun a => forallb (fun b => has_edge edges a b) (spec_callees m di a)) (freach m di root).

Definition c03_call_verdict (budget : nat) (m : list ds) (root : string) (lookup : bool) (dot : string)
  : list string :=
  match dot_parse dot with
  | None => ["dot_wellformed"]
  | Some edges =>
    ((if edges_sound_b m [] root lookup edges then [] else ["edges_sound"]) ++
     (if root_complete_b m [] root edges then [] else ["root_complete"]) ++
     (if exact_in_budget_b budget m [] root edges then [] else ["exact_in_budget"]))%list
  end.

(* ---- per-API chains ---- *)
Definition api_label (a : rest_api) : string := a_verb a ++ " " ++ a_uri a.

(* split the edge list into one section per API: the i-th section starts at the i-th API edge *)
Fixpoint take_section (edges : list (string * string)) (next : option (string * string))
  : list (string * string) * list (string * string) :=
  match edges with
  | [] => ([], [])
  | e :: r =>
    match next with
    | Some n => if String.eqb (fst e) (fst n) && String.eqb (snd e) (snd n) then ([], edges)
                else let '(s, rest) := take_section r next in (e :: s, rest)
    | None => let '(s, rest) := take_section r next in (e :: s, rest)
    end
  end.

Fixpoint api_sections (apis : list rest_api) (edges : list (string * string))
  : option (list (list (string * string))) :=
  match apis with
  | [] => match edges with [] => Some [] | _ => None end
  | a :: rest =>
    match edges with
    | e :: r =>
      if String.eqb (fst e) (api_label a) && String.eqb (snd e) (api_caller a) then
        let next := match rest with a2 :: _ => Some (api_label a2, api_caller a2) | [] => None end in
        let '(sec, remaining) := take_section r next in
        match api_sections rest remaining with
        | Some secs => Some (sec :: secs)
        | None => None
        end
      else None
    | [] => None
    end
  end.

Definition c03_api_verdict (budget : nat) (m : list ds) (di : gomap string) (apis : list rest_api)
           (dot : string) (sizes : list nat) : list string :=
  match dot_parse dot with
  | None => ["dot_wellformed"]
  | Some edges =>
    match api_sections apis edges with
    | None => ["api_sections"]
    | Some secs =>
      if negb (Nat.eqb (List.length secs) (List.length sizes)) then ["api_count"] else
      flat_map (fun t =>
        let '(a, sec, size) := t in
        let root := api_caller a in
        ((if edges_sound_b m di root false sec then [] else ["edges_sound"]) ++
         (if root_complete_b m di root sec then [] else ["root_complete"]) ++
         (if exact_in_budget_b budget m di root sec then [] else ["exact_in_budget"]) ++
         (if Nat.eqb size (S (List.length sec)) then [] else ["api_size"]))%list)
        (combine (combine apis secs) sizes)
    end
  end.
