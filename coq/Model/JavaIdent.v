(* Model of the identifier pass: java_identify/java_identifier_listener.go and the file loop of
   javaapp.JavaIdentifierApp.AnalysisFiles, over the same unit facts as Model/JavaFull.v. *)
From Coq Require Import String List Bool Arith.
From Coca Require Import Lib.Sx Lib.GoMap Lib.Str Model.CodeModel Model.JavaFull.
Import ListNotations.
Open Scope list_scope.
Open Scope string_scope.

Record istate := mkI {
  i_node : ds;
  i_nodes : list ds;
  i_method : func;
  i_hasEnterClass : bool;
  i_imports : list string;
  i_override : bool }.

Definition istate0 : istate := mkI empty_ds [] empty_func false [] false.

(* NewJavaIdentifierListener *)
Definition new_ident_listener (st : istate) : istate :=
  mkI empty_ds [] empty_func false [] false.

Definition with_annots (f : func) (a : list annot) : func :=
  mkFunc (f_name f) (f_ret f) (f_params f) (f_calls f) (f_override f) a (f_isctor f) (f_retnull f) (f_mods f) (f_pos f).

Definition set_retnull (f : func) (b : bool) : func :=
  mkFunc (f_name f) (f_ret f) (f_params f) (f_calls f) (f_override f) (f_annots f) (f_isctor f) b (f_mods f) (f_pos f).

Definition add_func (n : ds) (f : func) : ds :=
  mkDs (d_node n) (d_type n) (d_pkg n) (d_path n) (d_fields n) (d_extend n) (d_impls n) (d_funcs n ++ [f])
       (d_annots n) (d_calls n) (d_imports n).

Definition ident_events (st : istate) (evs : list bevent) : istate :=
  fold_left (fun s e =>
               match e with
               | EReturn _ nulltok => mkI (i_node s) (i_nodes s) (set_retnull (i_method s) (f_retnull (i_method s) || nulltok))
                                     (i_hasEnterClass s) (i_imports s) (i_override s)
               | _ => s
               end) evs st.

Definition ident_member (st0 : istate) (m : jmember) : istate :=
  (* EnterAnnotation for every annotation of the member: Override only ever switches the flag on *)
  let st := fold_left (fun s a => if String.eqb a "Override"
                                  then mkI (i_node s) (i_nodes s) (i_method s) (i_hasEnterClass s) (i_imports s) true
                                  else s) (m_annots m) st0 in
  let d := m_decl m in
  let p := mkPos (q_sl d) (q_sc d) (q_el d) (q_ec d) in
  if String.eqb (m_kind m) "field" then st
  else if String.eqb (m_kind m) "ctor" then
    let f := mkFunc (m_name m) "" [] [] (i_override st) (f_annots (i_method st)) true false [] p in
    let s1 := ident_events (mkI (i_node st) (i_nodes st) f (i_hasEnterClass st) (i_imports st) (i_override st)) (m_events m) in
    mkI (add_func (i_node s1) (i_method s1)) (i_nodes s1) (i_method s1) (i_hasEnterClass s1) (i_imports s1) (i_override s1)
  else
    let annots := (f_annots (i_method st) ++ m_built_annots m)%list in
    let mods := if String.eqb (m_kind m) "method" then m_mods m else [] in
    let f := mkFunc (m_name m) (m_ret m) [] [] (i_override st) annots false false mods p in
    let ovr := if String.eqb (m_kind m) "method" then false else i_override st in
    let s1 := ident_events (mkI (i_node st) (i_nodes st) f true (i_imports st) ovr) (m_events m) in
    let s1h := if String.eqb (m_kind m) "method" then s1
               else mkI (i_node s1) (i_nodes s1) (i_method s1) (i_hasEnterClass st) (i_imports s1) (i_override s1) in
    mkI (add_func (i_node s1h) (i_method s1h)) (i_nodes s1h) empty_func (i_hasEnterClass s1h) (i_imports s1h) (i_override s1h).

Definition ident_unit (st0 : istate) (u : junit) : istate :=
  let imports := (i_imports st0 ++ u_imports u)%list in
  let n0 := i_node st0 in
  let n1 := mkDs (d_node n0) (d_type n0) (if u_has_pkg u then u_pkg u else d_pkg n0) (d_path n0) (d_fields n0) (d_extend n0)
                 (d_impls n0) (d_funcs n0) (d_annots n0) (d_calls n0) (d_imports n0) in
  (* type annotations *)
  let '(n2, ovr) :=
    fold_left (fun acc a =>
                 let '(n, o) := acc in
                 let o' := if String.eqb (an_name a) "Override" then true else o in
                 if i_hasEnterClass st0 then (n, o')
                 else (mkDs (d_node n) (d_type n) (d_pkg n) (d_path n) (d_fields n) (d_extend n) (d_impls n) (d_funcs n)
                            (d_annots n ++ [a]) (d_calls n) (d_imports n), o'))
              (u_annots u) (n1, i_override st0) in
  let n3 :=
    if String.eqb (u_kind u) "class" then
      let impls := flat_map (fun t => filter (fun imp => has_suffix ("." ++ t) imp) imports) (u_implements u) in
      mkDs (u_name u) "Class" (d_pkg n2) (d_path n2) (d_fields n2)
           (match u_extends u with e :: _ => e | [] => d_extend n2 end)
           (d_impls n2 ++ impls) (d_funcs n2) (d_annots n2) (d_calls n2) (d_imports n2)
    else
      mkDs (u_name u) "Interface" (d_pkg n2) (d_path n2) (d_fields n2) (d_extend n2) (d_impls n2) (d_funcs n2)
           (d_annots n2) (d_calls n2) (d_imports n2) in
  let st1 := mkI n3 (i_nodes st0) (if String.eqb (u_kind u) "class" then empty_func else i_method st0) true imports ovr in
  let st2 := fold_left ident_member (u_members u) st1 in
  (* ExitClassBody / ExitInterfaceDeclaration *)
  mkI empty_ds (if String.eqb (d_node (i_node st2)) "" then i_nodes st2 else (i_nodes st2 ++ [i_node st2])%list)
      (i_method st2) false (i_imports st2) (i_override st2).

Definition ident_files (st : istate) (units : list junit) : istate * list ds :=
  fold_left (fun acc u =>
               let '(s, out) := acc in
               let s1 := ident_unit (new_ident_listener s) u in
               (s1, (out ++ i_nodes s1)%list))
            units (st, []).
