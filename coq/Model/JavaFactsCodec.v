(* Wire codec of the Java unit facts (see tools/javagen.py unit_fact). *)
From Coq Require Import String List Bool Arith.
From Coca Require Import Lib.Sx Lib.GoMap Lib.Str Model.CodeModel Model.JavaFull.
Import ListNotations.
Open Scope list_scope.
Open Scope string_scope.

Definition p4_of_sx (x : sx) : pos4 :=
  mkP4 (sx_nat (sx_nth 0 x)) (sx_nat (sx_nth 1 x)) (sx_nat (sx_nth 2 x)) (sx_nat (sx_nth 3 x)).

Definition bevent_of_sx (x : sx) : bevent :=
  let k := sx_str (sx_nth 0 x) in
  if String.eqb k "formal" then EFormal (sx_str (sx_nth 1 x)) (sx_str (sx_nth 2 x))
  else if String.eqb k "local" then ELocal (sx_str (sx_nth 1 x)) (sx_str (sx_nth 2 x))
  else if String.eqb k "call" then
    ECall (sx_str (sx_nth 1 x)) (sx_str (sx_nth 2 x)) (sx_bool (sx_nth 3 x)) (sx_str (sx_nth 4 x))
          (sx_str (sx_nth 5 x)) (sx_strs (sx_nth 6 x)) (sx_bool (sx_nth 7 x)) (p4_of_sx (sx_nth 8 x))
  else if String.eqb k "creator" then
    ECreator (sx_str (sx_nth 1 x)) (sx_strs (sx_nth 2 x)) (sx_bool (sx_nth 3 x)) (sx_str (sx_nth 4 x))
             (p4_of_sx (sx_nth 5 x))
  else if String.eqb k "mref" then
    EMref (sx_str (sx_nth 1 x)) (sx_str (sx_nth 2 x)) (sx_bool (sx_nth 3 x)) (p4_of_sx (sx_nth 4 x))
  else if String.eqb k "return" then EReturn (sx_str (sx_nth 1 x)) (sx_bool (sx_nth 2 x))
  else EAnnot (sx_str (sx_nth 1 x)).

Definition member_of_sx (x : sx) : jmember :=
  mkMember (sx_str (sx_nth 0 x)) (sx_str (sx_nth 1 x)) (sx_str (sx_nth 2 x)) (sx_str (sx_nth 3 x))
           (sx_strs (sx_nth 4 x))
           (map (fun p => (sx_str (sx_nth 0 p), sx_str (sx_nth 1 p))) (sx_list (sx_nth 5 x)))
           (sx_bool (sx_nth 6 x))
           (map annot_of_sx (sx_list (sx_nth 7 x)))
           (sx_bool (sx_nth 8 x))
           (sx_strs (sx_nth 9 x)) (sx_strs (sx_nth 10 x))
           (p4_of_sx (sx_nth 11 x)) (p4_of_sx (sx_nth 12 x))
           (map bevent_of_sx (sx_list (sx_nth 13 x))).

Definition unit_of_sx (x : sx) : junit :=
  mkUnit (sx_str (sx_nth 0 x)) (sx_str (sx_nth 1 x)) (sx_bool (sx_nth 2 x)) (sx_strs (sx_nth 3 x))
         (sx_str (sx_nth 4 x)) (sx_str (sx_nth 5 x)) (sx_strs (sx_nth 6 x)) (sx_strs (sx_nth 7 x))
         (map annot_of_sx (sx_list (sx_nth 8 x)))
         (map member_of_sx (sx_list (sx_nth 9 x))).
