(* Independent statement of C02: the calls recorded for a function are, in source order, exactly
   the invocations and creations written in its body; a recorded invocation's position selects the
   callee identifier in the file text; receivers covered by the resolution clause are recorded
   against the declared type's simple name and package. *)
From Coq Require Import String List Bool Arith.
From Coca Require Import Lib.Sx Lib.GoMap Lib.Str Model.CodeModel Model.GitSummarySpec.
Import ListNotations.
Open Scope list_scope.
Open Scope string_scope.

(* x_this: the receiver is a field written with its qualifier, this.repo.save() *)
Record xcall := mkX { x_kind : string; x_name : string; x_line : nat; x_col : nat; x_pkg : string; x_node : string; x_this : bool }.
Record xfunc := mkXF { xf_name : string; xf_line : nat; xf_col : nat; xf_calls : list xcall; xf_col2 : nat }.
Record xunit := mkXU { xu_pkg : string; xu_name : string; xu_lines : list string; xu_funcs : list xfunc }.

Definition is_invocation_entry (c : call) : bool :=
  negb (String.eqb (c_type c) "field") && negb (String.eqb (c_type c) "lambda").

Definition entry_kind (c : call) : string := if String.eqb (c_type c) "CreatorClass" then "new" else "call".
Definition entry_name (c : call) : string := if String.eqb (c_type c) "CreatorClass" then c_node c else c_fn c.

(* columns count characters (ANTLR's char position): the text of [len] characters after [col] characters of the line *)
Definition cut (lines : list string) (line col len : nat) : string :=
  take_runes len (drop_runes col (nth (line - 1) lines "")).

Definition call_ok (lines : list string) (x : xcall) (c : call) : list string :=
  ((if String.eqb (x_kind x) (entry_kind c) && String.eqb (x_name x) (entry_name c) then [] else ["calls_order"]) ++
   (if String.eqb (x_kind x) "call" then
      (if Nat.eqb (p_sl (c_pos c)) (x_line x) && Nat.eqb (p_sc (c_pos c)) (x_col x) &&
          Nat.eqb (p_ec (c_pos c)) (x_col x + rune_count (x_name x)) &&
          String.eqb (cut lines (p_sl (c_pos c)) (p_sc (c_pos c)) (p_ec (c_pos c) - p_sc (c_pos c))) (x_name x)
       then [] else ["position"]) ++
      (if String.eqb (x_node x) "" || (String.eqb (c_node c) (x_node x) && String.eqb (c_pkg c) (x_pkg x))
       then [] else [if x_this x then "resolution_this_field" else "resolution"])
    else []))%list.

Fixpoint calls_ok (lines : list string) (xs : list xcall) (cs : list call) : list string :=
  match xs, cs with
  | [], [] => []
  | x :: xs', c :: cs' => (call_ok lines x c ++ calls_ok lines xs' cs')%list
  | _, _ => ["calls_count"]
  end.

Definition func_ok (lines : list string) (d : ds) (xf : xfunc) : list string :=
  let same_line := List.filter (fun f => String.eqb (f_name f) (xf_name xf) && Nat.eqb (p_sl (f_pos f)) (xf_line xf))
                               (d_funcs d) in
  let cands := match same_line with
               | [_] => same_line
               | _ => List.filter (fun f => Nat.eqb (p_sc (f_pos f)) (xf_col xf) || Nat.eqb (p_sc (f_pos f)) (xf_col2 xf)) same_line
               end in
  match cands with
  | [f] => calls_ok lines (xf_calls xf) (List.filter is_invocation_entry (f_calls f))
  | _ => ["function_entry"]
  end.

Definition c02_verdict (units : list xunit) (full_obs : list ds) : list string :=
  flat_map (fun u =>
    match List.filter (fun d => String.eqb (d_pkg d) (xu_pkg u) && String.eqb (d_node d) (xu_name u)) full_obs with
    | [d] => flat_map (func_ok (xu_lines u) d) (xu_funcs u)
    | _ => ["type_entry"]
    end) units.
