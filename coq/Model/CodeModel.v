(* The code model (core_domain.CodeDataStruct and friends), with the wire codec. *)
From Coq Require Import String List Bool Arith.
From Coca Require Import Lib.Sx.
Import ListNotations.
Open Scope list_scope.
Open Scope string_scope.

Record position := mkPos { p_sl : nat; p_sc : nat; p_el : nat; p_ec : nat }.

Record prop := mkProp { pr_type : string; pr_value : string }.   (* TypeType, TypeValue *)

Record call := mkCall {
  c_pkg : string; c_type : string; c_node : string; c_fn : string;
  c_params : list prop; c_pos : position }.

Record annot := mkAnnot { an_name : string; an_kvs : list (string * string) }.

Record func := mkFunc {
  f_name : string; f_ret : string; f_params : list prop; f_calls : list call;
  f_override : bool; f_annots : list annot; f_isctor : bool; f_retnull : bool;
  f_mods : list string; f_pos : position }.

Record field := mkField { fd_type : string; fd_value : string; fd_mods : list string }.

Record ds := mkDs {
  d_node : string; d_type : string; d_pkg : string; d_path : string;
  d_fields : list field; d_extend : string; d_impls : list string;
  d_funcs : list func; d_annots : list annot; d_calls : list call;
  d_imports : list string }.

(* CodeCall.BuildFullMethodName *)
Definition call_full_name (c : call) : string :=
  if String.eqb (c_fn c) "" then c_pkg c ++ "." ++ c_node c
  else c_pkg c ++ "." ++ c_node c ++ "." ++ c_fn c.

(* CodeFunction.BuildFullMethodName(node) *)
Definition func_full_name (d : ds) (f : func) : string :=
  d_pkg d ++ "." ++ d_node d ++ "." ++ f_name f.

Definition ds_full_name (d : ds) : string := d_pkg d ++ "." ++ d_node d.

(* CodeFunction.GetAllCallString *)
Definition all_call_strings (f : func) : list string :=
  map call_full_name (filter (fun c => negb (String.eqb (c_node c) "")) (f_calls f)).

(* ---- wire codec ---- *)
Definition pos_of_sx (x : sx) : position :=
  mkPos (sx_nat (sx_nth 0 x)) (sx_nat (sx_nth 1 x)) (sx_nat (sx_nth 2 x)) (sx_nat (sx_nth 3 x)).
Definition sx_of_pos (p : position) : sx :=
  L [sx_of_nat (p_sl p); sx_of_nat (p_sc p); sx_of_nat (p_el p); sx_of_nat (p_ec p)].

Definition prop_of_sx (x : sx) : prop := mkProp (sx_str (sx_nth 0 x)) (sx_str (sx_nth 1 x)).
Definition sx_of_prop (p : prop) : sx := L [A (pr_type p); A (pr_value p)].

Definition call_of_sx (x : sx) : call :=
  mkCall (sx_str (sx_nth 0 x)) (sx_str (sx_nth 1 x)) (sx_str (sx_nth 2 x)) (sx_str (sx_nth 3 x))
         (map prop_of_sx (sx_list (sx_nth 4 x))) (pos_of_sx (sx_nth 5 x)).
Definition sx_of_call (c : call) : sx :=
  L [A (c_pkg c); A (c_type c); A (c_node c); A (c_fn c);
     L (map sx_of_prop (c_params c)); sx_of_pos (c_pos c)].

Definition kv_of_sx (x : sx) : string * string := (sx_str (sx_nth 0 x), sx_str (sx_nth 1 x)).
Definition annot_of_sx (x : sx) : annot :=
  mkAnnot (sx_str (sx_nth 0 x)) (map kv_of_sx (sx_list (sx_nth 1 x))).
Definition sx_of_annot (a : annot) : sx :=
  L [A (an_name a); L (map (fun kv => L [A (fst kv); A (snd kv)]) (an_kvs a))].

Definition func_of_sx (x : sx) : func :=
  mkFunc (sx_str (sx_nth 0 x)) (sx_str (sx_nth 1 x))
         (map prop_of_sx (sx_list (sx_nth 2 x)))
         (map call_of_sx (sx_list (sx_nth 3 x)))
         (sx_bool (sx_nth 4 x))
         (map annot_of_sx (sx_list (sx_nth 5 x)))
         (sx_bool (sx_nth 6 x)) (sx_bool (sx_nth 7 x))
         (sx_strs (sx_nth 8 x)) (pos_of_sx (sx_nth 9 x)).
Definition sx_of_func (f : func) : sx :=
  L [A (f_name f); A (f_ret f); L (map sx_of_prop (f_params f)); L (map sx_of_call (f_calls f));
     sx_of_bool (f_override f); L (map sx_of_annot (f_annots f));
     sx_of_bool (f_isctor f); sx_of_bool (f_retnull f); sx_of_strs (f_mods f); sx_of_pos (f_pos f)].

Definition field_of_sx (x : sx) : field :=
  mkField (sx_str (sx_nth 0 x)) (sx_str (sx_nth 1 x)) (sx_strs (sx_nth 2 x)).
Definition sx_of_field (f : field) : sx :=
  L [A (fd_type f); A (fd_value f); sx_of_strs (fd_mods f)].

Definition ds_of_sx (x : sx) : ds :=
  mkDs (sx_str (sx_nth 0 x)) (sx_str (sx_nth 1 x)) (sx_str (sx_nth 2 x)) (sx_str (sx_nth 3 x))
       (map field_of_sx (sx_list (sx_nth 4 x)))
       (sx_str (sx_nth 5 x)) (sx_strs (sx_nth 6 x))
       (map func_of_sx (sx_list (sx_nth 7 x)))
       (map annot_of_sx (sx_list (sx_nth 8 x)))
       (map call_of_sx (sx_list (sx_nth 9 x)))
       (sx_strs (sx_nth 10 x)).
Definition sx_of_ds (d : ds) : sx :=
  L [A (d_node d); A (d_type d); A (d_pkg d); A (d_path d);
     L (map sx_of_field (d_fields d)); A (d_extend d); sx_of_strs (d_impls d);
     L (map sx_of_func (d_funcs d)); L (map sx_of_annot (d_annots d));
     L (map sx_of_call (d_calls d)); sx_of_strs (d_imports d)].

Definition model_of_sx (x : sx) : list ds := map ds_of_sx (sx_list x).
Definition sx_of_model (m : list ds) : sx := L (map sx_of_ds m).

(* small constructors used by the examples *)
Definition ex_call0 (p n f : string) : call := mkCall p "" n f [] (mkPos 0 0 0 0).
Definition ex_func0 (n : string) (cs : list call) : func :=
  mkFunc n "void" [] cs false [] false false [] (mkPos 0 0 0 0).
