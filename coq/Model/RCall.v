(* Model of pkg/application/rcall/rcall_graph.go (definitions only). *)
From Coq Require Import String List Bool Arith.
From Coca Require Import Lib.Sx Lib.GoMap Lib.Dot Lib.Cmp Model.CodeModel Generated.Constants.
Import ListNotations.
Open Scope list_scope.
Open Scope string_scope.

(* BuildProjectMethodMap: the set of declared full method names (a map to 1). *)
Definition project_methods (m : list ds) : list string :=
  flat_map (fun d => map (func_full_name d) (d_funcs d)) m.

Definition declared (pm : list string) (s : string) : bool :=
  existsb (String.eqb s) pm.

(* BuildMethodCallMap: callee -> callers, one entry per call site, declared callees only. *)
Definition call_sites_of (d : ds) (f : func) : list (string * string) :=   (* (callee, caller) *)
  map (fun c => (call_full_name c, func_full_name d f))
      (filter (fun c => negb (String.eqb (c_node c) "")) (f_calls f)).

Definition all_sites (m : list ds) : list (string * string) :=
  flat_map (fun d => flat_map (call_sites_of d) (d_funcs d)) m.

Definition add_site (pm : list string) (acc : gomap (list string)) (s : string * string)
  : gomap (list string) :=
  let (callee, caller) := s in
  if declared pm callee then mput acc callee (mget_d [] acc callee ++ [caller])%list else acc.

Definition method_call_map (m : list ds) : gomap (list string) :=
  fold_left (add_site (project_methods m)) (all_sites m) [].

(* BuildRCallChain with the package-level (loopCount, lastChild) threaded. *)
Inductive ritem := REdge (caller callee : string) | RNewline | ROutOfFuel.

Record rstate := mkRState { r_cnt : nat; r_last : string }.
Definition rstate0 := mkRState 0 "".

Definition callers (mm : gomap (list string)) (f : string) : list string := mget_d [] mm f.

(* the loop over the callers of [f]; [rec] is the recursive call (BuildRCallChain on a caller) *)
Fixpoint rloop (rec : rstate -> string -> rstate * list ritem) (mm : gomap (list string))
         (f : string) (cs : list string) (st : rstate) (acc : list ritem) : rstate * list ritem :=
  match cs with
  | [] => (st, acc)
  | child :: rest =>
    if String.eqb f child then rloop rec mm f rest st acc          (* self call: continue *)
    else
      let '(st2, acc2) :=
        match callers mm child with
        | [] => (st, acc)
        | _ =>
          if String.eqb child (r_last st) then (st, acc)
          else
            let '(st', items) := rec (mkRState (r_cnt st) child) child in
            (st', (acc ++ items)%list)
        end in
      rloop rec mm f rest st2 (acc2 ++ [REdge child f])%list
  end.

Fixpoint rchain (fuel : nat) (mm : gomap (list string)) (st : rstate) (f : string)
  : rstate * list ritem :=
  if cmp_eval loopDepth_cmp (r_cnt st) loopDepth then (st, [RNewline]) else
  match fuel with
  | 0 => (st, [ROutOfFuel])
  | S fuel' =>
    let st1 := mkRState (S (r_cnt st)) (r_last st) in
    match callers mm f with
    | [] => (st1, [RNewline])
    | cs => rloop (rchain fuel' mm) mm f cs st1 []
    end
  end.

Definition render_ritem (i : ritem) : string :=
  match i with
  | REdge c f => """" ++ escape_quotes c ++ """ -> """ ++ escape_quotes f ++ """;" ++ nl
  | RNewline => nl
  | ROutOfFuel => "<out-of-fuel>"
  end.

Definition render_ritems (l : list ritem) : string := String.concat "" (map render_ritem l).

Definition rcall_to_graphviz (chain : string) : string :=
  "digraph G {" ++ nl ++ chain ++ "}" ++ nl.

Definition rfuel : nat := S (S loopDepth).

(* BuildRCallChain: re-initialises the package-level state, then expands. *)
Definition build_rcall_chain (st : rstate) (mm : gomap (list string)) (target : string)
  : rstate * list ritem :=
  rchain rfuel mm rstate0 target.

(* RCallGraph.Analysis in a process whose rcall globals are [st]. *)
Definition ranalysis (st : rstate) (target : string) (m : list ds)
  : rstate * (gomap (list string) * string) :=
  let mm := method_call_map m in
  let '(st', items) := build_rcall_chain st mm target in
  (st', (mm, rcall_to_graphviz (render_ritems items))).

(* A history: the same process answers several queries. *)
Fixpoint ranalysis_history (st : rstate) (qs : list (string * list ds))
  : list (gomap (list string) * string) :=
  match qs with
  | [] => []
  | (t, m) :: r => let '(st', o) := ranalysis st t m in o :: ranalysis_history st' r
  end.
