(* Independent statement of C11 over abstract test methods assembled from evidence atoms. *)
From Coq Require Import String List Bool Arith.
From Coca Require Import Lib.Sx Lib.GoMap Lib.Str Model.Tbs Model.GitSummarySpec.
Import ListNotations.
Open Scope list_scope.
Open Scope string_scope.

(* what a test body is made of, in order *)
Inductive atom :=
| APrint (line : nat)                 (* System.out.print / println / printf *)
| ASleep (line : nat)                 (* Thread.sleep *)
| ARedundant (is_assert : bool) (key : string)   (* a two-argument call with identical arguments *)
| AAssert (key : string)              (* an assertion call; key identifies the assertion method *)
| AHelper (helper_asserts : bool)     (* a call of a helper of the same class *)
| ACall                               (* any other call *)
| ANew.                               (* an object creation *)

Record xtest := mkXT { xt_name : string; xt_line : nat; xt_test : bool; xt_ignore : bool; xt_atoms : list atom }.
Record xtfile := mkXTF { xtf_path : string; xtf_is_test : bool; xtf_methods : list xtest }.

Definition trow (ty file : string) (line : nat) : string := ty ++ tab ++ file ++ tab ++ string_of_nat line.

Definition atom_is_assert (a : atom) : bool :=
  match a with
  | AAssert _ => true
  | ARedundant b _ => b
  | AHelper b => b
  | _ => false
  end.

Definition assert_keys (l : list atom) : list string :=
  flat_map (fun a => match a with AAssert k => [k] | ARedundant true k => [k] | _ => [] end) l.

Definition count_key (k : string) (l : list string) : nat := List.length (filter (String.eqb k) l).

Definition expected_method_rows (file : string) (m : xtest) : list string :=
  if negb (xt_test m || xt_ignore m) then [] else
  let atoms := xt_atoms m in
  ((if xt_ignore m then [trow "IgnoreTest" file 0] else []) ++
   (if xt_test m && Nat.eqb (List.length atoms) 0 then [trow "EmptyTest" file (xt_line m)] else []) ++
   flat_map (fun a => match a with
                      | APrint l => [trow "RedundantPrintTest" file l]
                      | ASleep l => [trow "SleepyTest" file l]
                      | ARedundant _ _ => [trow "RedundantAssertionTest" file 0]
                      | _ => []
                      end) atoms ++
   (if Nat.ltb 0 (List.length atoms) && negb (existsb atom_is_assert atoms)
    then [trow "UnknownTest" file (xt_line m)] else []) ++
   (if existsb (fun k => Nat.leb 5 (count_key k (assert_keys atoms))) (assert_keys atoms)
    then [trow "DuplicateAssertTest" file (xt_line m)] else []))%list.

Definition expected_rows (files : list xtfile) : list string :=
  flat_map (fun f => if xtf_is_test f then flat_map (expected_method_rows (xtf_path f)) (xtf_methods f) else []) files.

(* the line of a RedundantAssertionTest finding is not part of the statement *)
Definition observed_row (t : tsmell) : string :=
  trow (t_type t) (t_file t) (if String.eqb (t_type t) "RedundantAssertionTest" then 0 else t_line t).

Definition c11_verdict (files : list xtfile) (obs : list tsmell) : list string :=
  let exp := expected_rows files in
  let got := map observed_row obs in
  let kinds := ["IgnoreTest"; "RedundantPrintTest"; "SleepyTest"; "RedundantAssertionTest";
                "UnknownTest"; "DuplicateAssertTest"] in
  (* EmptyTest rows wrongly produced for tests with exactly one call are reported under their own clause *)
  let one_call := flat_map (fun f => if xtf_is_test f
                                     then flat_map (fun m => if xt_test m && match xt_atoms m with
                                                                             | [AHelper _] => false   (* the helper's own calls are added *)
                                                                             | [_] => true
                                                                             | _ => false
                                                                             end
                                                             then [trow "EmptyTest" (xtf_path f) (xt_line m)] else [])
                                                   (xtf_methods f)
                                     else []) files in
  let exp_e := filter (has_prefix ("EmptyTest" ++ tab)) exp in
  let got_e := filter (has_prefix ("EmptyTest" ++ tab)) got in
  ((if same_bag exp_e got_e then []
    else if same_bag (exp_e ++ one_call) got_e then ["EmptyTest_one_call"] else ["EmptyTest"]) ++
   flat_map (fun k => if same_bag (filter (has_prefix (k ++ tab)) exp) (filter (has_prefix (k ++ tab)) got)
                      then [] else [k]) kinds ++
   (if forallb (fun t => existsb (fun f => xtf_is_test f && String.eqb (xtf_path f) (t_file t)) files) obs
    then [] else ["non_test_file"]))%list.
