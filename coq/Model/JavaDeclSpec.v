(* Independent statement of C01 over the abstract units: every declared type and function
   exactly once.  Deciders applied to the OBSERVED identifier-pass and full-pass results. *)
From Coq Require Import String List Bool Arith.
From Coca Require Import Lib.Sx Lib.GoMap Lib.Str Model.CodeModel Model.JavaFull Model.JavaSelect
     Model.GitSummarySpec.
Import ListNotations.
Open Scope list_scope.
Open Scope string_scope.

Definition kind_name (u : junit) : string := if String.eqb (u_kind u) "class" then "Class" else "Interface".

Definition annot_row (a : annot) : string :=
  an_name a ++ "(" ++ String.concat "," (map (fun kv => fst kv ++ "=" ++ snd kv) (an_kvs a)) ++ ")".

(* a named function entry: name, return type, ordered (type, name) parameters *)
Definition declared_sig (with_params : bool) (m : jmember) : string :=
  m_name m ++ tab ++ m_ret m ++ tab ++
  (if with_params then String.concat "," (map (fun p => fst p ++ " " ++ snd p) (m_params m)) else "").
Definition observed_sig (with_params : bool) (f : func) : string :=
  f_name f ++ tab ++ f_ret f ++ tab ++
  (if with_params then String.concat "," (map (fun p => pr_type p ++ " " ++ pr_value p) (f_params f)) else "").

Definition is_function_member (m : jmember) : bool := negb (String.eqb (m_kind m) "field").

(* superclass: the text written, or a qualified name ending in it *)
Definition superclass_ok (u : junit) (observed : string) : bool :=
  if negb (String.eqb (u_kind u) "class") then true else     (* an interface has no superclass *)
  match u_extends u with
  | [] => String.eqb observed ""
  | es => let e := last es "" in String.eqb observed e || has_suffix ("." ++ e) observed
  end.

Definition type_key (pkg name kind : string) : string := pkg ++ tab ++ name ++ tab ++ kind.

(* which units must contribute: the selected non-test, non-ignored .java files that declare a type (an empty
   .java file or a package-info.java declares none: "exactly one entry for each top-level class or interface
   declared") *)
Definition expected_units (files : list (string * bool * junit)) : list junit :=
  map snd (List.filter (fun f => negb (snd (fst f)) && negb (contains (fst (fst f)) "testData") &&
                                 java_code_file_filter (fst (fst f)) && negb (String.eqb (u_name (snd f)) "")) files).

Definition check_pass (full : bool) (units : list junit) (obs : list ds) : list string :=
  let tag := if full then "full_" else "ident_" in
  ((if same_bag (map (fun u => type_key (u_pkg u) (u_name u) (kind_name u)) units)
                (map (fun d => type_key (d_pkg d) (d_node d) (d_type d)) obs)
    then [] else [(tag ++ "types")%string]) ++
   flat_map (fun u =>
     match List.filter (fun d => String.eqb (d_pkg d) (u_pkg u) && String.eqb (d_node d) (u_name u)) obs with
     | [d] =>
       ((if negb full || String.eqb (d_path d) (u_path u) then [] else [(tag ++ "path")%string]) ++
        (if superclass_ok u (d_extend d) then [] else [(tag ++ "superclass")%string]) ++
        (if same_bag (map annot_row (u_annots u)) (map annot_row (d_annots d)) then [] else [(tag ++ "annotations")%string]) ++
        (if same_bag (map (declared_sig full) (List.filter is_function_member (u_members u)))
                     (map (observed_sig full) (List.filter (fun f => negb (String.eqb (f_name f) "")) (d_funcs d)))
         then [] else [(tag ++ "functions")%string]))%list
     | _ => []
     end) units)%list.

Definition c01_verdict (files : list (string * bool * junit)) (ident_obs full_obs : list ds) : list string :=
  let units := expected_units files in
  (check_pass false units ident_obs ++ check_pass true units full_obs)%list.
