(* Model of `coca todo` (definitions only):
     pkg/application/todo/todo_app.go      AnalysisPath / BuildComments
     pkg/application/todo/astitodo         ParseComment, IsTodoIdentifier, handleForMultipleLine
     languages/g4/CommentLexer.g4          the ANTLR lexer, reduced to what decides the comment tokens
     pkg/adapter/cocafile                  the suffix filter (applied to every walked path, directories too)

   The lexer model.  ANTLR picks, at every position, the longest match over all rules (ties: the
   earlier rule); when no rule reaches an accept state it reports a token recognition error,
   drops everything it has scanned INCLUDING the character on which the automaton died, and goes on.
   Rules that can contain a slash, a hash or one of the three quote characters are modelled exactly (COMMENT with its non-greedy body,
   LINE_COMMENT, PYTHON_COMMENT, STRING_LITERAL, CHAR_LITERAL with the EscapeSequence automaton,
   TemplateStringLiteral with its fall-back to the last escaped back-quote).  Every other rule
   accepts after its first character, contains none of the five characters and is never the only
   live rule on one of them, so for the sequence of comment tokens (text + start line) it is
   equivalent to consuming one character; a character no rule starts with is skipped alone.
   A block comment opener that is never closed falls back to the DIV token: one character.
   Input is taken as bytes; the model is exact for ASCII text (the generators stay inside it). *)
From Coq Require Import String List Bool Arith Ascii.
From Coca Require Import Lib.Str Lib.Scan Generated.Constants.
Import ListNotations.
Open Scope list_scope.
Open Scope string_scope.

(* ------------------------------------------------------------------ characters *)
Definition c_cr : ascii := ascii_of_nat 13.
Definition c_ff : ascii := ascii_of_nat 12.
Definition c_squote : ascii := ascii_of_nat 39.
Definition c_btick : ascii := ascii_of_nat 96.
Definition c_slash : ascii := "/"%char.
Definition c_star : ascii := "*"%char.
Definition c_hash : ascii := "#"%char.

Definition in_range (lo hi : nat) (c : ascii) : bool :=
  let n := nat_of_ascii c in Nat.leb lo n && Nat.leb n hi.

Definition is_oct (c : ascii) : bool := in_range 48 55 c.
Definition is_oct03 (c : ascii) : bool := in_range 48 51 c.
Definition is_hexd (c : ascii) : bool := in_range 48 57 c || in_range 65 70 c || in_range 97 102 c.
(* the one-letter escapes: b t n f r, the two quotes, the backslash *)
Definition is_simple_esc (c : ascii) : bool :=
  Ascii.eqb c "b"%char || Ascii.eqb c "t"%char || Ascii.eqb c "n"%char || Ascii.eqb c "f"%char || Ascii.eqb c "r"%char ||
  Ascii.eqb c c_dquote || Ascii.eqb c c_squote || Ascii.eqb c c_bslash.

Definition is_line_end (c : ascii) : bool := Ascii.eqb c c_cr || Ascii.eqb c c_nl.
Definition is_hash_end (c : ascii) : bool := Ascii.eqb c c_cr || Ascii.eqb c c_nl || Ascii.eqb c c_ff.

(* ------------------------------------------------------------------ lexer *)
Inductive ckind := CBlock | CLine | CHash.

Record ctoken := mkTok { tk_kind : ckind; tk_text : string; tk_line : nat }.

(* number of characters before the first one satisfying [stop] *)
Fixpoint span_len (stop : ascii -> bool) (s : string) : nat :=
  match s with
  | String c r => if stop c then 0 else S (span_len stop r)
  | EmptyString => 0
  end.

(* index of the first star-slash *)
Fixpoint find_close (s : string) : option nat :=
  match s with
  | String a r =>
    match r with
    | String b _ =>
      if Ascii.eqb a c_star && Ascii.eqb b c_slash then Some 0
      else match find_close r with Some i => Some (S i) | None => None end
    | EmptyString => None
    end
  | EmptyString => None
  end.

(* outcome of running the automaton of one literal rule: a token of n characters, or death
   after n characters (at_eof: the character it died on is the end of input) *)
Inductive scan := Accept (n : nat) | Die (n : nat) (at_eof : bool).

(* states of the automaton for STRING_LITERAL / CHAR_LITERAL bodies *)
Inductive lstate :=
| QNorm            (* string: inside the loop of plain characters and escape sequences *)
| QFirst           (* char: the one body element is still to come *)
| QClose           (* char: only the closing quote may follow *)
| QEsc             (* after the backslash *)
| QOct (k : nat)   (* char: after an octal digit, k more may follow before the quote *)
| QU               (* after backslash and one or more u *)
| QHex (k : nat).  (* k+1 more hex digits to come *)

(* [chr] = true for CHAR_LITERAL.  n = characters consumed so far (the opening quote included). *)
Fixpoint scan_lit (chr : bool) (q : lstate) (s : string) (n : nat) : scan :=
  match s with
  | EmptyString => Die n true
  | String c r =>
    let done := if chr then QClose else QNorm in
    match q with
    | QNorm =>
      if Ascii.eqb c c_dquote then Accept (S n)
      else if Ascii.eqb c c_bslash then scan_lit chr QEsc r (S n)
      else if is_line_end c then Die n false
      else scan_lit chr QNorm r (S n)
    | QFirst =>
      if Ascii.eqb c c_squote || is_line_end c then Die n false
      else if Ascii.eqb c c_bslash then scan_lit chr QEsc r (S n)
      else scan_lit chr QClose r (S n)
    | QClose =>
      if Ascii.eqb c c_squote then Accept (S n) else Die n false
    | QEsc =>
      if is_simple_esc c then scan_lit chr done r (S n)
      else if is_oct c then
        (* in a string the loop state accepts everything the pending octal digits accept *)
        (if chr then scan_lit chr (QOct (if is_oct03 c then 2 else 1)) r (S n)
         else scan_lit chr QNorm r (S n))
      else if Ascii.eqb c "u"%char then scan_lit chr QU r (S n)
      else Die n false
    | QOct k =>
      if Ascii.eqb c c_squote then Accept (S n)
      else if is_oct c then
        match k with
        | 0 => Die n false
        | S k' => scan_lit chr (QOct k') r (S n)
        end
      else Die n false
    | QU =>
      if Ascii.eqb c "u"%char then scan_lit chr QU r (S n)
      else if is_hexd c then scan_lit chr (QHex 2) r (S n)
      else Die n false
    | QHex k =>
      if is_hexd c then
        match k with
        | 0 => scan_lit chr done r (S n)
        | S k' => scan_lit chr (QHex k') r (S n)
        end
      else Die n false
    end
  end.

(* TemplateStringLiteral: back-quote, any characters, back-quote, where backslash back-quote is
   an escape as well as two plain characters -- a back-quote that follows a backslash both
   closes the literal and continues it; the longest match wins, and at the end of input the last
   such back-quote (if any) is the token *)
Fixpoint scan_tpl (s : string) (n : nat) (prev_bs : bool) (last : option nat) : scan :=
  match s with
  | EmptyString => match last with Some m => Accept m | None => Die n true end
  | String c r =>
    if Ascii.eqb c c_btick then
      (if prev_bs then scan_tpl r (S n) false (Some (S n)) else Accept (S n))
    else scan_tpl r (S n) (Ascii.eqb c c_bslash) last
  end.

Definition consumed (r : scan) : nat :=
  match r with
  | Accept n => n
  | Die n true => n
  | Die n false => S n    (* Lexer.Recover skips the offending character as well *)
  end.

(* one round of NextToken at the head of s: the comment kind (None: another token, or skipped
   text) and the number of characters it takes off the input *)
Definition lex_step (s : string) : option ckind * nat :=
  match s with
  | EmptyString => (None, 0)
  | String c r =>
    if Ascii.eqb c c_slash then
      match r with
      | String d r2 =>
        if Ascii.eqb d c_star then
          match find_close r2 with
          | Some i => (Some CBlock, i + 4)
          | None => (None, 1)
          end
        else if Ascii.eqb d c_slash then (Some CLine, 2 + span_len is_line_end r2)
        else (None, 1)
      | EmptyString => (None, 1)
      end
    else if Ascii.eqb c c_hash then (Some CHash, 1 + span_len is_hash_end r)
    else if Ascii.eqb c c_dquote then (None, consumed (scan_lit false QNorm r 1))
    else if Ascii.eqb c c_squote then (None, consumed (scan_lit true QFirst r 1))
    else if Ascii.eqb c c_btick then (None, consumed (scan_tpl r 1 false None))
    else (None, 1)
  end.

Fixpoint count_nl (s : string) : nat :=
  match s with
  | String c r => (if Ascii.eqb c c_nl then 1 else 0) + count_nl r
  | EmptyString => 0
  end.

Fixpoint lex (fuel : nat) (s : string) (line : nat) : list ctoken :=
  match fuel with
  | 0 => []
  | S f =>
    match s with
    | EmptyString => []
    | _ =>
      let '(k, n) := lex_step s in
      let txt := take n s in
      let rest := lex f (drop n s) (line + count_nl txt) in
      match k with
      | Some kd => mkTok kd txt line :: rest
      | None => rest
      end
    end
  end.

(* lexer.GetAllTokens() filtered to COMMENT / LINE_COMMENT / PYTHON_COMMENT *)
Definition comment_tokens (src : string) : list ctoken := lex (S (String.length src)) src 1.

(* ------------------------------------------------------------------ astitodo.ParseComment *)
(* unicode.IsSpace on ASCII: \t \n \v \f \r and the blank *)
Definition is_space (c : ascii) : bool :=
  let n := nat_of_ascii c in (Nat.leb 9 n && Nat.leb n 13) || Nat.eqb n 32.

Fixpoint ltrim (s : string) : string :=
  match s with
  | String c r => if is_space c then ltrim r else s
  | EmptyString => EmptyString
  end.

Definition is_empty (s : string) : bool := match s with EmptyString => true | _ => false end.

Fixpoint rtrim (s : string) : string :=
  match s with
  | EmptyString => EmptyString
  | String c r => let r' := rtrim r in if is_space c && is_empty r' then EmptyString else String c r'
  end.

(* strings.TrimSpace *)
Definition trim_space (s : string) : string := rtrim (ltrim s).

(* strings.TrimLeft(t, colon) *)
Fixpoint trim_left_colon (s : string) : string :=
  match s with
  | String c r => if Ascii.eqb c ":"%char then trim_left_colon r else s
  | EmptyString => EmptyString
  end.

Definition upper_char (c : ascii) : ascii :=
  if in_range 97 122 c then ascii_of_nat (nat_of_ascii c - 32) else c.

(* strings.ToUpper on ASCII *)
Fixpoint to_upper (s : string) : string :=
  match s with
  | String c r => String (upper_char c) (to_upper r)
  | EmptyString => EmptyString
  end.

(* IsTodoIdentifier: length of the first keyword that prefixes the upper-cased text *)
Fixpoint todo_ident_len (ids : list string) (s : string) : option nat :=
  match ids with
  | [] => None
  | i :: r => if has_prefix i (to_upper s) then Some (String.length i) else todo_ident_len r s
  end.

(* if HasPrefix(t, colon) then t = TrimLeft(t, colon); t = TrimSpace(t) *)
Definition strip_colon (t : string) : string :=
  if has_prefix ":" t then trim_space (trim_left_colon t) else t.

(* the character class of the assignee expression: word characters, blank . _ + - @ *)
Definition is_assignee_char (c : ascii) : bool :=
  is_word c || Ascii.eqb c " "%char || Ascii.eqb c "."%char || Ascii.eqb c "+"%char || Ascii.eqb c "-"%char || Ascii.eqb c "@"%char.

(* the scanner below was compiled by hand from exactly this source text of the expression *)
Definition assign_regexp_known : bool :=
  String.eqb todo_assign_regexp "^\\([\\w \\._\\+\\-@]+\\)".

(* regexpAssignee.FindString(t): the match with its parentheses, empty when there is none *)
Definition find_assignee (t : string) : string :=
  match t with
  | String c r =>
    if Ascii.eqb c "("%char then
      let '(a, b) := span is_assignee_char r in
      if negb (is_empty a) && has_prefix ")" b then "(" ++ a ++ ")" else ""
    else ""
  | EmptyString => ""
  end.

(* handleForMultipleLine: ReplaceAll of star-slash, then of star, then of newline, each by a blank,
   as one pass (occurrences of star-slash cannot overlap; the first replacement introduces blanks only) *)
Fixpoint norm_message (s : string) : string :=
  match s with
  | EmptyString => EmptyString
  | String a r =>
    if Ascii.eqb a c_star then
      match r with
      | String b r2 => if Ascii.eqb b c_slash then String " "%char (norm_message r2) else String " "%char (norm_message r)
      | EmptyString => String " "%char EmptyString
      end
    else if Ascii.eqb a c_nl then String " "%char (norm_message r)
    else String a (norm_message r)
  end.

Inductive presult :=
| PPanic                                   (* slice bounds out of range (unreachable, see the totality theorem) *)
| PNone                                    (* nil: not a todo comment *)
| PTodo (assignee message : string).

(* the three two-byte markers of the prefix test *)
Definition has_marker_prefix (t : string) : bool :=
  has_prefix "//" t || has_prefix "/*" t || has_prefix "*/" t.

(* t[n:] -- a slice expression panics when n exceeds the length *)
Definition slice_from (n : nat) (t : string) : option string :=
  if Nat.ltb (String.length t) n then None else Some (drop n t).

(* ParseComment after the comment marker has been cut off *)
Definition parse_stripped (t : string) : presult :=
  match todo_ident_len todo_identifiers t with
  | None => PNone
  | Some len =>
    let t := strip_colon (trim_space (drop len t)) in
    let a := find_assignee t in
    if is_empty a then PTodo "" (norm_message t)
    else
      let t := strip_colon (trim_space (drop (String.length a) t)) in
      PTodo (take (String.length a - 2) (drop 1 a)) (norm_message t)
  end.

Definition parse_comment (comment : string) : presult :=
  let t := trim_space comment in
  let cut :=
    if has_prefix "#" t then
      (* the hash marker is one byte long: t = strings.TrimSpace(t[1:]) *)
      match slice_from 1 t with Some r => Some (trim_space r) | None => None end
    else if has_marker_prefix t then
      (* t = strings.TrimSpace(t[2:]) *)
      match slice_from 2 t with Some r => Some (trim_space r) | None => None end
    else Some t in
  match cut with
  | Some t => parse_stripped t
  | None => PPanic
  end.

(* ------------------------------------------------------------------ todo_app.go *)
Record todo := mkTodo { td_file : string; td_line : nat; td_assignee : string; td_message : string }.

(* CodeFileFilter *)
Definition selected (exts : list string) (path : string) : bool :=
  existsb (fun e => has_suffix e path) exts.

(* the token loop of BuildComments for one file; None = the process panicked *)
Fixpoint todos_of_tokens (file : string) (toks : list ctoken) : option (list todo) :=
  match toks with
  | [] => Some []
  | t :: r =>
    match parse_comment (tk_text t) with
    | PPanic => None
    | PNone => todos_of_tokens file r
    | PTodo a m =>
      match todos_of_tokens file r with
      | Some l => Some (mkTodo file (tk_line t) a m :: l)
      | None => None
      end
    end
  end.

(* a walked path: a regular file with its content, or a directory *)
Record fentry := mkEntry { fe_name : string; fe_dir : bool; fe_text : string }.

Inductive outcome :=
| Report (l : list todo)
| Crash (what : string).

(* the file loop of BuildComments over the walked paths (filepath.Walk hands directories to the
   filter as well; antlr.NewFileStream fails on one and the entry is skipped) *)
Fixpoint build_comments (exts : list string) (files : list fentry) : outcome :=
  match files with
  | [] => Report []
  | f :: r =>
    if selected exts (fe_name f) then
      if fe_dir f then build_comments exts r
      else
        match todos_of_tokens (fe_name f) (comment_tokens (fe_text f)) with
        | None => Crash "slice bounds out of range"
        | Some l =>
          match build_comments exts r with
          | Report l' => Report (l ++ l')%list
          | Crash w => Crash w
          end
        end
    else build_comments exts r
  end.

Definition analysis_path (exts : list string) (files : list fentry) : outcome :=
  if assign_regexp_known then build_comments exts files
  else Crash "model out of date: assignee expression changed".
