(* Independent statement of C04 over the code model, as boolean deciders applied to
   the OBSERVED output (reverse-call map + DOT text) of a query. *)
From Coq Require Import String List Bool Arith.
From Coca Require Import Lib.Sx Lib.GoMap Lib.Dot Lib.Reach Model.CodeModel.
Import ListNotations.
Open Scope list_scope.
Open Scope string_scope.

(* the project-internal call relation, one pair per call site: (caller, callee) *)
Definition declared_methods (m : list ds) : list string :=
  flat_map (fun d => map (func_full_name d) (d_funcs d)) m.

Definition site_pairs (m : list ds) : list (string * string) :=
  flat_map (fun d =>
    flat_map (fun f =>
      map (fun c => (func_full_name d f, call_full_name c))
          (filter (fun c => negb (String.eqb (c_node c) "")) (f_calls f)))
      (d_funcs d)) m.

(* callers of [callee], once per call site; empty unless [callee] is declared *)
Definition spec_callers (m : list ds) (callee : string) : list string :=
  if str_mem callee (declared_methods m) then
    map fst (filter (fun p => String.eqb (snd p) callee) (site_pairs m))
  else [].

Definition count_str (s : string) (l : list string) : nat :=
  List.length (filter (String.eqb s) l).

Definition same_multiset (a b : list string) : bool :=
  Nat.eqb (List.length a) (List.length b) &&
  forallb (fun x => Nat.eqb (count_str x a) (count_str x b)) a.

(* clause 1: the observed map is the exact inverse *)
Definition map_exact_b (m : list ds) (obs : gomap (list string)) : bool :=
  forallb (fun k => same_multiset (mget_d [] obs k) (spec_callers m k))
          (mkeys obs ++ declared_methods m)%list.

(* reverse reachability: methods on a caller chain ending at target.  The bound
   (16 + number of declared methods) exceeds every simple path, so this is plain
   reachability; it is written with a bound so that completeness needs no counting. *)
Definition rreach (m : list ds) (target : string) : list string :=
  reach_within (spec_callers m) (16 + List.length (declared_methods m)) target.

(* clause 2: well-formed DOT whose edges come from the map and lie on a chain to target *)
Definition edges_sound_b (m : list ds) (target : string) (edges : list (string * string)) : bool :=
  let rs := rreach m target in
  forallb (fun e => str_mem (fst e) (spec_callers m (snd e)) && str_mem (snd e) rs) edges.

(* clause 3: every direct caller of the target other than itself is drawn *)
Definition direct_callers_b (m : list ds) (target : string) (edges : list (string * string)) : bool :=
  forallb (fun c => String.eqb c target ||
                    existsb (fun e => String.eqb (fst e) c && String.eqb (snd e) target) edges)
          (spec_callers m target).

(* verdict: list of failing clause names (empty = the property holds on this observation) *)
Definition c04_verdict (m : list ds) (target : string) (obs_map : gomap (list string)) (dot : string)
  : list string :=
  ((if map_exact_b m obs_map then [] else ["map_exact"]) ++
  match dot_parse dot with
  | None => ["dot_wellformed"]
  | Some edges =>
    (if edges_sound_b m target edges then [] else ["edges_sound"]) ++
    (if direct_callers_b m target edges then [] else ["direct_callers"])
  end)%list.
