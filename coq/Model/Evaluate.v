(* Models of count.BuildCallMap, evaluate.Analyser.Analysis (summary counts, nullable list) and
   concept.ConceptAnalyser.Analysis over the code model (definitions only). *)
From Coq Require Import String List Bool Arith Ascii.
From Coca Require Import Lib.Sx Lib.GoMap Lib.Str Model.CodeModel Model.GitSummary Generated.Constants.
Import ListNotations.
Open Scope list_scope.
Open Scope string_scope.

(* ---- count ---- *)
Definition project_method_names (deps : list ds) : list string :=
  flat_map (fun d => map (func_full_name d) (d_funcs d)) deps.

Definition all_call_names (deps : list ds) : list string :=
  flat_map (fun d => flat_map (fun f => map call_full_name (f_calls f)) (d_funcs d)) deps.

(* BuildCallMap: number of call sites whose full name is a declared method *)
Definition build_call_map (deps : list ds) : gomap nat :=
  let pm := project_method_names deps in
  fold_left (fun m c => if str_mem c pm then mput m c (S (mget_d 0 m c)) else m) (all_call_names deps) [].

(* string_helper.SortWord: rows ordered by key (byte order) *)
Definition sort_word (m : gomap nat) : list (string * nat) := sort_by (fun a b => str_leb (fst a) (fst b)) m.

(* what `coca count` lists *)
Definition count_report (deps : list ds) : list (string * nat) := sort_word (build_call_map deps).

(* ---- evaluate ---- *)
Definition is_static (f : func) : bool := str_mem "static" (f_mods f).      (* StringArrayContains *)
Definition is_util_class (d : ds) : bool := contains (to_lower (d_node d)) "util".

Definition nullable_method (f : func) : bool :=
  f_retnull f || existsb (fun a => String.eqb (an_name a) "Nullable" || String.eqb (an_name a) "CheckForNull") (f_annots f).

(* NullPointException.EvaluateList: the names go through a map, so each is listed once *)
Definition nullable_list (idents : list ds) : list string :=
  mkeys (fold_left (fun m d => fold_left (fun m f => if nullable_method f
                                                     then mput m (func_full_name d f) (func_full_name d f) else m)
                                         (d_funcs d) m) idents []).

Record eval_summary := mkES { es_classes : nat; es_methods : nat; es_static : nat; es_utils : nat;
                              es_nullable : list string }.

Definition evaluate (deps idents : list ds) : eval_summary :=
  mkES (List.length idents)
       (list_sum (map (fun d => List.length (d_funcs d)) idents))
       (list_sum (map (fun d => List.length (filter is_static (d_funcs d))) idents))
       (List.length (filter is_util_class deps))
       (nullable_list idents).

(* ---- concept ---- *)
Definition is_upper (c : ascii) : bool := let n := nat_of_ascii c in Nat.leb 65 n && Nat.leb n 90.
Definition is_lower (c : ascii) : bool := let n := nat_of_ascii c in Nat.leb 97 n && Nat.leb n 122.
Definition c_dot : ascii := "."%char.

(* the loop of strcase.ToScreamingDelimited(s, '.', 0, false) over ASCII text; acc is the output built so
   far, reversed *)
Fixpoint to_delimited_loop (first : bool) (s : list ascii) (acc : list ascii) : list ascii :=
  match s with
  | [] => rev acc
  | v :: rest =>
    let changed := match rest with
                   | next :: _ => (is_upper v && is_lower next) || (is_lower v && is_upper next)
                   | [] => false
                   end in
    let last_is_delim := match acc with c :: _ => Ascii.eqb c c_dot | [] => false end in
    let acc' :=
      if negb first && negb last_is_delim && changed then
        if is_upper v then v :: c_dot :: acc
        else if is_lower v then c_dot :: v :: acc
        else acc                                            (* neither branch appends *)
      else if Ascii.eqb v " "%char || Ascii.eqb v "_"%char || Ascii.eqb v "-"%char then c_dot :: acc
      else v :: acc in
    to_delimited_loop false rest acc'
  end.

Definition is_letter (c : ascii) : bool := is_upper c || is_lower c.
Definition is_digit (c : ascii) : bool := let n := nat_of_ascii c in Nat.leb 48 n && Nat.leb n 57.

Fixpoint span_digits (s : list ascii) : list ascii * list ascii :=
  match s with
  | c :: r => if is_digit c then let (ds, rest) := span_digits r in (c :: ds, rest) else ([], s)
  | [] => ([], [])
  end.

(* addWordBoundariesToNumbers: ReplaceAll of ([a-zA-Z])(\d+)([a-zA-Z]?) by "$1 $2 $3", leftmost matches,
   the search resuming after each match *)
Fixpoint add_boundaries (fuel : nat) (s : list ascii) : list ascii :=
  match fuel with
  | 0 => s
  | S fuel' =>
    match s with
    | c :: ((d :: _) as r) =>
      if is_letter c && is_digit d then
        let (ds, rest) := span_digits r in
        match rest with
        | l :: rest' => if is_letter l then (c :: " "%char :: ds ++ " "%char :: l :: add_boundaries fuel' rest')%list
                        else (c :: " "%char :: ds ++ " "%char :: add_boundaries fuel' rest)%list
        | [] => (c :: " "%char :: ds ++ [" "%char])%list
        end
      else c :: add_boundaries fuel' r
    | _ => s
    end
  end.

Fixpoint trim_left_sp (s : list ascii) : list ascii :=
  match s with c :: r => if Ascii.eqb c " "%char then trim_left_sp r else s | [] => [] end.
Definition trim_sp (s : list ascii) : list ascii := rev (trim_left_sp (rev (trim_left_sp s))).

Definition to_delimited (s : string) : string :=
  let cs := chars s in
  to_lower (unchars (to_delimited_loop true (trim_sp (add_boundaries (List.length cs) cs)) [])).

Definition all_digits (s : string) : bool :=
  negb (String.eqb s "") && forallb (fun c => let n := nat_of_ascii c in Nat.leb 48 n && Nat.leb n 57) (chars s).

Definition trim_spaces (s : string) : string := s.   (* words produced by to_delimited carry no blanks *)

(* SegmentCamelcase: the get/set shortcut is dead code (its HasSuffix arguments are swapped) *)
Definition segment_camelcase (names : list string) : gomap nat :=
  fold_left (fun m name =>
               fold_left (fun m w => if all_digits w || String.eqb w "" then m else mput m w (S (mget_d 0 m w)))
                         (split "." (to_delimited name)) m) names [].

(* removeNormalWords: the English stop words followed by the technical ones *)
Definition stop_words : list string := (ENGLISH_STOP_WORDS ++ TechStopWords)%list.

Definition remove_words (sw : list string) (m : gomap nat) : gomap nat :=
  fold_left (fun m w => if Nat.ltb 0 (mget_d 0 m w) then mdel m w else m) sw m.
Definition remove_normal_words (m : gomap nat) : gomap nat := remove_words stop_words m.

(* SortWord: by key *)
Definition concept_words (sw : list string) (names : list string) : list (string * nat) :=
  sort_word (remove_words sw (segment_camelcase names)).

Definition concept_analysis (deps : list ds) : list (string * nat) :=
  concept_words stop_words (flat_map (fun d => map f_name (d_funcs d)) deps).
