(* Models of count.BuildCallMap, evaluate.Analyser.Analysis (summary counts, nullable list) and
   concept.ConceptAnalyser.Analysis over the code model (definitions only). *)
From Coq Require Import String List Bool Arith Ascii.
From Coca Require Import Lib.Sx Lib.GoMap Lib.Str Model.CodeModel Model.GitSummary Generated.Constants.
Import ListNotations.
Open Scope list_scope.
Open Scope string_scope.

(* ---- count ---- *)
Definition project_method_names (deps : list ds) : list string :=
  flat_map (fun d => map (func_full_name d) (d_funcs d)) deps.

Definition all_call_names (deps : list ds) : list string :=
  flat_map (fun d => flat_map (fun f => map call_full_name (f_calls f)) (d_funcs d)) deps.

(* BuildCallMap: number of call sites whose full name is a declared method *)
Definition build_call_map (deps : list ds) : gomap nat :=
  let pm := project_method_names deps in
  fold_left (fun m c => if str_mem c pm then mput m c (S (mget_d 0 m c)) else m) (all_call_names deps) [].

(* ---- evaluate ---- *)
Definition is_static (f : func) : bool := str_mem "static" (f_mods f).      (* StringArrayContains *)
Definition is_util_class (d : ds) : bool := contains (to_lower (d_node d)) "util".

Definition nullable_method (f : func) : bool :=
  f_retnull f || existsb (fun a => String.eqb (an_name a) "Nullable" || String.eqb (an_name a) "CheckForNull") (f_annots f).

(* NullPointException.EvaluateList: the names go through a map, so each is listed once *)
Definition nullable_list (idents : list ds) : list string :=
  mkeys (fold_left (fun m d => fold_left (fun m f => if nullable_method f
                                                     then mput m (func_full_name d f) (func_full_name d f) else m)
                                         (d_funcs d) m) idents []).

Record eval_summary := mkES { es_classes : nat; es_methods : nat; es_static : nat; es_utils : nat;
                              es_nullable : list string }.

Definition evaluate (deps idents : list ds) : eval_summary :=
  mkES (List.length idents)
       (list_sum (map (fun d => List.length (d_funcs d)) idents))
       (list_sum (map (fun d => List.length (filter is_static (d_funcs d))) idents))
       (List.length (filter is_util_class deps))
       (nullable_list idents).

(* ---- concept ---- *)
Definition is_upper (c : ascii) : bool := let n := nat_of_ascii c in Nat.leb 65 n && Nat.leb n 90.
Definition is_lower (c : ascii) : bool := let n := nat_of_ascii c in Nat.leb 97 n && Nat.leb n 122.
Definition c_dot : ascii := "."%char.

(* strcase.ToDelimited(s, '.') for names without digits (addWordBoundariesToNumbers is then the
   identity); acc is the output built so far, reversed *)
Fixpoint to_delimited_loop (first : bool) (s : list ascii) (acc : list ascii) : list ascii :=
  match s with
  | [] => rev acc
  | v :: rest =>
    let changed := match rest with
                   | next :: _ => (is_upper v && is_lower next) || (is_lower v && is_upper next)
                   | [] => false
                   end in
    let last_is_delim := match acc with c :: _ => Ascii.eqb c c_dot | [] => false end in
    let acc' :=
      if negb first && negb last_is_delim && changed then
        if is_upper v then v :: c_dot :: acc
        else if is_lower v then c_dot :: v :: acc
        else acc                                            (* neither branch appends *)
      else if Ascii.eqb v " "%char || Ascii.eqb v "_"%char || Ascii.eqb v "-"%char then c_dot :: acc
      else v :: acc in
    to_delimited_loop false rest acc'
  end.

Definition to_delimited (s : string) : string := to_lower (unchars (to_delimited_loop true (chars s) [])).

Definition all_digits (s : string) : bool :=
  negb (String.eqb s "") && forallb (fun c => let n := nat_of_ascii c in Nat.leb 48 n && Nat.leb n 57) (chars s).

Definition trim_spaces (s : string) : string := s.   (* words produced by to_delimited carry no blanks *)

(* SegmentCamelcase: the get/set shortcut is dead code (its HasSuffix arguments are swapped) *)
Definition segment_camelcase (names : list string) : gomap nat :=
  fold_left (fun m name =>
               fold_left (fun m w => if all_digits w || String.eqb w "" then m else mput m w (S (mget_d 0 m w)))
                         (split "." (to_delimited name)) m) names [].

Definition remove_normal_words (m : gomap nat) : gomap nat :=
  fold_left (fun m w => if Nat.ltb 0 (mget_d 0 m w) then mdel m w else m) (ENGLISH_STOP_WORDS ++ TechStopWords)%list m.

(* SortWord: by key *)
Definition concept_analysis (deps : list ds) : list (string * nat) :=
  sort_by (fun a b => str_leb (fst a) (fst b))
          (remove_normal_words (segment_camelcase (flat_map (fun d => map f_name (d_funcs d)) deps))).
