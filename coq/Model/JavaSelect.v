(* Model of pkg/adapter/cocafile: which files of a tree an analysis reads. The directory walk
   order and the .gitignore verdict per path are supplied by the generator (oracle). *)
From Coq Require Import String List Bool Arith.
From Coca Require Import Lib.Sx Lib.Str.
Import ListNotations.
Open Scope list_scope.
Open Scope string_scope.

Definition is_java_test_file (path : string) : bool :=
  has_suffix "Test.java" path || has_suffix "Tests.java" path.
Definition is_java_test_package (path : string) : bool := contains path "src/test/java/".
Definition java_test_file_filter (path : string) : bool :=
  has_suffix ".java" path && (is_java_test_file path || is_java_test_package path).
Definition java_code_file_filter (path : string) : bool :=
  has_suffix ".java" path && negb (java_test_file_filter path).

(* GetFilesWithFilter on a directory: (path, ignored-by-gitignore) in walk order *)
Definition get_files_with_filter (filter : string -> bool) (walk : list (string * bool)) : list string :=
  map fst (List.filter (fun pi => negb (snd pi) && negb (contains (fst pi) "testData") && filter (fst pi)) walk).
