(* Presence of children in the nodes of a Java parse tree, against the accesses the listeners make.
   The grammar table and the access table are regenerated from the sources (Generated/JavaShapes.v). *)
From Coq Require Import String List Bool Arith.
From Coca Require Import Lib.Str Generated.JavaShapes.
Import ListNotations.
Open Scope list_scope.
Open Scope string_scope.

Definition alts_of (r : string) : list (list string) :=
  match find (fun e => String.eqb (fst e) r) java_grammar with Some e => snd e | None => [] end.

(* in this way of matching the rule, if every guard of the access is present then so is the child *)
Definition access_safe_in (a : access) (alt : list string) : bool :=
  negb (forallb (fun g => str_mem g alt) (ac_guards a)) || str_mem (ac_child a) alt.

Definition access_ok (a : access) : bool := forallb (access_safe_in a) (alts_of (ac_rule a)).

(* a parse-tree node, as far as the listeners' nil tests can tell: its rule and which child accessors
   return a non-nil result *)
Record node := mkNode { n_rule : string; n_present : list string }.

(* the node was built by the parser from one of the ways the grammar allows *)
Definition conforms (n : node) : Prop := In (n_present n) (alts_of (n_rule n)).
