(* Independent statement of C18 over the abstract units and the recorded call sites. *)
From Coq Require Import String List Bool Arith Ascii.
From Coca Require Import Lib.Sx Lib.GoMap Lib.Str Model.CodeModel Model.GitSummary Model.JavaFull Model.Evaluate
     Model.GitSummarySpec Generated.Constants.
Import ListNotations.
Open Scope list_scope.
Open Scope string_scope.

Definition count_of_name (k : string) (l : list string) : nat := List.length (filter (String.eqb k) l).

Fixpoint strictly_sorted (l : list string) : bool :=
  match l with
  | a :: ((b :: _) as r) => str_leb a b && negb (String.eqb a b) && strictly_sorted r
  | _ => true
  end.

(* reference counts: observed as (method, count) rows in the order `coca count` lists them *)
Definition count_verdict (deps : list ds) (obs : list (string * nat)) : list string :=
  let declared := flat_map (fun d => map (func_full_name d) (d_funcs d)) deps in
  let sites := flat_map (fun d => flat_map (fun f => map call_full_name (f_calls f)) (d_funcs d)) deps in
  let resolving := filter (fun s => str_mem s declared) sites in
  ((if forallb (fun kv => str_mem (fst kv) declared && Nat.ltb 0 (snd kv) &&
                          Nat.eqb (snd kv) (count_of_name (fst kv) sites)) obs
    then [] else ["count_exact"]) ++
   (if forallb (fun s => existsb (fun kv => String.eqb (fst kv) s) obs) resolving then [] else ["count_missing"]) ++
   (if Nat.eqb (list_sum (map snd obs)) (List.length resolving) then [] else ["count_sum"]) ++
   (if strictly_sorted (map fst obs) then [] else ["count_order"]))%list.

(* evaluation summary, from the abstract units *)
Definition unit_methods (u : junit) : list jmember := filter (fun m => negb (String.eqb (m_kind m) "field")) (u_members u).

Definition returns_null (m : jmember) : bool :=
  existsb (fun e => match e with EReturn _ nulltok => nulltok | _ => false end) (m_events m).

Definition is_nullable (m : jmember) : bool :=
  returns_null m || existsb (fun a => String.eqb a "Nullable" || String.eqb a "CheckForNull") (m_annots m).

Definition spec_nullable (units : list junit) : list string :=
  flat_map (fun u => map (fun m => u_pkg u ++ "." ++ u_name u ++ "." ++ m_name m) (filter is_nullable (unit_methods u))) units.

Definition same_set_str (a b : list string) : bool :=
  forallb (fun x => str_mem x b) a && forallb (fun x => str_mem x a) b.

Fixpoint nodup_strs_b (l : list string) : bool :=
  match l with [] => true | x :: r => negb (str_mem x r) && nodup_strs_b r end.

Definition summary_verdict (units : list junit) (o : eval_summary) : list string :=
  ((if Nat.eqb (es_classes o) (List.length units) then [] else ["class_count"]) ++
   (if Nat.eqb (es_methods o) (list_sum (map (fun u => List.length (unit_methods u)) units)) then [] else ["method_count"]) ++
   (if Nat.eqb (es_static o)
               (list_sum (map (fun u => List.length (filter (fun m => str_mem "static" (m_mods m)) (unit_methods u))) units))
    then [] else ["static_count"]) ++
   (if Nat.eqb (es_utils o) (List.length (filter (fun u => contains (to_lower (u_name u)) "util") units))
    then [] else ["utils_count"]) ++
   (if same_set_str (es_nullable o) (spec_nullable units) && nodup_strs_b (es_nullable o) then [] else ["nullable"]))%list.

(* concept words.  A name is cut at _ - and blank, between a letter and a digit, before a capital that
   follows a lower-case letter, and before the last capital of a run of capitals that is followed by a
   lower-case letter (parseXMLDocument = parse XML Document).  Runs of digits are not words. *)
Definition is_sep (c : ascii) : bool := Ascii.eqb c "_"%char || Ascii.eqb c "-"%char || Ascii.eqb c " "%char.

Definition boundary (p c : ascii) (next : option ascii) : bool :=
  (is_lower p && is_upper c) ||
  (is_upper p && is_upper c && match next with Some n => is_lower n | None => false end) ||
  (is_letter p && is_digit c) || (is_digit p && is_letter c).

Fixpoint segments (p : ascii) (s : list ascii) (cur : list ascii) : list string :=
  match s with
  | [] => [unchars (rev cur)]
  | c :: r =>
    if is_sep c then unchars (rev cur) :: segments c r []
    else if boundary p c (match r with n :: _ => Some n | [] => None end) then unchars (rev cur) :: segments c r [c]
    else segments c r (c :: cur)
  end.

Definition words_of_name (name : string) : list string :=
  filter (fun w => negb (String.eqb w "") && negb (all_digits w)) (map to_lower (segments "_"%char (chars name) [])).

Definition concept_verdict (units : list junit) (obs : list (string * nat)) : list string :=
  let names := flat_map (fun u => map m_name (unit_methods u)) units in
  let words := filter (fun w => negb (str_mem w stop_words)) (flat_map words_of_name names) in
  if Nat.eqb (list_sum (map snd obs)) (List.length words) then [] else ["concept_sum"].
