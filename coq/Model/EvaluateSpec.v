(* Independent statement of C18 over the abstract units and the recorded call sites. *)
From Coq Require Import String List Bool Arith Ascii.
From Coca Require Import Lib.Sx Lib.GoMap Lib.Str Model.CodeModel Model.JavaFull Model.Evaluate
     Model.GitSummarySpec Generated.Constants.
Import ListNotations.
Open Scope list_scope.
Open Scope string_scope.

Definition count_of_name (k : string) (l : list string) : nat := List.length (filter (String.eqb k) l).

(* reference counts: observed as (method, count) rows *)
Definition count_verdict (deps : list ds) (obs : list (string * nat)) : list string :=
  let declared := flat_map (fun d => map (func_full_name d) (d_funcs d)) deps in
  let sites := flat_map (fun d => flat_map (fun f => map call_full_name (f_calls f)) (d_funcs d)) deps in
  let resolving := filter (fun s => str_mem s declared) sites in
  ((if forallb (fun kv => str_mem (fst kv) declared && Nat.ltb 0 (snd kv) &&
                          Nat.eqb (snd kv) (count_of_name (fst kv) sites)) obs
    then [] else ["count_exact"]) ++
   (if forallb (fun s => existsb (fun kv => String.eqb (fst kv) s) obs) resolving then [] else ["count_missing"]) ++
   (if Nat.eqb (list_sum (map snd obs)) (List.length resolving) then [] else ["count_sum"]) ++
   (if Nat.eqb (List.length obs) (List.length (fold_left (fun acc kv => if str_mem (fst kv) acc then acc else fst kv :: acc) obs []))
    then [] else ["count_duplicates"]))%list.

(* evaluation summary, from the abstract units *)
Definition unit_methods (u : junit) : list jmember := filter (fun m => negb (String.eqb (m_kind m) "field")) (u_members u).

Definition returns_null (m : jmember) : bool :=
  existsb (fun e => match e with EReturn t => String.eqb t "null" | _ => false end) (m_events m).

Definition is_nullable (m : jmember) : bool :=
  returns_null m || existsb (fun a => String.eqb a "Nullable" || String.eqb a "CheckForNull") (m_annots m).

Definition spec_nullable (units : list junit) : list string :=
  flat_map (fun u => map (fun m => u_pkg u ++ "." ++ u_name u ++ "." ++ m_name m) (filter is_nullable (unit_methods u))) units.

Definition same_set_str (a b : list string) : bool :=
  forallb (fun x => str_mem x b) a && forallb (fun x => str_mem x a) b.

Fixpoint nodup_strs_b (l : list string) : bool :=
  match l with [] => true | x :: r => negb (str_mem x r) && nodup_strs_b r end.

Definition summary_verdict (units : list junit) (o : eval_summary) : list string :=
  ((if Nat.eqb (es_classes o) (List.length units) then [] else ["class_count"]) ++
   (if Nat.eqb (es_methods o) (list_sum (map (fun u => List.length (unit_methods u)) units)) then [] else ["method_count"]) ++
   (if Nat.eqb (es_static o)
               (list_sum (map (fun u => List.length (filter (fun m => str_mem "static" (m_mods m)) (unit_methods u))) units))
    then [] else ["static_count"]) ++
   (if Nat.eqb (es_utils o) (List.length (filter (fun u => contains (to_lower (u_name u)) "util") units))
    then [] else ["utils_count"]) ++
   (if same_set_str (es_nullable o) (spec_nullable units) && nodup_strs_b (es_nullable o) then [] else ["nullable"]))%list.

(* concept words: simple camel-case names split before every capital *)
Fixpoint camel_words (s : list ascii) (cur : list ascii) : list string :=
  match s with
  | [] => [unchars (rev cur)]
  | c :: r => if is_upper c then unchars (rev cur) :: camel_words r [lower_ascii c] else camel_words r (c :: cur)
  end.

Definition words_of_name (name : string) : list string :=
  filter (fun w => negb (String.eqb w "")) (camel_words (chars name) []).

Definition concept_verdict (units : list junit) (obs : list (string * nat)) : list string :=
  let names := flat_map (fun u => map m_name (unit_methods u)) units in
  let words := filter (fun w => negb (str_mem w (ENGLISH_STOP_WORDS ++ TechStopWords)%list) && negb (all_digits w))
                      (flat_map words_of_name names) in
  ((if Nat.eqb (list_sum (map snd obs)) (List.length words) then [] else ["concept_sum"]) ++
   (if forallb (fun kv => Nat.eqb (snd kv) (count_of_name (fst kv) words)) obs then [] else ["concept_counts"]))%list.
