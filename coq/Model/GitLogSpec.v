(* Independent statement of C14: the parsed list must equal, in order, the expected entries
   (one per non-merge commit that changes a file: git's own abbreviated hash, author, date,
   subject; one change per path with git's counts and create/delete mode). *)
From Coq Require Import String List Bool Arith.
From Coca Require Import Lib.Sx Lib.GoMap Lib.Str Model.GitSummary Model.GitSummarySpec.
Import ListNotations.
Open Scope list_scope.
Open Scope string_scope.

Definition change_row (c : fchange) : string :=
  string_of_nat (ch_added c) ++ tab ++ string_of_nat (ch_deleted c) ++ tab ++ ch_file c ++ tab ++ ch_mode c.

Definition header_eq (a b : commit) : bool :=
  String.eqb (cm_rev a) (cm_rev b) && String.eqb (cm_author a) (cm_author b) &&
  String.eqb (cm_date a) (cm_date b) && String.eqb (cm_msg a) (cm_msg b).

Fixpoint zip_verdict (i : nat) (expected observed : list commit) : list string :=
  match expected, observed with
  | [], [] => []
  | e :: es, o :: os =>
    ((if header_eq e o then [] else [("header:" ++ string_of_nat i)%string]) ++
     (if same_bag (map change_row (cm_changes e)) (map change_row (cm_changes o)) then []
      else [("changes:" ++ string_of_nat i)%string]) ++ zip_verdict (S i) es os)%list
  | _, _ => ["commit_count"]
  end.

Definition c14_verdict (expected observed : list commit) : list string := zip_verdict 0 expected observed.
