(* Model of `coca refactor -R` (method rename):
     pkg/application/refactor/rename/rename_method.go      (startParse, updateSelfRefs)
     pkg/application/refactor/rename/support/related_parser.go      (ParseRelates)
     pkg/application/refactor/rename/support/package_info_helper.go (BuildMethodPackageInfo)
   over a code model (list ds) and the contents of the files it names (byte strings).

   Strings are byte strings, exactly as in Go.  The recorded columns count characters: [byte_offset]
   is byteOffset (a range loop over the line, i.e. Go's UTF-8 decoding, an invalid byte being one
   character); it never exceeds the length of the line, so the slices cannot panic.  The sites of a
   node are collected for all requests, stably sorted (line ascending, column DESCENDING) and then
   applied one after the other; the file is read, split in lines, spliced, joined and written back
   after EVERY site ([plan] lists the sites in that order, [exec] applies them to the current
   contents).  BuildMethodPackageInfo panics on a name without a dot: outcome [OPanic]. *)
From Coq Require Import String List Bool Arith Ascii.
From Coca Require Import Lib.Sx Lib.GoMap Lib.Str Model.CodeModel Model.GitSummary Generated.Constants.
Import ListNotations.
Open Scope list_scope.
Open Scope string_scope.

(* ---- strings.Split(s, "\n") / strings.Join(lines, "\n") ---- *)
Fixpoint split_nl (s : string) : list string :=
  match s with
  | EmptyString => [EmptyString]
  | String c r =>
    if Ascii.eqb c c_nl then EmptyString :: split_nl r
    else match split_nl r with
         | x :: t => String c x :: t
         | [] => [String c EmptyString]
         end
  end.

Definition join_nl (lines : list string) : string := join nl lines.

(* ---- ParseRelates ---- *)
Record relate := mkRel { r_old : string; r_new : string }.

(* strings.TrimSpace on ASCII text: \t \n \v \f \r and the blank *)
Definition is_blank (c : ascii) : bool :=
  let n := nat_of_ascii c in Nat.eqb n 32 || (Nat.leb 9 n && Nat.leb n 13).
Fixpoint trim_left (s : string) : string :=
  match s with
  | String c r => if is_blank c then trim_left r else s
  | EmptyString => EmptyString
  end.
Fixpoint trim_right (s : string) : string :=
  match s with
  | EmptyString => EmptyString
  | String c r =>
    match trim_right r with
    | EmptyString => if is_blank c then EmptyString else String c EmptyString
    | r' => String c r'
    end
  end.
Definition trim_space (s : string) : string := trim_right (trim_left s).

(* parseRelated: strings.Split(str, " -> "); fewer than two parts: nil; both names trimmed *)
Definition parse_related (line : string) : option relate :=
  match split rename_conf_sep line with
  | a :: b :: _ => Some (mkRel (trim_space a) (trim_space b))
  | _ => None
  end.

Definition parse_relates (conf : string) : list relate :=
  flat_map (fun l => match parse_related l with Some r => [r] | None => [] end) (split_nl conf).

(* ---- BuildMethodPackageInfo: split[len-2] panics for a name without a dot ---- *)
Record minfo := mkMI { mi_pkg : string; mi_class : string; mi_method : string }.

Definition build_method_package_info (name : string) : option minfo :=
  let parts := split rename_name_sep name in
  let n := List.length parts in
  if Nat.ltb n 2 then None
  else Some (mkMI (join rename_name_sep (firstn (n - 2) parts)) (nth (n - 2) parts "") (nth (n - 1) parts "")).

(* ---- startParse ---- *)
Inductive step :=
| SEdit (path : string) (p : position) (new : string)      (* one call of updateSelfRefs *)
| SPanic (cls : string).                                   (* BuildMethodPackageInfo panicked *)

(* oldInfo / newInfo of every request; None: one of the names has no dot *)
Fixpoint rel_infos (rels : list relate) : option (list (minfo * minfo)) :=
  match rels with
  | [] => Some []
  | r :: rest =>
    match build_method_package_info (r_old r), build_method_package_info (r_new r) with
    | Some oi, Some ni => match rel_infos rest with Some l => Some ((oi, ni) :: l) | None => None end
    | _, _ => None
    end
  end.

Definition site : Type := (position * string)%type.        (* where, new method name *)

(* the sites of one node for one request, in collection order: declarations, then calls *)
Definition rel_sites (node : ds) (oi ni : minfo) : list site :=
  let key := mi_pkg oi ++ mi_class oi in
  ((if String.eqb (d_pkg node ++ d_node node) key
    then map (fun m => (f_pos m, mi_method ni))
             (filter (fun m => String.eqb (f_name m) (mi_method oi)) (d_funcs node))
    else []) ++
   flat_map (fun m =>
               map (fun c => (c_pos c, mi_method ni))
                   (filter (fun c => String.eqb (c_pkg c ++ c_node c) key &&
                                     String.eqb (c_fn c) (mi_method oi)) (f_calls m)))
            (d_funcs node))%list.

(* the order of sort.SliceStable: line ascending, column descending (right to left on a line) *)
Definition site_le (a b : site) : bool :=
  let pa := fst a in let pb := fst b in
  Nat.ltb (p_sl pa) (p_sl pb) || (Nat.eqb (p_sl pa) (p_sl pb) && Nat.leb (p_sc pb) (p_sc pa)).

Definition node_sites (node : ds) (infos : list (minfo * minfo)) : list site :=
  sort_by site_le (flat_map (fun oini => rel_sites node (fst oini) (snd oini)) infos).

(* a bad request panics while the sites of the first node are collected: none of them is applied *)
Definition node_steps (node : ds) (rels : list relate) : list step :=
  match rel_infos rels with
  | None => [SPanic "index out of range"]
  | Some infos => map (fun s => SEdit (d_path node) (fst s) (snd s)) (node_sites node infos)
  end.

Definition plan (nodes : list ds) (rels : list relate) : list step :=
  flat_map (fun node => node_steps node rels) nodes.

(* ---- byteOffset: Go's range loop over a string ---- *)
Definition byte_in (lo hi : nat) (c : ascii) : bool :=
  Nat.leb lo (nat_of_ascii c) && Nat.leb (nat_of_ascii c) hi.

(* the next k bytes exist, the first lies in [lo, hi], the others are continuation bytes *)
Fixpoint tail_ok (k lo hi : nat) (s : string) : bool :=
  match k with
  | 0 => true
  | S k' => match s with
            | EmptyString => false
            | String c r => byte_in lo hi c && tail_ok k' 128 191 r
            end
  end.

(* number of bytes of the first character (utf8.DecodeRuneInString: an invalid or truncated
   sequence is the one-byte character RuneError) *)
Definition rune_width (s : string) : nat :=
  match s with
  | EmptyString => 0
  | String c r =>
    let b := nat_of_ascii c in
    if Nat.ltb b 194 then 1                                             (* ASCII; 0x80..0xC1 invalid *)
    else if Nat.ltb b 224 then (if tail_ok 1 128 191 r then 2 else 1)   (* C2..DF *)
    else if Nat.eqb b 224 then (if tail_ok 2 160 191 r then 3 else 1)   (* E0 *)
    else if Nat.eqb b 237 then (if tail_ok 2 128 159 r then 3 else 1)   (* ED *)
    else if Nat.ltb b 240 then (if tail_ok 2 128 191 r then 3 else 1)   (* E1..EC, EE, EF *)
    else if Nat.eqb b 240 then (if tail_ok 3 144 191 r then 4 else 1)   (* F0 *)
    else if Nat.ltb b 244 then (if tail_ok 3 128 191 r then 4 else 1)   (* F1..F3 *)
    else if Nat.eqb b 244 then (if tail_ok 3 128 143 r then 4 else 1)   (* F4 *)
    else 1
  end.

(* [skip]: bytes of the current character still to pass; [col]: characters still to pass; [off]: bytes passed *)
Fixpoint byte_offset_from (s : string) (skip col off : nat) : nat :=
  match s with
  | EmptyString => off                                     (* end of the loop: len(line) *)
  | String c r =>
    match skip with
    | S k => byte_offset_from r k col (S off)
    | 0 => match col with
           | 0 => off
           | S col' => byte_offset_from r (rune_width s - 1) col' (S off)
           end
    end
  end.

Definition byte_offset (line : string) (column : nat) : nat := byte_offset_from line 0 column 0.

(* ---- updateSelfRefs ---- *)
(* line[:start] + new + line[stop:] with start, stop the byte offsets of the recorded columns *)
Definition splice_line (line : string) (a b : nat) (new : string) : string :=
  take (byte_offset line a) line ++ new ++ drop (byte_offset line b) line.

(* the loop over the lines: only index i is rewritten; an index beyond the file is never reached *)
Fixpoint update_nth (lines : list string) (i a b : nat) (new : string) : list string :=
  match lines with
  | [] => []
  | l :: r =>
    match i with
    | 0 => splice_line l a b new :: r
    | S i' => l :: update_nth r i' a b new
    end
  end.

Definition update_content (input : string) (p : position) (new : string) : string :=
  let lines := split_nl input in
  match p_sl p with
  | 0 => join_nl lines                                      (* i == -1 never holds *)
  | S i => join_nl (update_nth lines i (p_sc p) (p_ec p) new)
  end.

Inductive outcome := OOk | OPanic (cls : string) | OFatal.   (* OFatal: ReadFile failed, log.Fatalln *)

Fixpoint exec (files : gomap string) (steps : list step) : gomap string * outcome :=
  match steps with
  | [] => (files, OOk)
  | SPanic c :: _ => (files, OPanic c)
  | SEdit path p new :: r =>
    match mget files path with
    | None => (files, OFatal)
    | Some input => exec (mput files path (update_content input p new)) r
    end
  end.

(* RenameMethodApp(deps).Refactoring(conf) *)
Definition rename_method (files : gomap string) (deps : list ds) (conf : string) : gomap string * outcome :=
  exec files (plan deps (parse_relates conf)).

(* ---- the order of CodeDataStruct.Functions ----
   The full pass fills Functions from a Go map, so their order is arbitrary; the harness fixes it
   (stable sort by start line, start column, name; ascending or descending) before it calls the
   refactoring, and the model does the same. *)
Definition func_key_le (a b : func) : bool :=
  let pa := f_pos a in let pb := f_pos b in
  Nat.ltb (p_sl pa) (p_sl pb) ||
  (Nat.eqb (p_sl pa) (p_sl pb) &&
   (Nat.ltb (p_sc pa) (p_sc pb) ||
    (Nat.eqb (p_sc pa) (p_sc pb) && str_leb (f_name a) (f_name b)))).

Definition with_funcs (d : ds) (fs : list func) : ds :=
  mkDs (d_node d) (d_type d) (d_pkg d) (d_path d) (d_fields d) (d_extend d) (d_impls d) fs
       (d_annots d) (d_calls d) (d_imports d).

Definition order_funcs (desc : bool) (nodes : list ds) : list ds :=
  map (fun d => with_funcs d (sort_by (fun a b => if desc then func_key_le b a else func_key_le a b) (d_funcs d))) nodes.
