(* Model of the full Java pass: pkg/infrastructure/ast/ast_java/{java_full_listener.go,
   java_full_converter.go, ast_java_target_handler.go}, common_listener, and the file loop of
   javaapp.JavaFullApp.AnalysisFiles -- over the FACTS the listener callbacks read from the parse
   tree of a conventional compilation unit (one top-level class or interface).  The ANTLR
   parser and tree walker are not modelled: the generator derives the facts from its abstract
   syntax, and the correspondence check validates them against the real parser.

   Every package-level variable of the Go file is a field of [fstate]. *)
From Coq Require Import String List Bool Arith Ascii.
From Coca Require Import Lib.Sx Lib.GoMap Lib.Str Model.CodeModel.
Import ListNotations.
Open Scope list_scope.
Open Scope string_scope.

(* ---- facts ---- *)

Record pos4 := mkP4 { q_sl : nat; q_sc : nat; q_el : nat; q_ec : nat }.

Inductive bevent :=
| EFormal (ty name : string)
| ELocal (child0 name : string)
| ECall (callee target : string) (target_is_call : bool) (inner : string) (whole : string)
        (args : list string) (has_args : bool) (p : pos4)
| ECreator (var : string) (created : list string) (has_body : bool) (whole_created : string) (p : pos4)
| EMref (text0 ident : string) (has_expr : bool) (p : pos4)
| EAnnot (name : string)
| EReturn (text : string) (nulltok : bool).    (* nulltok: the null literal is among the tokens of the returned expression *)

Record jmember := mkMember {
  m_kind : string;                 (* field | method | ctor | imethod *)
  m_name : string;
  m_ret : string;                  (* return type text; field: type text *)
  m_ident0 : string;               (* field: first identifier of the class type, "" for primitive types *)
  m_names : list string;           (* field: declarator names *)
  m_params : list (string * string);
  m_has_param_list : bool;         (* false for "()" *)
  m_built_annots : list annot;     (* the annotations BuildAnnotationForMethod is called for: all annotation
                                      modifiers of a class method; the first modifier of an interface method *)
  m_first_is_modifier : bool;      (* the body declaration starts with a modifier *)
  m_annots : list string;          (* names of all annotations written on the member, in order *)
  m_mods : list string;            (* texts of the non-annotation modifiers, in order *)
  m_ident : pos4;                  (* identifier token: line, col (el/ec unused) *)
  m_decl : pos4;                   (* declaration context: start line/col, stop line/col *)
  m_events : list bevent }.

Record junit := mkUnit {
  u_path : string; u_pkg : string; u_has_pkg : bool; u_imports : list string;
  u_kind : string; u_name : string;
  u_extends : list string;         (* class: at most one; interface: any *)
  u_implements : list string;
  u_annots : list annot;
  u_members : list jmember }.

(* ---- listener state: every package-level variable of java_full_listener.go ---- *)
Record fstate := mkF {
  s_imports : list string;
  s_clzs : list string;
  s_pkg : string;
  s_clz : string;
  s_fields : list field;
  s_type : string;                          (* currentType *)
  s_mapFields : gomap string;
  s_localVars : gomap string;
  s_formals : gomap string;
  s_clzExtend : string;
  s_method : func;                          (* currentMethod *)
  s_methodMap : gomap func;
  s_methodQueue : list func;
  s_identMap : list string;
  s_override : bool;
  s_node : ds;                              (* currentNode *)
  s_classNodes : list ds;
  s_file : string;
  s_hasEnterClass : bool }.

Definition empty_func : func := mkFunc "" "" [] [] false [] false false [] (mkPos 0 0 0 0).
Definition empty_ds : ds := mkDs "" "" "" "" [] "" [] [] [] [] [].

Definition fstate0 : fstate :=
  mkF [] [] "" "" [] "" [] [] [] "" empty_func [] [] [] false empty_ds [] "" false.

Definition set_node (st : fstate) (n : ds) : fstate :=
  mkF (s_imports st) (s_clzs st) (s_pkg st) (s_clz st) (s_fields st) (s_type st) (s_mapFields st)
      (s_localVars st) (s_formals st) (s_clzExtend st) (s_method st) (s_methodMap st) (s_methodQueue st)
      (s_identMap st) (s_override st) n (s_classNodes st) (s_file st) (s_hasEnterClass st).

(* initClass *)
Definition init_class (st : fstate) : fstate :=
  let n := s_node st in
  mkF (s_imports st) (s_clzs st) (s_pkg st) "" [] (s_type st) (s_mapFields st) (s_localVars st) (s_formals st)
      "" empty_func [] (s_methodQueue st) (s_identMap st) false
      (mkDs (d_node n) (d_type n) (d_pkg n) (d_path n) (d_fields n) (d_extend n) (d_impls n) (d_funcs n)
            (d_annots n) [] (d_imports n))
      (s_classNodes st) (s_file st) (s_hasEnterClass st).

(* NewJavaFullListener(identMap, file) followed by AppendClasses(classes) *)
Definition new_listener (st : fstate) (idents : list string) (classes : list string) (file : string) : fstate :=
  init_class (mkF [] classes "" (s_clz st) (s_fields st) (s_type st) [] [] []
                  (s_clzExtend st) (s_method st) (s_methodMap st) [] idents (s_override st) empty_ds []
                  file (s_hasEnterClass st)).

(* RemoveTarget: everything before the last "." *)
Definition remove_target (full : string) : string :=
  match last_index_char "."%char full with Some i => take i full | None => "" end.

(* WarpTargetFullType *)
Definition warp_target_full_type (st : fstate) (target : string) : string * string :=
  if equal_fold (s_clz st) target then (s_pkg st ++ "." ++ target, "self") else
  let str := hd "" (split "." target) in
  let pure := replace_all "]" "" (replace_all "[" "" str) in
  match (if String.eqb pure "" then None
         else find (fun imp => String.eqb imp pure || has_suffix ("." ++ pure) imp) (s_imports st)) with
  | Some imp => (imp, "chain")
  | None =>
    match find (fun clz => has_suffix ("." ++ pure) clz) (s_clzs st) with
    | Some clz => (clz, "same package")
    | None =>
      match (if String.eqb pure "super" || String.eqb pure "this"
             then find (fun imp => has_suffix (s_clzExtend st) imp) (s_imports st) else None) with
      | Some imp => (imp, "super")
      | None =>
        if str_mem (s_pkg st ++ "." ++ target) (s_identMap st)
        then (s_pkg st ++ "." ++ target, "same package 2") else ("", "")
      end
    end
  end.

(* ParseTargetType (the reflect test on a string is always false) *)
Definition parse_target_type (st : fstate) (target : string) : string :=
  let ft := mget_d "" (s_mapFields st) target in
  let fo := mget_d "" (s_formals st) target in
  let lo := mget_d "" (s_localVars st) target in
  if negb (String.eqb lo "") then lo
  else if negb (String.eqb fo "") then fo
  else if negb (String.eqb ft "") then ft
  else target.

Definition build_extend (st : fstate) (name : string) : string :=
  let t := fst (warp_target_full_type st name) in if String.eqb t "" then name else t.

(* getMethodMapName(method) *)
Definition method_map_name (st : fstate) (m : func) : string :=
  let name :=
    if String.eqb (f_name m) "" && Nat.ltb 1 (List.length (s_methodQueue st))
    then f_name (last (s_methodQueue st) empty_func) else f_name m in
  s_pkg st ++ "." ++ s_clz st ++ "." ++ name ++ ":" ++ string_of_nat (p_sl (f_pos m)) ++ ":" ++ string_of_nat (p_sc (f_pos m)).

Definition with_methods (st : fstate) (mm : gomap func) (cur : func) (q : list func) : fstate :=
  mkF (s_imports st) (s_clzs st) (s_pkg st) (s_clz st) (s_fields st) (s_type st) (s_mapFields st)
      (s_localVars st) (s_formals st) (s_clzExtend st) cur mm q
      (s_identMap st) (s_override st) (s_node st) (s_classNodes st) (s_file st) (s_hasEnterClass st).

(* updateMethod (currentType is never "CreatorClass" for conventional units) *)
Definition update_method (st : fstate) (m : func) : fstate :=
  let st1 := with_methods st (s_methodMap st) m (s_methodQueue st ++ [m]) in
  with_methods st1 (mput (s_methodMap st1) (method_map_name st1 m) m) m (s_methodQueue st1).

(* buildMethodParameters calls updateMethod itself and the caller calls it again when the
   declaration has a non-empty parameter list *)
Definition update_method_decl (st : fstate) (m : func) (has_params : bool) : fstate :=
  let st1 := update_method st m in if has_params then update_method st1 m else st1.

Definition add_call_to_current (st : fstate) (c : call) : fstate :=
  let key := method_map_name st (s_method st) in
  let m := mget_d empty_func (s_methodMap st) key in
  let m' := mkFunc (f_name m) (f_ret m) (f_params m) (f_calls m ++ [c]) (f_override m) (f_annots m)
                   (f_isctor m) (f_retnull m) (f_mods m) (f_pos m) in
  with_methods st (mput (s_methodMap st) key m') (s_method st) (s_methodQueue st).

Definition set_tables (st : fstate) (mf lv fp : gomap string) : fstate :=
  mkF (s_imports st) (s_clzs st) (s_pkg st) (s_clz st) (s_fields st) (s_type st) mf lv fp
      (s_clzExtend st) (s_method st) (s_methodMap st) (s_methodQueue st)
      (s_identMap st) (s_override st) (s_node st) (s_classNodes st) (s_file st) (s_hasEnterClass st).

Definition set_override (st : fstate) (b : bool) : fstate :=
  mkF (s_imports st) (s_clzs st) (s_pkg st) (s_clz st) (s_fields st) (s_type st) (s_mapFields st)
      (s_localVars st) (s_formals st) (s_clzExtend st) (s_method st) (s_methodMap st) (s_methodQueue st)
      (s_identMap st) b (s_node st) (s_classNodes st) (s_file st) (s_hasEnterClass st).

Definition set_current_method (st : fstate) (m : func) : fstate :=
  with_methods st (s_methodMap st) m (s_methodQueue st).

(* isChainCall *)
Definition is_chain_call (t : string) : bool := contains t "(" && contains t ")" && contains t ".".

(* buildSelfThisTarget *)
Definition build_self_this_target (st : fstate) (t : string) : string :=
  let t1 := replace_all "this." "" t in
  fold_left (fun acc f => if String.eqb (fd_value f) acc then fd_type f else acc) (s_fields st) t1.

(* EnterMethodCall *)
Definition enter_method_call (st : fstate) (callee target : string) (target_is_call : bool) (inner whole : string)
           (args : list string) (has_args : bool) (p : pos4) : fstate :=
  (* this.m() calls a method of the current class *)
  let tt0 := if String.eqb target "this" then s_clz st else parse_target_type st target in
  let tt1 := if target_is_call then inner else tt0 in
  let '(full, ctype0) := warp_target_full_type st tt1 in
  let is_super := String.eqb tt1 "super" || String.eqb callee "super" in
  let ctype := if is_super then "super" else ctype0 in
  let tt2 := if is_super then s_clzExtend st else tt1 in
  let '(tt3, pkg) :=
    if negb (String.eqb full "") then (tt2, remove_target full)
    else if String.eqb whole tt2 then
      (* HandleEmptyFullType, bare call: a static import ending in .callee wins *)
      let hit := fold_left (fun acc imp => if has_suffix ("." ++ callee) imp then Some imp else acc) (s_imports st) None in
      match hit with
      | Some imp => ("", imp)
      | None => (s_clz st, s_pkg st)
      end
    else if contains tt2 "this." then (build_self_this_target st tt2, s_pkg st)
    else (tt2, s_pkg st) in
  let tt4 := if is_chain_call tt3 then parse_target_type st (hd "" (split "." tt3)) else tt3 in
  let c := mkCall pkg ctype tt4 callee
                  (if has_args then map (fun a => mkProp "" a) args else [])
                  (mkPos (q_sl p) (q_sc p) (q_el p) (q_sc p + rune_count callee)) in
  add_call_to_current st c.

(* isPlainName: not empty and none of the bytes listed below (brackets, punctuation, operators, quotes, blank) *)
Definition is_plain_name (t : string) : bool :=
  negb (String.eqb t "") &&
  forallb (fun c => negb (existsb (Ascii.eqb c) (chars "()[]{}.,;:+-*/%<>=!&|^~?""' "))) (chars t).

(* EnterCreator (without class body, or with currentMethod.Name == "") *)
Definition enter_creator (st : fstate) (var : string) (created : list string) (p : pos4) : fstate :=
  match created with
  | [] => st
  | name :: _ =>
    let declared := negb (String.eqb (mget_d "" (s_localVars st) var) "") ||
                    negb (String.eqb (mget_d "" (s_formals st) var) "") ||
                    negb (String.eqb (mget_d "" (s_mapFields st) var) "") in
    (* isPlainName: only a single name is recorded as the variable that receives the object *)
    let st1 := if declared || negb (is_plain_name var) then st
               else set_tables st (s_mapFields st) (mput (s_localVars st) var name) (s_formals st) in
    let full := fst (warp_target_full_type st1 name) in
    let c := mkCall (remove_target full) "CreatorClass" name "" []
                    (mkPos (q_sl p) (q_sc p) (q_el p) (q_ec p + rune_count name)) in
    add_call_to_current st1 c
  end.

(* EnterExpression with COLONCOLON *)
Definition enter_mref (st : fstate) (text0 ident : string) (p : pos4) : fstate :=
  let tt := parse_target_type st text0 in
  let full := fst (warp_target_full_type st tt) in
  add_call_to_current st (mkCall (remove_target full) "lambda" tt ident []
                                 (mkPos (q_sl p) (q_sc p) (q_el p) (q_ec p + rune_count text0))).

Definition body_event (st : fstate) (e : bevent) : fstate :=
  match e with
  | EFormal ty name => set_tables st (s_mapFields st) (s_localVars st) (mput (s_formals st) name ty)
  | ELocal c0 name => set_tables st (s_mapFields st) (mput (s_localVars st) name c0) (s_formals st)
  | ECall callee target tic inner whole args has_args p =>
    enter_method_call st callee target tic inner whole args has_args p
  | ECreator var created has_body _ p => enter_creator st var created p
  | EMref text0 ident has_expr p => if has_expr then enter_mref st text0 ident p else st
  | EAnnot name => set_override st (String.eqb name "Override")
  | EReturn _ _ => st
  end.

(* BuildMethodParameters also records the parameters in localVars *)
Definition record_params (st : fstate) (ps : list (string * string)) : fstate :=
  set_tables st (s_mapFields st)
             (fold_left (fun lv p => mput lv (snd p) (fst p)) ps (s_localVars st)) (s_formals st).

Definition annots_of_first (st : fstate) (m : jmember) : list annot :=
  (* BuildAnnotationForMethod appends to currentMethod.Annotations *)
  (f_annots (s_method st) ++ m_built_annots m)%list.

Definition set_fields (st : fstate) (fs : list field) (mf : gomap string) (n : ds) : fstate :=
  mkF (s_imports st) (s_clzs st) (s_pkg st) (s_clz st) fs (s_type st) mf
      (s_localVars st) (s_formals st) (s_clzExtend st) (s_method st) (s_methodMap st) (s_methodQueue st)
      (s_identMap st) (s_override st) n (s_classNodes st) (s_file st) (s_hasEnterClass st).

Definition add_node_call (n : ds) (c : call) : ds :=
  mkDs (d_node n) (d_type n) (d_pkg n) (d_path n) (d_fields n) (d_extend n) (d_impls n) (d_funcs n)
       (d_annots n) (d_calls n ++ [c]) (d_imports n).

Definition member_step (st0 : fstate) (m : jmember) : fstate :=
  (* annotations written on the member are walked before the declaration *)
  let st := fold_left (fun s a => set_override s (String.eqb a "Override")) (m_annots m) st0 in
  if String.eqb (m_kind m) "field" then
    if String.eqb (m_ident0 m) "" then fold_left body_event (m_events m) st else
    let st' :=
      fold_left (fun s name =>
                 let mf := mput (s_mapFields s) name (m_ident0 m) in
                 let fs := (s_fields s ++ [mkField (m_ident0 m) name []])%list in
                 let s1 := set_fields s fs mf (s_node s) in
                 let target := fst (warp_target_full_type s1 (m_ident0 m)) in
                 if String.eqb target "" then s1 else
                 let d := m_decl m in
                 set_fields s1 fs mf
                   (add_node_call (s_node s1)
                      (mkCall (remove_target target) "field" (m_ident0 m) "" []
                              (mkPos (q_sl d) (q_sc d) (q_el d) (q_ec d + rune_count target)))))
              (m_names m) st in
    fold_left body_event (m_events m) st'
  else
  (* resetMethodScope at the start of every method, constructor and interface method *)
  let st := set_tables st (s_mapFields st) [] [] in
  if String.eqb (m_kind m) "ctor" then
    let d := m_decl m in
    let f := mkFunc (m_name m) "" (if m_has_param_list m then map (fun p => mkProp (fst p) (snd p)) (m_params m) else [])
                    [] (s_override st) (f_annots (s_method st)) true false []
                    (mkPos (q_sl d) (q_sc d) (q_el d) (q_ec d + rune_count (m_name m))) in
    let st1 := if m_has_param_list m then record_params st (m_params m) else st in
    let st2 := update_method_decl st1 f (m_has_param_list m) in
    let st3 := fold_left body_event (m_events m) st2 in
    (* ExitConstructorDeclaration *)
    set_override (set_current_method st3 empty_func) false
  else if String.eqb (m_kind m) "method" then
    let annots := annots_of_first st m in
    let i := m_ident m in let d := m_decl m in
    let f := mkFunc (m_name m) (m_ret m) (if m_has_param_list m then map (fun p => mkProp (fst p) (snd p)) (m_params m) else [])
                    [] (s_override st) annots false false []
                    (mkPos (q_sl i) (q_sc i) (q_el d) (q_sc i + rune_count (m_name m))) in
    let st1 := if m_has_param_list m then record_params st (m_params m) else st in
    let st2 := update_method_decl st1 f (m_has_param_list m) in
    let st3 := fold_left body_event (m_events m) st2 in
    (* ExitMethodDeclaration *)
    set_current_method st3 empty_func
  else (* imethod: no annotations copied, Override not recorded, currentMethod not reset;
          the position is that of the name, as for a class method *)
    let i := m_ident m in let d := m_decl m in
    let f := mkFunc (m_name m) (m_ret m) (if m_has_param_list m then map (fun p => mkProp (fst p) (snd p)) (m_params m) else [])
                    [] false [] false false []
                    (mkPos (q_sl i) (q_sc i) (q_el d) (q_sc i + rune_count (m_name m))) in
    let st1 := if m_has_param_list m then record_params st (m_params m) else st in
    let st2 := update_method_decl st1 f (m_has_param_list m) in
    fold_left body_event (m_events m) st2.

Definition set_has_enter (st : fstate) (b : bool) : fstate :=
  mkF (s_imports st) (s_clzs st) (s_pkg st) (s_clz st) (s_fields st) (s_type st) (s_mapFields st)
      (s_localVars st) (s_formals st) (s_clzExtend st) (s_method st) (s_methodMap st) (s_methodQueue st)
      (s_identMap st) (s_override st) (s_node st) (s_classNodes st) (s_file st) b.

(* one compilation unit: package, imports, type annotations, type declaration, members, exitBody *)
Definition unit_header (st0 : fstate) (u : junit) : fstate :=
  let n0 := s_node st0 in
  let pkg := if u_has_pkg u then u_pkg u else d_pkg n0 in
  mkF (s_imports st0 ++ u_imports u) (s_clzs st0) (if u_has_pkg u then u_pkg u else s_pkg st0) (s_clz st0)
      (s_fields st0) (s_type st0) (s_mapFields st0) (s_localVars st0) (s_formals st0) (s_clzExtend st0)
      (s_method st0) (s_methodMap st0) (s_methodQueue st0) (s_identMap st0) (s_override st0)
      (mkDs (d_node n0) (d_type n0) pkg (d_path n0) (d_fields n0) (d_extend n0) (d_impls n0)
            (d_funcs n0) (d_annots n0) (d_calls n0) (d_imports n0 ++ u_imports u))
      (s_classNodes st0) (s_file st0) (s_hasEnterClass st0).

Definition add_node_annot (n : ds) (a : annot) : ds :=
  mkDs (d_node n) (d_type n) (d_pkg n) (d_path n) (d_fields n) (d_extend n) (d_impls n)
       (d_funcs n) (d_annots n ++ [a]) (d_calls n) (d_imports n).

(* EnterAnnotation for the annotations written before the type declaration *)
Definition type_annot (s : fstate) (a : annot) : fstate :=
  let s1 := set_override s (String.eqb (an_name a) "Override") in
  if s_hasEnterClass s1 then s1 else set_node s1 (add_node_annot (s_node s1) a).

(* EnterClassDeclaration / EnterInterfaceDeclaration *)
Definition enter_type (st2 : fstate) (u : junit) : fstate :=
  if String.eqb (u_kind u) "class" then
    let ty := if String.eqb (d_node (s_node st2)) "" then "Class" else "InnerStructures" in
    let sa := mkF (s_imports st2) (s_clzs st2) (s_pkg st2) (u_name u) (s_fields st2) ty (s_mapFields st2)
                  (s_localVars st2) (s_formals st2) (match u_extends u with e :: _ => e | [] => "" end)
                  (s_method st2) (s_methodMap st2) (s_methodQueue st2) (s_identMap st2) (s_override st2)
                  (s_node st2) (s_classNodes st2) (s_file st2) true in
    let n := s_node sa in
    let ext := match u_extends u with e :: _ => build_extend sa e | [] => d_extend n end in
    let impls := (d_impls n ++ map (fun t => fst (warp_target_full_type sa t)) (u_implements u))%list in
    set_node sa (mkDs (u_name u) ty (d_pkg n) (d_path n) (d_fields n) ext impls (d_funcs n) (d_annots n)
                      (d_calls n) (d_imports n))
  else
    let sa := mkF (s_imports st2) (s_clzs st2) (s_pkg st2) (s_clz st2) (s_fields st2) "Interface" (s_mapFields st2)
                  (s_localVars st2) (s_formals st2) (s_clzExtend st2)
                  (s_method st2) (s_methodMap st2) (s_methodQueue st2) (s_identMap st2) (s_override st2)
                  (s_node st2) (s_classNodes st2) (s_file st2) true in
    let n := s_node sa in
    let ext := fold_left (fun _ t => build_extend sa t) (u_extends u) (d_extend n) in
    set_node sa (mkDs (u_name u) "Interface" (d_pkg n) (d_path n) (d_fields n) ext (d_impls n) (d_funcs n)
                      (d_annots n) (d_calls n) (d_imports n)).

(* ExitClassBody / ExitInterfaceBody -> exitBody (top-level type, no enclosing class) *)
Definition exit_body (st4 : fstate) : fstate :=
  let n := s_node st4 in
  let n' := mkDs (d_node n) (d_type n) (d_pkg n) (s_file st4) (s_fields st4) (d_extend n) (d_impls n)
                 (map snd (s_methodMap st4)) (d_annots n) (d_calls n) (d_imports n) in
  init_class (mkF (s_imports st4) (s_clzs st4) (s_pkg st4) (s_clz st4) (s_fields st4) (s_type st4) (s_mapFields st4)
                  (s_localVars st4) (s_formals st4) (s_clzExtend st4) (s_method st4) (s_methodMap st4)
                  (s_methodQueue st4) (s_identMap st4) (s_override st4) empty_ds (s_classNodes st4 ++ [n'])
                  (s_file st4) false).

Definition walk_unit (st0 : fstate) (u : junit) : fstate :=
  exit_body (fold_left member_step (u_members u)
                       (enter_type (fold_left type_annot (u_annots u) (unit_header st0 u)) u)).

(* JavaFullApp.AnalysisFiles: one listener per file, results appended *)
Definition analysis_files (st : fstate) (idents : list string) (units : list junit) : fstate * list ds :=
  fold_left (fun acc u =>
               let '(s, out) := acc in
               let s1 := walk_unit (new_listener s idents idents (u_path u)) u in
               (s1, (out ++ s_classNodes s1)%list))
            units (st, []).
