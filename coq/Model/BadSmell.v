(* Model of pkg/application/bs/bs_app.go (AnalysisBadSmell and its checks), bs_domain
   (FilterBadSmellList, SortSmellByType), cmd/bs.go isSmellHaveSize, and the part of
   bs_java/bad_smell_listener.go these smells read (method positions, parameter counts,
   top-level if/switch counts and condition spans), over facts. refusedBequest and
   graphConnectedCall are outside C10 and not modelled. *)
From Coq Require Import String List Bool Arith.
From Coca Require Import Lib.Sx Lib.GoMap Lib.Str Lib.Cmp Model.GitSummary Generated.Constants.
Import ListNotations.
Open Scope list_scope.
Open Scope string_scope.

Record bs_method := mkBM { bm_name : string; bm_sl : nat; bm_el : nat; bm_nparams : nat;
                           bm_ifs : nat; bm_switches : nat; bm_conds : list (nat * nat) }.
Record bs_node := mkBN { bn_path : string; bn_type : string; bn_methods : list bs_method }.

Record smell := mkSmell { sm_file : string; sm_line : string; sm_bs : string; sm_desc : string; sm_size : nat }.

Definition is_getter_setter (name : string) : bool := has_prefix "set" name || has_prefix "get" name.

Definition check_method (n : bs_node) (m : bs_method) : list smell :=
  let len := bm_el m - bm_sl m in
  ((if cmp_eval bs_long_method_cmp len BS_METHOD_LENGTH
    then [mkSmell (bn_path n) (string_of_nat (bm_sl m)) "longMethod" ("method length: " ++ string_of_nat len) len] else []) ++
   (if cmp_eval bs_long_params_cmp (bm_nparams m) BS_LONG_PARAS_LENGTH
    then [mkSmell (bn_path n) (string_of_nat (bm_sl m)) "longParameterList" "" (bm_nparams m)] else []) ++
   (if cmp_eval bs_if_size_cmp (bm_ifs m) BS_IF_SWITCH_LENGTH
    then [mkSmell (bn_path n) (string_of_nat (bm_sl m)) "repeatedSwitches" "ifSize" (bm_ifs m)] else []) ++
   (if cmp_eval bs_switch_size_cmp (bm_switches m) BS_IF_SWITCH_LENGTH
    then [mkSmell (bn_path n) (string_of_nat (bm_sl m)) "repeatedSwitches" "switchSize" (bm_switches m)] else []) ++
   flat_map (fun c => if cmp_eval bs_if_lines_cmp (snd c - fst c) BS_IF_LINES_LENGTH
                      then [mkSmell (bn_path n) (string_of_nat (fst c)) "complexCondition" "complexCondition" 0] else [])
            (bm_conds m))%list.

Definition check_node (n : bs_node) : list smell :=
  let is_class := String.eqb (bn_type n) "Class" in
  let nmeth := List.length (bn_methods n) in
  let only_gs := forallb (fun m => is_getter_setter (bm_name m)) (bn_methods n) in
  let normal := List.length (filter (fun m => negb (is_getter_setter (bm_name m))) (bn_methods n)) in
  ((if is_class && Nat.ltb nmeth 1 then [mkSmell (bn_path n) "" "lazyElement" "" 0] else []) ++
   flat_map (check_method n) (bn_methods n) ++
   (if only_gs && is_class && Nat.ltb 0 nmeth then [mkSmell (bn_path n) "" "dataClass" "" nmeth] else []) ++
   (if is_class && cmp_eval bs_large_class_cmp normal BS_LARGE_LENGTH
    then [mkSmell (bn_path n) "" "largeClass" ("methods number (without getter/setter): " ++ string_of_nat normal) normal]
    else []))%list.

(* AnalysisBadSmell (without the two call-graph based smells) *)
Definition analysis_bad_smell (nodes : list bs_node) : list smell := flat_map check_node nodes.

(* IdentifyBadSmell: FilterBadSmellList with the ignore set *)
Definition identify_bad_smell (nodes : list bs_node) (ignore : list string) : list smell :=
  filter (fun s => negb (str_mem (sm_bs s) ignore)) (analysis_bad_smell nodes).

(* cmd/bs.go isSmellHaveSize *)
Definition smell_have_size (k : string) : bool :=
  str_mem k ["largeClass"; "repeatedSwitches"; "longParameterList"; "longMethod"; "dataClass"].

(* SortSmellByType: group by kind (first occurrence order), sized kinds by size, largest first *)
Definition sort_smell_by_type (l : list smell) : gomap (list smell) :=
  let groups := fold_left (fun m s => mput m (sm_bs s) (mget_d [] m (sm_bs s) ++ [s])%list) l [] in
  map (fun kv => (fst kv, if smell_have_size (fst kv)
                          then sort_by (fun a b => Nat.leb (sm_size b) (sm_size a)) (snd kv) else snd kv)) groups.
