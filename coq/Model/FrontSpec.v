(* C20 -- "Go and Python front-ends list every declaration under its own name", stated
   independently of the models as boolean deciders over (abstract file, OBSERVED projection).
   Each decider names the clause it checks; [go_verdict] / [py_verdict] return the failing
   clauses.  Nothing here mentions cells, dsMap, listener state or walk order. *)
From Coq Require Import String List Bool Arith.
From Coca Require Import Lib.Str Model.GoFront Model.PyFront.
Import ListNotations.
Open Scope list_scope.
Open Scope string_scope.

(* ------------------------------------------------------------------ small helpers *)
Definition count_str (s : string) (l : list string) : nat :=
  List.length (filter (String.eqb s) l).

(* equal as multisets of strings *)
Definition ms_eqb (a b : list string) : bool :=
  forallb (fun k => Nat.eqb (count_str k a) (count_str k b)) (a ++ b).

Fixpoint strs_eqb (a b : list string) : bool :=
  match a, b with
  | [], [] => true
  | x :: a', y :: b' => String.eqb x y && strs_eqb a' b'
  | _, _ => false
  end.

Definition pair_key (p : string * string) : string := fst p ++ ":" ++ snd p.

Definition pair_eqb (a b : string * string) : bool :=
  String.eqb (fst a) (fst b) && String.eqb (snd a) (snd b).

Definition count_pair (w : string * string) (l : list (string * string)) : nat :=
  List.length (filter (pair_eqb w) l).

(* ------------------------------------------------------------------ Go: what the file declares *)
(* every name of a field / parameter list with its type text; an embedded field or unnamed
   parameter is listed under the empty name *)
Definition type_text (t : gtype) : string := snd (type_tt_tv t).

Definition declared_names (ps : list gparam) : list (string * string) :=
  flat_map (fun p => match gp_names p with
                     | [] => [("", type_text (gp_type p))]
                     | ns => map (fun n => (n, type_text (gp_type p))) ns
                     end) ps.

Definition sig_key (name : string) (params : list (string * string)) : string :=
  name ++ "(" ++ join "," (map pair_key params) ++ ")".

Definition struct_decls (f : gfile) : list (string * list gparam) :=
  flat_map (fun d => match d with DStruct n fs => [(n, fs)] | _ => [] end) (gf_decls f).

Definition iface_decls (f : gfile) : list (string * list gimethod) :=
  flat_map (fun d => match d with DIface n ms => [(n, ms)] | _ => [] end) (gf_decls f).

Definition type_names (f : gfile) : list string :=
  flat_map (fun d => match d with
                     | DStruct n _ => [n] | DIface n _ => [n] | DType n _ => [n]
                     | DFunc _ _ _ _ _ => [] end) (gf_decls f).

(* methods of type t: signature keys, in declaration order *)
Definition method_sigs (f : gfile) (t : string) : list string :=
  flat_map (fun d => match d with
                     | DFunc (Some r) n ps _ _ =>
                       if String.eqb (rv_type r) t then [sig_key n (declared_names ps)] else []
                     | _ => [] end) (gf_decls f).

Definition func_decls (f : gfile) : list (string * list gparam) :=
  flat_map (fun d => match d with DFunc None n ps _ _ => [(n, ps)] | _ => [] end) (gf_decls f).

(* package-qualified / receiver calls written as statements (also inside if / else / blocks) *)
Definition sel_call (c : gcall) : list (string * string) :=
  if String.eqb (gc_x c) "" then [] else [(gc_x c, gc_f c)].

Fixpoint stmt_calls (s : gstmt) : list (string * string) :=
  let all := fix all (l : list gstmt) : list (string * string) :=
               match l with [] => [] | x :: r => (stmt_calls x ++ all r)%list end in
  match s with
  | SExpr c => sel_call c
  | SDefer c => sel_call c
  | SIf body els => (all body ++ all els)%list
  | SBlock body => all body
  | SCallLit c body => (all body ++ sel_call c)%list      (* the statements of the literal are statements of the function *)
  | SAssign _ _ => []
  | SReturn _ => []
  end.

Definition body_calls (b : option (list gstmt)) : list (string * string) :=
  match b with Some ss => flat_map stmt_calls ss | None => [] end.

(* ------------------------------------------------------------------ Go: reading the observation *)
Definition dss_named (o : ofile) (n : string) : list ods :=
  filter (fun d => String.eqb (od_name d) n) (o_dss o).

Definition obs_prop_names (d : ods) : list (string * string) :=
  map (fun p => (op_name p, op_tv p)) (od_props d).

Definition obs_sig (fn : ofunc) : string :=
  sig_key (of_name fn) (map (fun p => (p3_name p, p3_tv p)) (of_params fn)).

Definition obs_methods (o : ofile) (t : string) : list ofunc :=
  match dss_named o t with d :: _ => od_funcs d | [] => [] end.

(* functions listed at file level: members ("default", "method") *)
Definition obs_funcs (o : ofile) : list ofunc :=
  flat_map (fun m => if String.eqb (om_dsid m) "default" && String.eqb (om_type m) "method"
                     then om_funcs m else []) (o_members o).

Definition obs_call_pairs (fn : ofunc) : list (string * string) :=
  map (fun c => (oc_node c, oc_fn c)) (of_calls fn).

Definition find_func (n : string) (l : list ofunc) : option ofunc :=
  find (fun fn => String.eqb (of_name fn) n) l.

(* ------------------------------------------------------------------ Go clauses *)
(* each struct exactly once under its own name, with exactly its fields *)
Definition go_structs_ok (f : gfile) (o : ofile) : bool :=
  forallb (fun sd =>
    match dss_named o (fst sd) with
    | [d] => strs_eqb (map pair_key (obs_prop_names d)) (map pair_key (declared_names (snd sd)))
    | _ => false
    end) (struct_decls f).

(* each interface exactly once under its own name, with exactly its method set *)
Definition go_interfaces_ok (f : gfile) (o : ofile) : bool :=
  forallb (fun idl =>
    match dss_named o (fst idl) with
    | [d] => ms_eqb (map op_name (od_props d)) (map im_name (snd idl))
    | _ => false
    end) (iface_decls f).

(* the methods listed under a type are exactly the methods declared on it (name and
   parameters), each once *)
Definition go_methods_ok (f : gfile) (o : ofile) : bool :=
  forallb (fun t => ms_eqb (map obs_sig (obs_methods o t)) (method_sigs f t)) (type_names f).

(* the file-level functions are exactly the declared top-level functions (name and
   parameters), each once *)
Definition go_functions_ok (f : gfile) (o : ofile) : bool :=
  ms_eqb (map obs_sig (obs_funcs o))
         (map (fun fd => sig_key (fst fd) (declared_names (snd fd))) (func_decls f)).

(* the imports are exactly the declared ones, under the dotted form of their path *)
Definition expected_import (i : string * string) : string * string :=
  let path := snd i in
  let rel := if has_prefix (default_module ++ "/") path
             then drop (String.length default_module + 1) path else path in
  (replace_all "/" "." rel, fst i).

Definition go_imports_ok (f : gfile) (o : ofile) : bool :=
  strs_eqb (map pair_key (o_imports o)) (map (fun i => pair_key (expected_import i)) (gf_imports f)).

(* every selector call statement of a function body is listed under that function with its
   own (receiver/package, function) names, as often as it is written *)
Definition calls_listed (written : list (string * string)) (fn : option ofunc) : bool :=
  let obs := match fn with Some x => obs_call_pairs x | None => [] end in
  forallb (fun w => Nat.eqb (count_pair w obs) (count_pair w written)) written.

Definition go_calls_ok (f : gfile) (o : ofile) : bool :=
  forallb (fun d => match d with
                    | DFunc None n _ _ b => calls_listed (body_calls b) (find_func n (obs_funcs o))
                    | DFunc (Some r) n _ _ b =>
                      calls_listed (body_calls b) (find_func n (obs_methods o (rv_type r)))
                    | _ => true end) (gf_decls f).

Definition clause (name : string) (ok : bool) : list string := if ok then [] else [name].

Definition go_verdict (f : gfile) (r : gresult) : list string :=
  match r with
  | GPanic _ => ["no_crash"]
  | GOk o =>
    (clause "go_structs" (go_structs_ok f o) ++ clause "go_interfaces" (go_interfaces_ok f o) ++
     clause "go_methods" (go_methods_ok f o) ++ clause "go_functions" (go_functions_ok f o) ++
     clause "go_imports" (go_imports_ok f o) ++ clause "go_calls" (go_calls_ok f o))%list
  end.

(* ------------------------------------------------------------------ Python: what the module declares *)
Definition node_is_class (n : pnode) : bool := match n with PNode k _ _ _ => k end.
Definition node_name (n : pnode) : string := match n with PNode _ _ nm _ => nm end.
Definition node_decos (n : pnode) : list pdeco := match n with PNode _ d _ _ => d end.
Definition node_kids (n : pnode) : list pnode := match n with PNode _ _ _ k => k end.

(* all classes of a tree (nested ones included), outermost first *)
Fixpoint classes_of (n : pnode) : list pnode :=
  match n with
  | PNode k d nm kids =>
    ((if k then [n] else []) ++
     (fix go (l : list pnode) : list pnode :=
        match l with [] => [] | c :: r => (classes_of c ++ go r)%list end) kids)%list
  end.

Definition top_nodes (m : pmodule) : list pnode :=
  flat_map (fun it => match it with PDecl n => [n] | _ => [] end) m.

Definition declared_classes (m : pmodule) : list pnode := flat_map classes_of (top_nodes m).

(* the methods of a class: the defs written directly in its body *)
Definition class_methods (c : pnode) : list pnode :=
  filter (fun k => negb (node_is_class k)) (node_kids c).

(* module-level functions *)
Definition declared_functions (m : pmodule) : list pnode :=
  filter (fun n => negb (node_is_class n)) (top_nodes m).

(* ------------------------------------------------------------------ Python: reading the observation *)
Definition deco_key (d : pdeco) : string := fst d ++ "(" ++ join "," (snd d) ++ ")".
Definition decos_eqb (a b : list pdeco) : bool := strs_eqb (map deco_key a) (map deco_key b).

Definition pc_name (c : pclass) : string := fst (fst c).
Definition pc_decos (c : pclass) : list pdeco := snd (fst c).
Definition pc_funcs (c : pclass) : list pfunc := snd c.

Definition find_class (o : pfile) (n : string) : option pclass :=
  find (fun c => String.eqb (pc_name c) n) (pf_classes o).

Definition obs_member_funcs (o : pfile) : list pfunc := flat_map snd (pf_members o).

(* ------------------------------------------------------------------ Python clauses *)
Definition py_classes_ok (m : pmodule) (o : pfile) : bool :=
  ms_eqb (map pc_name (pf_classes o)) (map node_name (declared_classes m)).

(* multiset equality modulo a comparison [e] (an equivalence on the values compared): every value has as
   many [e]-equals on the one side as on the other.  Python allows the same class name twice in a module
   (classes local to two methods, redefinitions) and the same method name twice in a class (property getter
   and setter), so nothing below looks an entry up "by name". *)
Definition count_by {A B : Type} (e : A -> B -> bool) (x : A) (l : list B) : nat :=
  List.length (filter (e x) l).

Definition ms_eqb_by {A : Type} (e : A -> A -> bool) (a b : list A) : bool :=
  forallb (fun x => Nat.eqb (count_by e x a) (count_by e x b)) (a ++ b).

(* what a declared def / class is expected to be listed as *)
Definition expected_func (k : pnode) : pfunc := (node_name k, node_decos k).
Definition expected_class (c : pnode) : pclass :=
  (node_name c, node_decos c, map expected_func (class_methods c)).

Definition func_eqb (f g : pfunc) : bool :=
  String.eqb (fst f) (fst g) && decos_eqb (snd f) (snd g).

(* same name, same methods (as a multiset of names) *)
Definition class_eqb_m (a b : pclass) : bool :=
  String.eqb (pc_name a) (pc_name b) && ms_eqb (map fst (pc_funcs a)) (map fst (pc_funcs b)).

(* same name, same decorators, same methods each with its own decorators *)
Definition class_eqb_d (a b : pclass) : bool :=
  String.eqb (pc_name a) (pc_name b) && decos_eqb (pc_decos a) (pc_decos b) &&
  ms_eqb_by func_eqb (pc_funcs a) (pc_funcs b).

(* every declared class is listed with exactly the defs written directly in its body -- as many times as
   it is declared *)
Definition py_methods_ok (m : pmodule) (o : pfile) : bool :=
  ms_eqb_by class_eqb_m (pf_classes o) (map expected_class (declared_classes m)).

Definition py_functions_ok (m : pmodule) (o : pfile) : bool :=
  ms_eqb (map fst (obs_member_funcs o)) (map node_name (declared_functions m)) &&
  forallb (fun mb => match snd mb with [fn] => String.eqb (fst fn) (fst mb) | _ => false end)
          (pf_members o).

(* every class, method and module-level function carries exactly its own decorators *)
Definition py_decorators_ok (m : pmodule) (o : pfile) : bool :=
  ms_eqb_by class_eqb_d (pf_classes o) (map expected_class (declared_classes m)) &&
  ms_eqb_by func_eqb (obs_member_funcs o) (map expected_func (declared_functions m)).

(* one entry per imported module ("import a, b" declares two), under the module's own name;
   a from-import lists each imported name under that name or under its alias *)
Inductive imp_expect : Type :=
| IModule (src : string) (alias : string)
| IFrom (src : string) (names : list (string * string)).

Definition declared_imports (m : pmodule) : list imp_expect :=
  flat_map (fun it => match it with
                      | PImport names => map (fun na => IModule (fst na) (snd na)) names
                      | PFrom src names _ => [IFrom src names]
                      | PDecl _ => [] end) m.

Fixpoint usage_match (names : list (string * string)) (usage : list string) : bool :=
  match names, usage with
  | [], [] => true
  | (n, a) :: r, u :: ur =>
    (String.eqb u n || (negb (String.eqb a "") && String.eqb u a)) && usage_match r ur
  | _, _ => false
  end.

Definition import_match (e : imp_expect) (o : pimport) : bool :=
  match e with
  | IModule src alias =>
    String.eqb (fst o) src && strs_eqb (snd o) (if String.eqb alias "" then [] else [alias])
  | IFrom src names => String.eqb (fst o) src && usage_match names (snd o)
  end.

Fixpoint imports_match (es : list imp_expect) (os : list pimport) : bool :=
  match es, os with
  | [], [] => true
  | e :: er, o :: orr => import_match e o && imports_match er orr
  | _, _ => false
  end.

Definition py_imports_ok (m : pmodule) (o : pfile) : bool :=
  imports_match (declared_imports m) (pf_imports o).

Definition py_verdict (m : pmodule) (r : presult) : list string :=
  match r with
  | PPanic _ => ["no_crash"]
  | POk o =>
    (clause "py_classes" (py_classes_ok m o) ++ clause "py_methods" (py_methods_ok m o) ++
     clause "py_decorators" (py_decorators_ok m o) ++ clause "py_functions" (py_functions_ok m o) ++
     clause "py_imports" (py_imports_ok m o))%list
  end.

(* ------------------------------------------------------------------ CommonAnalysis (function base):
   the flattened list names every declared type / class once and every exported
   (upper-case) top-level function once *)
Definition go_common_ok (f : gfile) (obs : list (string * list string)) : bool :=
  ms_eqb (map fst obs) (type_names f ++ filter is_upper_first (map fst (func_decls f)))%list.

Definition py_common_ok (m : pmodule) (obs : list (string * list string)) : bool :=
  ms_eqb (map fst obs)
         (map node_name (declared_classes m) ++
          filter py_is_upper_first (map node_name (declared_functions m)))%list.

Definition common_verdict (ok : bool) (crashed : bool) : list string :=
  if crashed then ["no_crash"] else clause "common_listing" ok.
