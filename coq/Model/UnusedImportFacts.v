(* The tie between the two views of a generated file: the facts the listener model reads
   (Model/UnusedImport.v) and the abstract file the specification reads (Model/UnusedImportSpec.v).
   Boolean predicates only; they are the hypotheses of the theorems of Proofs/UnusedImportProofs.v and
   are evaluated on every generated case by the C06 specification entry. *)
From Coq Require Import String List Bool Arith.
From Coca Require Import Lib.Str Lib.GoMap Model.UnusedImport Model.UnusedImportSpec.
Import ListNotations.
Open Scope list_scope.
Open Scope string_scope.

(* what the listener holds about one file analysed on its own: referenced names, imports, node name *)
Definition file_fields (cfg : ui_cfg) (f : jfile) : gomap string :=
  let g := analyse_file cfg gstate0 f in get_fields cfg g (g_node g).
Definition file_name (cfg : ui_cfg) (f : jfile) : string :=
  id_name (g_node (analyse_file cfg gstate0 f)).

Definition aimp_of (i : impfact) : aimp :=
  mkAI (if if_star i then "wildcard" else if if_static i then "static" else "single")
       (last_segment (import_text i)).

Definition aimp_eqb (x y : aimp) : bool :=
  String.eqb (ai_kind x) (ai_kind y) && String.eqb (ai_simple x) (ai_simple y).

Fixpoint aimps_eqb (x y : list aimp) : bool :=
  match x, y with
  | [], [] => true
  | a :: r, b :: s => aimp_eqb a b && aimps_eqb r s
  | _, _ => false
  end.

Definition has_field (fields : gomap string) (name : string) : bool :=
  existsb (fun kv => String.eqb (fst kv) name) fields.

(* the abstract file describes the same text as the facts, and its reference sets bracket what the
   listener (under [cfg]) collects: referenced => collected, and collected import names => referenced
   or at least mentioned *)
Definition consistent_b (cfg : ui_cfg) (f : jfile) (a : afile) : bool :=
  let fields := file_fields cfg f in
  lines_eqb (map ln_text (jf_lines f)) (af_lines a) &&
  forallb (fun ln => aimps_eqb (imps_of a (ln_text ln)) (map aimp_of (ln_imps ln))) (jf_lines f) &&
  forallb (fun rn => has_field fields (snd rn)) (af_refs a) &&
  forallb (fun ln => forallb (fun i => if_star i || negb (has_field fields (last_segment (import_text i)))
                                       || referenced a (last_segment (import_text i))
                                       || mentioned a (last_segment (import_text i)))
                             (ln_imps ln)) (jf_lines f).

(* the files on which the code under [cfg] is claimed to work *)
Definition wf_file_b (cfg : ui_cfg) (f : jfile) : bool :=
  negb (jf_corrupt f) &&
  negb (String.eqb (file_name cfg f) "") &&
  existsb (fun ln => match ln_imps ln with [] => true | _ => false end) (jf_lines f) &&
  (fx_lines cfg || forallb (fun ln => Nat.leb (List.length (ln_imps ln)) 1) (jf_lines f)) &&
  (fx_wildcard cfg || negb (match file_fields cfg f with [] => true | _ => false end)
   || forallb (fun ln => forallb (fun i => negb (if_star i)) (ln_imps ln)) (jf_lines f)) &&
  forallb (fun ln => forallb (fun i => if_star i || negb (String.eqb (last_segment (import_text i)) "*"))
                             (ln_imps ln)) (jf_lines f).

Fixpoint paths_distinct_b (ps : list string) : bool :=
  match ps with
  | [] => true
  | p :: r => negb (str_mem p r) && paths_distinct_b r
  end.

Definition wf_world_b (cfg : ui_cfg) (w : world) : bool :=
  forallb (wf_file_b cfg) w && paths_distinct_b (map jf_path w) &&
  (fx_perfile cfg || Nat.leb (List.length w) 1).
