(* Independent statement of C15: the semantics of a history over FILE IDENTITIES (abstract
   add / modify / delete / rename operations), and deciders comparing observed summaries
   with it. *)
From Coq Require Import String List Bool Arith Ascii ZArith.
From Coca Require Import Lib.Sx Lib.GoMap Lib.Str Model.GitSummary.
Import ListNotations.
Open Scope list_scope.
Open Scope string_scope.

(* an abstract change: the path it ends at, the path it came from (same unless renamed) *)
Record achange := mkA { a_added : nat; a_deleted : nat; a_old : string; a_new : string;
                        a_delete : bool; a_file : string (* git's notation, as given to coca *) }.
Record acommit := mkAC { ac_rev : string; ac_author : string; ac_date : string; ac_msg : string;
                         ac_type : string (* conventional-commit type, "" if none *);
                         ac_changes : list achange }.

Record finfo := mkF { fi_authors : list string; fi_revs : list string; fi_first : string }.

Definition abs_apply (c : acommit) (st : gomap finfo) (ch : achange) : gomap finfo :=
  let st1 :=
    if String.eqb (a_old ch) (a_new ch) then st else
    match mget st (a_old ch) with
    | Some i => mput (mdel st (a_old ch)) (a_new ch) i
    | None => st
    end in
  let st2 :=
    match mget st1 (a_new ch) with
    | Some i => mput st1 (a_new ch) (mkF (set_add (ac_author c) (fi_authors i)) (set_add (ac_rev c) (fi_revs i)) (fi_first i))
    | None => mput st1 (a_new ch) (mkF [ac_author c] [ac_rev c] (ac_date c))
    end in
  if a_delete ch then mdel st2 (a_new ch) else st2.

Definition abs_history (cs : list acommit) : gomap finfo :=
  fold_left (fun st c => fold_left (abs_apply c) (ac_changes c) st) cs [].

(* multiset equality of rows rendered as strings *)
Definition count_eq (x : string) (l : list string) : nat := List.length (filter (String.eqb x) l).
Definition same_bag (a b : list string) : bool :=
  Nat.eqb (List.length a) (List.length b) && forallb (fun x => Nat.eqb (count_eq x a) (count_eq x b)) a.

Fixpoint nonincreasing (l : list nat) : bool :=
  match l with
  | a :: ((b :: _) as r) => Nat.leb b a && nonincreasing r
  | _ => true
  end.

Fixpoint nondecreasing_str (l : list string) : bool :=
  match l with
  | a :: ((b :: _) as r) => str_leb a b && nondecreasing_str r
  | _ => true
  end.

Definition row3 (n : string) (a b : nat) : string := n ++ tab ++ string_of_nat a ++ tab ++ string_of_nat b.

Definition spec_team_rows (cs : list acommit) : list string :=
  map (fun kv => row3 (fst kv) (List.length (fi_authors (snd kv))) (List.length (fi_revs (snd kv)))) (abs_history cs).

Definition spec_age_rows (cs : list acommit) : list string :=
  map (fun kv => fst kv ++ tab ++ fi_first (snd kv)) (abs_history cs).

Definition authors_of (cs : list acommit) : list string :=
  fold_left (fun acc c => set_add (ac_author c) acc) cs [].

Definition a_delta (c : acommit) : Z :=
  fold_left (fun acc ch => (acc + Z.of_nat (a_added ch) - Z.of_nat (a_deleted ch))%Z) (ac_changes c) 0%Z.

Definition spec_author_commits (cs : list acommit) (a : string) : nat :=
  List.length (filter (fun c => String.eqb (ac_author c) a) cs).
Definition spec_author_lines (cs : list acommit) (a : string) : Z :=
  fold_left (fun acc c => if String.eqb (ac_author c) a then (acc + a_delta c)%Z else acc) cs 0%Z.

Definition paths_of (cs : list acommit) : list string :=
  fold_left (fun acc c => fold_left (fun acc ch => set_add (a_file ch) acc) (ac_changes c) acc) cs [].

(* changelog: per type, per file (the path the change ends at): number of changes *)
Definition spec_changelog_count (cs : list acommit) (ty file : string) : nat :=
  List.length (filter (fun c => String.eqb (ac_type c) ty) 
     (flat_map (fun c => map (fun ch => c) (filter (fun ch => String.eqb (a_new ch) file) (ac_changes c))) cs)).

Definition z_eqb (a b : Z) : bool := Z.eqb a b.

(* observations *)
Definition c15_verdict (cs : list acommit)
           (team : list (string * nat * nat)) (age : list (string * string))
           (top : list (string * nat * Z)) (basic : nat * nat * Z * nat)
           (changelog : list (string * list (string * nat))) : list string :=
  let types := fold_left (fun acc c => if String.eqb (ac_type c) "" then acc else set_add (ac_type c) acc) cs [] in
  ((if same_bag (map (fun r => row3 (fst (fst r)) (snd (fst r)) (snd r)) team) (spec_team_rows cs) then [] else ["team_rows"]) ++
   (if nonincreasing (map snd team) then [] else ["team_sorted"]) ++
   (if same_bag (map (fun r => (fst r ++ tab ++ snd r)%string) age) (spec_age_rows cs) then [] else ["age_rows"]) ++
   (if nondecreasing_str (map snd age) then [] else ["age_sorted"]) ++
   (if same_bag (map (fun r => fst (fst r)) top) (authors_of cs) &&
       forallb (fun r => Nat.eqb (snd (fst r)) (spec_author_commits cs (fst (fst r))) &&
                         z_eqb (snd r) (spec_author_lines cs (fst (fst r)))) top
    then [] else ["top_authors"]) ++
   (if Nat.eqb (fold_left (fun acc r => acc + snd (fst r)) top 0) (List.length cs) then [] else ["top_sum"]) ++
   (if nonincreasing (map (fun r => snd (fst r)) top) then [] else ["top_sorted"]) ++
   (let '(c, e, _, a) := basic in
    if Nat.eqb c (List.length cs) && Nat.eqb a (List.length (authors_of cs)) && Nat.eqb e (List.length (paths_of cs))
    then [] else ["basic"]) ++
   (if same_bag (map fst changelog) types &&
       forallb (fun kv =>
                  forallb (fun fn => Nat.eqb (snd fn) (spec_changelog_count cs (fst kv) (fst fn)) && Nat.ltb 0 (snd fn)) (snd kv) &&
                  forallb (fun c => negb (String.eqb (ac_type c) (fst kv)) ||
                                    forallb (fun ch => existsb (fun fn => String.eqb (fst fn) (a_new ch)) (snd kv)) (ac_changes c)) cs)
               changelog
    then [] else ["changelog"]))%list.

(* executable form of the well-formedness hypothesis of the refinement theorem: the scanners
   decode this change's notation to its abstract (old, new) pair *)
Definition opt_none {A : Type} (o : option A) : bool := match o with None => true | Some _ => false end.

Definition decodes_b (ch : achange) : bool :=
  negb (String.eqb (a_new ch) "") &&
  (if String.eqb (a_old ch) (a_new ch) then
     String.eqb (a_file ch) (a_new ch) && opt_none (complex_move (a_file ch)) && opt_none (basic_move (a_file ch))
   else
     match complex_move (a_file ch) with
     | Some _ =>
       let '(f, o, n) := update_message_for_change (a_file ch) in
       String.eqb f (a_new ch) && String.eqb o (a_old ch) && String.eqb n (a_new ch)
     | None =>
       match basic_move (a_file ch) with
       | Some (g1, g2) => String.eqb g1 (a_old ch) && String.eqb g2 (a_new ch)
       | None => false
       end
     end).

Definition all_decode_b (cs : list acommit) : bool :=
  forallb (fun c => forallb decodes_b (ac_changes c)) cs.
