(* Model of pkg/application/arch/arch_app.go and tequila/{incl_viz,merge_viz,path_trie}.go
   (definitions only).  gographviz's printer is not modelled: the model returns the set of
   displayed keys and the list of drawn edges, which the harness reads back from the DOT text. *)
From Coq Require Import String List Bool Arith Ascii.
From Coca Require Import Lib.Sx Lib.GoMap Lib.Str Model.CodeModel Generated.Constants.
Import ListNotations.
Open Scope list_scope.
Open Scope string_scope.

Record fullgraph := mkGraph {
  g_nodes : gomap string;                  (* NodeList *)
  g_rels : gomap (string * string) }.      (* RelationList: key -> (From, To) *)

Definition rel_key (from to : string) : string := from ++ "->" ++ to.
Definition add_rel (rs : gomap (string * string)) (from to : string) : gomap (string * string) :=
  mput rs (rel_key from to) (from, to).

Definition call_dst (c : call) : string := c_pkg c ++ "." ++ c_node c.

Definition add_pair (rs : gomap (string * string)) (p : string * string) : gomap (string * string) :=
  mput rs (rel_key (fst p) (snd p)) p.

(* addCallInMethod: the relations one method adds, in order *)
Definition method_adds (idents : list string) (src : string) (f : func) : list (string * string) :=
  if String.eqb (f_name f) "main" then [] else
  map (fun c => (src, call_dst c))
      (filter (fun c => negb (String.eqb src (call_dst c)) && str_mem (call_dst c) idents) (f_calls f)).

(* the relations one class adds, in the order of ArchApp.Analysis: implements, field calls,
   extends, method calls *)
Definition class_adds (idents : list string) (d : ds) : list (string * string) :=
  let src := d_pkg d ++ "." ++ d_node d in
  (map (fun impl => (src, impl)) (d_impls d) ++
   map (fun c => (src, call_dst c)) (d_calls d) ++
   (if String.eqb (d_extend d) "" then [] else [(src, d_extend d)]) ++
   flat_map (method_adds idents src) (d_funcs d))%list.

Definition not_main (d : ds) : bool := negb (String.eqb (d_node d) "Main").

Definition all_adds (deps : list ds) (idents : list string) : list (string * string) :=
  flat_map (class_adds idents) (filter not_main deps).

(* ArchApp.Analysis; [idents] are the keys of the identifier map *)
Definition analysis (deps : list ds) (idents : list string) : fullgraph :=
  mkGraph (fold_left (fun ns d => let src := d_pkg d ++ "." ++ d_node d in mput ns src src)
                     (filter not_main deps) [])
          (fold_left add_pair (all_adds deps idents) []).

(* FullGraph.MergeHeaderFile(merge): relations whose target is a node, merged, self loops dropped *)
Definition merge_adds (f : string -> string) (g : fullgraph) : list (string * string) :=
  map (fun p => (f (fst p), f (snd p)))
      (filter (fun p => mhas (g_nodes g) (snd p) && negb (String.eqb (f (fst p)) (f (snd p))))
              (map snd (g_rels g))).

Definition merge_graph (f : string -> string) (g : fullgraph) : fullgraph :=
  mkGraph (fold_left (fun ns k => mput ns (f k) (f k)) (mkeys (g_nodes g)) [])
          (fold_left add_pair (merge_adds f g) []).

(* MergeHeaderFunc *)
Definition merge_header_func (input : string) : string :=
  let tmp := split "." input in
  if Nat.ltb 1 (List.length tmp) then join "." (removelast tmp) else input.

(* MergePackageFunc *)
Definition merge_package_func (input : string) : string :=
  let sp := if contains input "/" then "/" else if contains input "." then "." else "::" in
  let tmp := split sp input in
  let first := hd "" tmp in
  let name := if String.eqb first input then "main" else first in
  if Nat.ltb tequila_Level (List.length tmp) then join sp (firstn tequila_Level tmp) else name.

(* the node filter of cmd/arch.go: key contains one of the comma separated filter strings *)
Definition include_key (filters : list string) (key : string) : bool :=
  existsb (fun f => contains key f) filters.

Fixpoint dedupe (l : list string) (seen : list string) : list string :=
  match l with
  | [] => []
  | x :: r => if str_mem x seen then dedupe r seen else x :: dedupe r (x :: seen)
  end.

(* ToMapDot: every included key is displayed once (a trie node is drawn when a key ends
   there); an edge is drawn for every relation whose two ends are displayed *)
Definition displayed (filters : list string) (g : fullgraph) : list string :=
  dedupe (filter (include_key filters) (mkeys (g_nodes g))) [].

Definition drawn_edges (filters : list string) (g : fullgraph) : list (string * string) :=
  let shown := displayed filters g in
  filter (fun e => str_mem (fst e) shown && str_mem (snd e) shown) (map snd (g_rels g)).

(* SortedByFan(merge): fan-in / fan-out of every node of the merged graph, largest total first
   (rows with the same total come in the order a Go map yields them) *)
Definition fan_rows (mg : fullgraph) : list (string * nat * nat) :=
  map (fun k => (k,
                 List.length (filter (fun r => String.eqb (snd r) k) (map snd (g_rels mg))),
                 List.length (filter (fun r => String.eqb (fst r) k) (map snd (g_rels mg)))))
      (mkeys (g_nodes mg)).

Definition fan_total (r : string * nat * nat) : nat := snd (fst r) + snd r.

Fixpoint insert_fan (x : string * nat * nat) (l : list (string * nat * nat)) : list (string * nat * nat) :=
  match l with
  | [] => [x]
  | y :: r => if Nat.leb (fan_total y) (fan_total x) then x :: l else y :: insert_fan x r
  end.

Definition sorted_by_fan (f : string -> string) (g : fullgraph) : list (string * nat * nat) :=
  fold_right insert_fan [] (fan_rows (merge_graph f g)).
