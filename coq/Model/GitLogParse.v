(* Model of pkg/application/git/log_parser.go ParseLog / git.go BuildMessageByInput
   (definitions only): a line-oriented state machine over hand-compiled scanners. *)
From Coq Require Import String List Bool Arith Ascii.
From Coca Require Import Lib.Sx Lib.GoMap Lib.Str Lib.Scan Model.GitSummary.
Import ListNotations.
Open Scope list_scope.
Open Scope string_scope.

Definition is_hex_lower (c : ascii) : bool :=
  let n := nat_of_ascii c in (Nat.leb 48 n && Nat.leb n 57) || (Nat.leb 97 n && Nat.leb n 102).
Definition is_num_dash (c : ascii) : bool := is_digit c || Ascii.eqb c "-"%char.

(* dddd-dd-dd at the head of s *)
Definition date_prefix (s : string) : option (string * string) :=
  let d := take 10 s in
  match chars d with
  | [a; b; c; e; h1; f; g; h2; i; j] =>
    if is_digit a && is_digit b && is_digit c && is_digit e && Ascii.eqb h1 "-"%char &&
       is_digit f && is_digit g && Ascii.eqb h2 "-"%char && is_digit i && is_digit j
    then Some (d, drop 10 s) else None
  | _ => None
  end.

(* lazy author group: the first position where blank, date, blank follow *)
Fixpoint author_date (fuel : nat) (acc : string) (s : string) : option (string * string * string) :=
  match fuel with
  | 0 => None
  | S f =>
    match s with
    | EmptyString => None
    | String c r =>
      let here :=
        if is_ws c then
          match date_prefix r with
          | Some (d, r2) =>
            match r2 with
            | String c2 msg => if is_ws c2 then Some (acc, d, msg) else None
            | EmptyString => None
            end
          | None => None
          end
        else None in
      match here with
      | Some x => Some x
      | None => if Ascii.eqb c c_nl then None else author_date f (acc ++ String c EmptyString) r
      end
    end
  end.

(* header line: [hash] author date subject *)
Definition parse_header (s : string) : option (string * string * string * string) :=
  match s with
  | String c r =>
    if Ascii.eqb c "["%char then
      let '(h, r1) := span is_hex_lower r in
      let n := String.length h in
      if Nat.leb 5 n && Nat.leb n 12 then
        match r1 with
        | String c1 r2 =>
          if Ascii.eqb c1 "]"%char then
            match r2 with
            | String c2 r3 =>
              if is_ws c2 then
                match author_date (S (String.length r3)) "" r3 with
                | Some (a, d, m) => if contains m nl then None else Some (h, a, d, m)
                | None => None
                end
              else None
            | EmptyString => None
            end
          else None
        | EmptyString => None
        end
      else None
    else None
  | EmptyString => None
  end.

(* strconv.Atoi on a [0-9-]+ token: a plain decimal, or 0 on error *)
Definition atoi0 (s : string) : nat :=
  if forallb is_digit (chars s) && negb (String.eqb s "") then nat_of_string s
  else match s with
       | String c r =>
         if Ascii.eqb c "-"%char && forallb is_digit (chars r) && negb (String.eqb r "") then 0  (* negative: not produced by git *)
         else 0
       | EmptyString => 0
       end.

(* numstat line: added, deleted, file *)
Definition parse_changes (s : string) : option (string * string * string) :=
  let '(a, r1) := span is_num_dash s in
  if String.eqb a "" then None else
  let '(w1, r2) := span is_ws r1 in
  if String.eqb w1 "" then None else
  let '(d, r3) := span is_num_dash r2 in
  if String.eqb d "" then None else
  let '(w2, r4) := span is_ws r3 in
  if String.eqb w2 "" then None else
  if contains r4 nl then None else Some (a, d, r4).

(* summary line: (mode word, rest) at the leftmost position where blank, 1-6 word chars, blank match *)
Definition mode_at (s : string) : option (string * string) :=
  match s with
  | String c r =>
    if is_ws c then
      let '(w, r1) := span is_word r in
      let n := String.length w in
      if Nat.leb 1 n && Nat.leb n 6 then
        match r1 with
        | String c1 r2 =>
          if is_ws c1 then
            let r3 :=
              if has_prefix "mode 100" r2 then
                let t := drop 8 r2 in
                match chars (take 3 t) with
                | [x; y; z] => if is_digit x && is_digit y && is_digit z then Some (drop 3 t) else None
                | _ => None
                end
              else None in
            let r4 := match r3 with Some t => t | None => r2 end in
            let r5 := match r4 with String c2 t => if is_ws c2 then t else r4 | EmptyString => r4 end in
            Some (w, take (match str_index nl r5 with Some i => i | None => String.length r5 end) r5)
          else None
        | EmptyString => None
        end
      else None
    else None
  | EmptyString => None
  end.

Fixpoint parse_mode (fuel : nat) (s : string) : option (string * string) :=
  match mode_at s with
  | Some x => Some x
  | None =>
    match fuel with
    | 0 => None
    | S f => match s with String _ r => parse_mode f r | EmptyString => None end
    end
  end.

Record pstate := mkP {
  p_cur : commit;
  p_map : gomap fchange;
  p_changes : list fchange;
  p_commits : list commit }.

Definition empty_commit : commit := mkCommit "" "" "" "" [].
Definition pstate0 : pstate := mkP empty_commit [] [] [].

(* what ParseLog takes a line for *)
Inductive line_kind :=
| LHeader (h a d m : string)
| LChange (added deleted : nat) (file : string)
| LMode (mode key : string)
| LOther.

Definition classify (text : string) : line_kind :=
  match parse_header text with
  | Some (h, a, d, m) => LHeader h a d m
  | None =>
    match parse_changes text with
    | Some (a, d, file) => LChange (atoi0 a) (atoi0 d) file
    | None =>
      match parse_mode (String.length text) text with
      | Some (mode, key) => LMode mode key
      | None => LOther
      end
    end
  end.

Definition step (st : pstate) (k : line_kind) : pstate :=
  match k with
  | LHeader h a d m => mkP (mkCommit h a d m []) (p_map st) (p_changes st) (p_commits st)
  | LChange a d file =>
    mkP (p_cur st) (mput (p_map st) file (mkChange a d file "")) (p_changes st) (p_commits st)
  | LMode mode key =>
    match mget (p_map st) key with
    | Some ch => mkP (p_cur st) (mput (p_map st) key (mkChange (ch_added ch) (ch_deleted ch) (ch_file ch) mode))
                     (p_changes st) (p_commits st)
    | None =>
      if String.eqb mode "delete" then
        mkP (p_cur st) (p_map st) (p_changes st ++ [mkChange 0 0 key "delete"]) (p_commits st)
      else st
    end
  | LOther =>
    if String.eqb (cm_rev (p_cur st)) "" then st else
    let chs := (p_changes st ++ map snd (p_map st))%list in
    let c := p_cur st in
    mkP empty_commit [] [] (p_commits st ++ [mkCommit (cm_rev c) (cm_author c) (cm_date c) (cm_msg c) chs])
  end.

Definition parse_line (st : pstate) (text : string) : pstate := step st (classify text).

(* BuildMessageByInput: every register is re-initialised, then one ParseLog per line *)
Definition build_message_by_input (input : string) : list commit :=
  p_commits (fold_left parse_line (split nl input) pstate0).
