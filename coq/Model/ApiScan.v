(* Model of pkg/infrastructure/ast/ast_java/ast_api_java/java_api_listener.go and the file loop
   of api.JavaApiApp.AnalysisPath, over the facts the callbacks read.  Every package-level
   variable of the Go file is a field of [astate] (MethodParams / localVars are not observed). *)
From Coq Require Import String List Bool Arith.
From Coca Require Import Lib.Sx Lib.GoMap Lib.Str.
Import ListNotations.
Open Scope list_scope.
Open Scope string_scope.

(* an annotation as EnterAnnotation sees it *)
Record aannot := mkAA { aa_name : string; aa_has_value : bool; aa_value : string;
                        aa_has_pairs : bool; aa_pairs : list (string * string) }.

Record aparam := mkAP { ap_body : bool (* carries @RequestBody *); ap_type : string; ap_name : string;
                        ap_annots : list aannot }.

Record amember := mkAM { am_is_method : bool; am_name : string; am_annots : list aannot;
                         am_params : list aparam }.

Record aunit := mkAU { au_pkg : string; au_has_pkg : bool; au_imports : list string; au_is_class : bool;
                       au_name : string; au_implements : string; au_has_implements : bool;
                       au_annots : list aannot; au_members : list amember }.

Record rest_entry := mkRest { r_uri : string; r_verb : string; r_method : string; r_body : string;
                              r_pkg : string; r_class : string }.

Record astate := mkAS {
  a_hasEnterClass : bool;
  a_isController : bool;
  a_hasEnterRest : bool;
  a_baseUrl : string;
  a_current : rest_entry;
  a_apis : list rest_entry;
  a_clz : string;
  a_pkg : string;
  a_imports : list string;
  a_implements : string;
  a_requestBody : string }.

Definition empty_rest : rest_entry := mkRest "" "" "" "" "" "".
Definition astate0 : astate := mkAS false false false "" empty_rest [] "" "" [] "" "".

(* NewJavaAPIListener *)
Definition new_api_listener (st : astate) : astate :=
  mkAS false false false "" empty_rest [] "" "" [] "" "".

(* removeQuotes: text[1:len(text)-1], a text of fewer than two characters is kept (it used to be a
   slice-bounds panic, hence the option) *)
Definition strip1 (t : string) : option string :=
  if Nat.ltb (String.length t) 2 then Some t else Some (take (String.length t - 2) (drop 1 t)).

Definition set_verb (r : rest_entry) (v : string) : rest_entry :=
  mkRest (r_uri r) v (r_method r) (r_body r) (r_pkg r) (r_class r).
Definition set_uri (r : rest_entry) (u : string) : rest_entry :=
  mkRest u (r_verb r) (r_method r) (r_body r) (r_pkg r) (r_class r).

(* addApiMethod *)
Definition add_api_method (r : rest_entry) (name : string) : rest_entry :=
  if str_mem name ["GetMapping"; "RequestMethod.GET"; "GET"] then set_verb r "GET"
  else if str_mem name ["PutMapping"; "RequestMethod.PUT"; "PUT"] then set_verb r "PUT"
  else if str_mem name ["PostMapping"; "RequestMethod.POST"; "POST"] then set_verb r "POST"
  else if str_mem name ["DeleteMapping"; "RequestMethod.DELETE"; "DELETE"] then set_verb r "DELETE"
  else r.

Definition is_mapping (name : string) : bool :=
  str_mem name ["RequestMapping"; "GetMapping"; "PutMapping"; "PostMapping"; "DeleteMapping"].

Inductive ares := AOk (st : astate) | APanic.

Definition with_base (st : astate) (b : string) : astate :=
  mkAS (a_hasEnterClass st) (a_isController st) (a_hasEnterRest st) b (a_current st) (a_apis st)
       (a_clz st) (a_pkg st) (a_imports st) (a_implements st) (a_requestBody st).

(* buildBaseApiUrlString *)
Definition build_base (st : astate) (a : aannot) : ares :=
  if negb (String.eqb (aa_name a) "RequestMapping") then AOk st else
  if aa_has_pairs a then
    fold_left (fun acc kv =>
                 match acc with
                 | APanic => APanic
                 | AOk s => if String.eqb (fst kv) "value"
                            then match strip1 (snd kv) with Some t => AOk (with_base s t) | None => APanic end
                            else AOk s
                 end) (aa_pairs a) (AOk st)
  else if aa_has_value a then
    match strip1 (aa_value a) with Some t => AOk (with_base st t) | None => APanic end
  else AOk (with_base st "/").

(* EnterAnnotation *)
Definition enter_annotation (st0 : astate) (a : aannot) : ares :=
  let ctl := a_isController st0 || String.eqb (aa_name a) "RestController" || String.eqb (aa_name a) "Controller" in
  let st := mkAS (a_hasEnterClass st0) ctl (a_hasEnterRest st0) (a_baseUrl st0) (a_current st0) (a_apis st0)
                 (a_clz st0) (a_pkg st0) (a_imports st0) (a_implements st0) (a_requestBody st0) in
  if negb (a_hasEnterClass st) then build_base st a      (* class-level annotation: base path only *)
  else if negb ctl then AOk st else
  if negb (is_mapping (aa_name a)) then AOk st else
  let uri := a_baseUrl st ++ (if aa_has_value a then aa_value a else "") in
  let cur00 := mkRest (replace_all dquote "" uri) "" "" "" "" "" in
  let cur0 := if negb (String.eqb (aa_name a) "RequestMapping") then add_api_method cur00 (aa_name a) else cur00 in
  (* value= / method= pairs *)
  let cur1 :=
    if aa_has_pairs a then
      fold_left (fun acc kv =>
                   match acc with
                   | None => None
                   | Some r =>
                     let r1 := if String.eqb (fst kv) "method" then add_api_method r (snd kv) else r in
                     if String.eqb (fst kv) "value"
                     then match strip1 (snd kv) with Some t => Some (set_uri r1 (a_baseUrl st ++ t)) | None => None end
                     else Some r1
                   end) (aa_pairs a) (Some cur0)
    else Some cur0 in
  match cur1 with
  | None => APanic
  | Some r =>
    AOk (mkAS (a_hasEnterClass st) ctl true (a_baseUrl st) r (a_apis st) (a_clz st) (a_pkg st) (a_imports st)
              (a_implements st) (a_requestBody st))
  end.

Definition enter_annotations (st : astate) (l : list aannot) : ares :=
  fold_left (fun acc a => match acc with AOk s => enter_annotation s a | APanic => APanic end) l (AOk st).

(* EnterMethodDeclaration (classes without a ServiceMethod interface) *)
Definition enter_method (st : astate) (m : amember) : astate :=
  if negb (a_hasEnterRest st) then st else
  let cur := mkRest (r_uri (a_current st)) (r_verb (a_current st)) (am_name m) (r_body (a_current st))
                    (a_pkg st) (a_clz st) in
  match am_params m with
  | [] =>
    let cur' := mkRest (r_uri cur) (r_verb cur) (r_method cur) (a_requestBody st) (r_pkg cur) (r_class cur) in
    mkAS (a_hasEnterClass st) (a_isController st) false (a_baseUrl st) cur' (a_apis st ++ [cur'])
         (a_clz st) (a_pkg st) (a_imports st) (a_implements st) ""
  | ps =>
    let body := fold_left (fun acc p => if ap_body p then ap_type p else acc) ps (a_requestBody st) in
    let cur' := mkRest (r_uri cur) (r_verb cur) (r_method cur) body (r_pkg cur) (r_class cur) in
    mkAS (a_hasEnterClass st) (a_isController st) false (a_baseUrl st) cur' (a_apis st ++ [cur'])
         (a_clz st) (a_pkg st) (a_imports st) (a_implements st) ""
  end.

Definition member_api (acc : ares) (m : amember) : ares :=
  match acc with
  | APanic => APanic
  | AOk st =>
    match enter_annotations st (am_annots m) with
    | APanic => APanic
    | AOk st1 =>
      if am_is_method m then
        let st2 := enter_method st1 m in
        (* parameter annotations are walked after EnterMethodDeclaration *)
        enter_annotations st2 (flat_map ap_annots (am_params m))
      else AOk st1
    end
  end.

Definition api_unit (st0 : astate) (u : aunit) : ares :=
  let st1 := mkAS (a_hasEnterClass st0) (a_isController st0) (a_hasEnterRest st0) (a_baseUrl st0) (a_current st0)
                  (a_apis st0) (a_clz st0) (if au_has_pkg u then au_pkg u else a_pkg st0)
                  (a_imports st0 ++ au_imports u) (a_implements st0) (a_requestBody st0) in
  match enter_annotations st1 (au_annots u) with
  | APanic => APanic
  | AOk st2 =>
    let st3 :=
      if au_is_class u then
        mkAS true (a_isController st2) (a_hasEnterRest st2) (a_baseUrl st2) (a_current st2) (a_apis st2)
             (au_name u) (a_pkg st2) (a_imports st2)
             (if au_has_implements u then au_implements u else a_implements st2) (a_requestBody st2)
      else st2 in
    match fold_left member_api (au_members u) (AOk st3) with
    | APanic => APanic
    | AOk st4 =>
      AOk (mkAS (if au_is_class u then false else a_hasEnterClass st4) (a_isController st4) (a_hasEnterRest st4)
                (a_baseUrl st4) (a_current st4) (a_apis st4) (a_clz st4) (a_pkg st4) (a_imports st4)
                (a_implements st4) (a_requestBody st4))
    end
  end.

(* JavaApiApp.AnalysisPath: a new listener per file; None = a panic aborted the scan *)
Definition api_files (st : astate) (units : list aunit) : option (astate * list rest_entry) :=
  fold_left (fun acc u =>
               match acc with
               | None => None
               | Some (s, out) =>
                 match api_unit (new_api_listener s) u with
                 | APanic => None
                 | AOk s1 => Some (s1, (out ++ a_apis s1)%list)
                 end
               end) units (Some (st, [])).
