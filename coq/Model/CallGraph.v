(* Model of pkg/application/call/call_graph.go (definitions only). *)
From Coq Require Import String List Bool Arith Ascii.
From Coca Require Import Lib.Sx Lib.GoMap Lib.Dot Lib.Cmp Model.CodeModel Model.RCall Generated.Constants.
Import ListNotations.
Open Scope list_scope.
Open Scope string_scope.

(* jpackage.GetClassName / GetMethodName: split on the last "." *)
Definition class_name (path : string) : string :=
  match last_index_char "."%char path with Some i => take i path | None => "" end.
Definition method_name (path : string) : string :=
  match last_index_char "."%char path with Some i => drop (S i) path | None => path end.

(* BuildMethodMap: full method name -> callee strings; same-named methods (overloads)
   contribute to one entry, in declaration order *)
Definition add_method (d : ds) (acc : gomap (list string)) (f : func) : gomap (list string) :=
  let k := func_full_name d f in
  mput acc k (mget_d [] acc k ++ all_call_strings f)%list.

Definition method_map (m : list ds) : gomap (list string) :=
  fold_left (fun acc d => fold_left (add_method d) (d_funcs d) acc) m [].

Definition callees (mm : gomap (list string)) (f : string) : list string := mget_d [] mm f.

(* dependency-injection substitution of a callee *)
Definition subst_di (di : gomap string) (child : string) : string :=
  match mget di (class_name child) with
  | Some impl => impl ++ "." ++ method_name child
  | None => child
  end.

Inductive citem := CEdge (a b : string) | CNewline | COutOfFuel.

(* loop over the (DI-substituted) callees of [f]; [rec] is BuildCallChain on a callee; the
   package-level loopCount is threaded as [cnt] *)
Fixpoint cloop (rec : nat -> string -> nat * list citem) (mm : gomap (list string))
         (f : string) (children : list string) (cnt : nat) (acc : list citem) : nat * list citem :=
  match children with
  | [] => (cnt, acc)
  | child :: rest =>
    let '(cnt2, acc2) :=
      match callees mm child with
      | [] => (cnt, acc)
      | _ => let '(c', items) := rec cnt child in (c', (acc ++ items)%list)
      end in
    cloop rec mm f rest cnt2 (acc2 ++ [CEdge f child])%list
  end.

Fixpoint chain (fuel : nat) (mm : gomap (list string)) (di : gomap string) (cnt : nat) (f : string)
  : nat * list citem :=
  if cmp_eval maxLoopCount_cmp cnt maxLoopCount then (cnt, [CNewline]) else
  match fuel with
  | 0 => (cnt, [COutOfFuel])
  | S fuel' =>
    match callees mm f with
    | [] => (S cnt, [CNewline])
    | cs => cloop (chain fuel' mm di) mm f (map (subst_di di) cs) (S cnt) []
    end
  end.

Definition cfuel : nat := S (S (S maxLoopCount)).

Definition render_citem (i : citem) : string :=
  match i with
  | CEdge a b => """" ++ escape_quotes a ++ """ -> """ ++ escape_quotes b ++ """;" ++ nl
  | CNewline => nl
  | COutOfFuel => "<out-of-fuel>"
  end.
Definition render_citems (l : list citem) : string := String.concat "" (map render_citem l).

Definition call_to_graphviz (chain : string) : string :=
  "digraph G {" ++ nl ++ "rankdir = LR;" ++ nl ++ chain ++ "}" ++ nl.

(* CallGraph.Analysis(funcName, clzs, lookup) in a process whose loopCount is [cnt]:
   the counter is re-initialised, the chain built without DI map, the reverse chain appended
   when [lookup] *)
Definition canalysis (cnt : nat) (root : string) (m : list ds) (lookup : bool) : nat * string :=
  let mm := method_map m in
  let '(cnt', items) := chain cfuel mm [] 0 root in
  let rtext :=
    if lookup then
      let '(_, ritems) := build_rcall_chain rstate0 (method_call_map m) root in render_ritems ritems
    else "" in
  (cnt', call_to_graphviz (render_citems items ++ rtext)).

(* CallGraph.AnalysisByFiles(apis, deps, diMap) *)
Record rest_api := mkApi { a_verb : string; a_uri : string; a_pkg : string; a_class : string; a_method : string }.
Definition api_caller (a : rest_api) : string := a_pkg a ++ "." ++ a_class a ++ "." ++ a_method a.

(* len(strings.Split(s, " -> ")) *)
Definition split_count (s : string) : nat := List.length (split " -> " s).

Definition api_chain (mm : gomap (list string)) (di : gomap string) (a : rest_api) : string * nat :=
  let caller := api_caller a in
  let '(_, items) := chain cfuel mm di 0 caller in
  let body := render_citems items in
  ("""" ++ a_verb a ++ " " ++ a_uri a ++ """ -> """ ++ escape_quotes caller ++ """;" ++ nl ++ body,
   split_count body).

Definition analysis_by_files (apis : list rest_api) (m : list ds) (di : gomap string)
  : string * list nat :=
  let mm := method_map m in
  let rs := map (api_chain mm di) apis in
  ("digraph G { " ++ nl ++ String.concat "" (map (fun r => nl ++ fst r) rs) ++ "}" ++ nl, map snd rs).
