(* Independent statement of C12 over abstract controllers. *)
From Coq Require Import String List Bool Arith.
From Coca Require Import Lib.Sx Lib.GoMap Lib.Str Model.ApiScan Model.GitSummarySpec.
Import ListNotations.
Open Scope list_scope.
Open Scope string_scope.

(* abstract description of a class: is it a controller, its own base path, its handlers *)
Record xhandler := mkXH { xh_verb : string; xh_path : string; xh_method : string; xh_body : string }.
Record xclass := mkXC { xc_pkg : string; xc_name : string; xc_controller : bool; xc_base : string;
                        xc_handlers : list xhandler }.

Definition entry_row (verb uri pkg cls meth body : string) : string :=
  verb ++ tab ++ uri ++ tab ++ pkg ++ tab ++ cls ++ tab ++ meth ++ tab ++ body.

Definition expected_rows (cs : list xclass) : list string :=
  flat_map (fun c => if xc_controller c
                     then map (fun h => entry_row (xh_verb h) (xc_base c ++ xh_path h) (xc_pkg c) (xc_name c)
                                                  (xh_method h) (xh_body h)) (xc_handlers c)
                     else []) cs.

Definition observed_rows (obs : list rest_entry) : list string :=
  map (fun r => entry_row (r_verb r) (r_uri r) (r_pkg r) (r_class r) (r_method r) (r_body r)) obs.

(* exactly one entry per annotated handler of a controller class, nothing for other classes;
   a class's entries are stated from that class alone *)
Definition c12_verdict (cs : list xclass) (obs : list rest_entry) : list string :=
  ((if same_bag (expected_rows cs) (observed_rows obs) then [] else ["entries"]) ++
   (if forallb (fun r => existsb (fun c => xc_controller c && String.eqb (xc_pkg c) (r_pkg r) &&
                                            String.eqb (xc_name c) (r_class r)) cs) obs
    then [] else ["non_controller"]))%list.
