(* Independent statement of C10 with the DOCUMENTED thresholds written out. *)
From Coq Require Import String List Bool Arith.
From Coca Require Import Lib.Sx Lib.GoMap Lib.Str Model.BadSmell Model.GitSummarySpec.
Import ListNotations.
Open Scope list_scope.
Open Scope string_scope.

Definition row (file line kind : string) (size : nat) : string :=
  kind ++ tab ++ file ++ tab ++ line ++ tab ++ string_of_nat size.

Definition gs (name : string) : bool := has_prefix "get" name || has_prefix "set" name.

Definition expected_smells (nodes : list bs_node) : list string :=
  flat_map (fun n =>
    let cls := String.eqb (bn_type n) "Class" in
    let ms := bn_methods n in
    let normal := List.length (filter (fun m => negb (gs (bm_name m))) ms) in
    ((* lazyElement: a class without methods *)
     (if cls && Nat.eqb (List.length ms) 0 then [row (bn_path n) "" "lazyElement" 0] else []) ++
     (* dataClass: a class that has methods, all of them getters/setters *)
     (if cls && Nat.ltb 0 (List.length ms) && forallb (fun m => gs (bm_name m)) ms
      then [row (bn_path n) "" "dataClass" (List.length ms)] else []) ++
     (* largeClass: at least 20 methods that are not getters/setters *)
     (if cls && Nat.leb 20 normal then [row (bn_path n) "" "largeClass" normal] else []) ++
     flat_map (fun m =>
       ((* longMethod: closing brace more than 30 lines below the line the declaration starts on *)
        (if Nat.ltb 30 (bm_el m - bm_sl m) then [row (bn_path n) (string_of_nat (bm_sl m)) "longMethod" (bm_el m - bm_sl m)] else []) ++
        (* longParameterList: more than 5 parameters *)
        (if Nat.ltb 5 (bm_nparams m) then [row (bn_path n) (string_of_nat (bm_sl m)) "longParameterList" (bm_nparams m)] else []) ++
        (* repeatedSwitches: at least 8 top-level ifs, or at least 8 top-level switches *)
        (if Nat.leb 8 (bm_ifs m) then [row (bn_path n) (string_of_nat (bm_sl m)) "repeatedSwitches" (bm_ifs m)] else []) ++
        (if Nat.leb 8 (bm_switches m) then [row (bn_path n) (string_of_nat (bm_sl m)) "repeatedSwitches" (bm_switches m)] else []) ++
        (* complexCondition: a top-level if whose condition spans at least 4 lines *)
        flat_map (fun c => if Nat.leb 4 (S (snd c - fst c))
                           then [row (bn_path n) (string_of_nat (fst c)) "complexCondition" 0] else []) (bm_conds m))%list) ms)%list)
    nodes.

Definition kind_of_row (r : string) : string := hd "" (split tab r).

Definition smell_row (s : smell) : string := row (sm_file s) (sm_line s) (sm_bs s) (sm_size s).

Fixpoint nonincreasing_n (l : list nat) : bool :=
  match l with
  | a :: ((b :: _) as r) => Nat.leb b a && nonincreasing_n r
  | _ => true
  end.

Definition sized_kind (k : string) : bool :=
  str_mem k ["largeClass"; "repeatedSwitches"; "longParameterList"; "longMethod"; "dataClass"].

(* observed: the identified list (ignore applied) and the -s type grouping of the same list *)
Definition c10_verdict (nodes : list bs_node) (ignore : list string)
           (obs : list smell) (sorted : list (string * list smell)) : list string :=
  let expected := filter (fun r => negb (str_mem (kind_of_row r) ignore)) (expected_smells nodes) in
  ((if same_bag expected (map smell_row obs) then [] else ["smells_exact"]) ++
   (if forallb (fun s => negb (str_mem (sm_bs s) ignore)) obs then [] else ["ignore"]) ++
   (if same_bag (map smell_row obs) (flat_map (fun kv => map smell_row (snd kv)) sorted) &&
       forallb (fun kv => forallb (fun s => String.eqb (sm_bs s) (fst kv)) (snd kv)) sorted
    then [] else ["sort_groups"]) ++
   (if forallb (fun kv => negb (sized_kind (fst kv)) || nonincreasing_n (map sm_size (snd kv))) sorted
    then [] else ["sort_order"]))%list.
