(* Executable model of coca's Go front-end over an ABSTRACT Go file (go/parser is not
   re-implemented; the generator renders the abstract file to source text):
     pkg/infrastructure/ast/ast_go/cocago_parser.go   CocagoParser.Visitor, AddStructType,
                                                      AddInterface, AddFunctionDecl, BuildReceiver,
                                                      BuildImport, BuildExpr
     pkg/infrastructure/ast/ast_go/cocago_builder.go  BuildFunction, BuildMethodCall,
                                                      BuildLocalVars, BuildCallFromExpr,
                                                      getPackageName, ParseTarget, BuildPropertyField
     pkg/application/analysis/goapp/go_ident_app.go   GoIdentApp.Analysis (no extensions, no go.mod)
   State of /repo modelled: after the fix commits b93eb48 (every TypeSpec gets an entry of
   its own), acbca51 (methods whose receiver type has no entry yet are kept pending and
   attached after the walk; an entry is created for a receiver type the file never
   declares), db50c6c (declarations without body), 001a2f6 (every name of a grouped field /
   parameter), fbe1dca (statements of if / else / block statements).
   The visitor is an ast.Inspect pre-order walk; the model keeps its observable state:
   dsMap (type name -> its own cell), the pending methods, the members.
   The file name is fixed by the harness to "demo.go", hence FullName = "" and
   currentPackage.Name = "".  Positions are not modelled. *)
From Coq Require Import String List Bool Arith Ascii.
From Coca Require Import Lib.Str Lib.GoMap.
Import ListNotations.
Open Scope list_scope.
Open Scope string_scope.

(* ------------------------------------------------------------------ abstract Go file *)
Inductive gtype : Type :=
| TId (n : string)             (* T            *)
| TStar (n : string)           (* *T           *)
| TSel (p n : string)          (* p.T          *)
| TStarSel (p n : string)      (* *p.T         *)
| TArr (n : string)            (* []T          *)
| TArrSel (p n : string)       (* []p.T        *)
| TEmpty                       (* interface{} and every other interface type written in place *)
| TInline.                     (* struct { ... } written in place: BuildPropertyField has no case for it *)

(* a field / parameter group: "a, b T" has two names, "T" alone (embedded field, unnamed
   parameter) has none *)
Record gparam := mkGParam { gp_names : list string; gp_type : gtype }.

Inductive gatom : Type :=
| AId (n : string) | AStr (s : string) | AInt (s : string) | ASel (x n : string).

(* x.f(args) ; x = "" is the local call f(args) *)
Record gcall := mkGCall { gc_x : string; gc_f : string; gc_args : list gatom }.

Inductive gexpr : Type := XAtom (a : gatom) | XCall (c : gcall).
Inductive glhs : Type := LId (n : string) | LSel (x n : string).

Inductive gstmt : Type :=
| SExpr (c : gcall)                               (* x.f(args)                      *)
| SDefer (c : gcall)                              (* defer x.f(args)                *)
| SAssign (lhs : list glhs) (rhs : list gexpr)    (* a, b := e  /  x.a = e          *)
| SReturn (rs : list gexpr)                       (* return e, ...                  *)
| SIf (body els : list gstmt)                     (* if cond { body } [else { els } | else if ...] *)
| SBlock (body : list gstmt)                      (* { body }                       *)
| SCallLit (c : gcall) (body : list gstmt).       (* x.f(args, func() { body })     *)

Record grecv := mkGRecv { rv_var : string; rv_type : string; rv_ptr : bool }.
Record gimethod := mkGIM { im_name : string; im_params : list gparam; im_results : list gparam }.

Inductive gdecl : Type :=
| DStruct (name : string) (fields : list gparam)
| DIface (name : string) (methods : list gimethod)
| DType (name : string) (t : gtype)
| DFunc (recv : option grecv) (name : string) (params results : list gparam)
        (body : option (list gstmt)).       (* None: declaration without body *)

Record gfile := mkGFile {
  gf_pkg : string;
  gf_imports : list (string * string);      (* (alias or "", path) *)
  gf_decls : list gdecl }.

(* ------------------------------------------------------------------ observable result *)
Definition p3 : Type := (string * string * string)%type.   (* ParamName, TypeType, TypeValue *)
Definition p3_name (p : p3) : string := fst (fst p).
Definition p3_tt (p : p3) : string := snd (fst p).
Definition p3_tv (p : p3) : string := snd p.

Record oprop := mkOProp {
  op_name : string; op_tt : string; op_tv : string;
  op_params : list p3; op_results : list p3 }.

Record ocall := mkOCall { oc_pkg : string; oc_type : string; oc_node : string; oc_fn : string }.

Record ofunc := mkOFunc {
  of_name : string; of_params : list p3; of_returns : list p3; of_calls : list ocall }.

Record ods := mkODs {
  od_name : string; od_pkg : string; od_props : list oprop; od_funcs : list ofunc;
  od_fcalls : list (string * string) }.      (* FunctionCalls: (Package, NodeName) *)

Record omember := mkOMember { om_dsid : string; om_type : string; om_funcs : list ofunc }.

Record ofile := mkOFile {
  o_pkg : string;
  o_imports : list (string * string);        (* (Source, AsName) *)
  o_dss : list ods;
  o_members : list omember }.

Inductive gresult : Type := GOk (f : ofile) | GPanic (cls : string).

Definition nil_deref : string := "nil pointer dereference".

(* ------------------------------------------------------------------ BuildImport *)
Definition default_module : string := "github.com/modernizing/coca".

Definition import_source (path : string) : string :=
  let without := replace_all default_module "" path in
  let all := replace_all "/" "." without in
  if has_prefix "." all then drop 1 all else all.

Definition build_import (i : string * string) : string * string :=
  (import_source (snd i), fst i).

(* ------------------------------------------------------------------ BuildPropertyField *)
Definition type_tt_tv (t : gtype) : string * string :=
  match t with
  | TId n => ("Identify", n)
  | TStar n => ("Star", n)
  | TSel p n => ("", p ++ "." ++ n)
  | TStarSel p n => ("Star", p ++ "." ++ n)
  | TArr n => ("ArrayType", n)
  | TArrSel p n => ("ArrayType", p ++ "." ++ n)
  | TEmpty => ("interface{}", "interface{}")
  | TInline => ("", "")
  end.

(* the names a group is listed under: getFieldName (the first name, "" for an embedded field or
   unnamed parameter) followed by Names[1:] *)
Definition group_names (p : gparam) : list string :=
  match gp_names p with [] => [""] | ns => ns end.

(* BuildFieldToProperty: one property per name of every ast.Field *)
Definition prop3s_of_param (p : gparam) : list p3 :=
  let '(ty, tv) := type_tt_tv (gp_type p) in map (fun n => (n, ty, tv)) (group_names p).

Definition prop3s_of_params (ps : list gparam) : list p3 := flat_map prop3s_of_param ps.

Definition oprops_of_field (p : gparam) : list oprop :=
  let '(ty, tv) := type_tt_tv (gp_type p) in map (fun n => mkOProp n ty tv [] []) (group_names p).

Definition oprop_of_imethod (m : gimethod) : oprop :=
  mkOProp (im_name m) "Function" "func"
          (prop3s_of_params (im_params m)) (prop3s_of_params (im_results m)).

(* ------------------------------------------------------------------ getPackageName
   (identCodeMembers = nil, currentPackage.Name = "") *)
Definition get_package_name (target : string) (imports : list (string * string)) : string :=
  let by_suffix :=
    if contains target "." then
      let s0 := hd "" (split "." target) in
      if existsb (fun imp => has_suffix s0 (fst imp)) imports then Some s0 else None
    else None in
  match by_suffix with
  | Some s => s
  | None => if existsb (fun imp => String.eqb (fst imp) target) imports then target else ""
  end.

(* ------------------------------------------------------------------ identifier resolution
   (go/parser resolves file-scope objects: top-level types and functions other than init;
   the generators never call a parameter or local variable) *)
Definition scope_of_decl (d : gdecl) : list (string * string) :=
  match d with
  | DStruct n _ => [(n, "type")]
  | DIface n _ => [(n, "type")]
  | DType n _ => [(n, "type")]
  | DFunc None n _ _ _ => if String.eqb n "init" then [] else [(n, "func")]
  | DFunc (Some _) _ _ _ _ => []
  end.

Definition file_scope (ds : list gdecl) : list (string * string) := flat_map scope_of_decl ds.

Definition ident_kind (scope : list (string * string)) (n : string) : string :=
  match mget scope n with Some k => k | None => "" end.

(* ------------------------------------------------------------------ BuildExpr *)
Definition sel_args (args : list gatom) : list string :=
  flat_map (fun a => match a with ASel x n => [x ++ "." ++ n] | _ => [] end) args.

Definition call_value (c : gcall) : string :=
  if String.eqb (gc_x c) "" then gc_f c else gc_x c.

Definition build_atom (scope : list (string * string)) (a : gatom) : p3 :=
  match a with
  | AId n => ("ident", n, ident_kind scope n)
  | AStr s => ("basiclit", dquote ++ s ++ dquote, "STRING")
  | AInt s => ("basiclit", s, "INT")
  | ASel x n => ("selector", x, n)
  end.

Definition build_expr (scope : list (string * string)) (e : gexpr) : p3 :=
  match e with
  | XAtom a => build_atom scope a
  | XCall c => ("call", call_value c, join "," (sel_args (gc_args c)))
  end.

(* BuildExpr(expr.Fun) *)
Definition fun_expr (scope : list (string * string)) (c : gcall) : p3 :=
  if String.eqb (gc_x c) "" then ("ident", gc_f c, ident_kind scope (gc_f c))
  else ("selector", gc_x c, gc_f c).

(* ------------------------------------------------------------------ ParseTarget
   localVars are (TypeType, TypeValue); file.Fields is empty (no top-level var specs) *)
Definition parse_target (selector : string) (params : list p3) (lvs : list (string * string)) : string :=
  match find (fun p => String.eqb (p3_name p) selector) params with
  | Some p => p3_tv p
  | None =>
    match find (fun lv => String.eqb selector (snd lv)) lvs with
    | Some lv => fst lv
    | None => selector
    end
  end.

(* ------------------------------------------------------------------ BuildCallFromExpr *)
Definition build_call (scope : list (string * string)) (pkg : string) (imports : list (string * string))
           (params : list p3) (lvs : list (string * string)) (c : gcall) : ocall :=
  let '(_, selector, sel_name) := fun_expr scope c in
  let target := parse_target selector params lvs in
  let p := get_package_name target imports in
  mkOCall (if String.eqb p "" then pkg else p) target selector sel_name.

(* ------------------------------------------------------------------ BuildLocalVars *)
Definition lhs_name (l : glhs) : string := match l with LId n => n | LSel _ _ => "" end.

Definition assign_vars (scope : list (string * string)) (lhs : list glhs) (rhs : list gexpr)
  : list (string * string) :=
  flat_map (fun lh => map (fun e => (p3_tv (build_expr scope e), lhs_name lh)) rhs) lhs.

Definition assign_calls (scope : list (string * string)) (imports : list (string * string))
           (lhs : list glhs) (rhs : list gexpr) : list ocall :=
  flat_map (fun lh =>
    flat_map (fun e =>
      let '(typ, expr_name, _) := build_expr scope e in
      if String.eqb typ "call" then
        let p := get_package_name expr_name imports in
        if String.eqb p "" then [] else [mkOCall p "" expr_name ""]
      else []) rhs) lhs.

(* ------------------------------------------------------------------ ReturnStmt branch *)
Definition return_calls (scope : list (string * string)) (imports : list (string * string))
           (params : list p3) (lvs : list (string * string)) (rs : list gexpr) : list ocall :=
  flat_map (fun e =>
    let '(typ, caller, callee) := build_expr scope e in
    if String.eqb typ "call" then
      flat_map (fun p =>
        if String.eqb (p3_name p) caller then
          let target := parse_target caller params lvs in
          [mkOCall (get_package_name target imports) "" target callee]
        else []) params
    else []) rs.

(* ------------------------------------------------------------------ what BuildMethodCall hands back
   Besides filing the calls of a statement, BuildMethodCall RETURNS a CodeCall: the deferred call of a defer statement,
   the last call a return statement filed, the zero value otherwise.  Only the walk over a function literal looks at
   it -- and files it once more when its NodeName is not empty. *)
Definition stmt_result (scope : list (string * string)) (pkg : string) (imports : list (string * string))
           (params : list p3) (lvs : list (string * string)) (s : gstmt) : option ocall :=
  match s with
  | SDefer c => Some (build_call scope pkg imports params lvs c)
  | SReturn rs => let l := return_calls scope imports params lvs rs in nth_error l (List.length l - 1)
  | _ => None
  end.

Definition refile (r : option ocall) (cs : list ocall) : list ocall :=
  match r with
  | Some c => if String.eqb (oc_node c) "" then cs else (cs ++ [c])%list
  | None => cs
  end.

(* ------------------------------------------------------------------ BuildMethodCall / BuildFunction
   IfStmt: the body block, then the else branch (a block or another if); BlockStmt: its
   statements -- all with the function's localVars threaded through; a call statement whose last
   argument is a function literal: BuildCallFromExpr walks the literal's statements (their calls are
   calls of the function), then the call itself is filed *)
Fixpoint stmt_step (scope : list (string * string)) (pkg : string) (imports : list (string * string))
         (params : list p3) (s : gstmt) (acc : list (string * string) * list ocall)
  : list (string * string) * list ocall :=
  let steps := fix steps (l : list gstmt) (a : list (string * string) * list ocall) :=
                 match l with
                 | [] => a
                 | x :: r => steps r (stmt_step scope pkg imports params x a)
                 end in
  (* the statements of a function literal passed as an argument: each one sees the localVars of the call statement
     (what it declares is dropped) and the package the call was filed under as the current package; the call
     BuildMethodCall hands back is filed once more (refile: open finding D-C20-lit-defer) *)
  let lit := fix lit (pk : string) (lv : list (string * string)) (l : list gstmt) (cs : list ocall) : list ocall :=
               match l with
               | [] => cs
               | x :: r => lit pk lv r (refile (stmt_result scope pk imports params lv x)
                                               (snd (stmt_step scope pk imports params x (lv, cs))))
               end in
  match s with
  | SCallLit c body =>
    let call := build_call scope pkg imports params (fst acc) c in
    (fst acc, (lit (oc_pkg call) (fst acc) body (snd acc) ++ [call])%list)
  | SExpr c => (fst acc, (snd acc ++ [build_call scope pkg imports params (fst acc) c])%list)
  | SDefer c => (fst acc, (snd acc ++ [build_call scope pkg imports params (fst acc) c])%list)
  | SAssign lhs rhs => (assign_vars scope lhs rhs, (snd acc ++ assign_calls scope imports lhs rhs)%list)
  | SReturn rs => (fst acc, (snd acc ++ return_calls scope imports params (fst acc) rs)%list)
  | SIf body els => steps els (steps body acc)
  | SBlock body => steps body acc
  end.

Definition stmts_step (scope : list (string * string)) (pkg : string) (imports : list (string * string))
           (params : list p3) (l : list gstmt) (acc : list (string * string) * list ocall)
  : list (string * string) * list ocall :=
  fold_left (fun a x => stmt_step scope pkg imports params x a) l acc.

(* a declaration without body has no statements *)
Definition build_function (scope : list (string * string)) (pkg : string) (imports : list (string * string))
           (name : string) (params results : list gparam) (body : option (list gstmt)) : ofunc :=
  let ps := prop3s_of_params params in
  let rets := match results with [] => [] | _ => (ps ++ prop3s_of_params results)%list end in
  let lv0 := map (fun p => (p3_name p, p3_tv p)) ps in
  mkOFunc name ps rets
          (snd (stmts_step scope pkg imports ps (match body with Some b => b | None => [] end) (lv0, []))).

(* ------------------------------------------------------------------ the visitor *)
Record vstate := mkV {
  v_map : gomap ods;                      (* dsMap: type name -> its own cell *)
  v_pending : gomap (list ofunc);         (* pendingMethods *)
  v_members : list omember }.

Definition empty_ds : ods := mkODs "" "" [] [] [].
Definition vstate0 : vstate := mkV [] [] [].

Definition with_funcs (c : ods) (fs : list ofunc) : ods :=
  mkODs (od_name c) (od_pkg c) (od_props c) fs (od_fcalls c).

(* AddStructType: one FunctionCalls entry per ast.Field (group), built from its first property *)
Definition fcall_of_field (imports : list (string * string)) (p : gparam) : string * string :=
  let tv := snd (type_tt_tv (gp_type p)) in (get_package_name tv imports, tv).

(* the cell a type declaration leaves in dsMap, and the member it adds *)
Definition type_cell (pkg : string) (imports : list (string * string)) (d : gdecl) : ods :=
  match d with
  | DStruct n fields => mkODs n pkg (flat_map oprops_of_field fields) [] (map (fcall_of_field imports) fields)
  | DIface n [] => mkODs n pkg [] [] []
  | DIface n ms => mkODs n "" (map oprop_of_imethod ms) [] []     (* AddInterface: no Package *)
  | DType n _ => mkODs n pkg [] [] []
  | DFunc _ _ _ _ _ => empty_ds
  end.

Definition type_members (d : gdecl) : list omember :=
  match d with
  | DStruct n _ => [mkOMember n "struct" []]
  | DIface n (_ :: _) => [mkOMember n "interface" []]
  | _ => []
  end.

(* the effects of one top-level declaration, in ast.Inspect order *)
Definition decl_step (scope : list (string * string)) (pkg : string) (imports : list (string * string))
           (st : vstate) (d : gdecl) : vstate :=
  match d with
  | DFunc recv name params results body =>
    let f := build_function scope pkg imports name params results body in
    match recv with
    | None => mkV (v_map st) (v_pending st) (v_members st ++ [mkOMember "default" "method" [f]])%list
    | Some r =>
      match mget (v_map st) (rv_type r) with
      | Some c => mkV (mput (v_map st) (rv_type r) (with_funcs c (od_funcs c ++ [f])%list))
                      (v_pending st) (v_members st)
      | None => mkV (v_map st)
                    (mput (v_pending st) (rv_type r) (mget_d [] (v_pending st) (rv_type r) ++ [f])%list)
                    (v_members st)
      end
    end
  | DStruct n _ | DIface n _ | DType n _ =>
    (* TypeSpec: dsMap[n] = a fresh cell; StructType / InterfaceType fill or replace it *)
    mkV (mput (v_map st) n (type_cell pkg imports d)) (v_pending st) (v_members st ++ type_members d)%list
  end.

Definition visit (scope : list (string * string)) (pkg : string) (imports : list (string * string))
           (ds : list gdecl) (st : vstate) : vstate :=
  fold_left (decl_step scope pkg imports) ds st.

(* after the walk: for recv, methods := range pendingMethods { ... } *)
Definition attach_pending (pkg : string) (m : gomap ods) (e : string * list ofunc) : gomap ods :=
  match mget m (fst e) with
  | None => mput m (fst e) (mkODs (fst e) pkg [] (snd e) [])
  | Some c => mput m (fst e) (with_funcs c (od_funcs c ++ snd e)%list)
  end.

Definition finalize (pkg : string) (pending : gomap (list ofunc)) (m : gomap ods) : gomap ods :=
  fold_left (attach_pending pkg) pending m.

(* SortInterface: radix sort by NodeName (bytewise); modelled by a stable insertion sort, the
   check compares the list of data structures as a multiset *)
Fixpoint str_leb (a b : string) : bool :=
  match a, b with
  | EmptyString, _ => true
  | String _ _, EmptyString => false
  | String c a', String d b' =>
    let x := nat_of_ascii c in let y := nat_of_ascii d in
    if Nat.ltb x y then true else if Nat.ltb y x then false else str_leb a' b'
  end.

Fixpoint insert_ds (x : ods) (l : list ods) : list ods :=
  match l with
  | [] => [x]
  | y :: r => if str_leb (od_name x) (od_name y) then x :: l else y :: insert_ds x r
  end.

Definition sort_dss (l : list ods) : list ods := fold_right insert_ds [] l.

Definition final_map (pkg : string) (st : vstate) : gomap ods := finalize pkg (v_pending st) (v_map st).

(* for _, ds := range dsMap { DataStructures = append(DataStructures, *ds) } *)
Definition go_front (f : gfile) : gresult :=
  let imports := map build_import (gf_imports f) in
  let st := visit (file_scope (gf_decls f)) (gf_pkg f) imports (gf_decls f) vstate0 in
  GOk (mkOFile (gf_pkg f) imports (sort_dss (map snd (final_map (gf_pkg f) st))) (v_members st)).

(* ------------------------------------------------------------------ analysis.CommonAnalysis on a
   directory holding this one file (isFunctionBase = true): the file's data structures followed
   by BuildMethodDs -- one entry per member function whose name starts with an upper-case
   letter.  Observed as (NodeName, names of Functions); packages and calls of these entries
   depend on the directory's path and are not modelled. *)
Definition is_upper_first (s : string) : bool :=
  match s with
  | String c _ => let n := nat_of_ascii c in Nat.leb 65 n && Nat.leb n 90
  | EmptyString => false
  end.

Definition method_ds_names (members : list omember) : list (string * list string) :=
  flat_map (fun m => flat_map (fun fn => if is_upper_first (of_name fn) then [(of_name fn, [])] else [])
                              (om_funcs m)) members.

Definition go_common (r : gresult) : option (list (string * list string)) :=
  match r with
  | GPanic _ => None
  | GOk o => Some (map (fun d => (od_name d, map of_name (od_funcs d))) (o_dss o) ++ method_ds_names (o_members o))%list
  end.
