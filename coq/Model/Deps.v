(* Model of the build-dependency extraction (definitions only):
     pkg/infrastructure/xmlparse/xml_parser.go      ParseXML        (stack machine over xml tokens)
     pkg/application/deps/maven_analysis.go         AnalysisMaven, BuildDeps
     pkg/infrastructure/ast/ast_groovy/groovy_identifier_listener.go
                                                    EnterScriptStatement .. ConvertToJDep
     pkg/application/deps/dep_app.go                DepAnalysisApp.AnalysisPath
   The XML tokenizer (encoding/xml) and the Groovy parser (antlr) are NOT modelled: the
   model starts from the abstract structure the generator renders to text -- an xml
   node tree / a list of build.gradle statements -- and covers what coca's own code does
   with the tokens / parse-tree shapes that structure produces.
   A Go panic is the value [Panic class]. *)
From Coq Require Import String List Ascii Bool Arith.
From Coca Require Import Lib.Str Generated.Constants.
Import ListNotations.
Open Scope list_scope.
Open Scope string_scope.

Inductive res (A : Type) : Type :=
| Ok (a : A)
| Panic (cls : string).
Arguments Ok {A} a.
Arguments Panic {A} cls.

Definition pc_iface : string := "interface conversion".
Definition pc_index : string := "index out of range".
(* harness.panicClass keeps the first 80 bytes of any other message *)
Definition pc_unclosed : string :=
  take 80 "Parse xml error, there is tag no close, please check your xml config!".

(* a declared / extracted dependency: GroupId, ArtifactId, Scope *)
Record dep := mkDep { d_group : string; d_artifact : string; d_scope : string }.

(* ------------------------------------------------------------------ strings *)
(* strings.TrimSpace on ASCII input: \t \n \v \f \r and blank *)
Definition is_space (c : ascii) : bool :=
  let n := nat_of_ascii c in
  Nat.eqb n 32 || (Nat.leb 9 n && Nat.leb n 13).

Fixpoint trim_left (s : string) : string :=
  match s with
  | String c r => if is_space c then trim_left r else s
  | EmptyString => EmptyString
  end.

Fixpoint trim_right (s : string) : string :=
  match s with
  | EmptyString => EmptyString
  | String c r =>
    match trim_right r with
    | EmptyString => if is_space c then EmptyString else String c EmptyString
    | r' => String c r'
    end
  end.

Definition trim_space (s : string) : string := trim_right (trim_left s).

(* strings.ReplaceAll(s, "c", "") for a one-byte pattern *)
Fixpoint remove_char (c : ascii) (s : string) : string :=
  match s with
  | EmptyString => EmptyString
  | String d r => if Ascii.eqb d c then remove_char c r else String d (remove_char c r)
  end.

(* strings.Split(s, "c") for a one-byte separator *)
Fixpoint split_char (c : ascii) (s : string) : list string :=
  match s with
  | EmptyString => [EmptyString]
  | String d r =>
    if Ascii.eqb d c then EmptyString :: split_char c r
    else match split_char c r with
         | h :: t => String d h :: t
         | [] => [String d EmptyString]
         end
  end.

Definition squote_c : ascii := ascii_of_nat 39.
Definition squote : string := String squote_c EmptyString.
Definition coord_sep_c : ascii :=
  match deps_coord_sep with String c _ => c | EmptyString => ascii_of_nat 58 end.

(* ------------------------------------------------------------------ xml: abstract documents *)
(* what the generator renders; attributes are rendered but never read by the code under
   test (only the never-observed ID field), so they are not part of the tree *)
Inductive xnode : Type :=
| XE (name : string) (children : list xnode)   (* <name ...> children </name>  or  <name/> *)
| XT (s : string)                              (* character data (one run) *)
| XD (s : string)                              (* <![CDATA[s]]> *)
| XC (s : string)                              (* <!--s--> *)
| XP (s : string)                              (* <?s?>  (any target but xml) *)
| XX (version encoding : string).              (* <?xml version="V" encoding="E"?>  (E = "" : none) *)

(* encoding/xml tokens as ParseXML's type switch sees them *)
Inductive xtoken : Type :=
| TStart (n : string)
| TEnd (n : string)
| TChar (s : string)
| TComment
| TProcInst
| TDirective.

(* the token stream of a rendered node: an element gives Start .. End (also when rendered
   self-closed), a text run and a CDATA section one CharData token each *)
Fixpoint tokens_of (x : xnode) : list xtoken :=
  match x with
  | XE n cs => (TStart n :: flat_map tokens_of cs ++ [TEnd n])%list
  | XT s => [TChar s]
  | XD s => [TChar s]
  | XC _ => [TComment]
  | XP _ => [TProcInst]
  | XX _ _ => [TProcInst]
  end.

(* The one piece of tokenizer behaviour the model needs: Decoder.Token fails on an XML
   declaration whose version is not 1.0, or whose encoding is neither UTF-8 (compared with
   strings.EqualFold) nor a label ParseXML's CharsetReader (charset.NewReaderLabel, fix for
   C19-pom-encoding) knows; ParseXML's loop then ends, so it sees the tokens before that
   declaration only.  Declarations stand at top level.  The modelled documents are ASCII, so
   only the ASCII-compatible labels are listed: on them the decoded text is the text itself *)
Definition lower_ascii (c : ascii) : ascii :=
  let n := nat_of_ascii c in
  if Nat.leb 65 n && Nat.leb n 90 then ascii_of_nat (n + 32) else c.

Fixpoint lower (s : string) : string :=
  match s with
  | EmptyString => EmptyString
  | String c r => String (lower_ascii c) (lower r)
  end.

Definition ascii_charsets : list string :=
  ["utf-8"; "iso-8859-1"; "latin1"; "us-ascii"; "ascii"; "windows-1252"; "cp1252";
   "iso-8859-15"; "iso-8859-2"; "windows-1250"; "windows-1251"; "koi8-r"; "gbk"; "gb2312";
   "gb18030"; "big5"; "shift_jis"; "euc-jp"; "euc-kr"].

Definition decl_supported (version encoding : string) : bool :=
  (String.eqb version "" || String.eqb version "1.0") &&
  (String.eqb encoding "" || existsb (String.eqb (lower encoding)) ascii_charsets).

Fixpoint readable (doc : list xnode) : list xnode :=
  match doc with
  | [] => []
  | XX v e :: r => if decl_supported v e then XX v e :: readable r else []
  | x :: r => x :: readable r
  end.

Definition doc_tokens (doc : list xnode) : list xtoken := flat_map tokens_of (readable doc).

(* ------------------------------------------------------------------ ParseXML *)
(* XMLNode{Name, Elements}; element{Val: XMLNode | string} *)
Inductive gelem : Type :=
| GNode (name : string) (els : list gelem)
| GText (s : string).

Definition frame : Type := (string * list gelem)%type.
Definition xstate : Type := (list frame * frame)%type.      (* stack (top first), root *)

Definition xstep (st : xstate) (t : xtoken) : xstate :=
  let '(stack, root) := st in
  match t with
  | TStart n => ((n, []) :: stack, root)
  | TEnd _ =>
    match stack with
    | [] => st
    | (n, els) :: rest =>
      match rest with
      | [] => ([], (n, els))
      | (pn, pels) :: rest' => ((pn, (pels ++ [GNode n els])%list) :: rest', root)
      end
    end
  | TChar s =>
    match stack with
    | [] => st
    | (n, els) :: rest =>
      let content := trim_space s in
      if String.eqb content "" then st else ((n, (els ++ [GText content])%list) :: rest, root)
    end
  | TComment | TProcInst | TDirective => st
  end.

Definition xstate0 : xstate := ([], ("", [])).

Definition parse_xml (toks : list xtoken) : res frame :=
  let '(stack, root) := fold_left xstep toks xstate0 in
  match stack with
  | [] => Ok root
  | _ => Panic pc_unclosed
  end.

(* ------------------------------------------------------------------ BuildDeps / AnalysisMaven *)
(* for _, textNode := range node.Elements { field += textNode.Val.(string) } *)
Fixpoint last_text (els : list gelem) (cur : string) : res string :=
  match els with
  | [] => Ok cur
  | GText s :: r => last_text r (cur ++ s)
  | GNode _ _ :: _ => Panic pc_iface
  end.

(* the loop over the children of one <dependency> *)
Fixpoint dep_fields (els : list gelem) (d : dep) : res dep :=
  match els with
  | [] => Ok d
  | GText _ :: _ => Panic pc_iface
  | GNode name sub :: r =>
    let step1 :=
      if String.eqb name "groupId" then
        match last_text sub (d_group d) with
        | Ok g => Ok (mkDep g (d_artifact d) (d_scope d))
        | Panic c => Panic c
        end
      else Ok d in
    match step1 with
    | Panic c => Panic c
    | Ok d1 =>
      let step2 :=
        if String.eqb name "artifactId" then
          match last_text sub (d_artifact d1) with
          | Ok a => Ok (mkDep (d_group d1) a (d_scope d1))
          | Panic c => Panic c
          end
        else Ok d1 in
      match step2 with
      | Panic c => Panic c
      | Ok d2 =>
        let step3 :=
          if String.eqb name "scope" then
            match last_text sub (d_scope d2) with
            | Ok s => Ok (mkDep (d_group d2) (d_artifact d2) s)
            | Panic c => Panic c
            end
          else Ok d2 in
        match step3 with
        | Panic c => Panic c
        | Ok d3 => dep_fields r d3
        end
      end
    end
  end.

Fixpoint build_deps (els : list gelem) : res (list dep) :=
  match els with
  | [] => Ok []
  | GText _ :: _ => Panic pc_iface
  | GNode _ sub :: r =>
    match dep_fields sub (mkDep "" "" "") with
    | Panic c => Panic c
    | Ok d =>
      match build_deps r with
      | Panic c => Panic c
      | Ok ds => Ok (d :: ds)
      end
    end
  end.

(* the loop over the children of the root element: the first one named "dependencies" *)
Fixpoint analysis_root (els : list gelem) : res (list dep) :=
  match els with
  | [] => Ok []
  | GText _ :: _ => Panic pc_iface
  | GNode name sub :: r =>
    if String.eqb name deps_pom_block then build_deps sub else analysis_root r
  end.

Definition analysis_maven (doc : list xnode) : res (list dep) :=
  match parse_xml (doc_tokens doc) with
  | Panic c => Panic c
  | Ok root => analysis_root (snd root)
  end.

(* ------------------------------------------------------------------ build.gradle *)
(* a statement of a top-level block, as rendered by the generator *)
Inductive quote := QSingle | QDouble.

Inductive gstmt : Type :=
| GStr (cfg : string) (q : quote) (paren closure : bool) (g a v : string)
      (* cfg 'g:a:v'   cfg "g:a:v"   cfg('g:a:v')   cfg('g:a:v') { exclude ... }   (v = "" : no version) *)
| GMap (cfg : string) (paren : bool) (g a v : string)
      (* cfg group: 'g', name: 'a', version: 'v'     cfg(group: 'g', name: 'a', version: 'v') *)
| GCall (cfg : string) (paren : bool) (fname : string) (args : list (string * string))
      (* cfg project(':x')   cfg fileTree(dir: 'libs', include: '*.jar')   cfg(project(':x'))  ... *)
| GComment (s : string).   (* // s *)

Inductive gitem : Type :=
| GBlock (name : string) (stmts : list gstmt)     (* name { stmts } *)
| GOther (text : string).                         (* any other top-level statement (opaque) *)

Definition quote_str (q : quote) : string :=
  match q with QSingle => squote | QDouble => dquote end.

Definition coord (g a v : string) : string :=
  if String.eqb v "" then g ++ deps_coord_sep ++ a else g ++ deps_coord_sep ++ a ++ deps_coord_sep ++ v.

(* ConvertToJDep: strip single and double quotes, split on ':', take parts 0 and 1 *)
Definition strip_quotes (text : string) : string :=
  remove_char c_dquote (remove_char squote_c text).

Definition convert_to_jdep (text : string) : res dep :=
  match split_char coord_sep_c (strip_quotes text) with
  | g :: a :: _ => Ok (mkDep g a "")
  | _ => Panic pc_index
  end.

(* one iteration of buildBlockStatements: Ok None = nothing appended.
   Only an argument that is nothing but a string literal (stringLiteralText) is converted:
   map entries, method calls (project, fileTree, platform, files, gradleApi ..) -- plain or
   parenthesised -- leave result nil. *)
Definition stmt_dep (s : gstmt) : res (option dep) :=
  match s with
  | GComment _ => Ok None
  | GStr cfg q _ _ g a v =>
    (* parenthesised: ConvertToJDep(text of the argument); plain: BuildDependency on the
       string literal -- the same text, quotes included *)
    match convert_to_jdep (quote_str q ++ coord g a v ++ quote_str q) with
    | Ok d => Ok (Some (mkDep (d_group d) (d_artifact d) cfg))
    | Panic c => Panic c
    end
  | GMap _ _ _ _ _ => Ok None
  | GCall _ _ _ _ => Ok None
  end.

Definition is_comment (s : gstmt) : bool :=
  match s with GComment _ => true | _ => false end.

Fixpoint block_loop (stmts : list gstmt) : res (list dep) :=
  match stmts with
  | [] => Ok []
  | s :: r =>
    match stmt_dep s with
    | Panic c => Panic c
    | Ok od =>
      match block_loop r with
      | Panic c => Panic c
      | Ok ds => Ok (match od with Some d => d :: ds | None => ds end)
      end
    end
  end.

(* buildBlockStatements: BlockStatementsOpt().BlockStatements() is nil for a closure without
   statements; the (nil) result list is returned at once *)
Definition build_block_statements (stmts : list gstmt) : res (list dep) :=
  if forallb is_comment stmts then Ok [] else block_loop stmts.

(* the walk over the script statements: every block named "dependencies" appends to
   nodeDeps; every other top-level statement leaves it alone *)
Fixpoint gradle_walk (items : list gitem) (node_deps : list dep) : res (list dep) :=
  match items with
  | [] => Ok node_deps
  | GOther _ :: r => gradle_walk r node_deps
  | GBlock name stmts :: r =>
    if String.eqb name deps_gradle_block then
      match build_block_statements stmts with
      | Panic c => Panic c
      | Ok ds => gradle_walk r (node_deps ++ ds)%list
      end
    else gradle_walk r node_deps
  end.

Definition analysis_gradle (items : list gitem) : res (list dep) := gradle_walk items [].

(* ------------------------------------------------------------------ DepAnalysisApp.AnalysisPath *)
(* needRemoveMap: the indices of the dependencies whose GroupId is a substring of an import *)
Definition dep_used (imports : list string) (d : dep) : bool :=
  existsb (fun imp => contains imp (d_group d)) imports.

Fixpoint need_remove (i : nat) (ds : list dep) (imports : list string) : list nat :=
  match ds with
  | [] => []
  | d :: r => if dep_used imports d then i :: need_remove (S i) r imports
              else need_remove (S i) r imports
  end.

Fixpoint keep_unmarked (i : nat) (ds : list dep) (marked : list nat) : list dep :=
  match ds with
  | [] => []
  | d :: r => if existsb (Nat.eqb i) marked then keep_unmarked (S i) r marked
              else d :: keep_unmarked (S i) r marked
  end.

Definition unused_of (ds : list dep) (imports : list string) : list dep :=
  keep_unmarked 0 ds (need_remove 0 ds imports).

(* a project: the pom (if any), the build.gradle (if any), the imports of its Java files *)
Record project := mkProject {
  p_pom : option (list xnode);
  p_gradle : option (list gitem);
  p_imports : list string
}.

Definition analysis_path (p : project) : res (list dep) :=
  let m := match p_pom p with Some doc => analysis_maven doc | None => Ok [] end in
  match m with
  | Panic c => Panic c
  | Ok md =>
    let g := match p_gradle p with Some items => analysis_gradle items | None => Ok [] end in
    match g with
    | Panic c => Panic c
    | Ok gd => Ok (unused_of (md ++ gd)%list (p_imports p))
    end
  end.
