(* Independent statement of C17 -- every TODO/FIXME comment is reported once with its line;
   nothing else is.

   The case input is ABSTRACT: every file is a sequence of items (code text, string literal,
   template string, character literal, single-quoted string, line comment, block comment,
   unterminated block comment, hash comment), each with its body; the file text is the
   concatenation of the rendered items.  The expected report is computed from the items alone
   (no lexer involved) and compared with the OBSERVED report.  This file does not use Model/Todo.v. *)
From Coq Require Import String List Bool Arith Ascii.
From Coca Require Import Lib.Str Lib.Scan.
Import ListNotations.
Open Scope list_scope.
Open Scope string_scope.

(* ------------------------------------------------------------------ abstract input *)
Inductive ikind := ICode | IStr | ITpl | IChr | ISq | ILine | IBlock | IUBlock | IHash.

Record item := mkItem { it_kind : ikind; it_body : string }.

Definition a_squote : string := String (ascii_of_nat 39) EmptyString.
Definition a_btick : string := String (ascii_of_nat 96) EmptyString.

Definition render (k : ikind) (body : string) : string :=
  match k with
  | ICode => body
  | IStr => dquote ++ body ++ dquote
  | ITpl => a_btick ++ body ++ a_btick
  | IChr => a_squote ++ body ++ a_squote
  | ISq => a_squote ++ body ++ a_squote
  | ILine => "//" ++ body
  | IBlock => "/*" ++ body ++ "*/"
  | IUBlock => "/*" ++ body
  | IHash => "#" ++ body
  end.

Definition render_item (it : item) : string := render (it_kind it) (it_body it).

Fixpoint render_items (l : list item) : string :=
  match l with
  | [] => ""
  | it :: r => render_item it ++ render_items r
  end.

(* a walked path: a source file (items + the text that was written to disk) or a directory *)
Record afile := mkAFile { af_name : string; af_dir : bool; af_items : list item; af_text : string }.

(* ------------------------------------------------------------------ reading one comment *)
(* blanks: space, \t, \n, \v, \f, \r *)
Definition blank (c : ascii) : bool :=
  let n := nat_of_ascii c in Nat.eqb n 32 || Nat.eqb n 9 || Nat.eqb n 10 || Nat.eqb n 11 || Nat.eqb n 12 || Nat.eqb n 13.

Fixpoint drop_while (p : ascii -> bool) (l : list ascii) : list ascii :=
  match l with
  | c :: r => if p c then drop_while p r else l
  | [] => []
  end.

(* the text without the blanks at both ends *)
Definition strip (s : string) : string :=
  unchars (rev (drop_while blank (rev (drop_while blank (chars s))))).

Definition lower (c : ascii) : ascii :=
  let n := nat_of_ascii c in if Nat.leb 65 n && Nat.leb n 90 then ascii_of_nat (n + 32) else c.

(* [p] (lower case) matched at the head of s in any letter case: the rest of s *)
Fixpoint ci_prefix (p s : string) : option string :=
  match p with
  | EmptyString => Some s
  | String a p' =>
    match s with
    | String b s' => if Ascii.eqb a (lower b) then ci_prefix p' s' else None
    | EmptyString => None
    end
  end.

(* the text begins with TODO or FIXME: what follows the keyword *)
Definition after_keyword (s : string) : option string :=
  match ci_prefix "todo" s with
  | Some r => Some r
  | None => ci_prefix "fixme" s
  end.

Fixpoint skip_blanks (s : string) : string :=
  match s with
  | String c r => if blank c then skip_blanks r else s
  | EmptyString => EmptyString
  end.

Fixpoint skip_colons (s : string) : string :=
  match s with
  | String c r => if Ascii.eqb c ":"%char then skip_colons r else s
  | EmptyString => EmptyString
  end.

(* blanks, colons, blanks *)
Definition skip_sep (s : string) : string := skip_blanks (skip_colons (skip_blanks s)).

(* characters of an assignee name: letters, digits, _ and blank . + - @ *)
Definition name_char (c : ascii) : bool :=
  let n := nat_of_ascii c in
  (Nat.leb 48 n && Nat.leb n 57) || (Nat.leb 65 n && Nat.leb n 90) || (Nat.leb 97 n && Nat.leb n 122) ||
  Nat.eqb n 95 || Nat.eqb n 32 || Nat.eqb n 46 || Nat.eqb n 43 || Nat.eqb n 45 || Nat.eqb n 64.

(* "(name)" at the head: (name, what follows the separator after it); otherwise no assignee *)
Definition split_assignee (s : string) : string * string :=
  match s with
  | String c r =>
    if Ascii.eqb c "("%char then
      let '(a, b) := span name_char r in
      match a, b with
      | String _ _, String d r2 => if Ascii.eqb d ")"%char then (a, skip_sep r2) else ("", s)
      | _, _ => ("", s)
      end
    else ("", s)
  | EmptyString => ("", s)
  end.

(* messages are compared as sequences of words (maximal runs of non-blank characters) *)
Fixpoint words_from (s : string) (cur : string) : list string :=
  match s with
  | EmptyString => match cur with EmptyString => [] | _ => [cur] end
  | String c r =>
    if blank c then
      match cur with
      | EmptyString => words_from r ""
      | _ => cur :: words_from r ""
      end
    else words_from r (cur ++ String c EmptyString)
  end.

Definition words (s : string) : list string := words_from s "".

(* the documented normalisation of a message (DESIGN 7/C17, reading): the closing marker of a
   block comment and every star -- the decoration of continuation lines included -- count as
   blanks; messages are compared after it, as sequences of words, on both sides *)
Fixpoint unstar (s : string) : string :=
  match s with
  | EmptyString => EmptyString
  | String a r =>
    if Ascii.eqb a "*"%char then
      match r with
      | String b r2 => if Ascii.eqb b "/"%char then String " "%char (unstar r2) else String " "%char (unstar r)
      | EmptyString => String " "%char EmptyString
      end
    else String a (unstar r)
  end.

Definition message_words (m : string) : list string := words (unstar m).

(* the comments the property speaks about; a block comment that is still open at the end of
   the file is not one of them (only "no crash" is required of it, see [items_verdict]) *)
Definition is_comment (k : ikind) : bool :=
  match k with ILine | IBlock | IHash => true | _ => false end.

(* what the report must say about a comment with this body: nothing, or (assignee, message) *)
Definition read_comment (k : ikind) (body : string) : option (string * string) :=
  match after_keyword (strip body) with
  | None => None
  | Some rest => Some (split_assignee (skip_sep rest))
  end.

(* ------------------------------------------------------------------ expected report of a file *)
Fixpoint count_newlines (s : string) : nat :=
  match s with
  | String c r => (if Ascii.eqb c c_nl then 1 else 0) + count_newlines r
  | EmptyString => 0
  end.

(* (line, assignee, message) of every item that must be reported; [line] = line of the first item *)
Fixpoint expected_rows (items : list item) (line : nat) : list (nat * string * string) :=
  match items with
  | [] => []
  | it :: r =>
    let rest := expected_rows r (line + count_newlines (render_item it)) in
    if is_comment (it_kind it) then
      match read_comment (it_kind it) (it_body it) with
      | Some (a, m) => (line, a, m) :: rest
      | None => rest
      end
    else rest
  end.

(* ------------------------------------------------------------------ verdict *)
Record orow := mkRow { o_file : string; o_line : nat; o_assignee : string; o_message : string }.

Definition rev_string (s : string) : string := unchars (rev (chars s)).

(* name = base ++ ext *)
Definition ends_with (ext name : string) : bool := has_prefix (rev_string ext) (rev_string name).

Definition file_selected (exts : list string) (name : string) : bool :=
  existsb (fun e => ends_with e name) exts.

Definition count_line {A : Type} (line_of : A -> nat) (n : nat) (l : list A) : nat :=
  List.length (filter (fun x => Nat.eqb (line_of x) n) l).

Definition words_eqb (a b : list string) : bool :=
  Nat.eqb (List.length a) (List.length b) && forallb (fun p => String.eqb (fst p) (snd p)) (combine a b).

Definition exp_line (e : nat * string * string) : nat := fst (fst e).

Fixpoint zip_rows (name : string) (es : list (nat * string * string)) (os : list orow) : list string :=
  match es, os with
  | e :: es', o :: os' =>
    ((if Nat.eqb (exp_line e) (o_line o) then [] else [("line:" ++ name)%string]) ++
     (if String.eqb (snd (fst e)) (o_assignee o) then [] else [("assignee:" ++ name)%string]) ++
     (if words_eqb (message_words (snd e)) (message_words (o_message o)) then [] else [("message:" ++ name)%string]) ++
     zip_rows name es' os')%list
  | _, _ => []
  end.

(* same assignee and same words, position by position *)
Fixpoint same_texts (es : list (nat * string * string)) (os : list orow) : bool :=
  match es, os with
  | [], [] => true
  | e :: es', o :: os' =>
    String.eqb (snd (fst e)) (o_assignee o) && words_eqb (message_words (snd e)) (message_words (o_message o)) && same_texts es' os'
  | _, _ => false
  end.

(* rows are matched by line: an expected row without an observed row on its line is missing, an
   observed row without an expected row on its line is extra; when only the line numbers differ
   (same number of rows, same texts in order) the clause is "line"; matched rows are compared *)
Definition file_verdict (name : string) (es : list (nat * string * string)) (os : list orow) : list string :=
  let missing := existsb (fun e => Nat.ltb (count_line o_line (exp_line e) os) (count_line exp_line (exp_line e) es)) es in
  let extra := existsb (fun o => Nat.ltb (count_line exp_line (o_line o) es) (count_line o_line (o_line o) os)) os in
  if missing || extra then
    if same_texts es os then [("line:" ++ name)%string]
    else ((if missing then [("missing:" ++ name)%string] else []) ++
          (if extra then [("extra:" ++ name)%string] else []))%list
  else zip_rows name es os.

Definition rows_of (name : string) (obs : list orow) : list orow :=
  filter (fun o => String.eqb (o_file o) name) obs.

Definition scanned (exts : list string) (f : afile) : bool :=
  negb (af_dir f) && file_selected exts (af_name f).

(* the line on which a block comment that is never closed starts, if the file has one *)
Fixpoint open_tail_line (items : list item) (line : nat) : option nat :=
  match items with
  | [] => None
  | it :: r =>
    match it_kind it with
    | IUBlock => Some line
    | _ => open_tail_line r (line + count_newlines (render_item it))
    end
  end.

Fixpoint before_open_tail (items : list item) : list item :=
  match items with
  | [] => []
  | it :: r => match it_kind it with IUBlock => [] | _ => it :: before_open_tail r end
  end.

(* the verdict on one scanned file.  Behind a block comment that is never closed the property
   only asks for "no crash": the comments before it must be reported exactly, and whatever else
   is reported must come from the open tail *)
Definition items_verdict (name : string) (items : list item) (os : list orow) : list string :=
  match open_tail_line items 1 with
  | None => file_verdict name (expected_rows items 1) os
  | Some l =>
    let es := expected_rows (before_open_tail items) 1 in
    (file_verdict name es (firstn (List.length es) os) ++
     (if forallb (fun o => Nat.leb l (o_line o)) (skipn (List.length es) os) then []
      else [("extra:" ++ name)%string]))%list
  end.

(* failing clauses; [] = the property holds on this observation *)
Definition c17_verdict (exts : list string) (files : list afile) (crashed : bool) (obs : list orow)
  : list string :=
  if crashed then ["no_crash"] else
  ((if forallb (fun f => af_dir f || String.eqb (render_items (af_items f)) (af_text f)) files
    then [] else ["bad_input"]) ++
   (if forallb (fun o => existsb (fun f => scanned exts f && String.eqb (af_name f) (o_file o)) files) obs
    then [] else ["unselected_file"]) ++
   flat_map (fun f => if scanned exts f
                      then items_verdict (af_name f) (af_items f) (rows_of (af_name f) obs)
                      else []) files)%list.

(* ------------------------------------------------------------------ hypotheses of the theorems *)
(* The decidable well-formedness of an item sequence: the segmentation is what it claims to be, in
   the literal shapes the (Java) lexer grammar knows. *)
Definition has_char (p : ascii -> bool) (s : string) : bool := existsb p (chars s).

Definition is_quote_or_hash (c : ascii) : bool :=
  let n := nat_of_ascii c in Nat.eqb n 34 || Nat.eqb n 35 || Nat.eqb n 39 || Nat.eqb n 96.

(* code text: no quote, no hash; a slash is followed (inside the item) by something other than
   a slash or a star *)
Fixpoint code_ok (s : string) : bool :=
  match s with
  | EmptyString => true
  | String c r =>
    negb (is_quote_or_hash c) &&
    (if Ascii.eqb c "/"%char then
       match r with
       | String d _ => negb (Ascii.eqb d "/"%char) && negb (Ascii.eqb d "*"%char)
       | EmptyString => false
       end
     else true) && code_ok r
  end.

Definition is_cr_nl (c : ascii) : bool := let n := nat_of_ascii c in Nat.eqb n 13 || Nat.eqb n 10.
Definition is_cr_nl_ff (c : ascii) : bool := let n := nat_of_ascii c in Nat.eqb n 13 || Nat.eqb n 10 || Nat.eqb n 12.

(* b t n f r, both quotes, backslash, or an octal digit *)
Definition short_escape (c : ascii) : bool :=
  let n := nat_of_ascii c in
  Nat.eqb n 98 || Nat.eqb n 116 || Nat.eqb n 110 || Nat.eqb n 102 || Nat.eqb n 114 ||
  Nat.eqb n 34 || Nat.eqb n 39 || Nat.eqb n 92 || (Nat.leb 48 n && Nat.leb n 55).

Definition oct_digit (c : ascii) : bool := let n := nat_of_ascii c in Nat.leb 48 n && Nat.leb n 55.
Definition oct_digit03 (c : ascii) : bool := let n := nat_of_ascii c in Nat.leb 48 n && Nat.leb n 51.
Definition hex_digit (c : ascii) : bool :=
  let n := nat_of_ascii c in
  (Nat.leb 48 n && Nat.leb n 57) || (Nat.leb 65 n && Nat.leb n 70) || (Nat.leb 97 n && Nat.leb n 102).

(* body of a double-quoted literal: plain characters, two-character escapes (an octal escape of
   several digits is such an escape followed by plain digits) and backslash u + four hex digits *)
Fixpoint str_body_ok (s : string) : bool :=
  match s with
  | EmptyString => true
  | String c r =>
    if Ascii.eqb c c_bslash then
      match r with
      | String d r2 =>
        if Ascii.eqb d "u"%char then
          match r2 with
          | String h1 (String h2 (String h3 (String h4 r3))) =>
            hex_digit h1 && hex_digit h2 && hex_digit h3 && hex_digit h4 && str_body_ok r3
          | _ => false
          end
        else short_escape d && str_body_ok r2
      | EmptyString => false
      end
    else negb (Ascii.eqb c c_dquote) && negb (is_cr_nl c) && str_body_ok r
  end.

(* body of a character literal: one plain character, or one escape sequence of the grammar
   (one-letter escape; one to three octal digits, three only up to 377; u + four hex digits) *)
Definition chr_body_ok (s : string) : bool :=
  match s with
  | String c EmptyString => negb (Nat.eqb (nat_of_ascii c) 39) && negb (Ascii.eqb c c_bslash) && negb (is_cr_nl c)
  | String c (String d EmptyString) => Ascii.eqb c c_bslash && short_escape d
  | String c (String d (String e EmptyString)) => Ascii.eqb c c_bslash && oct_digit d && oct_digit e
  | String c (String d (String e (String f EmptyString))) =>
    Ascii.eqb c c_bslash && oct_digit03 d && oct_digit e && oct_digit f
  | String c (String d (String h1 (String h2 (String h3 (String h4 EmptyString))))) =>
    Ascii.eqb c c_bslash && Ascii.eqb d "u"%char && hex_digit h1 && hex_digit h2 && hex_digit h3 && hex_digit h4
  | _ => false
  end.

Fixpoint last_is (p : ascii -> bool) (s : string) : bool :=
  match s with
  | EmptyString => false
  | String c EmptyString => p c
  | String _ r => last_is p r
  end.

(* the text contains star-slash *)
Fixpoint has_star_slash (s : string) : bool :=
  match s with
  | String a r =>
    match r with
    | String b _ => (Ascii.eqb a "*"%char && Ascii.eqb b "/"%char) || has_star_slash r
    | EmptyString => false
    end
  | EmptyString => false
  end.

Definition item_ok (it : item) : bool :=
  let b := it_body it in
  match it_kind it with
  | ICode => code_ok b
  | IStr => str_body_ok b
  | ITpl => negb (has_char (fun c => Nat.eqb (nat_of_ascii c) 96) b) && negb (last_is (Ascii.eqb c_bslash) b)
  | IChr => chr_body_ok b
  | ILine => negb (has_char is_cr_nl b)
  | IHash => negb (has_char is_cr_nl_ff b)
  | IBlock => negb (has_star_slash b)
  | ISq | IUBlock => false
  end.

Definition starts_with_eol (l : list item) : bool :=
  match l with
  | [] => true
  | it :: _ => match render_item it with String c _ => is_cr_nl c | EmptyString => false end
  end.

(* every item is what it claims to be, and a line / hash comment is followed by an end of line *)
Fixpoint items_ok (l : list item) : bool :=
  match l with
  | [] => true
  | it :: r =>
    item_ok it &&
    (match it_kind it with ILine | IHash => starts_with_eol r | _ => true end) &&
    items_ok r
  end.

Definition file_ok (f : afile) : bool := af_dir f || items_ok (af_items f).

(* a whole case: every file well-formed and the text on disk is the rendered items *)
Definition case_ok (exts : list string) (files : list afile) : bool :=
  forallb (fun f => file_ok f && (af_dir f || String.eqb (render_items (af_items f)) (af_text f))) files.
