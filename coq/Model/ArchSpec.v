(* Independent statement of C13 over the code model, as boolean deciders applied to the
   OBSERVED graphs (analysis result, merged result, displayed keys and drawn edges). *)
From Coq Require Import String List Bool Arith.
From Coca Require Import Lib.Sx Lib.GoMap Lib.Str Model.CodeModel Model.Arch.
Import ListNotations.
Open Scope list_scope.
Open Scope string_scope.

Definition type_name (d : ds) : string := d_pkg d ++ "." ++ d_node d.

(* one node per project type, the entry class Main excluded *)
Definition spec_nodes (deps : list ds) : list string :=
  map type_name (filter (fun d => negb (String.eqb (d_node d) "Main")) deps).

(* A depends on B *)
Definition class_dep (idents : list string) (d : ds) (b : string) : bool :=
  str_mem b (d_impls d)
  || (negb (String.eqb (d_extend d) "") && String.eqb (d_extend d) b)
  || existsb (fun c => String.eqb (call_dst c) b) (d_calls d)
  || (negb (String.eqb (type_name d) b) && str_mem b idents &&
      existsb (fun f => negb (String.eqb (f_name f) "main") &&
                        existsb (fun c => String.eqb (call_dst c) b) (f_calls f)) (d_funcs d)).

Definition spec_dep (deps : list ds) (idents : list string) (a b : string) : bool :=
  existsb (fun d => negb (String.eqb (d_node d) "Main") && String.eqb (type_name d) a && class_dep idents d b)
          deps.

(* quotient by f, without self loops *)
Definition quot_dep (f : string -> string) (deps : list ds) (idents : list string) (p q : string) : bool :=
  negb (String.eqb p q) &&
  existsb (fun a => String.eqb (f a) p &&
                    existsb (fun b => String.eqb (f b) q && spec_dep deps idents a b) (spec_nodes deps))
          (spec_nodes deps).

Definition same_set (a b : list string) : bool :=
  forallb (fun x => str_mem x b) a && forallb (fun x => str_mem x a) b.

Definition has_rel (rels : list (string * string)) (a b : string) : bool :=
  existsb (fun e => String.eqb (fst e) a && String.eqb (snd e) b) rels.

(* the relation list agrees with [dep] on every pair of nodes *)
Definition rels_exact_on (nodes : list string) (dep : string -> string -> bool)
           (rels : list (string * string)) : bool :=
  forallb (fun a => forallb (fun b => Bool.eqb (has_rel rels a b) (dep a b)) nodes) nodes.

Fixpoint nodup_b (l : list string) : bool :=
  match l with
  | [] => true
  | x :: r => negb (str_mem x r) && nodup_b r
  end.

Fixpoint nodup_pairs_b (l : list (string * string)) : bool :=
  match l with
  | [] => true
  | x :: r => negb (has_rel r (fst x) (snd x)) && nodup_pairs_b r
  end.

Definition merge_fun (kind : string) : string -> string :=
  if String.eqb kind "header" then merge_header_func
  else if String.eqb kind "package" then merge_package_func
  else if String.eqb kind "both" then (fun x => merge_package_func (merge_header_func x))
  else (fun x => x).

(* observations: nodes/rels of Analysis, nodes/rels after the merge option, displayed keys and
   drawn edges of the DOT (with its well-formedness bit) *)
Definition c13_verdict (deps : list ds) (idents : list string) (kind : string) (filters : list string)
           (a_nodes : list string) (a_rels : list (string * string))
           (m_nodes : list string) (m_rels : list (string * string))
           (wf : bool) (shown : list string) (edges : list (string * string)) : list string :=
  let sn := spec_nodes deps in
  let f := merge_fun kind in
  let merged := negb (String.eqb kind "none") in
  let fn := if merged then map f sn else sn in
  let fdep := if merged then quot_dep f deps idents else spec_dep deps idents in
  let incl := filter (include_key filters) fn in
  ((if same_set a_nodes sn then [] else ["nodes_exact"]) ++
   (if rels_exact_on sn (spec_dep deps idents) a_rels then [] else ["edges_exact"]) ++
   (if same_set m_nodes fn then [] else ["merge_nodes"]) ++
   (if rels_exact_on fn fdep m_rels &&
       (negb merged || forallb (fun e => str_mem (fst e) fn && str_mem (snd e) fn) m_rels)
    then [] else ["merge_quotient"]) ++
   (if wf then [] else ["dot_wellformed"]) ++
   (if same_set shown incl && nodup_b shown then [] else ["display_once"]) ++
   (if forallb (fun e => str_mem (fst e) shown && str_mem (snd e) shown) edges then [] else ["edges_between_displayed"]) ++
   (if rels_exact_on incl fdep edges && nodup_pairs_b edges then [] else ["display_edges"]))%list.
