(* C06 as a decider over (abstract files, OBSERVED lines of every file after run 1 and run 2).
   Independent of the model of the listener: an abstract file is its lines, a table saying which
   line texts are import lines (and of which kind / simple name each import on them is), the
   simple names referenced in the code of the file by syntactic role, and the names that are only
   mentioned (comments, string literals). *)
From Coq Require Import String List Bool Arith.
From Coca Require Import Lib.Str.
Import ListNotations.
Open Scope list_scope.
Open Scope string_scope.

(* kind: "single" (import a.B;) | "static" (import static a.B.c;) | "wildcard" (import [static] a.b.*;) *)
Record aimp := mkAI { ai_kind : string; ai_simple : string }.

Record afile := mkAF {
  af_path : string;
  af_lines : list string;
  af_table : list (string * list aimp);   (* line text -> the imports on a line with that text *)
  af_refs : list (string * string);       (* (role, simple name) referenced in code outside the imports *)
  af_mentions : list string }.            (* names that occur only in comments / string literals *)

Fixpoint table_get (t : list (string * list aimp)) (k : string) : list aimp :=
  match t with
  | [] => []
  | (k', v) :: r => if String.eqb k' k then v else table_get r k
  end.

Definition imps_of (a : afile) (text : string) : list aimp := table_get (af_table a) text.
Definition is_import_line (a : afile) (text : string) : bool :=
  match imps_of a text with [] => false | _ => true end.

Definition referenced (a : afile) (name : string) : bool := str_mem name (map snd (af_refs a)).
Definition mentioned (a : afile) (name : string) : bool := str_mem name (af_mentions a).

(* [after] is [orig] minus some import lines: the texts of the dropped lines, or None *)
Fixpoint align (a : afile) (orig after : list string) : option (list string) :=
  match orig with
  | [] => match after with [] => Some [] | _ => None end
  | l :: r =>
    match after with
    | x :: after' =>
      if String.eqb l x then align a r after'
      else if is_import_line a l
           then match align a r after with Some d => Some (l :: d) | None => None end
           else None
    | [] =>
      if is_import_line a l
      then match align a r [] with Some d => Some (l :: d) | None => None end
      else None
    end
  end.

(* an import that must stay: a wildcard, or one whose simple name the code refers to *)
Definition imp_wildcard (i : aimp) : bool := String.eqb (ai_kind i) "wildcard".
Definition imp_used (a : afile) (i : aimp) : bool := negb (imp_wildcard i) && referenced a (ai_simple i).
(* an import that must go: single-type, and its simple name occurs nowhere else in the file *)
Definition imp_dead (a : afile) (i : aimp) : bool :=
  String.eqb (ai_kind i) "single" && negb (referenced a (ai_simple i)) && negb (mentioned a (ai_simple i)).

Definition tag (clause detail : string) : string := clause ++ ":" ++ detail.

Definition dropped_clauses (a : afile) (text : string) : list string :=
  let imps := imps_of a text in
  ((if existsb imp_wildcard imps then [tag "wildcard_deleted" (af_path a)] else []) ++
   (if existsb (imp_used a) imps then [tag "used_import_deleted" (af_path a)] else []))%list.

Definition kept_clauses (a : afile) (text : string) : list string :=
  let imps := imps_of a text in
  match imps with
  | [] => []
  | _ => if forallb (imp_dead a) imps then [tag "unused_kept" (af_path a)] else []
  end.

(* one file after the first run *)
Definition file_clauses (a : afile) (after : list string) : list string :=
  match align a (af_lines a) after with
  | None => [tag "non_import_line_changed" (af_path a)]
  | Some dropped => (flat_map (dropped_clauses a) dropped ++ flat_map (kept_clauses a) after)%list
  end.

Fixpoint files_clauses (fs : list afile) (obs : list (list string)) : list string :=
  match fs, obs with
  | [], [] => []
  | a :: r, o :: ro => (file_clauses a o ++ files_clauses r ro)%list
  | _, _ => ["file_count"]
  end.

Fixpoint lines_eqb (a b : list string) : bool :=
  match a, b with
  | [], [] => true
  | x :: r, y :: s => String.eqb x y && lines_eqb r s
  | _, _ => false
  end.

Fixpoint second_clauses (which : string) (fs : list afile) (o1 o2 : list (list string)) : list string :=
  match fs, o1, o2 with
  | [], [], [] => []
  | a :: r, x :: r1, y :: r2 =>
    ((if lines_eqb x y then [] else [tag "second_run_changes" (tag which (af_path a))]) ++
     second_clauses which r r1 r2)%list
  | _, _, _ => ["file_count"]
  end.

(* status: "ok" | "PANIC" | "SKIP" (second run not observed) *)
Definition run2_clauses (which : string) (fs : list afile) (o1 : list (list string))
           (st2 : string) (o2 : list (list string)) : list string :=
  if String.eqb st2 "SKIP" then []
  else ((if String.eqb st2 "PANIC" then [tag "crash" which] else []) ++ second_clauses which fs o1 o2)%list.

Definition c06_verdict (fs : list afile)
           (st1 : string) (o1 : list (list string))
           (st2 : string) (o2 : list (list string))
           (st3 : string) (o3 : list (list string)) : list string :=
  ((if String.eqb st1 "PANIC" then [tag "crash" "first"] else []) ++
   files_clauses fs o1 ++
   run2_clauses "same_process" fs o1 st2 o2 ++
   run2_clauses "new_process" fs o1 st3 o3)%list.
