(* The normal forms of Lib/Shape.v do not depend on the order in which a collection is listed. *)
From Coq Require Import String List Bool Arith Lia Permutation Sorted Ascii.
From Coca Require Import Lib.Sx Lib.Str Lib.Shape Model.GitSummary Proofs.GitSummaryProofs Proofs.EvaluateProofs.
Import ListNotations.
Open Scope string_scope.
Open Scope list_scope.

Lemma sleb_is_str_leb : forall a b, sleb a b = str_leb a b.
Proof. induction a as [|c a IH]; intros [|d b]; reflexivity. Qed.

Lemma sleb_total : forall a b, sleb a b = true \/ sleb b a = true.
Proof. intros a b. rewrite !sleb_is_str_leb. apply str_leb_total. Qed.
Lemma sleb_trans : forall a b c, sleb a b = true -> sleb b c = true -> sleb a c = true.
Proof. intros a b c. rewrite !sleb_is_str_leb. apply str_leb_trans. Qed.
Lemma sleb_antisym : forall a b, sleb a b = true -> sleb b a = true -> a = b.
Proof. intros a b. rewrite !sleb_is_str_leb. apply str_leb_antisym. Qed.

Definition ssorted (l : list string) : Prop := StronglySorted (fun a b => sleb a b = true) l.

Lemma sinsert_perm : forall x l, Permutation (sinsert x l) (x :: l).
Proof.
  induction l as [|y l IH]; simpl; [reflexivity|].
  destruct (sleb x y); [reflexivity|]. rewrite IH. apply perm_swap.
Qed.

Lemma sinsert_sorted : forall x l, ssorted l -> ssorted (sinsert x l).
Proof.
  unfold ssorted. induction l as [|y l IH]; intros H; simpl.
  - constructor; constructor.
  - inversion H as [|? ? Hs Hall]; subst. destruct (sleb x y) eqn:E.
    + constructor; [assumption|]. constructor; [assumption|].
      rewrite Forall_forall in *. intros z Hz. eapply sleb_trans; eauto.
    + constructor; [now apply IH|].
      assert (Hyx : sleb y x = true) by (destruct (sleb_total x y); congruence).
      rewrite Forall_forall in *. intros z Hz.
      apply (Permutation_in _ (sinsert_perm x l)) in Hz. destruct Hz as [Hz|Hz]; [now subst|auto].
Qed.

Lemma ssort_perm : forall l, Permutation (ssort l) l.
Proof. induction l as [|x l IH]; simpl; [reflexivity|]. rewrite sinsert_perm. now constructor. Qed.

Lemma ssort_sorted : forall l, ssorted (ssort l).
Proof. induction l as [|x l IH]; simpl; [constructor|]. now apply sinsert_sorted. Qed.

Lemma ssorted_perm_eq : forall l1 l2, ssorted l1 -> ssorted l2 -> Permutation l1 l2 -> l1 = l2.
Proof.
  induction l1 as [|a l1 IH]; intros l2 S1 S2 P.
  - apply Permutation_nil in P. now subst.
  - destruct l2 as [|b l2]; [apply Permutation_sym, Permutation_nil in P; discriminate|].
    inversion S1 as [|? ? S1' F1]; subst. inversion S2 as [|? ? S2' F2]; subst.
    rewrite Forall_forall in F1, F2.
    assert (Hab : a = b).
    { assert (Ha : In a (b :: l2)) by (eapply Permutation_in; [exact P|now left]).
      assert (Hb : In b (a :: l1)) by (eapply Permutation_in; [apply Permutation_sym; exact P|now left]).
      destruct Ha as [Ha|Ha]; [now subst|]. destruct Hb as [Hb|Hb]; [now subst|].
      apply sleb_antisym; [apply F1; exact Hb|apply F2; exact Ha]. }
    subst b. f_equal. apply IH; [assumption|assumption|eapply Permutation_cons_inv; exact P].
Qed.

(* the sorted listing of a collection does not depend on the order it was given in *)
Theorem ssort_order_free : forall l l', Permutation l l' -> ssort l = ssort l'.
Proof.
  intros l l' P. apply ssorted_perm_eq; try apply ssort_sorted.
  rewrite ssort_perm, P. symmetry. apply ssort_perm.
Qed.

Theorem nf_bag_order_free : forall s l l', Permutation l l' -> nf (SBag s) (L l) = nf (SBag s) (L l').
Proof. intros s l l' P. cbn [nf]. f_equal. apply ssort_order_free. now apply Permutation_map. Qed.

Theorem nf_sorted_by_order_free : forall k s l l',
    Permutation l l' -> map (sx_nth k) l = map (sx_nth k) l' ->
    nf (SSortedBy k s) (L l) = nf (SSortedBy k s) (L l').
Proof.
  intros k s l l' P K. cbn [nf]. f_equal.
  - f_equal. rewrite <- !(map_map (sx_nth k) dump). now rewrite K.
  - f_equal. apply ssort_order_free. now apply Permutation_map.
Qed.

Theorem nf_lines_order_free : forall a b, Permutation (split nl a) (split nl b) -> nf SLines (A a) = nf SLines (A b).
Proof. intros a b P. cbn [nf]. f_equal. now apply ssort_order_free. Qed.

(* deep normal form: permuting the children of any node, and replacing children by children with the
   same normal form, leaves it unchanged *)
Theorem deep_order_free : forall l l', Permutation l l' -> deep (L l) = deep (L l').
Proof. intros l l' P. cbn [deep]. f_equal. apply ssort_order_free. now apply Permutation_map. Qed.

Theorem deep_congruence : forall l l', Forall2 (fun x y => deep x = deep y) l l' -> deep (L l) = deep (L l').
Proof.
  intros l l' H. cbn [deep]. f_equal. f_equal. induction H as [|x y l l' Hxy _ IH]; [reflexivity|].
  cbn [map]. now rewrite Hxy, IH.
Qed.

Theorem nf_list_congruence : forall s l l', Forall2 (fun x y => nf s x = nf s y) l l' -> nf (SList s) (L l) = nf (SList s) (L l').
Proof.
  intros s l l' H. cbn [nf]. f_equal. induction H as [|x y l l' Hxy _ IH]; [reflexivity|].
  cbn [map]. now rewrite Hxy, IH.
Qed.

(* non-vacuity: different collections have different normal forms, different orders the same *)
Example ex_nf :
  nf (SBag SExact) (L [A "b"; A "a"; A "a"]) = nf (SBag SExact) (L [A "a"; A "b"; A "a"]) /\
  nf (SBag SExact) (L [A "b"; A "a"]) <> nf (SBag SExact) (L [A "a"; A "b"; A "a"]) /\
  nf (SList SExact) (L [A "b"; A "a"]) <> nf (SList SExact) (L [A "a"; A "b"]) /\
  nf (SSortedBy 1 SExact) (L [L [A "x"; A "2"]; L [A "y"; A "2"]; L [A "z"; A "1"]]) =
  nf (SSortedBy 1 SExact) (L [L [A "y"; A "2"]; L [A "x"; A "2"]; L [A "z"; A "1"]]) /\
  nf (SSortedBy 1 SExact) (L [L [A "x"; A "2"]; L [A "z"; A "1"]]) <>
  nf (SSortedBy 1 SExact) (L [L [A "z"; A "1"]; L [A "x"; A "2"]]).
Proof. vm_compute. repeat split; try reflexivity; discriminate. Qed.

(* ------------------------------------------------------------------ reports of the models *)
(* a table sorted by a total preorder is determined by its set of rows whenever no two distinct rows
   tie in the sort key: whatever order a Go map yields the rows in, the sorted table is the same *)
Section UntiedSort.
  Context {A : Type}.
  Variable le : A -> A -> bool.
  Hypothesis le_total : forall a b, le a b = true \/ le b a = true.
  Hypothesis le_trans : forall a b c, le a b = true -> le b c = true -> le a c = true.

  Definition untied (l : list A) : Prop := forall a b, In a l -> In b l -> le a b = true -> le b a = true -> a = b.

  Lemma sorted_perm_untied : forall l1 l2,
      sorted le l1 -> sorted le l2 -> Permutation l1 l2 -> untied l1 -> l1 = l2.
  Proof.
    unfold sorted. induction l1 as [|a l1 IH]; intros l2 S1 S2 P U.
    - apply Permutation_nil in P. now subst.
    - destruct l2 as [|b l2]; [apply Permutation_sym, Permutation_nil in P; discriminate|].
      inversion S1 as [|? ? S1' F1]; subst. inversion S2 as [|? ? S2' F2]; subst.
      rewrite Forall_forall in F1, F2.
      assert (Ha : In a (b :: l2)) by (eapply Permutation_in; [exact P|now left]).
      assert (Hb : In b (a :: l1)) by (eapply Permutation_in; [apply Permutation_sym; exact P|now left]).
      assert (Hab : a = b).
      { destruct Ha as [Ha|Ha]; [now subst|]. destruct Hb as [Hb'|Hb']; [now subst|].
        apply U; [now left|now right|apply F1; exact Hb'|apply F2; exact Ha]. }
      subst b. f_equal. apply IH; [assumption|assumption|eapply Permutation_cons_inv; exact P|].
      intros x y Hx Hy. apply U; now right.
  Qed.

  Theorem sort_by_order_free : forall l l', Permutation l l' -> untied l -> sort_by le l = sort_by le l'.
  Proof.
    intros l l' P U. apply sorted_perm_untied.
    - now apply sort_by_sorted.
    - now apply sort_by_sorted.
    - rewrite (sort_by_perm le le_total le_trans l), P. symmetry. now apply sort_by_perm.
    - intros a b Ha Hb. apply U; eapply Permutation_in; try eassumption; now apply sort_by_perm.
  Qed.
End UntiedSort.

(* the functions of a type come out of a Go map: any two orders give the same normal form of the entry *)
From Coca Require Import Model.CodeModel Entry.C08.

Definition with_funcs (d : ds) (fs : list func) : ds :=
  mkDs (d_node d) (d_type d) (d_pkg d) (d_path d) (d_fields d) (d_extend d) (d_impls d) fs
       (d_annots d) (d_calls d) (d_imports d).

Theorem entry_function_order_free : forall d fs fs',
    Permutation fs fs' -> nf ds_shape (sx_of_ds (with_funcs d fs)) = nf ds_shape (sx_of_ds (with_funcs d fs')).
Proof.
  intros d fs fs' P. unfold ds_shape, sx_of_ds, with_funcs. cbn [nf d_node d_type d_pkg d_path d_fields d_extend d_impls d_funcs d_annots d_calls d_imports].
  do 8 f_equal. f_equal. f_equal. apply ssort_order_free. apply Permutation_map. now apply Permutation_map.
Qed.
