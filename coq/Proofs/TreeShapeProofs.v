(* C09: no listener callback dereferences a child that the grammar allows to be absent, unless a nil test
   on a child that is present only together with it encloses the dereference. *)
From Coq Require Import String List Bool Arith.
From Coca Require Import Lib.Str Generated.JavaShapes Model.TreeShape Model.ApiScan.
Import ListNotations.
Open Scope string_scope.
Open Scope list_scope.

Lemma accesses_checked : forallb access_ok java_accesses = true.
Proof. vm_compute. reflexivity. Qed.

(* for every recorded dereference and every node the parser can build for its rule: if the accessors
   tested against nil around the dereference are all present, the dereferenced child is present *)
Theorem all_accesses_safe : forall a n,
    In a java_accesses -> conforms n -> n_rule n = ac_rule a ->
    (forall g, In g (ac_guards a) -> In g (n_present n)) ->
    In (ac_child a) (n_present n).
Proof.
  intros a n Ha Hn Hr Hg.
  pose proof accesses_checked as H. rewrite forallb_forall in H. specialize (H a Ha).
  unfold access_ok in H. rewrite forallb_forall in H. unfold conforms in Hn. rewrite Hr in Hn.
  specialize (H _ Hn). unfold access_safe_in in H. apply orb_true_iff in H. destruct H as [H|H].
  - apply negb_true_iff in H. exfalso.
    assert (T : forallb (fun g => str_mem g (n_present n)) (ac_guards a) = true).
    { apply forallb_forall. intros g Hin. apply str_mem_In. now apply Hg. }
    congruence.
  - now apply str_mem_In.
Qed.

(* the tables are not empty, and the check bites: an access like the one repaired in b8d359a
   (methodCall.identifier without a guard) is rejected *)
Example shapes_nonvacuous :
  Nat.ltb 40 (List.length java_accesses) = true /\
  access_ok (mkAcc "x.go" "EnterMethodCall" "methodCall" "identifier" [] 1) = false /\
  access_ok (mkAcc "x.go" "EnterMethodCall" "methodCall" "identifier" ["identifier"] 1) = true /\
  access_ok (mkAcc "x.go" "EnterClassDeclaration" "classDeclaration" "typeType" ["EXTENDS"] 1) = true /\
  access_ok (mkAcc "x.go" "EnterClassDeclaration" "classDeclaration" "typeType" ["IMPLEMENTS"] 1) = false.
Proof. vm_compute. repeat split; reflexivity. Qed.

(* the API scan has no panic left in its model: removeQuotes is total *)
Theorem strip1_total : forall t, strip1 t <> None.
Proof. intros t. unfold strip1. destruct (Nat.ltb (String.length t) 2); discriminate. Qed.
