(* dot_parse inverts the printer for every statement list whose names are [plain]
   (any bytes except backslash and newline; double quotes allowed). *)
From Coq Require Import String List Ascii Arith Bool Lia.
From Coca Require Import Lib.Str Lib.Dot.
Import ListNotations.
Open Scope string_scope.
Open Scope list_scope.

Lemma strip_prefix_app : forall p r, strip_prefix p (p ++ r) = Some r.
Proof. induction p as [|c p IH]; intros r; simpl; [reflexivity|]. now rewrite Ascii.eqb_refl. Qed.

Lemma chars_String : forall c s, chars (String c s) = c :: chars s.
Proof. reflexivity. Qed.

Lemma qstring_escape : forall s acc r,
    plain s = true ->
    qstring (chars (escape_quotes s) ++ c_dquote :: r) acc = Some (rev acc ++ chars s, r).
Proof.
  induction s as [|c s IH]; intros acc r Hp.
  - cbn. now rewrite app_nil_r.
  - unfold plain in Hp. rewrite chars_String in Hp. cbn [forallb] in Hp.
    apply andb_true_iff in Hp. destruct Hp as [Hc Hs]. fold (plain s) in Hs.
    unfold plain_char in Hc. apply andb_true_iff in Hc. destruct Hc as [Hb Hn].
    apply negb_true_iff in Hb. apply negb_true_iff in Hn.
    cbn [escape_quotes]. destruct (Ascii.eqb c c_dquote) eqn:Eq.
    + apply Ascii.eqb_eq in Eq. subst c.
      rewrite !chars_String. cbn [app qstring].
      change (Ascii.eqb c_bslash c_dquote) with false. cbv iota.
      rewrite (Ascii.eqb_refl c_bslash). rewrite (Ascii.eqb_refl c_dquote).
      rewrite IH by assumption. cbn [rev]. now rewrite <- app_assoc.
    + rewrite chars_String. cbn [app qstring]. rewrite Eq, Hb, Hn.
      rewrite IH by assumption. cbn [rev]. now rewrite <- app_assoc.
Qed.

Lemma chars_render_edge : forall a b,
    chars (render_stmt (SEdge a b)) =
    c_dquote :: chars (escape_quotes a) ++ c_dquote :: arrow ++
    c_dquote :: chars (escape_quotes b) ++ c_dquote :: stmt_end.
Proof.
  intros a b. unfold render_stmt. rewrite !chars_app. reflexivity.
Qed.

Lemma parse_edge_render : forall a b r,
    plain a = true -> plain b = true ->
    parse_edge (chars (render_stmt (SEdge a b)) ++ r) = Some ((a, b), r).
Proof.
  intros a b r Ha Hb. rewrite chars_render_edge.
  cbn [app parse_edge]. rewrite Ascii.eqb_refl.
  rewrite <- !app_assoc. cbn [app].
  rewrite qstring_escape by assumption. cbn [rev app].
  rewrite <- !app_assoc. rewrite strip_prefix_app.
  cbn [app]. rewrite Ascii.eqb_refl.
  rewrite <- !app_assoc. cbn [app].
  rewrite qstring_escape by assumption. cbn [rev app].
  rewrite strip_prefix_app. now rewrite !unchars_chars.
Qed.

Definition names_plain (l : list stmt) : Prop :=
  forall a b, In (SEdge a b) l -> plain a = true /\ plain b = true.

Lemma chars_render_stmts_cons : forall s l,
    chars (render_stmts (s :: l)) = chars (render_stmt s) ++ chars (render_stmts l).
Proof.
  intros s l. unfold render_stmts. cbn [map]. destruct (map render_stmt l) eqn:E.
  - cbn [String.concat]. now rewrite app_nil_r.
  - cbn [String.concat]. rewrite chars_app. reflexivity.
Qed.

Lemma parse_body_step : forall fuel c r acc,
    parse_body (S fuel) (c :: r) acc =
    if Ascii.eqb c c_nl then parse_body fuel r acc
    else match strip_prefix footer (c :: r) with
         | Some [] => Some (rev acc)
         | Some (_ :: _) => None
         | None =>
           match strip_prefix rankdir (c :: r) with
           | Some r' => parse_body fuel r' acc
           | None =>
             match parse_edge (c :: r) with
             | Some (e, r') => parse_body fuel r' (e :: acc)
             | None => None
             end
           end
         end.
Proof. reflexivity. Qed.

Lemma parse_body_edge : forall fuel a b rest acc,
    plain a = true -> plain b = true ->
    parse_body (S fuel) (chars (render_stmt (SEdge a b)) ++ rest) acc =
    parse_body fuel rest ((a, b) :: acc).
Proof.
  intros fuel a b rest acc Ha Hb.
  pose proof (parse_edge_render a b rest Ha Hb) as HP.
  remember (chars (render_stmt (SEdge a b)) ++ rest) as s eqn:Es.
  assert (Hhd : exists X, s = c_dquote :: X).
  { subst s. rewrite chars_render_edge. cbn [app]. eauto. }
  destruct Hhd as [X EX]. rewrite EX in *.
  rewrite parse_body_step.
  change (Ascii.eqb c_dquote c_nl) with false. cbv iota.
  assert (F1 : strip_prefix footer (c_dquote :: X) = None) by reflexivity.
  assert (F2 : strip_prefix rankdir (c_dquote :: X) = None) by reflexivity.
  rewrite F1, F2, HP. reflexivity.
Qed.

Lemma parse_body_blank : forall fuel rest acc,
    parse_body (S fuel) (chars (render_stmt SBlank) ++ rest) acc = parse_body fuel rest acc.
Proof. reflexivity. Qed.

Lemma parse_body_rankdir : forall fuel rest acc,
    parse_body (S fuel) (chars (render_stmt SRankdir) ++ rest) acc = parse_body fuel rest acc.
Proof.
  intros fuel rest acc.
  change (chars (render_stmt SRankdir)) with rankdir.
  assert (Hhd : exists X, rankdir ++ rest = "r"%char :: X) by (cbn; eauto).
  destruct Hhd as [X EX].
  pose proof (strip_prefix_app rankdir rest) as HS. rewrite EX in *.
  rewrite parse_body_step.
  change (Ascii.eqb "r"%char c_nl) with false. cbv iota.
  assert (F1 : strip_prefix footer ("r"%char :: X) = None) by reflexivity.
  rewrite F1, HS. reflexivity.
Qed.

Lemma parse_body_footer : forall fuel acc, parse_body (S fuel) footer acc = Some (rev acc).
Proof. reflexivity. Qed.

Lemma parse_body_render : forall l fuel acc,
    names_plain l -> List.length l < fuel ->
    parse_body fuel (chars (render_stmts l) ++ footer) acc = Some (rev acc ++ stmt_edges l).
Proof.
  induction l as [|s l IH]; intros fuel acc Hn Hf.
  - destruct fuel as [|fuel]; [simpl in Hf; lia|].
    change (chars (render_stmts []) ++ footer) with footer.
    rewrite parse_body_footer. cbn [stmt_edges flat_map]. now rewrite app_nil_r.
  - destruct fuel as [|fuel]; [simpl in Hf; lia|].
    assert (Hn' : names_plain l) by (intros a b H; apply Hn; now right).
    assert (Hf' : List.length l < fuel) by (simpl in Hf; lia).
    rewrite chars_render_stmts_cons, <- app_assoc.
    destruct s as [a b| |].
    + destruct (Hn a b (or_introl eq_refl)) as [Ha Hb].
      rewrite parse_body_edge by assumption. rewrite IH by assumption.
      cbn [rev stmt_edges flat_map app]. now rewrite <- app_assoc.
    + rewrite parse_body_blank. rewrite IH by assumption. reflexivity.
    + rewrite parse_body_rankdir. rewrite IH by assumption. reflexivity.
Qed.

Lemma length_render_stmt_pos : forall s, 1 <= List.length (chars (render_stmt s)).
Proof.
  destruct s as [a b| |].
  - rewrite chars_render_edge. cbn [List.length]. lia.
  - cbn. lia.
  - cbn. lia.
Qed.

Lemma length_render_stmts : forall l, List.length l <= List.length (chars (render_stmts l)).
Proof.
  induction l as [|s l IH]; [cbn; lia|].
  rewrite chars_render_stmts_cons, app_length. pose proof (length_render_stmt_pos s). cbn [List.length]. lia.
Qed.

(* the printed digraph parses back to exactly the edges that were printed *)
Theorem dot_parse_render : forall l,
    names_plain l ->
    dot_parse ("digraph G {" ++ nl ++ render_stmts l ++ "}" ++ nl)%string = Some (stmt_edges l).
Proof.
  intros l Hn. unfold dot_parse.
  replace (chars ("digraph G {" ++ nl ++ render_stmts l ++ "}" ++ nl)%string)
    with (chars ("digraph G {" ++ nl)%string ++ (chars (render_stmts l) ++ footer)).
  2: { rewrite !chars_app. rewrite <- !app_assoc. reflexivity. }
  rewrite strip_prefix_app.
  rewrite parse_body_render; [reflexivity|assumption|].
  rewrite app_length. pose proof (length_render_stmts l). lia.
Qed.
