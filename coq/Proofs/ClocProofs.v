(* Lemmas about Model/Cloc.v (C16). *)
From Coq Require Import String List Bool Arith Ascii Lia Permutation Sorted.
From Coca Require Import Lib.Sx Lib.GoMap Lib.Str Lib.Cmp Model.GitSummary Model.Cloc Model.ClocSpec
     Generated.Constants Proofs.GitSummaryProofs.
Import ListNotations.
Open Scope string_scope.
Open Scope list_scope.

(* ------------------------------------------------------------------ IsIgnoreDir *)
Lemma is_ignore_dir_list : forall n,
    is_ignore_dir n = true <-> In n [".git"; ".svn"; ".hg"; ".idea"; "coca_reporter"].
Proof.
  intros n. unfold is_ignore_dir. rewrite existsb_exists. split.
  - intros [d [Hin Heq]]. apply String.eqb_eq in Heq. subst. exact Hin.
  - intros H. exists n. split; [exact H|apply String.eqb_refl].
Qed.

Lemma is_ignore_dir_skipped : forall n, is_ignore_dir n = skipped n.
Proof.
  intros n. apply eq_true_iff_eq. rewrite is_ignore_dir_list. unfold skipped. rewrite str_mem_In.
  reflexivity.
Qed.

(* ------------------------------------------------------------------ the name of a per-directory json *)
Definition no_slash (d : string) : Prop := has_char "/"%char d = false.

Lemma seg_after_app : forall c a b acc, seg_after c (a ++ b)%string acc = seg_after c b (seg_after c a acc).
Proof.
  intros c. induction a as [|x a IH]; intros b acc; simpl; [reflexivity|].
  destruct (Ascii.eqb x c); apply IH.
Qed.

Lemma seg_after_plain : forall c s acc, has_char c s = false -> seg_after c s acc = (acc ++ s)%string.
Proof.
  intros c. induction s as [|x s IH]; intros acc H; simpl.
  - now rewrite append_nil_r.
  - unfold has_char in H. simpl in H. apply orb_false_iff in H. destruct H as [H1 H2].
    rewrite Ascii.eqb_sym, H1. rewrite IH by exact H2. rewrite append_assoc. reflexivity.
Qed.

Lemma has_char_app : forall c a b, has_char c (a ++ b)%string = has_char c a || has_char c b.
Proof.
  intros c a b. unfold has_char. rewrite chars_app, existsb_app. reflexivity.
Qed.

Lemma path_base_output_file : forall d, no_slash d -> path_base (output_file d) = (d ++ ".json")%string.
Proof.
  intros d H. unfold path_base, output_file, reporter_path.
  replace ("coca_reporter" ++ "/cloc/" ++ d ++ ".json")%string
    with (("coca_reporter/cloc/") ++ (d ++ ".json"))%string by reflexivity.
  rewrite seg_after_app. change (seg_after "/"%char "coca_reporter/cloc/" "") with ""%string.
  rewrite seg_after_plain; [reflexivity|]. rewrite has_char_app. rewrite H. reflexivity.
Qed.

Lemma ext_of_json : forall d, ext_of (d ++ ".json")%string = ".json"%string.
Proof.
  induction d as [|x d IH]; [reflexivity|]. cbn [append ext_of]. rewrite IH. reflexivity.
Qed.

Lemma drop_length_app : forall a b, drop (String.length a) (a ++ b)%string = b.
Proof. induction a; simpl; auto. Qed.

Lemma take_length_app : forall a b, take (String.length a) (a ++ b)%string = a.
Proof. induction a; simpl; intros; [reflexivity|]. now rewrite IHa. Qed.

Lemma trim_suffix_app : forall a b, trim_suffix (a ++ b)%string b = a.
Proof.
  intros a b. unfold trim_suffix, has_suffix. rewrite length_append.
  replace (Nat.leb (String.length b) (String.length a + String.length b)) with true
    by (symmetry; apply Nat.leb_le; lia).
  replace (String.length a + String.length b - String.length b) with (String.length a) by lia.
  rewrite drop_length_app, String.eqb_refl. apply take_length_app.
Qed.

(* BuildLanguageMap recovers the directory name from coca_reporter/cloc/<name>.json, dots included *)
Lemma dir_name_roundtrip : forall d, no_slash d -> dir_name_of (output_file d) = d.
Proof.
  intros d H. unfold dir_name_of, path_ext. rewrite (path_base_output_file d H).
  rewrite ext_of_json. apply trim_suffix_app.
Qed.

(* ------------------------------------------------------------------ scc oracle: one summary per language *)
Lemma In_dedup : forall l y, In y (dedup l) <-> In y l.
Proof.
  induction l as [|x l IH]; intros y; simpl; [tauto|].
  rewrite filter_In, IH. split.
  - intros [H|[H _]]; auto.
  - intros [H|H]; [now left|]. destruct (String.eqb x y) eqn:E.
    + apply String.eqb_eq in E. now left.
    + right. split; [assumption|reflexivity].
Qed.

Lemma NoDup_filter : forall (A : Type) (p : A -> bool) l, NoDup l -> NoDup (filter p l).
Proof.
  intros A p. induction l as [|x l IH]; intros H; simpl; [constructor|].
  inversion H; subst. destruct (p x); [constructor|]; auto.
  rewrite filter_In. tauto.
Qed.

Lemma NoDup_dedup : forall l, NoDup (dedup l).
Proof.
  induction l as [|x l IH]; simpl; constructor.
  - rewrite filter_In. intros [_ H]. rewrite String.eqb_refl in H. discriminate.
  - now apply NoDup_filter.
Qed.

Lemma summarize_names : forall root fs, map ls_name (summarize root fs) = dedup (map cf_lang fs).
Proof. intros. unfold summarize. rewrite map_map. simpl. apply map_id. Qed.

Lemma insert_perm_any : forall (A : Type) (le : A -> A -> bool) x l, Permutation (insert_by le x l) (x :: l).
Proof.
  intros A le x. induction l as [|y l IH]; simpl; [reflexivity|].
  destruct (le x y); [reflexivity|]. rewrite IH. apply perm_swap.
Qed.

Lemma sort_by_perm_any : forall (A : Type) (le : A -> A -> bool) l, Permutation (sort_by le l) l.
Proof.
  intros A le l. unfold sort_by.
  assert (H : forall l acc, Permutation (fold_left (fun acc x => insert_by le x acc) l acc) (l ++ acc)).
  { induction l0 as [|x l0 IH]; intros acc; simpl; [reflexivity|].
    rewrite IH, insert_perm_any. symmetry. apply Permutation_middle. }
  rewrite H, app_nil_r. symmetry. apply Permutation_rev.
Qed.

Definition run_files (o : copts) (prefix : list string) (t : ctree) : list cfile :=
  filter (visible o prefix) (ct_files t).

(* code lines of language [key] among the files one run counts *)
Definition lang_code (o : copts) (prefix : list string) (t : ctree) (key : string) : nat :=
  sum_code (lang_files key (run_files o prefix t)).

Lemma scc_run_perm : forall o p t, Permutation (scc_run o p t) (summarize (co_root o) (run_files o p t)).
Proof. intros. apply sort_by_perm_any. Qed.

Lemma scc_run_names_nodup : forall o p t, NoDup (map ls_name (scc_run o p t)).
Proof.
  intros. eapply Permutation_NoDup.
  - symmetry. apply Permutation_map. apply scc_run_perm.
  - rewrite summarize_names. apply NoDup_dedup.
Qed.

Lemma scc_run_names : forall o p t l,
    In l (map ls_name (scc_run o p t)) <-> exists f, In f (run_files o p t) /\ cf_lang f = l.
Proof.
  intros o p t l.
  rewrite (Permutation_in' (eq_refl l) (Permutation_map ls_name (scc_run_perm o p t))).
  rewrite summarize_names, In_dedup, in_map_iff.
  split; intros [f [H1 H2]]; exists f; tauto.
Qed.

Lemma find_lang_unique : forall l s,
    NoDup (map ls_name l) -> In s l -> find_lang (ls_name s) l = Some s.
Proof.
  unfold find_lang. induction l as [|x l IH]; intros s Hnd Hin; [destruct Hin|].
  simpl in *. inversion Hnd as [|? ? Hx Hnd']; subst. destruct Hin as [->|Hin].
  - now rewrite String.eqb_refl.
  - destruct (String.eqb (ls_name s) (ls_name x)) eqn:E.
    + apply String.eqb_eq in E. exfalso. apply Hx. rewrite <- E. now apply in_map.
    + now apply IH.
Qed.

Lemma find_lang_none : forall l key, ~ In key (map ls_name l) -> find_lang key l = None.
Proof.
  unfold find_lang. induction l as [|x l IH]; intros key H; simpl in *; [reflexivity|].
  destruct (String.eqb key (ls_name x)) eqn:E.
  - apply String.eqb_eq in E. exfalso. apply H. now left.
  - apply IH. tauto.
Qed.

Definition code_of (key : string) (content : list lsum) : nat :=
  match find_lang key content with Some s => ls_code s | None => 0 end.

Lemma lang_files_nil : forall key fs, ~ In key (map cf_lang fs) -> lang_files key fs = [].
Proof.
  intros key. induction fs as [|f fs IH]; intros H; simpl in *; [reflexivity|].
  destruct (String.eqb (cf_lang f) key) eqn:E.
  - apply String.eqb_eq in E. exfalso. apply H. now left.
  - apply IH. tauto.
Qed.

(* looking a language up in the json of one run gives the code lines of that language in that run *)
Lemma code_of_scc_run : forall o p t key, code_of key (scc_run o p t) = lang_code o p t key.
Proof.
  intros o p t key. unfold code_of, lang_code.
  destruct (in_dec string_dec key (map cf_lang (run_files o p t))) as [Hin|Hnin].
  - set (s := mkLSum key (sum_code (lang_files key (run_files o p t)))
                     (List.length (lang_files key (run_files o p t)))
                     (map (fun f => (loc_str (co_root o) (cf_path f), cf_code f))
                          (lang_files key (run_files o p t)))).
    assert (Hs : In s (scc_run o p t)).
    { apply (Permutation_in _ (Permutation_sym (scc_run_perm o p t))).
      unfold summarize. apply in_map_iff. exists key. split; [reflexivity|]. now apply In_dedup. }
    pose proof (find_lang_unique _ _ (scc_run_names_nodup o p t) Hs) as Hf. simpl in Hf.
    rewrite Hf. reflexivity.
  - rewrite find_lang_none.
    + now rewrite lang_files_nil.
    + rewrite scc_run_names. intros [f [Hf Hl]]. apply Hnin. rewrite <- Hl. now apply in_map.
Qed.

(* ------------------------------------------------------------------ BuildLanguageMap / BuildClocCsvData *)
Definition entry_of (key : string) (content : list lsum) : lsum :=
  match find_lang key content with
  | Some s => mkLSum key (ls_code s) (ls_count s) (ls_files s)
  | None => zero_sum
  end.

Lemma fold_mput_get : forall (V : Type) (f : string -> V) keys (m : gomap V) k,
    mget (fold_left (fun m key => mput m key (f key)) keys m) k =
    if str_mem k keys then Some (f k) else mget m k.
Proof.
  intros V f. induction keys as [|a keys IH]; intros m k; simpl; [reflexivity|].
  rewrite IH. unfold str_mem in *. simpl. destruct (existsb (String.eqb k) keys); simpl.
  - now rewrite orb_true_r.
  - rewrite orb_false_r. rewrite mget_mput. rewrite String.eqb_sym.
    destruct (String.eqb k a) eqn:E; [|reflexivity]. apply String.eqb_eq in E. now subst.
Qed.

Lemma dir_lang_map_entry : forall keys content,
    dir_lang_map keys content = fold_left (fun m key => mput m key (entry_of key content)) keys [].
Proof.
  intros keys content. unfold dir_lang_map. generalize (@nil (string * lsum)).
  induction keys as [|a keys IH]; intros m; simpl; [reflexivity|].
  rewrite IH. unfold entry_of. destruct (find_lang a content); reflexivity.
Qed.

Lemma entry_of_code : forall key content, ls_code (entry_of key content) = code_of key content.
Proof. intros. unfold entry_of, code_of. destruct (find_lang key content); reflexivity. Qed.

(* column alignment and zero fill: one cell per key, in key order, the key's own figure *)
Lemma row_codes_dir_lang_map : forall keys content,
    row_codes keys (dir_lang_map keys content) = map (fun key => code_of key content) keys.
Proof.
  intros keys content. unfold row_codes. apply map_ext_in. intros key Hin.
  unfold mget_d. rewrite dir_lang_map_entry, fold_mput_get.
  apply str_mem_In in Hin. rewrite Hin. apply entry_of_code.
Qed.

Lemma fold_add_is_list_sum : forall l, fold_left Nat.add l 0 = list_sum l.
Proof.
  intros l. pose proof (fold_add_list_sum nat (fun x => x) l 0) as H. rewrite map_id in H.
  simpl in H. exact H.
Qed.

Lemma mput_fresh : forall (V : Type) (m : gomap V) k v, ~ In k (mkeys m) -> mput m k v = m ++ [(k, v)].
Proof.
  intros V. induction m as [|[k0 v0] m IH]; intros k v H; simpl; [reflexivity|].
  unfold mkeys in H. simpl in H. destruct (String.eqb k0 k) eqn:E.
  - apply String.eqb_eq in E. exfalso. apply H. now left.
  - f_equal. apply IH. unfold mkeys. tauto.
Qed.

Lemma fold_mput_fresh : forall (X V : Type) (kf : X -> string) (vf : X -> V) xs (m : gomap V),
    NoDup (map kf xs) -> (forall x, In x xs -> ~ In (kf x) (mkeys m)) ->
    fold_left (fun m x => mput m (kf x) (vf x)) xs m = m ++ map (fun x => (kf x, vf x)) xs.
Proof.
  intros X V kf vf. induction xs as [|x xs IH]; intros m Hnd Hfresh; simpl.
  - now rewrite app_nil_r.
  - inversion Hnd as [|? ? Hx Hnd']; subst.
    rewrite mput_fresh by (apply Hfresh; now left).
    rewrite IH; [now rewrite <- app_assoc|assumption|].
    intros y Hy. unfold mkeys. rewrite map_app, in_app_iff. simpl. intros [H|[H|[]]].
    + apply (Hfresh y); [now right|exact H].
    + apply Hx. rewrite H. now apply in_map.
Qed.

(* the immediate subdirectories are distinct names without a separator (true of any ReadDir result) *)
Definition dirs_ok (t : ctree) : Prop := NoDup (ct_dirs t) /\ Forall no_slash (ct_dirs t).

Definition report_dirs (t : ctree) : list string := filter (fun d => negb (is_ignore_dir d)) (ct_dirs t).

Definition dir_cells (o : copts) (t : ctree) (d : string) : list nat :=
  map (lang_code o [d] t) (header_keys o t).

Lemma language_map_shape : forall o t,
    dirs_ok t ->
    language_map o t =
    map (fun d => (d, dir_lang_map (header_keys o t) (scc_run o [d] t))) (report_dirs t).
Proof.
  intros o t [Hnd Hns]. unfold language_map, process_dirs. fold (report_dirs t).
  assert (Hsub : forall d, In d (report_dirs t) -> no_slash d).
  { intros d Hd. unfold report_dirs in Hd. apply filter_In in Hd. rewrite Forall_forall in Hns.
    now apply Hns. }
  assert (Hnd' : NoDup (report_dirs t)) by (now apply NoDup_filter).
  revert Hsub Hnd'. generalize (report_dirs t). intros ds Hsub Hnd'.
  transitivity (fold_left (fun m d => mput m d (dir_lang_map (header_keys o t) (scc_run o [d] t))) ds []).
  - generalize (@nil (string * gomap lsum)). induction ds as [|d ds IH]; intros m; simpl; [reflexivity|].
    unfold build_language_map at 2. simpl. rewrite dir_name_roundtrip by (apply Hsub; now left).
    apply IH; [intros; apply Hsub; now right|now inversion Hnd'].
  - rewrite (fold_mput_fresh string (gomap lsum) (fun d => d)); [reflexivity|now rewrite map_id|].
    intros x _ [].
Qed.

(* MASTER SHAPE of cloc.csv: the header, then one record per reported directory made of its name,
   the sum of its cells and one cell per header key = code lines of that language in its own run; header keys = the whole-tree
   run's languages followed by the languages only a per-directory run names (MergeDirKeys) *)
Theorem bydir_shape : forall o t,
    dirs_ok t ->
    process_by_directory o t =
    ("package" :: "summary" :: header_keys o t) ::
    map (fun d => d :: string_of_nat (list_sum (dir_cells o t d)) :: map string_of_nat (dir_cells o t d))
        (report_dirs t).
Proof.
  intros o t H. unfold process_by_directory, build_cloc_csv_data. rewrite (language_map_shape o t H).
  f_equal. rewrite map_map. apply map_ext. intros d. unfold csv_row. simpl.
  rewrite row_codes_dir_lang_map, fold_add_is_list_sum.
  assert (E : map (fun key => code_of key (scc_run o [d] t)) (header_keys o t) = dir_cells o t d).
  { unfold dir_cells. apply map_ext. intros key. apply code_of_scc_run. }
  now rewrite E.
Qed.

(* ------------------------------------------------------------------ MergeDirKeys *)
Lemma add_keys_spec : forall news keys,
    NoDup keys ->
    NoDup (add_keys keys news) /\ (forall x, In x (add_keys keys news) <-> In x keys \/ In x news).
Proof.
  unfold add_keys. induction news as [|n news IH]; intros keys Hnd; simpl.
  - split; [exact Hnd|]. intros x. tauto.
  - destruct (str_mem n keys) eqn:E.
    + destruct (IH keys Hnd) as [H1 H2]. split; [exact H1|]. intros x. rewrite H2.
      apply str_mem_In in E. split; [tauto|]. intros [H|[H|H]]; subst; auto.
    + assert (Hn : ~ In n keys) by (intros H; apply str_mem_In in H; congruence).
      assert (Hnd' : NoDup (keys ++ [n])).
      { eapply Permutation_NoDup; [apply Permutation_cons_append|]. now constructor. }
      destruct (IH (keys ++ [n]) Hnd') as [H1 H2]. split; [exact H1|]. intros x.
      rewrite H2, in_app_iff. simpl. tauto.
Qed.

Lemma merge_dir_keys_spec : forall files keys,
    NoDup keys ->
    NoDup (merge_dir_keys keys files) /\
    (forall x, In x (merge_dir_keys keys files) <->
               In x keys \/ exists file, In file files /\ In x (build_base_key (snd file))).
Proof.
  unfold merge_dir_keys. induction files as [|file files IH]; intros keys Hnd; simpl.
  - split; [exact Hnd|]. intros x. split; [tauto|]. intros [H|[file [[] _]]]. exact H.
  - destruct (add_keys_spec (build_base_key (snd file)) keys Hnd) as [A1 A2].
    destruct (IH _ A1) as [H1 H2]. split; [exact H1|]. intros x. rewrite H2, A2. split.
    + intros [[H|H]|[f [Hf Hx]]]; [now left|right; exists file; auto|right; exists f; auto].
    + intros [H|[f [[<-|Hf] Hx]]]; [tauto|tauto|right; exists f; auto].
Qed.

Lemma header_keys_nodup : forall o t, NoDup (header_keys o t).
Proof. intros o t. apply merge_dir_keys_spec. apply scc_run_names_nodup. Qed.

Lemma header_keys_in : forall o t l,
    In l (header_keys o t) <->
    In l (base_keys o t) \/ exists d, In d (report_dirs t) /\ In l (map ls_name (scc_run o [d] t)).
Proof.
  intros o t l. unfold header_keys.
  rewrite (proj2 (merge_dir_keys_spec (process_dirs o t) (base_keys o t) (scc_run_names_nodup o [] t))).
  unfold process_dirs. fold (report_dirs t). split; (intros [H|H]; [now left|right]).
  - destruct H as [file [Hf Hx]]. apply in_map_iff in Hf. destruct Hf as [d [<- Hd]]. exists d. auto.
  - destruct H as [d [Hd Hx]]. exists (output_file d, scc_run o [d] t). split; [|exact Hx].
    apply in_map_iff. exists d. auto.
Qed.

(* ------------------------------------------------------------------ by-directory: the clauses, Prop level *)
Definition csv_header (o : copts) (t : ctree) : list string := hd [] (process_by_directory o t).
Definition csv_rows (o : copts) (t : ctree) : list (list string) := tl (process_by_directory o t).

Lemma csv_header_eq : forall o t, csv_header o t = "package" :: "summary" :: header_keys o t.
Proof. reflexivity. Qed.

Lemma csv_rows_eq : forall o t,
    dirs_ok t ->
    csv_rows o t =
    map (fun d => d :: string_of_nat (list_sum (dir_cells o t d)) :: map string_of_nat (dir_cells o t d))
        (report_dirs t).
Proof. intros o t H. unfold csv_rows. now rewrite (bydir_shape o t H). Qed.

(* rows_exact: exactly one row per immediate subdirectory outside the IsIgnoreDir list, in ReadDir order
   (the real rows come out in map order: compared as a set by the check) *)
Theorem rows_exact : forall o t,
    dirs_ok t -> map row_name (csv_rows o t) = report_dirs t.
Proof.
  intros o t H. rewrite (csv_rows_eq o t H), map_map. simpl. apply map_id.
Qed.

Theorem report_dirs_spec : forall t d,
    In d (report_dirs t) <->
    In d (ct_dirs t) /\ ~ In d [".git"; ".svn"; ".hg"; ".idea"; "coca_reporter"].
Proof.
  intros t d. unfold report_dirs. rewrite filter_In, negb_true_iff, <- is_ignore_dir_list.
  destruct (is_ignore_dir d); intuition congruence.
Qed.

Theorem rows_nodup : forall o t, dirs_ok t -> NoDup (map row_name (csv_rows o t)).
Proof. intros o t H. rewrite (rows_exact o t H). apply NoDup_filter. apply H. Qed.

(* header_languages: the header names, once each, exactly the languages of the files that the
   whole-tree run or the run of a reported directory counts *)
Theorem header_languages : forall o t,
    firstn 2 (csv_header o t) = ["package"; "summary"] /\
    NoDup (skipn 2 (csv_header o t)) /\
    forall l, In l (skipn 2 (csv_header o t)) <->
              exists f, In f (ct_files t) /\ cf_lang f = l /\
                        (visible o [] f = true \/
                         exists d, In d (report_dirs t) /\ visible o [d] f = true).
Proof.
  intros o t. rewrite csv_header_eq. simpl. split; [reflexivity|]. split.
  - apply header_keys_nodup.
  - intros l. rewrite header_keys_in. unfold base_keys, build_base_key. rewrite scc_run_names.
    unfold run_files. split.
    + intros [[f [Hf Hl]]|[d [Hd Hx]]].
      * apply filter_In in Hf. exists f. tauto.
      * apply scc_run_names in Hx. destruct Hx as [f [Hf Hl]]. unfold run_files in Hf.
        apply filter_In in Hf. exists f. split; [tauto|]. split; [exact Hl|]. right. exists d. tauto.
    + intros [f [Hf [Hl [Hv|[d [Hd Hv]]]]]].
      * left. exists f. rewrite filter_In. tauto.
      * right. exists d. split; [exact Hd|]. apply scc_run_names. exists f. unfold run_files.
        rewrite filter_In. tauto.
Qed.

(* in particular the languages of a reported subdirectory are named whatever its name is, also when
   the whole-tree run skips it because its path ends with an --exclude-dir pattern (repo.git) *)
Theorem header_names_dir_languages : forall o t d f,
    In d (report_dirs t) -> In f (ct_files t) -> visible o [d] f = true ->
    In (cf_lang f) (skipn 2 (csv_header o t)).
Proof.
  intros o t d f Hd Hf Hv. apply (proj2 (proj2 (header_languages o t))). exists f.
  split; [exact Hf|]. split; [reflexivity|]. right. exists d. auto.
Qed.

(* cell_correct: in the row of directory d, the cell under header language k is the number of code
   lines of language k among the files the run of d counts; cells are aligned with the header *)
Theorem cell_correct : forall o t r,
    dirs_ok t -> In r (csv_rows o t) ->
    In (row_name r) (report_dirs t) /\
    row_cells r = map (fun k => string_of_nat (lang_code o [row_name r] t k)) (skipn 2 (csv_header o t)).
Proof.
  intros o t r H Hin. rewrite (csv_rows_eq o t H) in Hin. apply in_map_iff in Hin.
  destruct Hin as [d [<- Hd]]. simpl. split; [exact Hd|]. unfold dir_cells. now rewrite map_map.
Qed.

Theorem row_width : forall o t r,
    dirs_ok t -> In r (csv_rows o t) -> List.length r = List.length (csv_header o t).
Proof.
  intros o t r H Hin. rewrite (csv_rows_eq o t H) in Hin. apply in_map_iff in Hin.
  destruct Hin as [d [<- Hd]]. simpl. unfold dir_cells. now rewrite !map_length.
Qed.

(* missing_language_zero: no counted file of language k in d => that cell is 0 *)
Theorem missing_language_zero : forall o t d k,
    (forall f, In f (ct_files t) -> visible o [d] f = true -> cf_lang f <> k) ->
    lang_code o [d] t k = 0.
Proof.
  intros o t d k H. unfold lang_code. rewrite lang_files_nil; [reflexivity|].
  rewrite in_map_iff. intros [f [Hl Hf]]. unfold run_files in Hf. apply filter_In in Hf.
  exact (H f (proj1 Hf) (proj2 Hf) Hl).
Qed.

(* summary_is_sum: the summary column is the sum of the row's cells *)
Theorem summary_is_sum : forall o t r,
    dirs_ok t -> In r (csv_rows o t) ->
    exists cells, row_cells r = map string_of_nat cells /\ row_summary r = string_of_nat (list_sum cells).
Proof.
  intros o t r H Hin. rewrite (csv_rows_eq o t H) in Hin. apply in_map_iff in Hin.
  destruct Hin as [d [<- Hd]]. exists (dir_cells o t d). split; reflexivity.
Qed.

(* ------------------------------------------------------------------ decimal numbers round-trip *)
Lemma digit_roundtrip : forall d, d < 10 -> digit_of_ascii (ascii_of_digit d) = Some d.
Proof.
  intros d H. do 10 (destruct d as [|d]; [reflexivity|]). lia.
Qed.

Fixpoint ndigits (f n : nat) : nat :=
  match f with 0 => 0 | S f' => if Nat.ltb n 10 then 1 else S (ndigits f' (Nat.div n 10)) end.

Lemma nat_of_string_acc_fuel : forall f n acc a,
    n < f ->
    nat_of_string_acc (string_of_nat_fuel f n acc) a = nat_of_string_acc acc (a * 10 ^ ndigits f n + n).
Proof.
  induction f as [|f IH]; intros n acc a H; [lia|].
  cbn [string_of_nat_fuel ndigits]. destruct (Nat.ltb n 10) eqn:E.
  - apply Nat.ltb_lt in E. cbn [nat_of_string_acc]. rewrite digit_roundtrip.
    + rewrite Nat.mod_small by exact E. f_equal; simpl; lia.
    + apply Nat.mod_upper_bound. lia.
  - apply Nat.ltb_ge in E.
    assert (Hdiv : Nat.div n 10 < f).
    { assert (Nat.div n 10 < n) by (apply Nat.div_lt; lia). lia. }
    rewrite IH by exact Hdiv. cbn [nat_of_string_acc]. rewrite digit_roundtrip.
    + f_equal. rewrite Nat.pow_succ_r'. pose proof (Nat.div_mod n 10 ltac:(lia)). lia.
    + apply Nat.mod_upper_bound. lia.
Qed.

Lemma nat_of_string_of_nat : forall n, nat_of_string (string_of_nat n) = n.
Proof.
  intros n. unfold nat_of_string, string_of_nat. rewrite nat_of_string_acc_fuel by lia. reflexivity.
Qed.

Lemma is_number_string_of_nat : forall n, is_number (string_of_nat n) = true.
Proof. intros n. unfold is_number. rewrite nat_of_string_of_nat. apply String.eqb_refl. Qed.

(* ------------------------------------------------------------------ clean trees: model figures = ground truth *)
(* no path of the tree ends with an entry of the path deny list (the default of --exclude-dir) *)
Definition tree_clean (o : copts) (t : ctree) : Prop :=
  forall f, In f (ct_files t) -> cf_path f <> [] /\ walk_ok (co_root o) 0 (cf_path f) = true.

Definition tree_clean_b (o : copts) (t : ctree) : bool :=
  forallb (fun f => match cf_path f with [] => false | _ => true end && walk_ok (co_root o) 0 (cf_path f))
          (ct_files t).

Lemma tree_clean_b_sound : forall o t, tree_clean_b o t = true -> tree_clean o t.
Proof.
  intros o t H f Hf. unfold tree_clean_b in H. rewrite forallb_forall in H. specialize (H f Hf).
  apply andb_true_iff in H. destruct H as [H1 H2]. split; [|exact H2].
  destruct (cf_path f); [discriminate|discriminate].
Qed.

Lemma walk_ok_weaken : forall root path, walk_ok root 0 path = true -> walk_ok root 1 path = true.
Proof.
  intros root path H. unfold walk_ok in *. rewrite forallb_forall in *. intros k Hk.
  apply H. rewrite in_seq in *. lia.
Qed.

Lemma ext_ok_in_scope : forall o f, ext_ok o f = in_scope o f.
Proof. reflexivity. Qed.

Lemma visible_base_clean : forall o t f,
    tree_clean o t -> In f (ct_files t) -> visible o [] f = in_scope o f.
Proof.
  intros o t f Hc Hf. destruct (Hc f Hf) as [Hne Hw]. unfold visible.
  change (List.length (@nil string)) with 0. rewrite Hw, ext_ok_in_scope.
  destruct (cf_path f); [congruence|]. simpl. now rewrite andb_true_r.
Qed.

(* the weaker hypothesis of the by-directory theorems: the deny list is not hit BELOW the immediate
   subdirectories (nor by a file lying directly in DIR); a subdirectory's own name may hit it (repo.git) *)
Definition below_ok (root : string) (path : list string) : bool :=
  walk_ok root (match path with [_] => 0 | _ => 1 end) path.

Definition tree_clean_below (o : copts) (t : ctree) : Prop :=
  forall f, In f (ct_files t) -> cf_path f <> [] /\ below_ok (co_root o) (cf_path f) = true.

Definition tree_clean_below_b (o : copts) (t : ctree) : bool :=
  forallb (fun f => match cf_path f with [] => false | _ => true end && below_ok (co_root o) (cf_path f))
          (ct_files t).

Lemma tree_clean_below_b_sound : forall o t, tree_clean_below_b o t = true -> tree_clean_below o t.
Proof.
  intros o t H f Hf. unfold tree_clean_below_b in H. rewrite forallb_forall in H. specialize (H f Hf).
  apply andb_true_iff in H. destruct H as [H1 H2]. split; [|exact H2].
  destruct (cf_path f); [discriminate|discriminate].
Qed.

Lemma tree_clean_weaken : forall o t, tree_clean o t -> tree_clean_below o t.
Proof.
  intros o t H f Hf. destruct (H f Hf) as [Hne Hw]. split; [exact Hne|]. unfold below_ok.
  destruct (cf_path f) as [|a [|b r]]; try exact Hw; now apply walk_ok_weaken.
Qed.

Lemma visible_in_scope : forall o p f, visible o p f = true -> in_scope o f = true.
Proof.
  intros o p f H. unfold visible in H. rewrite !andb_true_iff in H. rewrite <- ext_ok_in_scope. tauto.
Qed.

Lemma visible_dir_clean : forall o t d f,
    tree_clean_below o t -> In f (ct_files t) -> visible o [d] f = in_scope o f && under d f.
Proof.
  intros o t d f Hc Hf. destruct (Hc f Hf) as [Hne Hw]. unfold visible.
  change (List.length [d]) with 1. rewrite ext_ok_in_scope. unfold under, top_dir. unfold below_ok in Hw.
  destruct (cf_path f) as [|a [|b r]].
  - congruence.
  - simpl. rewrite !andb_false_r. reflexivity.
  - rewrite Hw. simpl. rewrite !andb_true_r. apply andb_comm.
Qed.

Lemma visible_root_file_clean : forall o t f,
    tree_clean_below o t -> In f (ct_files t) -> top_dir f = None -> visible o [] f = in_scope o f.
Proof.
  intros o t f Hc Hf Ht. destruct (Hc f Hf) as [Hne Hw]. unfold visible.
  change (List.length (@nil string)) with 0. rewrite ext_ok_in_scope. unfold top_dir in Ht. unfold below_ok in Hw.
  destruct (cf_path f) as [|a [|b r]]; [congruence| |discriminate].
  rewrite Hw. simpl. now rewrite andb_true_r.
Qed.

Lemma filter_ext_in : forall (A : Type) (p q : A -> bool) l,
    (forall x, In x l -> p x = q x) -> filter p l = filter q l.
Proof.
  intros A p q. induction l as [|x l IH]; intros H; simpl; [reflexivity|].
  rewrite (H x) by now left. rewrite IH; [reflexivity|]. intros y Hy. apply H. now right.
Qed.

(* cell = the code lines of that language inside that subdirectory (ground truth of the spec) *)
Theorem cell_matches_ground_truth : forall o t d k,
    tree_clean_below o t -> lang_code o [d] t k = expected_cell o t d k.
Proof.
  intros o t d k Hc. unfold lang_code, expected_cell, sum_code, lang_files, run_files.
  f_equal. f_equal.
  assert (forall (p q : cfile -> bool) l, filter q (filter p l) = filter (fun x => p x && q x) l) as Hff.
  { intros p q. induction l as [|x l IH]; simpl; [reflexivity|].
    destruct (p x); simpl; [destruct (q x)|]; now rewrite IH. }
  rewrite Hff. apply filter_ext_in. intros f Hf. now rewrite (visible_dir_clean o t d f Hc Hf).
Qed.

(* ------------------------------------------------------------------ the decider accepts the model's report *)
Lemma clause_true : forall b n, b = true -> clause b n = [].
Proof. intros b n ->. reflexivity. Qed.

Lemma nodup_b_true : forall l, NoDup l -> nodup_b l = true.
Proof.
  induction l as [|x l IH]; intros H; simpl; [reflexivity|]. inversion H; subst.
  rewrite IH by assumption. rewrite andb_true_r. apply negb_true_iff.
  destruct (str_mem x l) eqn:E; [|reflexivity]. apply str_mem_In in E. contradiction.
Qed.

Lemma same_names_refl : forall l, same_names l l = true.
Proof.
  intros l. unfold same_names. rewrite Nat.eqb_refl. simpl. apply forallb_forall. intros x _.
  apply Nat.eqb_refl.
Qed.

Lemma expected_rows_report_dirs : forall t, expected_rows t = report_dirs t.
Proof.
  intros t. unfold expected_rows, report_dirs. apply filter_ext. intros d.
  now rewrite is_ignore_dir_skipped.
Qed.

Lemma list_sum_map_add : forall (A : Type) (g h : A -> nat) l,
    list_sum (map (fun k => g k + h k) l) = list_sum (map g l) + list_sum (map h l).
Proof. intros A g h. induction l as [|x l IH]; simpl; [reflexivity|]. rewrite IH. lia. Qed.

Lemma list_sum_indicator : forall x c keys,
    NoDup keys -> In x keys ->
    list_sum (map (fun k => if String.eqb x k then c else 0) keys) = c.
Proof.
  intros x c. induction keys as [|k keys IH]; intros Hnd Hin; [destruct Hin|].
  inversion Hnd as [|? ? Hk Hnd']; subst. simpl. destruct (String.eqb x k) eqn:E.
  - apply String.eqb_eq in E. subst k.
    assert (Hz : list_sum (map (fun k => if String.eqb x k then c else 0) keys) = 0).
    { clear -Hk. induction keys as [|y keys IH]; simpl; [reflexivity|].
      destruct (String.eqb x y) eqn:E.
      - apply String.eqb_eq in E. subst. exfalso. apply Hk. now left.
      - apply IH. intros H. apply Hk. now right. }
    lia.
  - destruct Hin as [->|Hin]; [rewrite String.eqb_refl in E; discriminate|]. now apply IH.
Qed.

Lemma sum_by_keys : forall (fs : list cfile) keys,
    NoDup keys -> (forall f, In f fs -> In (cf_lang f) keys) ->
    list_sum (map (fun k => list_sum (map cf_code (filter (fun f => String.eqb (cf_lang f) k) fs))) keys)
    = list_sum (map cf_code fs).
Proof.
  induction fs as [|f fs IH]; intros keys Hnd Hcov.
  - clear. induction keys as [|k keys IHk]; simpl in *; [reflexivity|assumption].
  - transitivity (list_sum (map (fun k => (if String.eqb (cf_lang f) k then cf_code f else 0) +
                                           list_sum (map cf_code (filter (fun g => String.eqb (cf_lang g) k) fs)))
                                keys)).
    + f_equal. apply map_ext. intros k. simpl. destruct (String.eqb (cf_lang f) k); reflexivity.
    + rewrite list_sum_map_add. rewrite list_sum_indicator; [|assumption|apply Hcov; now left].
      rewrite IH; [reflexivity|assumption|]. intros g Hg. apply Hcov. now right.
Qed.

Lemma filter_filter : forall (A : Type) (p q : A -> bool) l,
    filter q (filter p l) = filter (fun x => p x && q x) l.
Proof.
  intros A p q. induction l as [|x l IH]; simpl; [reflexivity|].
  destruct (p x); simpl; [destruct (q x)|]; now rewrite IH.
Qed.

(* every file below an immediate subdirectory lives in a listed subdirectory *)
Definition files_in_dirs (t : ctree) : Prop :=
  forall f d, In f (ct_files t) -> top_dir f = Some d -> In d (ct_dirs t).

Definition files_in_dirs_b (t : ctree) : bool :=
  forallb (fun f => match top_dir f with Some d => str_mem d (ct_dirs t) | None => true end) (ct_files t).

Lemma files_in_dirs_b_sound : forall t, files_in_dirs_b t = true -> files_in_dirs t.
Proof.
  intros t H f d Hf Hd. unfold files_in_dirs_b in H. rewrite forallb_forall in H. specialize (H f Hf).
  rewrite Hd in H. now apply str_mem_In.
Qed.

Lemma counted_in_scope : forall o f, counted o f = true -> in_scope o f = true.
Proof. intros o f H. unfold counted in H. apply andb_true_iff in H. tauto. Qed.

Lemma base_keys_in : forall o t f,
    tree_clean o t -> In f (ct_files t) -> in_scope o f = true -> In (cf_lang f) (base_keys o t).
Proof.
  intros o t f Hc Hf Hs. unfold base_keys, build_base_key. rewrite scc_run_names. exists f.
  split; [|reflexivity]. unfold run_files. apply filter_In. split; [exact Hf|].
  now rewrite (visible_base_clean o t f Hc Hf).
Qed.

Lemma dir_cells_total : forall o t d,
    tree_clean_below o t -> In d (report_dirs t) -> list_sum (dir_cells o t d) = expected_total o t d.
Proof.
  intros o t d Hc Hd. unfold dir_cells, expected_total.
  rewrite (map_ext _ (expected_cell o t d)) by (intros k; now apply cell_matches_ground_truth).
  unfold expected_cell.
  rewrite (map_ext _ (fun k => list_sum (map cf_code (filter (fun f => String.eqb (cf_lang f) k)
                                 (filter (fun f => in_scope o f && under d f) (ct_files t)))))).
  2:{ intros k. now rewrite filter_filter. }
  apply sum_by_keys.
  - apply header_keys_nodup.
  - intros f Hf. apply filter_In in Hf. destruct Hf as [Hf Hs].
    apply header_keys_in. right. exists d. split; [exact Hd|]. apply scc_run_names. exists f.
    split; [|reflexivity]. unfold run_files. apply filter_In. split; [exact Hf|].
    now rewrite (visible_dir_clean o t d f Hc Hf).
Qed.

Lemma combine_map_r : forall (A B : Type) (g : A -> B) l, combine l (map g l) = map (fun x => (x, g x)) l.
Proof. intros A B g. induction l as [|x l IH]; simpl; [reflexivity|]. now rewrite IH. Qed.

(* the specification's decider finds no failing clause in the model's by-directory report, for every
   tree whose deny-list hits (if any) are names of immediate subdirectories (languages found only in an
   IDE/report directory included: their column is all zero) *)
Theorem bydir_model_meets_spec : forall o t,
    dirs_ok t -> tree_clean_below o t -> files_in_dirs t ->
    c16_bydir_verdict o t (csv_header o t) (csv_rows o t) = [].
Proof.
  intros o t Hd Hc Hfd. unfold c16_bydir_verdict.
  rewrite (csv_rows_eq o t Hd), csv_header_eq. cbn [skipn firstn].
  set (keys := header_keys o t).
  set (row := fun d => d :: string_of_nat (list_sum (dir_cells o t d)) :: map string_of_nat (dir_cells o t d)).
  assert (Hcells : forall d b, cells_ok b o t keys (row d) = true).
  { intros d b. unfold cells_ok, row, row_cells, row_name. cbn [skipn hd]. unfold dir_cells. fold keys.
    rewrite map_map, combine_map_r. rewrite forallb_forall. intros lc Hlc. apply in_map_iff in Hlc.
    destruct Hlc as [k [<- Hk]]. cbn [fst snd]. rewrite (cell_matches_ground_truth o t d k Hc).
    destruct (Bool.eqb _ b); [apply String.eqb_refl|reflexivity]. }
  repeat rewrite clause_true; try reflexivity.
  - (* summary_is_total *)
    rewrite forallb_forall. intros r Hr. apply in_map_iff in Hr. destruct Hr as [d [<- Hdin]].
    unfold row, row_summary, row_name. cbn [nth hd]. rewrite (dir_cells_total o t d Hc Hdin).
    apply String.eqb_refl.
  - (* summary_is_sum *)
    rewrite forallb_forall. intros r Hr. apply in_map_iff in Hr. destruct Hr as [d [<- _]].
    unfold row, row_summary, row_cells. cbn [nth skipn]. apply andb_true_iff. split.
    + cbn [forallb]. rewrite is_number_string_of_nat. simpl. rewrite forallb_forall.
      intros c Hcin. apply in_map_iff in Hcin. destruct Hcin as [n [<- _]]. apply is_number_string_of_nat.
    + rewrite nat_of_string_of_nat, map_map.
      rewrite (map_ext _ (fun n => n)) by (intros n; apply nat_of_string_of_nat).
      rewrite map_id. apply Nat.eqb_refl.
  - (* missing_language_zero *)
    rewrite forallb_forall. intros r Hr. apply in_map_iff in Hr. destruct Hr as [d [<- _]]. apply Hcells.
  - (* cell_correct *)
    rewrite forallb_forall. intros r Hr. apply in_map_iff in Hr. destruct Hr as [d [<- _]]. apply Hcells.
  - (* row_width *)
    rewrite forallb_forall. intros r Hr. apply in_map_iff in Hr. destruct Hr as [d [<- _]].
    unfold row, dir_cells. fold keys. simpl. rewrite !map_length. apply Nat.eqb_refl.
  - (* rows_exact *)
    rewrite map_map. unfold row at 1. cbn [row_name hd]. rewrite map_id, expected_rows_report_dirs.
    apply same_names_refl.
  - (* header_known_languages *)
    rewrite forallb_forall. intros l Hl. unfold keys in Hl. apply header_keys_in in Hl.
    assert (Hex : exists p f, In f (run_files o p t) /\ cf_lang f = l).
    { destruct Hl as [Hl|[d [_ Hl]]].
      - unfold base_keys, build_base_key in Hl. apply scc_run_names in Hl. destruct Hl as [f H]. eauto.
      - apply scc_run_names in Hl. destruct Hl as [f H]. eauto. }
    destruct Hex as [p [f [Hf <-]]]. unfold run_files in Hf. apply filter_In in Hf. destruct Hf as [Hf Hv].
    apply existsb_exists. exists f. split; [exact Hf|].
    now rewrite (visible_in_scope o p f Hv), String.eqb_refl.
  - (* header_languages *)
    apply andb_true_iff. split.
    + rewrite forallb_forall. intros l Hl. apply in_map_iff in Hl. destruct Hl as [f [<- Hf]].
      apply filter_In in Hf. destruct Hf as [Hf Hcf]. apply str_mem_In. unfold keys.
      apply header_keys_in. unfold counted in Hcf. apply andb_true_iff in Hcf. destruct Hcf as [Hs Hk].
      destruct (top_dir f) as [d|] eqn:Etd.
      * right. exists d. split.
        -- unfold report_dirs. apply filter_In. split; [now apply (Hfd f d)|].
           now rewrite is_ignore_dir_skipped.
        -- apply scc_run_names. exists f. split; [|reflexivity]. unfold run_files. apply filter_In.
           split; [exact Hf|]. rewrite (visible_dir_clean o t d f Hc Hf), Hs. unfold under. rewrite Etd.
           now rewrite String.eqb_refl.
      * left. unfold base_keys, build_base_key. apply scc_run_names. exists f. split; [|reflexivity].
        unfold run_files. apply filter_In. split; [exact Hf|].
        now rewrite (visible_root_file_clean o t f Hc Hf Etd).
    + apply nodup_b_true. apply header_keys_nodup.
Qed.

(* ------------------------------------------------------------------ top-file *)
Definition code_ge (a b : string * nat) : bool := Nat.leb (snd b) (snd a).

Definition top_sections (o : copts) (t : ctree) : list lsum := fst (process_top_file o t).
Definition top_tables (o : copts) (t : ctree) : list (string * list (nat * string)) := snd (process_top_file o t).

Lemma top_sections_eq : forall o t, top_sections o t = sort_lange_by_code (scc_run o [] t).
Proof. reflexivity. Qed.

(* top_file_sorted: every language's files are in non-increasing order of code lines *)
Theorem top_file_sorted : forall o t s,
    In s (top_sections o t) -> sorted code_ge (ls_files s).
Proof.
  intros o t s H. rewrite top_sections_eq in H. unfold sort_lange_by_code in H.
  apply in_map_iff in H. destruct H as [s0 [<- _]]. simpl. unfold sort_files_by_code.
  apply sort_by_sorted.
  - intros a b. apply (ge_total _ snd).
  - intros a b c. apply (ge_trans _ snd).
Qed.

(* same sections, same per-file figures: sorting only permutes each language's files *)
Theorem top_file_same_figures : forall o t,
    Forall2 (fun s' s => ls_name s' = ls_name s /\ Permutation (ls_files s') (ls_files s))
            (top_sections o t) (scc_run o [] t).
Proof.
  intros o t. rewrite top_sections_eq. unfold sort_lange_by_code.
  induction (scc_run o [] t) as [|s l IH]; simpl; constructor; [|exact IH].
  split; [reflexivity|]. apply sort_by_perm_any.
Qed.

(* what scc lists for a language: the files of that language its whole-tree run counts *)
Theorem top_files_listed : forall o t s loc code,
    In s (top_sections o t) ->
    (In (loc, code) (ls_files s) <->
     exists f, In f (ct_files t) /\ visible o [] f = true /\ cf_lang f = ls_name s /\
               loc = loc_str (co_root o) (cf_path f) /\ code = cf_code f).
Proof.
  intros o t s loc code H. rewrite top_sections_eq in H. unfold sort_lange_by_code in H.
  apply in_map_iff in H. destruct H as [s0 [<- Hs0]]. simpl. unfold sort_files_by_code.
  rewrite (Permutation_in' (eq_refl (loc, code)) (sort_by_perm_any _ _ (ls_files s0))).
  apply (Permutation_in _ (scc_run_perm o [] t)) in Hs0. unfold summarize in Hs0.
  apply in_map_iff in Hs0. destruct Hs0 as [l [<- _]]. simpl. rewrite in_map_iff. unfold lang_files, run_files.
  split.
  - intros [f [E Hf]]. inversion E; subst. rewrite !filter_In in Hf. apply proj2 in Hf as Hl.
    apply String.eqb_eq in Hl. exists f. tauto.
  - intros [f [Hf [Hv [Hl [-> ->]]]]]. exists f. split; [reflexivity|]. rewrite !filter_In.
    rewrite Hl, String.eqb_refl. tauto.
Qed.

Lemma top_sizes_min : forall o n, top_sizes o n = Nat.min (co_top o) n.
Proof.
  intros o n. unfold top_sizes. change (cmp_eval cloc_top_size_cmp n (co_top o)) with (Nat.leb (co_top o) n).
  destruct (Nat.leb (co_top o) n) eqn:E.
  - apply Nat.leb_le in E. lia.
  - apply Nat.leb_gt in E. lia.
Qed.

(* top_file_truncated: with at most cloc_top_lang_limit languages there is one table per section, made of
   the first min(top-size, n) files of the listing with their own code figure *)
Theorem top_file_truncated : forall o t,
    List.length (top_sections o t) <= cloc_top_lang_limit ->
    top_tables o t =
    map (fun s => (ls_name s,
                   map (fun f => (snd f, trim_left (co_dirarg o) (fst f)))
                       (firstn (Nat.min (co_top o) (List.length (ls_files s))) (ls_files s))))
        (top_sections o t).
Proof.
  intros o t H. unfold top_tables, top_sections, process_top_file in *. cbn [fst snd] in *.
  apply Nat.leb_le in H. rewrite H. apply map_ext. intros s. unfold top_table.
  now rewrite top_sizes_min.
Qed.

Theorem top_table_length : forall o t tab,
    List.length (top_sections o t) <= cloc_top_lang_limit ->
    In tab (top_tables o t) ->
    exists s, In s (top_sections o t) /\ fst tab = ls_name s /\
              List.length (snd tab) = Nat.min (co_top o) (List.length (ls_files s)).
Proof.
  intros o t tab H Hin. rewrite (top_file_truncated o t H) in Hin. apply in_map_iff in Hin.
  destruct Hin as [s [<- Hs]]. exists s. split; [exact Hs|]. split; [reflexivity|].
  simpl. rewrite map_length, firstn_length. lia.
Qed.

(* more languages than the limit: nothing is printed at all *)
Theorem top_tables_suppressed : forall o t,
    cloc_top_lang_limit < List.length (top_sections o t) -> top_tables o t = [].
Proof.
  intros o t H. unfold top_tables, top_sections, process_top_file in *. cbn [fst snd] in *.
  apply Nat.leb_gt in H. now rewrite H.
Qed.

(* the displayed location: strings.TrimLeft is a character-set trim *)
Definition in_cutset (cutset : string) (c : ascii) : bool := existsb (Ascii.eqb c) (chars cutset).

Lemma trim_left_prefix : forall cutset pre s,
    forallb (in_cutset cutset) (chars pre) = true ->
    trim_left cutset (pre ++ s)%string = trim_left cutset s.
Proof.
  intros cutset. induction pre as [|c pre IH]; intros s H; [reflexivity|].
  simpl in H. apply andb_true_iff in H. destruct H as [H1 H2]. cbn [append trim_left].
  unfold in_cutset in H1. rewrite H1. now apply IH.
Qed.

Lemma trim_left_stop : forall cutset c r,
    in_cutset cutset c = false -> trim_left cutset (String c r) = String c r.
Proof. intros cutset c r H. cbn [trim_left]. unfold in_cutset in H. now rewrite H. Qed.

(* when the display IS the path relative to DIR: the root's characters all occur in DIR (always true
   of root/ itself when DIR is clean) and the relative path starts with a character that does not *)
Theorem top_location_exact : forall o path c r,
    String.eqb (co_root o) "." = false ->
    forallb (in_cutset (co_dirarg o)) (chars (co_root o ++ "/")) = true ->
    join "/" path = String c r -> in_cutset (co_dirarg o) c = false ->
    trim_left (co_dirarg o) (loc_str (co_root o) path) = join "/" path.
Proof.
  intros o path c r Hroot Hpre Hj Hc. unfold loc_str. rewrite Hroot.
  rewrite <- append_assoc. rewrite trim_left_prefix by exact Hpre. rewrite Hj. now apply trim_left_stop.
Qed.

(* ... and when it is not: a relative path that starts with a character of DIR loses it *)
Theorem top_location_eaten : forall o path c r,
    String.eqb (co_root o) "." = false ->
    forallb (in_cutset (co_dirarg o)) (chars (co_root o ++ "/")) = true ->
    join "/" path = String c r -> in_cutset (co_dirarg o) c = true ->
    trim_left (co_dirarg o) (loc_str (co_root o) path) = trim_left (co_dirarg o) r.
Proof.
  intros o path c r Hroot Hpre Hj Hc. unfold loc_str. rewrite Hroot.
  rewrite <- append_assoc. rewrite trim_left_prefix by exact Hpre. rewrite Hj.
  cbn [trim_left]. unfold in_cutset in Hc. now rewrite Hc.
Qed.

(* ------------------------------------------------------------------ decidable hypotheses *)
Definition dirs_ok_b (t : ctree) : bool :=
  nodup_b (ct_dirs t) && forallb (fun d => negb (has_char "/"%char d)) (ct_dirs t).

Lemma nodup_b_sound : forall l, nodup_b l = true -> NoDup l.
Proof.
  induction l as [|x l IH]; intros H; [constructor|]. simpl in H. apply andb_true_iff in H.
  destruct H as [H1 H2]. constructor; [|now apply IH]. intros Hin. apply str_mem_In in Hin.
  rewrite Hin in H1. discriminate.
Qed.

Lemma dirs_ok_b_sound : forall t, dirs_ok_b t = true -> dirs_ok t.
Proof.
  intros t H. unfold dirs_ok_b in H. apply andb_true_iff in H. destruct H as [H1 H2]. split.
  - now apply nodup_b_sound.
  - rewrite Forall_forall. intros d Hd. rewrite forallb_forall in H2. specialize (H2 d Hd).
    unfold no_slash. now apply negb_true_iff.
Qed.

(* ------------------------------------------------------------------ examples and refuted conjectures *)
Definition mkf (path : list string) (lang ext : string) (code : nat) : cfile := mkCFile path lang ext code 1 1.

(* a well-behaved tree: a VCS directory, a dotted name, an empty directory, a file in the root *)
Definition ex_opts : copts := mkCOpts "../t" "../t" [] 2.
Definition ex_tree : ctree :=
  mkCTree [".git"; "a"; "a.b"; "empty"]
          [mkf ["root.js"] "JavaScript" "js" 2; mkf ["a"; "x.go"] "Go" "go" 3; mkf ["a"; "sub"; "A.java"] "Java" "java" 3;
           mkf ["a.b"; "y.go"] "Go" "go" 2].

Lemma ex_tree_hypotheses : dirs_ok ex_tree /\ tree_clean ex_opts ex_tree.
Proof.
  split; [apply dirs_ok_b_sound; vm_compute; reflexivity|].
  apply tree_clean_b_sound; vm_compute; reflexivity.
Qed.

Lemma ex_tree_report :
  process_by_directory ex_opts ex_tree =
  [["package"; "summary"; "Go"; "Java"; "JavaScript"];
   ["a"; "6"; "3"; "3"; "0"]; ["a.b"; "2"; "2"; "0"; "0"]; ["empty"; "0"; "0"; "0"; "0"]].
Proof. vm_compute. reflexivity. Qed.

Lemma ex_tree_top :
  top_tables ex_opts ex_tree =
  [("Go", [(3, "a/x.go"); (2, "a.b/y.go")]); ("Java", [(3, "a/sub/A.java")]); ("JavaScript", [(2, "root.js")])].
Proof. vm_compute. reflexivity. Qed.

(* REFUTED (D-C16-1): "the top-file table shows each file by its path relative to DIR".
   coca cloc a/b --top-file with a/b/ab/x.go: the table shows x.go *)
Definition cut_opts : copts := mkCOpts "a/b" "a/b" [] 30.
Definition cut_tree : ctree := mkCTree ["ab"] [mkf ["ab"; "x.go"] "Go" "go" 2].

Lemma top_location_refuted :
  top_tables cut_opts cut_tree = [("Go", [(2, "x.go")])] /\
  c16_top_verdict cut_opts cut_tree
                  (map (fun s => (ls_name s, ls_files s)) (top_sections cut_opts cut_tree))
                  (top_tables cut_opts cut_tree) = ["top_file_location"].
Proof. split; vm_compute; reflexivity. Qed.

(* NOT a defect: a language that lives only under .idea (or coca_reporter) is found in the whole tree,
   so the header may name it; its column is all zero and the decider accepts the report *)
Definition hid_opts : copts := mkCOpts "t" "t" [] 30.
Definition hid_tree : ctree :=
  mkCTree [".idea"; "a"] [mkf [".idea"; "w.js"] "JavaScript" "js" 3; mkf ["a"; "x.go"] "Go" "go" 2].

Lemma ignored_only_language_accepted :
  dirs_ok hid_tree /\ tree_clean hid_opts hid_tree /\
  process_by_directory hid_opts hid_tree = [["package"; "summary"; "Go"; "JavaScript"]; ["a"; "2"; "2"; "0"]] /\
  c16_bydir_verdict hid_opts hid_tree (csv_header hid_opts hid_tree) (csv_rows hid_opts hid_tree) = [].
Proof.
  split; [apply dirs_ok_b_sound; vm_compute; reflexivity|].
  split; [apply tree_clean_b_sound; vm_compute; reflexivity|].
  split; vm_compute; reflexivity.
Qed.

(* FIXED (D-C16-3, commit 5353339): a subdirectory whose name ends with .git/.hg/.svn is skipped by the
   whole-tree run (suffix match of the deny list) but counted by its own run; MergeDirKeys names its
   languages in the header, so its row is complete.  The strong hypothesis [tree_clean] fails on this
   tree, the by-directory theorems only need [tree_clean_below] *)
Definition vcs_opts : copts := mkCOpts "t" "t" [] 30.
Definition vcs_tree : ctree :=
  mkCTree ["a"; "old.svn"]
          [mkf ["a"; "x.go"] "Go" "go" 2; mkf ["old.svn"; "g.sh"] "Shell" "sh" 3; mkf ["old.svn"; "y.go"] "Go" "go" 1].

Lemma vcs_suffix_accepted :
  dirs_ok vcs_tree /\ tree_clean_below vcs_opts vcs_tree /\ files_in_dirs vcs_tree /\
  tree_clean_b vcs_opts vcs_tree = false /\
  base_keys vcs_opts vcs_tree = ["Go"] /\
  process_by_directory vcs_opts vcs_tree =
  [["package"; "summary"; "Go"; "Shell"]; ["a"; "2"; "2"; "0"]; ["old.svn"; "4"; "1"; "3"]] /\
  c16_bydir_verdict vcs_opts vcs_tree (csv_header vcs_opts vcs_tree) (csv_rows vcs_opts vcs_tree) = [].
Proof.
  split; [apply dirs_ok_b_sound; vm_compute; reflexivity|].
  split; [apply tree_clean_below_b_sound; vm_compute; reflexivity|].
  split; [apply files_in_dirs_b_sound; vm_compute; reflexivity|].
  repeat split; vm_compute; reflexivity.
Qed.

(* ------------------------------------------------------------------ the decider accepts the model's top-file report *)
Lemma spec_location_loc_str : forall o f, spec_location o f = loc_str (co_root o) (cf_path f).
Proof.
  intros o f. unfold spec_location, loc_str. destruct (String.eqb (co_root o) "."); [reflexivity|].
  now rewrite append_assoc.
Qed.

(* distinct files have distinct locations *)
Definition locations_distinct (o : copts) (t : ctree) : Prop := NoDup (map (spec_location o) (ct_files t)).

(* the character-set trim happens to leave the relative path (up to one leading "/") for every file *)
Definition display_exact (o : copts) (t : ctree) : Prop :=
  forall f, In f (ct_files t) ->
            strip_slash (trim_left (co_dirarg o) (spec_location o f)) = rel_path f.

Definition display_exact_b (o : copts) (t : ctree) : bool :=
  forallb (fun f => String.eqb (strip_slash (trim_left (co_dirarg o) (spec_location o f))) (rel_path f))
          (ct_files t).

Lemma display_exact_b_sound : forall o t, display_exact_b o t = true -> display_exact o t.
Proof.
  intros o t H f Hf. unfold display_exact_b in H. rewrite forallb_forall in H.
  apply String.eqb_eq. now apply H.
Qed.

Lemma file_at_unique : forall o t f,
    locations_distinct o t -> In f (ct_files t) -> file_at o t (spec_location o f) = Some f.
Proof.
  intros o t f. unfold locations_distinct, file_at. induction (ct_files t) as [|x l IH]; intros Hnd Hin; [destruct Hin|].
  simpl in *. inversion Hnd as [|? ? Hx Hnd']; subst. destruct Hin as [->|Hin].
  - now rewrite String.eqb_refl.
  - destruct (String.eqb (spec_location o x) (spec_location o f)) eqn:E.
    + apply String.eqb_eq in E. exfalso. apply Hx. rewrite E. now apply in_map.
    + now apply IH.
Qed.

Lemma NoDup_map_filter : forall (A B : Type) (g : A -> B) (p : A -> bool) l,
    NoDup (map g l) -> NoDup (map g (filter p l)).
Proof.
  intros A B g p. induction l as [|x l IH]; intros H; simpl in *; [constructor|].
  inversion H as [|? ? Hx Hnd]; subst. destruct (p x); simpl; [constructor|]; auto.
  rewrite in_map_iff in *. intros [y [E Hy]]. apply Hx. exists y. apply filter_In in Hy. tauto.
Qed.

Lemma combine_map_both : forall (A B C : Type) (g1 : A -> B) (g2 : A -> C) l,
    combine (map g1 l) (map g2 l) = map (fun x => (g1 x, g2 x)) l.
Proof. intros A B C g1 g2. induction l as [|x l IH]; simpl; [reflexivity|]. now rewrite IH. Qed.

Lemma combine_firstn_map : forall (A B : Type) (h : A -> B) k l,
    combine l (map h (firstn k l)) = map (fun x => (x, h x)) (firstn k l).
Proof.
  intros A B h. induction k as [|k IH]; intros l; destruct l as [|x l]; simpl; try reflexivity.
  now rewrite IH.
Qed.

Lemma in_firstn_in : forall (A : Type) k (l : list A) x, In x (firstn k l) -> In x l.
Proof.
  intros A. induction k as [|k IH]; intros l x H; [destruct H|]. destruct l as [|y l]; [destruct H|].
  simpl in H. destruct H as [H|H]; [now left|right; now apply IH].
Qed.

Lemma strs_eqb_refl : forall l, strs_eqb l l = true.
Proof.
  intros l. unfold strs_eqb. rewrite Nat.eqb_refl. simpl. induction l as [|x l IH]; simpl; [reflexivity|].
  now rewrite String.eqb_refl.
Qed.

Lemma sorted_non_increasing : forall (l : list (string * nat)), sorted code_ge l -> non_increasing (map snd l) = true.
Proof.
  unfold sorted. induction l as [|a l IH]; intros H; [reflexivity|]. inversion H as [|? ? Hs Hall]; subst.
  destruct l as [|b l]; [reflexivity|].
  change (non_increasing (map snd (a :: b :: l))) with (Nat.leb (snd b) (snd a) && non_increasing (map snd (b :: l))).
  rewrite IH by assumption. rewrite andb_true_r. inversion Hall; subst. assumption.
Qed.

Lemma non_increasing_firstn : forall k l, non_increasing l = true -> non_increasing (firstn k l) = true.
Proof.
  induction k as [|k IH]; intros l H; [reflexivity|]. destruct l as [|a l]; [reflexivity|].
  destruct l as [|b l]; [destruct k; reflexivity|].
  change (non_increasing (a :: b :: l)) with (Nat.leb b a && non_increasing (b :: l)) in H.
  apply andb_true_iff in H. destruct H as [H1 H2]. specialize (IH (b :: l) H2).
  destruct k as [|k]; [reflexivity|].
  change (firstn (S (S k)) (a :: b :: l)) with (a :: b :: firstn k l).
  change (firstn (S k) (b :: l)) with (b :: firstn k l) in IH.
  change (non_increasing (a :: b :: firstn k l)) with (Nat.leb b a && non_increasing (b :: firstn k l)).
  now rewrite H1, IH.
Qed.

Lemma section_locations_nodup : forall o t s,
    locations_distinct o t -> In s (top_sections o t) -> NoDup (map fst (ls_files s)).
Proof.
  intros o t s Hd H. rewrite top_sections_eq in H. unfold sort_lange_by_code in H.
  apply in_map_iff in H. destruct H as [s0 [<- Hs0]]. simpl. unfold sort_files_by_code.
  eapply Permutation_NoDup; [symmetry; apply Permutation_map; apply sort_by_perm_any|].
  apply (Permutation_in _ (scc_run_perm o [] t)) in Hs0. unfold summarize in Hs0.
  apply in_map_iff in Hs0. destruct Hs0 as [l [<- _]]. simpl. rewrite map_map. simpl.
  unfold lang_files, run_files. unfold locations_distinct in Hd.
  rewrite (map_ext _ (spec_location o)) by (intros f; symmetry; apply spec_location_loc_str).
  now do 2 apply NoDup_map_filter.
Qed.

Lemma section_for_language : forall o t l,
    In l (base_keys o t) -> exists s, In s (top_sections o t) /\ ls_name s = l.
Proof.
  intros o t l H. unfold base_keys, build_base_key in H. apply in_map_iff in H.
  destruct H as [s0 [<- Hs0]]. rewrite top_sections_eq. unfold sort_lange_by_code.
  eexists. split; [apply in_map_iff; exists s0; split; [reflexivity|exact Hs0]|reflexivity].
Qed.

Lemma top_section_names : forall o t, map ls_name (top_sections o t) = base_keys o t.
Proof.
  intros o t. rewrite top_sections_eq. unfold sort_lange_by_code, base_keys, build_base_key.
  rewrite map_map. reflexivity.
Qed.

Theorem top_model_meets_spec : forall o t,
    tree_clean o t -> locations_distinct o t -> display_exact o t ->
    List.length (top_sections o t) <= cloc_top_lang_limit ->
    c16_top_verdict o t (map (fun s => (ls_name s, ls_files s)) (top_sections o t)) (top_tables o t) = [].
Proof.
  intros o t Hc Hd He Hlim. unfold c16_top_verdict. rewrite (top_file_truncated o t Hlim).
  set (ss := top_sections o t).
  set (h := fun f : string * nat => (snd f, trim_left (co_dirarg o) (fst f))).
  set (k := fun s => Nat.min (co_top o) (List.length (ls_files s))).
  rewrite combine_map_both. rewrite !map_map. cbn [fst snd].
  assert (Hlisted : forall s loc code, In s ss -> In (loc, code) (ls_files s) ->
             exists f, In f (ct_files t) /\ in_scope o f = true /\ cf_lang f = ls_name s /\
                       loc = spec_location o f /\ code = cf_code f).
  { intros s loc code Hs Hin. apply (top_files_listed o t s loc code Hs) in Hin.
    destruct Hin as [f [Hf [Hv [Hl [Hloc Hcode]]]]]. exists f.
    rewrite (visible_base_clean o t f Hc Hf) in Hv. rewrite spec_location_loc_str. tauto. }
  assert (Hrows : forall (check : bool) s, In s ss ->
             table_rows_ok check o t ((ls_name s, ls_files s), (ls_name s, map h (firstn (k s) (ls_files s)))) = true).
  { intros check s Hs. unfold table_rows_ok. cbn [fst snd]. rewrite combine_firstn_map.
    rewrite forallb_forall. intros fr Hfr. apply in_map_iff in Hfr. destruct Hfr as [[loc code] [<- Hin]].
    apply in_firstn_in in Hin. unfold h. cbn [fst snd]. destruct check; [|apply Nat.eqb_refl].
    destruct (Hlisted s loc code Hs Hin) as [f [Hf [_ [_ [-> _]]]]].
    rewrite (file_at_unique o t f Hd Hf). rewrite (He f Hf). apply String.eqb_refl. }
  repeat rewrite clause_true; try reflexivity.
  - (* top_file_location *)
    rewrite forallb_forall. intros st Hst. apply in_map_iff in Hst. destruct Hst as [s [<- Hs]].
    now apply Hrows.
  - (* top_file_truncated *)
    apply andb_true_iff. split; [apply strs_eqb_refl|].
    rewrite forallb_forall. intros st Hst. apply in_map_iff in Hst. destruct Hst as [s [<- Hs]].
    cbn [fst snd]. unfold k. rewrite map_length, firstn_length. apply Nat.eqb_eq. lia.
  - (* top_file_sorted *)
    apply andb_true_iff. split; rewrite forallb_forall; intros x Hx; apply in_map_iff in Hx;
      destruct Hx as [s [<- Hs]]; cbn [fst snd].
    + apply sorted_non_increasing. now apply (top_file_sorted o t).
    + unfold h. rewrite map_map. cbn [fst]. rewrite <- firstn_map. apply non_increasing_firstn.
      apply sorted_non_increasing. now apply (top_file_sorted o t).
  - (* top_files_complete *)
    rewrite forallb_forall. intros f Hf. apply filter_In in Hf. destruct Hf as [Hf Hcf].
    apply counted_in_scope in Hcf.
    destruct (section_for_language o t (cf_lang f) (base_keys_in o t f Hc Hf Hcf)) as [s [Hs Hn]].
    unfold listed. apply existsb_exists. exists (ls_name s, ls_files s). split.
    + apply in_map_iff. exists s. split; [reflexivity|exact Hs].
    + cbn [fst snd]. rewrite Hn, String.eqb_refl. simpl. apply str_mem_In. apply in_map_iff.
      exists (spec_location o f, cf_code f). split; [reflexivity|].
      apply (top_files_listed o t s _ _ Hs). exists f. rewrite (visible_base_clean o t f Hc Hf).
      rewrite spec_location_loc_str. repeat split; auto.
  - (* top_file_figures *)
    apply andb_true_iff. split.
    + rewrite forallb_forall. intros sec Hsec. apply in_map_iff in Hsec. destruct Hsec as [s [<- Hs]].
      unfold section_figures_ok. cbn [fst snd]. apply andb_true_iff. split.
      * apply nodup_b_true. now apply (section_locations_nodup o t).
      * rewrite forallb_forall. intros [loc code] Hin.
        destruct (Hlisted s loc code Hs Hin) as [f [Hf [Hsc [Hl [-> ->]]]]]. cbn [fst snd].
        rewrite (file_at_unique o t f Hd Hf). rewrite Hsc, Hl, String.eqb_refl, Nat.eqb_refl. reflexivity.
    + rewrite forallb_forall. intros st Hst. apply in_map_iff in Hst. destruct Hst as [s [<- Hs]].
      now apply Hrows.
  - (* top_languages *)
    fold ss. replace (map (fun x => ls_name x) ss) with (base_keys o t) by (symmetry; apply top_section_names).
    apply andb_true_iff. split; [apply andb_true_iff; split|].
    + apply nodup_b_true. apply scc_run_names_nodup.
    + rewrite forallb_forall. intros f Hf. apply filter_In in Hf. destruct Hf as [Hf Hcf].
      apply str_mem_In. apply (base_keys_in o t f Hc Hf). now apply counted_in_scope.
    + rewrite forallb_forall. intros n Hn. unfold base_keys, build_base_key in Hn.
      rewrite scc_run_names in Hn. destruct Hn as [f [Hf <-]]. unfold run_files in Hf.
      apply filter_In in Hf. destruct Hf as [Hf Hv]. rewrite (visible_base_clean o t f Hc Hf) in Hv.
      apply existsb_exists. exists f. split; [exact Hf|]. now rewrite Hv, String.eqb_refl.
Qed.

Lemma ex_tree_top_hypotheses :
  tree_clean ex_opts ex_tree /\ locations_distinct ex_opts ex_tree /\ display_exact ex_opts ex_tree /\
  List.length (top_sections ex_opts ex_tree) <= cloc_top_lang_limit.
Proof.
  split; [apply tree_clean_b_sound; vm_compute; reflexivity|].
  split; [apply nodup_b_sound; vm_compute; reflexivity|].
  split; [apply display_exact_b_sound; vm_compute; reflexivity|].
  vm_compute. repeat constructor.
Qed.

(* ------------------------------------------------------------------ "... and agree with the whole-tree count" *)
(* code lines of language L in the files lying directly in DIR *)
Definition root_code (o : copts) (t : ctree) (l : string) : nat :=
  sum_code (filter (fun f => in_scope o f && match top_dir f with None => true | Some _ => false end &&
                             String.eqb (cf_lang f) l) (ct_files t)).

Lemma list_sum_zero : forall (A : Type) (l : list A), list_sum (map (fun _ => 0) l) = 0.
Proof. intros A. induction l; simpl; auto. Qed.

Lemma whole_tree_split : forall o l dirs (fs : list cfile),
    NoDup dirs -> (forall f d, In f fs -> top_dir f = Some d -> In d dirs) ->
    sum_code (filter (fun f => in_scope o f && String.eqb (cf_lang f) l) fs) =
    sum_code (filter (fun f => in_scope o f && match top_dir f with None => true | Some _ => false end &&
                               String.eqb (cf_lang f) l) fs) +
    list_sum (map (fun d => sum_code (filter (fun f => in_scope o f && under d f && String.eqb (cf_lang f) l) fs))
                  dirs).
Proof.
  intros o l dirs fs Hnd. induction fs as [|f fs IH]; intros Hin.
  - simpl. now rewrite list_sum_zero.
  - assert (IH' := IH (fun g d Hg => Hin g d (or_intror Hg))). clear IH.
    unfold sum_code in *. cbn [filter].
    destruct (in_scope o f && String.eqb (cf_lang f) l) eqn:E.
    + apply andb_true_iff in E. destruct E as [E1 E2]. rewrite E1, E2. cbn [andb map].
      change (list_sum (cf_code f :: ?l)) with (cf_code f + list_sum l).
      destruct (top_dir f) as [d0|] eqn:Etd.
      * cbn [andb].
        rewrite (map_ext _ (fun d => (if String.eqb d0 d then cf_code f else 0) +
                                     list_sum (map cf_code (filter (fun g => in_scope o g && under d g && String.eqb (cf_lang g) l) fs)))).
        2:{ intros d. cbv beta. assert (Hu : under d f = String.eqb d0 d)
              by (unfold under; rewrite Etd; apply String.eqb_sym).
            rewrite Hu. destruct (String.eqb d0 d); reflexivity. }
        rewrite list_sum_map_add, list_sum_indicator; [rewrite IH'; lia|exact Hnd|].
        apply (Hin f d0); [now left|exact Etd].
      * cbn [andb map].
        change (list_sum (cf_code f :: ?l)) with (cf_code f + list_sum l).
        rewrite (map_ext _ (fun d => list_sum (map cf_code (filter (fun g => in_scope o g && under d g && String.eqb (cf_lang g) l) fs)))).
        2:{ intros d. cbv beta. assert (Hu : under d f = false) by (unfold under; now rewrite Etd).
            rewrite Hu. reflexivity. }
        rewrite IH'. lia.
    + assert (E' : forall b, in_scope o f && b && String.eqb (cf_lang f) l = false).
      { intros b. destruct (in_scope o f); [|reflexivity]. simpl in E. rewrite E. apply andb_false_r. }
      rewrite E'. rewrite IH'. f_equal. f_equal. apply map_ext. intros d. now rewrite E'.
Qed.

Lemma list_sum_filter_split : forall (A : Type) (p : A -> bool) (g : A -> nat) l,
    list_sum (map g l) = list_sum (map g (filter (fun x => negb (p x)) l)) + list_sum (map g (filter p l)).
Proof.
  intros A p g. induction l as [|x l IH]; simpl; [reflexivity|]. destruct (p x); simpl; lia.
Qed.

(* the whole-tree figure of a language = the column of the report + the files directly in DIR
   + what lies in the ignored directories the whole-tree run still walks *)
Theorem columns_agree_with_base : forall o t l,
    dirs_ok t -> tree_clean o t -> files_in_dirs t ->
    lang_code o [] t l =
    list_sum (map (fun d => lang_code o [d] t l) (report_dirs t)) + root_code o t l +
    list_sum (map (fun d => lang_code o [d] t l) (filter is_ignore_dir (ct_dirs t))).
Proof.
  intros o t l [Hnd _] Hc Hfd.
  rewrite !(map_ext (fun d => lang_code o [d] t l) (fun d => expected_cell o t d l))
    by (intros d; apply cell_matches_ground_truth; now apply tree_clean_weaken).
  unfold report_dirs. pose proof (list_sum_filter_split string is_ignore_dir (fun d => expected_cell o t d l) (ct_dirs t)) as Hs.
  unfold lang_code, lang_files, run_files. rewrite filter_filter.
  rewrite (filter_ext_in _ (fun f => visible o [] f && String.eqb (cf_lang f) l)
                         (fun f => in_scope o f && String.eqb (cf_lang f) l))
    by (intros f Hf; now rewrite (visible_base_clean o t f Hc Hf)).
  rewrite (whole_tree_split o l (ct_dirs t) (ct_files t) Hnd Hfd).
  unfold root_code, expected_cell, sum_code in *. lia.
Qed.

Lemma ex_tree_files_in_dirs : files_in_dirs ex_tree.
Proof. apply files_in_dirs_b_sound. vm_compute. reflexivity. Qed.

(* MergeDirKeys only appends: the header starts with the whole-tree run's languages *)
Lemma add_keys_prefix : forall news keys, exists extra, add_keys keys news = keys ++ extra.
Proof.
  unfold add_keys. induction news as [|n news IH]; intros keys; simpl.
  - exists []. now rewrite app_nil_r.
  - destruct (str_mem n keys); [apply IH|]. destruct (IH (keys ++ [n])) as [e He].
    exists (n :: e). rewrite He, <- app_assoc. reflexivity.
Qed.

Lemma header_keys_prefix : forall o t, exists extra, header_keys o t = base_keys o t ++ extra.
Proof.
  intros o t. unfold header_keys, merge_dir_keys. generalize (process_dirs o t) (base_keys o t).
  induction l as [|file files IH]; intros keys; simpl.
  - exists []. now rewrite app_nil_r.
  - destruct (add_keys_prefix (build_base_key (snd file)) keys) as [e1 He1]. rewrite He1.
    destruct (IH (keys ++ e1)) as [e2 He2]. exists (e1 ++ e2). now rewrite He2, app_assoc.
Qed.
