(* Lemmas about Model/Arch.v (C13). *)
From Coq Require Import String List Bool Arith Ascii Lia.
From Coca Require Import Lib.Sx Lib.GoMap Lib.Str Model.CodeModel Model.Arch Model.ArchSpec.
Import ListNotations.
Open Scope string_scope.
Open Scope list_scope.

(* ------------------------------------------------------------------ keys "from->to" *)
Definition no_arrow (s : string) : Prop := forall pre post, s <> (pre ++ "->" ++ post)%string.

Lemma no_arrow_tail : forall c s, no_arrow (String c s) -> no_arrow s.
Proof. intros c s H pre post E. apply (H (String c pre) post). simpl. now rewrite E. Qed.

Lemma rel_key_inj : forall f a t b,
    no_arrow f -> no_arrow a -> rel_key f t = rel_key a b -> f = a /\ t = b.
Proof.
  unfold rel_key. induction f as [|c f IH]; intros a t b Hf Ha E.
  - destruct a as [|c1 a]; simpl in E.
    + inversion E. auto.
    + inversion E as [[E1 E2]]. subst c1. destruct a as [|c2 a]; simpl in E2.
      * inversion E2.
      * inversion E2 as [[E3 E4]]. subst c2. exfalso. apply (Ha "" a). reflexivity.
  - destruct a as [|c1 a]; simpl in E.
    + inversion E as [[E1 E2]]. subst c. destruct f as [|c2 f]; simpl in E2.
      * inversion E2.
      * inversion E2 as [[E3 E4]]. subst c2. exfalso. apply (Hf "" f). reflexivity.
    + inversion E as [[E1 E2]]. subst c1.
      destruct (IH a t b (no_arrow_tail _ _ Hf) (no_arrow_tail _ _ Ha) E2) as [H1 H2].
      subst. auto.
Qed.

(* ------------------------------------------------------------------ folding add_pair *)
Lemma fold_add_pair_values : forall adds rs k v,
    mget (fold_left add_pair adds rs) k = Some v ->
    mget rs k = Some v \/ (In v adds /\ k = rel_key (fst v) (snd v)).
Proof.
  induction adds as [|p adds IH]; intros rs k v H; simpl in H; [now left|].
  apply IH in H. destruct H as [H|[H1 H2]]; [|right; split; [now right|assumption]].
  unfold add_pair in H. rewrite mget_mput in H.
  destruct (String.eqb (rel_key (fst p) (snd p)) k) eqn:E.
  - apply String.eqb_eq in E. inversion H. subst v. right. split; [now left|]. now symmetry.
  - now left.
Qed.

Lemma fold_add_pair_present : forall adds rs k v,
    mget rs k = Some v ->
    exists v', mget (fold_left add_pair adds rs) k = Some v' /\
               (v' = v \/ (In v' adds /\ rel_key (fst v') (snd v') = k)).
Proof.
  induction adds as [|p adds IH]; intros rs k v H; simpl; [eauto|].
  destruct (String.eqb (rel_key (fst p) (snd p)) k) eqn:E.
  - apply String.eqb_eq in E.
    destruct (IH (add_pair rs p) k p) as [v' [G1 G2]].
    { unfold add_pair. rewrite mget_mput. rewrite <- E. now rewrite String.eqb_refl. }
    exists v'. split; [assumption|]. right. destruct G2 as [G2|[G2 G3]].
    + subst v'. split; [now left|assumption].
    + split; [now right|assumption].
  - destruct (IH (add_pair rs p) k v) as [v' [G1 G2]].
    { unfold add_pair. rewrite mget_mput, E. assumption. }
    exists v'. split; [assumption|]. destruct G2 as [G2|[G2 G3]]; [now left|].
    right. split; [now right|assumption].
Qed.

Lemma fold_add_pair_complete : forall adds rs p,
    In p adds ->
    exists v', mget (fold_left add_pair adds rs) (rel_key (fst p) (snd p)) = Some v' /\
               In v' adds /\ rel_key (fst v') (snd v') = rel_key (fst p) (snd p).
Proof.
  induction adds as [|q adds IH]; intros rs p Hin; [contradiction|].
  destruct Hin as [Hin|Hin].
  - subst q. simpl.
    destruct (fold_add_pair_present adds (add_pair rs p) (rel_key (fst p) (snd p)) p) as [v' [G1 G2]].
    { unfold add_pair. rewrite mget_mput. now rewrite String.eqb_refl. }
    exists v'. split; [assumption|]. destruct G2 as [G2|[G2 G3]].
    + subst v'. split; [now left|reflexivity].
    + split; [now right|assumption].
  - simpl. destruct (IH (add_pair rs q) p Hin) as [v' [G1 [G2 G3]]].
    exists v'. split; [assumption|]. split; [now right|assumption].
Qed.

(* the relation values of a graph *)
Definition rel_values (rs : gomap (string * string)) : list (string * string) := map snd rs.

Lemma mget_in_values : forall (rs : gomap (string * string)) k v, mget rs k = Some v -> In v (rel_values rs).
Proof.
  induction rs as [|[k0 v0] rs IH]; intros k v H; simpl in *; [discriminate|].
  destruct (String.eqb k0 k); [inversion H; now left|right; eauto].
Qed.

Lemma values_in_mget_put : forall (rs : gomap (string * string)) k0 v0 v,
    In v (rel_values (mput rs k0 v0)) -> v = v0 \/ In v (rel_values rs).
Proof.
  induction rs as [|[k1 v1] rs IH]; intros k0 v0 v H; simpl in *.
  - destruct H as [H|[]]. now left.
  - destruct (String.eqb k1 k0); simpl in H.
    + destruct H as [H|H]; [now left|right; now right].
    + destruct H as [H|H]; [right; now left|]. apply IH in H. destruct H; [now left|right; now right].
Qed.

Lemma fold_add_pair_values_in : forall adds rs v,
    In v (rel_values (fold_left add_pair adds rs)) -> In v (rel_values rs) \/ In v adds.
Proof.
  induction adds as [|p adds IH]; intros rs v H; simpl in H; [now left|].
  apply IH in H. destruct H as [H|H]; [|right; now right].
  unfold add_pair in H. apply values_in_mget_put in H.
  destruct H as [H|H]; [right; left; now subst|now left].
Qed.

(* ------------------------------------------------------------------ Analysis *)
Lemma fold_nodes_keys : forall (l : list ds) ns k,
    In k (mkeys (fold_left (fun ns d => let src := (d_pkg d ++ "." ++ d_node d)%string in mput ns src src) l ns)) <->
    In k (mkeys ns) \/ In k (map type_name l).
Proof.
  induction l as [|d l IH]; intros ns k; simpl; [tauto|].
  rewrite IH. rewrite mkeys_mput_in. unfold type_name. intuition.
Qed.

Theorem analysis_nodes_exact : forall deps idents k,
    In k (mkeys (g_nodes (analysis deps idents))) <-> In k (spec_nodes deps).
Proof.
  intros deps idents k. unfold analysis, spec_nodes. cbn [g_nodes]. rewrite fold_nodes_keys.
  simpl. unfold not_main. tauto.
Qed.

Lemma existsb_eqb_In : forall (A : Type) (f : A -> string) b l,
    existsb (fun c => String.eqb (f c) b) l = true <-> In b (map f l).
Proof.
  intros A f b l. rewrite existsb_exists, in_map_iff. split.
  - intros [c [Hc He]]. apply String.eqb_eq in He. eauto.
  - intros [c [He Hc]]. exists c. split; [assumption|]. now apply String.eqb_eq.
Qed.

Lemma in_method_adds : forall idents src f a b,
    In (a, b) (method_adds idents src f) <->
    a = src /\ f_name f <> "main" /\ b <> src /\ str_mem b idents = true /\ In b (map call_dst (f_calls f)).
Proof.
  intros idents src f a b. unfold method_adds.
  destruct (String.eqb (f_name f) "main") eqn:E.
  - apply String.eqb_eq in E. split; [contradiction|]. intros [_ [H _]]. congruence.
  - apply String.eqb_neq in E. rewrite in_map_iff. split.
    + intros [c [Hc Hin]]. inversion Hc. subst a b. apply filter_In in Hin. destruct Hin as [Hin Hf].
      apply andb_true_iff in Hf. destruct Hf as [H1 H2]. apply negb_true_iff in H1.
      apply String.eqb_neq in H1. repeat split; auto. apply in_map. assumption.
    + intros [Ha [_ [Hb [Hi Hin]]]]. subst a. apply in_map_iff in Hin. destruct Hin as [c [Hc Hin]].
      exists c. split; [now rewrite Hc|]. apply filter_In. split; [assumption|].
      rewrite Hc, Hi. rewrite andb_true_r. apply negb_true_iff. apply String.eqb_neq. congruence.
Qed.

Lemma in_class_adds : forall idents d a b,
    In (a, b) (class_adds idents d) <-> a = type_name d /\ class_dep idents d b = true.
Proof.
  intros idents d a b. unfold class_adds, class_dep, type_name.
  set (src := (d_pkg d ++ "." ++ d_node d)%string).
  rewrite !in_app_iff, !orb_true_iff. split.
  - intros [H|[H|[H|H]]].
    + apply in_map_iff in H. destruct H as [i [Hi Hin]]. inversion Hi. subst. split; [reflexivity|].
      left. left. left. now apply str_mem_In.
    + apply in_map_iff in H. destruct H as [c [Hc Hin]]. inversion Hc. subst. split; [reflexivity|].
      left. right. apply existsb_eqb_In. now apply in_map.
    + destruct (String.eqb (d_extend d) "") eqn:E; [contradiction|]. destruct H as [H|[]]. inversion H. subst.
      split; [reflexivity|]. left. left. right. cbn [negb andb]. apply String.eqb_refl.
    + apply in_flat_map in H. destruct H as [f [Hf H]]. apply in_method_adds in H.
      destruct H as [Ha [Hm [Hb [Hi Hin]]]]. subst a. split; [reflexivity|]. right.
      rewrite Hi. rewrite andb_true_r. apply andb_true_iff. split.
      * apply negb_true_iff. apply String.eqb_neq. congruence.
      * apply existsb_exists. exists f. split; [assumption|]. apply andb_true_iff. split.
        -- apply negb_true_iff. now apply String.eqb_neq.
        -- now apply existsb_eqb_In.
  - intros [Ha [[[H|H]|H]|H]]; subst a.
    + left. apply str_mem_In in H. apply in_map_iff. eauto.
    + right. right. left. apply andb_true_iff in H. destruct H as [H1 H2]. apply negb_true_iff in H1.
      rewrite H1. apply String.eqb_eq in H2. subst b. now left.
    + right. left. apply existsb_eqb_In in H. apply in_map_iff in H. destruct H as [c [Hc Hin]].
      apply in_map_iff. exists c. split; [now rewrite Hc|assumption].
    + right. right. right. apply andb_true_iff in H. destruct H as [H1 H2].
      apply andb_true_iff in H1. destruct H1 as [H1 H3]. apply negb_true_iff in H1. apply String.eqb_neq in H1.
      apply existsb_exists in H2. destruct H2 as [f [Hf H2]]. apply andb_true_iff in H2. destruct H2 as [H4 H5].
      apply negb_true_iff in H4. apply String.eqb_neq in H4. apply existsb_eqb_In in H5.
      apply in_flat_map. exists f. split; [assumption|]. apply in_method_adds. repeat split; auto.
Qed.

Theorem in_all_adds : forall deps idents a b,
    In (a, b) (all_adds deps idents) <-> spec_dep deps idents a b = true.
Proof.
  intros deps idents a b. unfold all_adds, spec_dep. rewrite in_flat_map, existsb_exists. split.
  - intros [d [Hd H]]. apply filter_In in Hd. destruct Hd as [Hd Hm]. apply in_class_adds in H.
    destruct H as [Ha Hc]. exists d. split; [assumption|]. unfold not_main in Hm. rewrite Hm, Hc. subst a.
    now rewrite String.eqb_refl.
  - intros [d [Hd H]]. apply andb_true_iff in H. destruct H as [H Hc]. apply andb_true_iff in H.
    destruct H as [Hm Ha]. apply String.eqb_eq in Ha. exists d. split.
    + apply filter_In. split; assumption.
    + apply in_class_adds. split; [now symmetry|assumption].
Qed.

(* every recorded relation is a dependency of the model ... *)
Theorem analysis_rels_sound : forall deps idents a b,
    In (a, b) (rel_values (g_rels (analysis deps idents))) -> spec_dep deps idents a b = true.
Proof.
  intros deps idents a b H. unfold analysis in H. cbn [g_rels] in H.
  apply fold_add_pair_values_in in H. destruct H as [[]|H]. now apply in_all_adds.
Qed.

Definition names_no_arrow (deps : list ds) : Prop := forall d, In d deps -> no_arrow (type_name d).

Lemma all_adds_src : forall deps idents a b, In (a, b) (all_adds deps idents) ->
                                             exists d, In d deps /\ a = type_name d.
Proof.
  intros deps idents a b H. unfold all_adds in H. apply in_flat_map in H. destruct H as [d [Hd H]].
  apply filter_In in Hd. apply in_class_adds in H. exists d. tauto.
Qed.

(* ... and every dependency of the model is recorded *)
Theorem analysis_rels_complete : forall deps idents a b,
    names_no_arrow deps ->
    spec_dep deps idents a b = true -> In (a, b) (rel_values (g_rels (analysis deps idents))).
Proof.
  intros deps idents a b Hna H. apply in_all_adds in H.
  destruct (fold_add_pair_complete (all_adds deps idents) [] (a, b) H) as [[a' b'] [G1 [G2 G3]]].
  cbn [fst snd] in *.
  destruct (all_adds_src _ _ _ _ H) as [d [Hd Ha]]. destruct (all_adds_src _ _ _ _ G2) as [d' [Hd' Ha']].
  apply rel_key_inj in G3; [|subst a'; now apply Hna|subst a; now apply Hna].
  destruct G3 as [E1 E2]. rewrite E1, E2 in G1. unfold analysis. cbn [g_rels].
  eapply mget_in_values. exact G1.
Qed.

(* ------------------------------------------------------------------ merging *)
Lemma fold_merge_nodes_keys : forall f (l : list string) ns k,
    In k (mkeys (fold_left (fun ns k => mput ns (f k) (f k)) l ns)) <-> In k (mkeys ns) \/ In k (map f l).
Proof.
  intros f. induction l as [|x l IH]; intros ns k; simpl; [tauto|].
  rewrite IH, mkeys_mput_in. intuition.
Qed.

Theorem merge_nodes_exact : forall f g k,
    In k (mkeys (g_nodes (merge_graph f g))) <-> In k (map f (mkeys (g_nodes g))).
Proof.
  intros f g k. unfold merge_graph. cbn [g_nodes]. rewrite fold_merge_nodes_keys. simpl. tauto.
Qed.

Lemma in_merge_adds : forall f g p q,
    In (p, q) (merge_adds f g) <->
    exists a b, In (a, b) (rel_values (g_rels g)) /\ mhas (g_nodes g) b = true /\
                f a = p /\ f b = q /\ p <> q.
Proof.
  intros f g p q. unfold merge_adds. rewrite in_map_iff. split.
  - intros [[a b] [He Hin]]. cbn [fst snd] in He. inversion He. subst p q.
    apply filter_In in Hin. destruct Hin as [Hin Hf]. cbn [fst snd] in Hf.
    apply andb_true_iff in Hf. destruct Hf as [H1 H2]. apply negb_true_iff in H2. apply String.eqb_neq in H2.
    exists a, b. auto.
  - intros [a [b [Hin [Hn [Hp [Hq Hne]]]]]]. exists (a, b). cbn [fst snd]. split; [now subst|].
    apply filter_In. split; [assumption|]. cbn [fst snd]. rewrite Hn. cbn [andb].
    apply negb_true_iff. apply String.eqb_neq. now subst.
Qed.

(* the merged relations are exactly the quotient, without self loops, of the relations
   between nodes *)
Theorem merge_rels_sound : forall f g p q,
    In (p, q) (rel_values (g_rels (merge_graph f g))) ->
    exists a b, In (a, b) (rel_values (g_rels g)) /\ mhas (g_nodes g) b = true /\
                f a = p /\ f b = q /\ p <> q.
Proof.
  intros f g p q H. unfold merge_graph in H. cbn [g_rels] in H.
  apply fold_add_pair_values_in in H. destruct H as [[]|H]. now apply in_merge_adds.
Qed.

Theorem merge_rels_complete : forall f g a b,
    (forall x y, In (x, y) (rel_values (g_rels g)) -> no_arrow (f x)) ->
    In (a, b) (rel_values (g_rels g)) -> mhas (g_nodes g) b = true -> f a <> f b ->
    In (f a, f b) (rel_values (g_rels (merge_graph f g))).
Proof.
  intros f g a b Hna Hin Hn Hne.
  assert (H : In (f a, f b) (merge_adds f g)) by (apply in_merge_adds; exists a, b; auto).
  destruct (fold_add_pair_complete (merge_adds f g) [] (f a, f b) H) as [[p' q'] [G1 [G2 G3]]].
  cbn [fst snd] in *.
  apply in_merge_adds in G2. destruct G2 as [a' [b' [Hin' [_ [Hp' [Hq' _]]]]]].
  apply rel_key_inj in G3; [|subst p'; eapply Hna; eassumption|eapply Hna; eassumption].
  destruct G3 as [E1 E2]. rewrite E1, E2 in G1. unfold merge_graph. cbn [g_rels].
  eapply mget_in_values. exact G1.
Qed.

(* ------------------------------------------------------------------ display *)
Lemma dedupe_spec : forall l seen x, In x (dedupe l seen) <-> In x l /\ ~ In x seen.
Proof.
  induction l as [|y l IH]; intros seen x; simpl; [tauto|].
  destruct (str_mem y seen) eqn:E.
  - apply str_mem_In in E. rewrite IH. split; [tauto|]. intros [[H|H] Hn]; [subst; contradiction|tauto].
  - assert (Hy : ~ In y seen) by (intros Hc; apply str_mem_In in Hc; congruence).
    simpl. rewrite IH. simpl. split.
    + intros [H|[H1 H2]]; [subst; tauto|]. split; [tauto|]. intros Hc. apply H2. now right.
    + intros [[H|H] Hn]; [now left|]. destruct (string_dec y x); [now left|]. right. split; [assumption|].
      intros [Hc|Hc]; [contradiction|contradiction].
Qed.

Lemma dedupe_nodup : forall l seen, NoDup (dedupe l seen).
Proof.
  induction l as [|y l IH]; intros seen; simpl; [constructor|].
  destruct (str_mem y seen); [apply IH|]. constructor; [|apply IH].
  intros H. apply dedupe_spec in H. destruct H as [_ H]. apply H. now left.
Qed.

(* every included node is displayed, exactly once *)
Theorem displayed_exact : forall filters g k,
    In k (displayed filters g) <-> In k (mkeys (g_nodes g)) /\ include_key filters k = true.
Proof.
  intros filters g k. unfold displayed. rewrite dedupe_spec, filter_In. simpl. tauto.
Qed.

Theorem displayed_once : forall filters g, NoDup (displayed filters g).
Proof. intros. apply dedupe_nodup. Qed.

(* an edge is drawn exactly for the relations whose two ends are displayed *)
Theorem drawn_edges_exact : forall filters g a b,
    In (a, b) (drawn_edges filters g) <->
    In (a, b) (rel_values (g_rels g)) /\ In a (displayed filters g) /\ In b (displayed filters g).
Proof.
  intros filters g a b. unfold drawn_edges. rewrite filter_In. cbn [fst snd].
  rewrite andb_true_iff, !str_mem_In. unfold rel_values. tauto.
Qed.

(* non-vacuity *)
Definition ex_arch : list ds :=
  [ mkDs "A" "Class" "com.a" "" [] "com.a.b.B" ["com.x.I"] [ex_func0 "m" [ex_call0 "com.a.b" "B" "f"; ex_call0 "com.a" "A" "g"]] [] [] [];
    mkDs "B" "Class" "com.a.b" "" [] "" [] [ex_func0 "main" [ex_call0 "com.a" "A" "m"]] [] [ex_call0 "com.a" "A" ""] [];
    mkDs "Main" "Class" "com.a" "" [] "" [] [] [] [] [] ].

Fixpoint has_arrow_b (s : string) : bool :=
  match s with
  | EmptyString => false
  | String c r =>
    (Ascii.eqb c "-"%char && match r with String d _ => Ascii.eqb d ">"%char | EmptyString => false end)
    || has_arrow_b r
  end.

Lemma has_arrow_b_false : forall s, has_arrow_b s = false -> no_arrow s.
Proof.
  induction s as [|c s IH]; intros H pre post E.
  - destruct pre; discriminate.
  - simpl in H. apply orb_false_iff in H. destruct H as [H1 H2].
    destruct pre as [|c1 pre]; simpl in E.
    + inversion E. subst. simpl in H1. discriminate.
    + inversion E. subst. eapply IH; [assumption|reflexivity].
Qed.

Lemma names_no_arrow_of_b : forall deps,
    forallb (fun d => negb (has_arrow_b (type_name d))) deps = true -> names_no_arrow deps.
Proof.
  intros deps H d Hd. rewrite forallb_forall in H. apply has_arrow_b_false.
  apply negb_true_iff. now apply H.
Qed.

Example ex_arch_names : names_no_arrow ex_arch.
Proof. apply names_no_arrow_of_b. vm_compute. reflexivity. Qed.

Example ex_arch_graph :
  mkeys (g_nodes (analysis ex_arch ["com.a.A"; "com.a.b.B"])) = ["com.a.A"; "com.a.b.B"] /\
  rel_values (g_rels (analysis ex_arch ["com.a.A"; "com.a.b.B"])) =
    [("com.a.A", "com.x.I"); ("com.a.A", "com.a.b.B"); ("com.a.b.B", "com.a.A")] /\
  rel_values (g_rels (merge_graph merge_header_func (analysis ex_arch ["com.a.A"; "com.a.b.B"]))) =
    [("com.a", "com.a.b"); ("com.a.b", "com.a")] /\
  displayed [""] (merge_graph merge_header_func (analysis ex_arch ["com.a.A"; "com.a.b.B"])) = ["com.a"; "com.a.b"].
Proof. vm_compute. repeat split; reflexivity. Qed.
