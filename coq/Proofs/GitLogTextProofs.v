(* C14 at the level of TEXT: the log as `git log --numstat --summary` prints it -- header lines, numstat rows,
   summary lines, a blank line between entries -- is read back, line by line, as exactly the line kinds the state
   machine of GitLogProofs.v is proved about; hence for every well-formed history the commits and file changes
   recovered from the printed text are the history's own. *)
From Coq Require Import String List Bool Arith Lia Ascii.
From Coca Require Import Lib.Sx Lib.GoMap Lib.Str Lib.Scan Model.GitSummary Model.GitLogParse Model.GitLogSpec
     Proofs.GitLogProofs Proofs.ClocProofs.
Import ListNotations.
Open Scope list_scope.
Open Scope string_scope.

(* ------------------------------------------------------------------ generic scanning facts *)
Fixpoint all_chars (p : ascii -> bool) (s : string) : bool :=
  match s with
  | EmptyString => true
  | String c r => p c && all_chars p r
  end.

(* the next character (if any) does not satisfy p *)
Definition stops (p : ascii -> bool) (r : string) : bool :=
  match r with String c _ => negb (p c) | EmptyString => true end.

Lemma span_app : forall p a r, all_chars p a = true -> stops p r = true -> span p (a ++ r) = (a, r).
Proof.
  induction a as [|c a IH]; intros r Ha Hr.
  - cbn [String.append]. destruct r as [|c r]; [reflexivity|]. cbn [span stops] in *.
    apply negb_true_iff in Hr. now rewrite Hr.
  - cbn [all_chars] in Ha. apply andb_true_iff in Ha. destruct Ha as [Hc Ha].
    cbn [String.append span]. rewrite Hc. now rewrite (IH r Ha Hr).
Qed.

Lemma span_stop : forall p r, stops p r = true -> span p r = ("", r).
Proof. intros p r H. exact (span_app p "" r eq_refl H). Qed.

Lemma take_all : forall s, take (String.length s) s = s.
Proof. induction s as [|c s IH]; [reflexivity|]. cbn [String.length take]. now rewrite IH. Qed.

Lemma take_app_len2 : forall a r, take (String.length a) (a ++ r) = a.
Proof. induction a; intros; simpl; auto. now rewrite IHa. Qed.

Lemma drop_app_len2 : forall a r, drop (String.length a) (a ++ r) = r.
Proof. induction a; intros; simpl; auto. Qed.

(* ------------------------------------------------------------------ no line end inside *)
Definition not_nl (c : ascii) : bool := negb (Ascii.eqb c c_nl).
Definition no_nl (s : string) : bool := all_chars not_nl s.

Lemma has_prefix_nl : forall c r, has_prefix nl (String c r) = Ascii.eqb c_nl c.
Proof. intros c r. unfold nl. cbn [has_prefix]. fold c_nl. destruct (Ascii.eqb c_nl c); reflexivity. Qed.

Lemma index_nl_none : forall a fuel pos, no_nl a = true -> index_from fuel pos nl a = None.
Proof.
  induction a as [|c a IH]; intros fuel pos H.
  - destruct fuel; reflexivity.
  - cbn [no_nl all_chars] in H. apply andb_true_iff in H. destruct H as [Hc Ha].
    unfold not_nl in Hc. apply negb_true_iff in Hc. rewrite Ascii.eqb_sym in Hc.
    destruct fuel as [|fuel]; cbn [index_from]; rewrite has_prefix_nl, Hc; [reflexivity|]. now apply IH.
Qed.

Lemma contains_nl_false : forall a, no_nl a = true -> contains a nl = false.
Proof. intros a H. unfold contains, str_index. now rewrite index_nl_none. Qed.

Lemma str_index_nl_none : forall a, no_nl a = true -> str_index nl a = None.
Proof. intros a H. unfold str_index. now apply index_nl_none. Qed.

Lemma index_nl_some : forall a r fuel pos,
    no_nl a = true -> String.length a <= fuel ->
    index_from fuel pos nl (a ++ nl ++ r) = Some (pos + String.length a).
Proof.
  induction a as [|c a IH]; intros r fuel pos H Hf.
  - cbn [String.append String.length]. unfold nl at 2. cbn [String.append].
    destruct fuel; cbn [index_from]; rewrite has_prefix_nl, Ascii.eqb_refl; f_equal; lia.
  - cbn [no_nl all_chars] in H. apply andb_true_iff in H. destruct H as [Hc Ha].
    unfold not_nl in Hc. apply negb_true_iff in Hc. rewrite Ascii.eqb_sym in Hc.
    cbn [String.length] in Hf. destruct fuel as [|fuel]; [lia|].
    cbn [String.append index_from]. rewrite has_prefix_nl, Hc.
    rewrite IH by (auto; lia). cbn [String.length]. f_equal. lia.
Qed.

Lemma split_join_nl_fuel : forall l fuel,
    l <> [] -> forallb no_nl l = true -> List.length l <= fuel ->
    split_fuel fuel nl (join nl l) = l.
Proof.
  induction l as [|x l IH]; intros fuel Hne Hc Hf; [congruence|].
  cbn [forallb] in Hc. apply andb_true_iff in Hc. destruct Hc as [Hx Hl].
  destruct l as [|y l].
  - cbn [join]. destruct fuel; cbn [split_fuel]; auto.
    unfold str_index. now rewrite index_nl_none.
  - cbn [List.length] in Hf. destruct fuel as [|fuel]; [lia|].
    change (join nl (x :: y :: l)) with (x ++ nl ++ join nl (y :: l)).
    cbn [split_fuel]. unfold str_index.
    rewrite index_nl_some; [|assumption|rewrite !length_append; lia].
    cbn [plus]. rewrite take_app_len2.
    replace (String.length x + String.length nl) with (String.length (x ++ nl))
      by (rewrite length_append; reflexivity).
    rewrite <- append_assoc. rewrite drop_app_len2. f_equal.
    apply IH; [discriminate|assumption|cbn [List.length]; lia].
Qed.

Lemma join_nl_length_ge : forall l, List.length l <= S (String.length (join nl l)).
Proof.
  induction l as [|x l IH]; [simpl; lia|].
  destruct l as [|y l]; [simpl; lia|].
  change (join nl (x :: y :: l)) with (x ++ nl ++ join nl (y :: l)).
  rewrite !length_append. cbn [List.length] in *. unfold nl at 1. cbn [String.length]. lia.
Qed.

Theorem split_join_nl : forall l, l <> [] -> forallb no_nl l = true -> split nl (join nl l) = l.
Proof.
  intros l Hne Hc. unfold split. apply split_join_nl_fuel; auto. apply join_nl_length_ge.
Qed.

(* ------------------------------------------------------------------ the header line *)
Definition render_header (h a d m : string) : string := "[" ++ h ++ "] " ++ a ++ " " ++ d ++ " " ++ m.

(* dddd-dd-dd *)
Definition is_date (d : string) : bool :=
  match chars d with
  | [a; b; c; e; h1; f; g; h2; i; j] =>
    is_digit a && is_digit b && is_digit c && is_digit e && Ascii.eqb h1 "-"%char &&
    is_digit f && is_digit g && Ascii.eqb h2 "-"%char && is_digit i && is_digit j
  | _ => false
  end.

Lemma date_prefix_app : forall d r, is_date d = true -> date_prefix (d ++ r) = Some (d, r).
Proof.
  intros d r H. unfold is_date in H.
  destruct d as [|a [|b [|c [|e [|h1 [|f [|g [|h2 [|i [|j [|k d]]]]]]]]]]]; try discriminate.
  cbn [chars list_ascii_of_string] in H.
  unfold date_prefix. cbn [String.append take drop chars list_ascii_of_string]. rewrite H. reflexivity.
Qed.

Lemma date_prefix_nondigit : forall c r, is_digit c = false -> date_prefix (String c r) = None.
Proof.
  intros c r H. unfold date_prefix.
  destruct (chars (take 10 (String c r))) as [|a [|b [|c0 [|e [|h1 [|f [|g [|h2 [|i [|j [|k l]]]]]]]]]]] eqn:E; try reflexivity.
  cbn [take chars list_ascii_of_string] in E. inversion E. subst a. rewrite H. reflexivity.
Qed.

Lemma date_prefix_empty : date_prefix "" = None.
Proof. reflexivity. Qed.

(* an author: no digit (so no date can start inside it) and no line end *)
Definition author_char (c : ascii) : bool := negb (is_digit c) && not_nl c.
Definition author_ok (a : string) : bool := all_chars author_char a.

Lemma blank_is_ws : is_ws " "%char = true. Proof. reflexivity. Qed.
Lemma blank_not_digit : is_digit " "%char = false. Proof. reflexivity. Qed.

Lemma author_date_ok : forall a acc fuel d m,
    author_ok a = true -> is_date d = true -> String.length a < fuel ->
    author_date fuel acc (a ++ " " ++ d ++ " " ++ m) = Some (acc ++ a, d, m).
Proof.
  induction a as [|c a IH]; intros acc fuel d m Ha Hd Hf.
  - destruct fuel as [|fuel]; [cbn [String.length] in Hf; lia|].
    change ("" ++ " " ++ d ++ " " ++ m) with (String " " (d ++ String " " m)).
    cbn [author_date]. rewrite blank_is_ws, (date_prefix_app d (String " " m) Hd).
    rewrite blank_is_ws. now rewrite append_nil_r.
  - cbn [author_ok all_chars] in Ha. apply andb_true_iff in Ha. destruct Ha as [Hc Ha].
    unfold author_char in Hc. apply andb_true_iff in Hc. destruct Hc as [Hdg Hnl].
    apply negb_true_iff in Hdg. unfold not_nl in Hnl. apply negb_true_iff in Hnl.
    cbn [String.length] in Hf. destruct fuel as [|fuel]; [lia|].
    change (String c a ++ " " ++ d ++ " " ++ m) with (String c (a ++ " " ++ d ++ " " ++ m)).
    cbn [author_date].
    assert (Hnone : date_prefix (a ++ " " ++ d ++ " " ++ m) = None).
    { destruct a as [|c2 a2].
      - change ("" ++ " " ++ d ++ " " ++ m) with (String " " (d ++ " " ++ m)).
        apply date_prefix_nondigit. reflexivity.
      - change (String c2 a2 ++ " " ++ d ++ " " ++ m) with (String c2 (a2 ++ " " ++ d ++ " " ++ m)).
        apply date_prefix_nondigit.
        cbn [all_chars] in Ha. apply andb_true_iff in Ha. destruct Ha as [Hc2 _].
        unfold author_char in Hc2. apply andb_true_iff in Hc2. destruct Hc2 as [Hc2 _]. now apply negb_true_iff in Hc2. }
    rewrite Hnone. rewrite Hnl.
    assert (E : (if is_ws c then None else None) = (None : option (string * string * string))) by (destruct (is_ws c); reflexivity).
    rewrite E. rewrite IH by (auto; lia). now rewrite append_assoc.
Qed.

Definition hash_ok (h : string) : bool :=
  all_chars is_hex_lower h && Nat.leb 5 (String.length h) && Nat.leb (String.length h) 12.

Theorem parse_header_render : forall h a d m,
    hash_ok h = true -> author_ok a = true -> is_date d = true -> no_nl m = true ->
    parse_header (render_header h a d m) = Some (h, a, d, m).
Proof.
  intros h a d m Hh Ha Hd Hm. unfold hash_ok in Hh.
  apply andb_true_iff in Hh. destruct Hh as [Hh H12]. apply andb_true_iff in Hh. destruct Hh as [Hhex H5].
  unfold render_header.
  change ("[" ++ h ++ "] " ++ a ++ " " ++ d ++ " " ++ m) with (String "[" (h ++ "] " ++ a ++ " " ++ d ++ " " ++ m)).
  cbn [parse_header]. replace (Ascii.eqb "[" "[") with true by reflexivity.
  rewrite (span_app is_hex_lower h ("] " ++ a ++ " " ++ d ++ " " ++ m) Hhex eq_refl). rewrite H5, H12. cbn [andb].
  change ("] " ++ a ++ " " ++ d ++ " " ++ m) with (String "]" (String " " (a ++ " " ++ d ++ " " ++ m))).
  cbv beta iota. replace (Ascii.eqb "]" "]") with true by reflexivity. cbv beta iota. rewrite blank_is_ws.
  rewrite (author_date_ok a "" _ d m Ha Hd).
  - cbn [String.append]. now rewrite (contains_nl_false m Hm).
  - rewrite !length_append. lia.
Qed.

(* ------------------------------------------------------------------ decimal numbers as printed *)
Lemma is_digit_ascii_of_digit : forall d, d < 10 -> is_digit (ascii_of_digit d) = true.
Proof. intros d H. do 10 (destruct d as [|d]; [reflexivity|]). lia. Qed.

Lemma string_of_nat_fuel_digits : forall f n acc,
    all_chars is_digit acc = true -> all_chars is_digit (string_of_nat_fuel f n acc) = true.
Proof.
  induction f as [|f IH]; intros n acc H; [exact H|].
  cbn [string_of_nat_fuel].
  assert (Hd : all_chars is_digit (String (ascii_of_digit (n mod 10)) acc) = true).
  { cbn [all_chars]. rewrite is_digit_ascii_of_digit by (apply Nat.mod_upper_bound; lia). exact H. }
  destruct (Nat.ltb n 10); [exact Hd|]. now apply IH.
Qed.

Lemma string_of_nat_fuel_nonempty : forall f n acc, (f = 0 -> acc <> "") -> string_of_nat_fuel f n acc <> "".
Proof.
  induction f as [|f IH]; intros n acc H; [now apply H|].
  cbn [string_of_nat_fuel]. destruct (Nat.ltb n 10); [discriminate|]. apply IH. intros _. discriminate.
Qed.

Lemma string_of_nat_digits : forall n, all_chars is_digit (string_of_nat n) = true.
Proof. intros n. unfold string_of_nat. now apply string_of_nat_fuel_digits. Qed.

Lemma string_of_nat_nonempty : forall n, string_of_nat n <> "".
Proof. intros n. unfold string_of_nat. apply string_of_nat_fuel_nonempty. discriminate. Qed.

Lemma all_chars_forallb : forall p s, forallb p (chars s) = all_chars p s.
Proof. induction s as [|c s IH]; [reflexivity|]. cbn [chars list_ascii_of_string forallb all_chars]. fold (chars s). now rewrite IH. Qed.

Lemma atoi0_string_of_nat : forall n, atoi0 (string_of_nat n) = n.
Proof.
  intros n. unfold atoi0. rewrite all_chars_forallb, string_of_nat_digits.
  destruct (String.eqb (string_of_nat n) "") eqn:E.
  - apply String.eqb_eq in E. exfalso. exact (string_of_nat_nonempty n E).
  - cbn [andb negb]. apply nat_of_string_of_nat.
Qed.

Lemma all_chars_impl : forall (p q : ascii -> bool) s,
    (forall c, p c = true -> q c = true) -> all_chars p s = true -> all_chars q s = true.
Proof.
  induction s as [|c s IH]; intros H Hs; [reflexivity|].
  cbn [all_chars] in *. apply andb_true_iff in Hs. destruct Hs as [Hc Hs]. rewrite (H c Hc). now apply IH.
Qed.

Lemma digit_is_num_dash : forall c, is_digit c = true -> is_num_dash c = true.
Proof. intros c H. unfold is_num_dash. now rewrite H. Qed.

Lemma digit_not_ws : forall c, is_digit c = true -> is_ws c = false.
Proof.
  intros c H. unfold is_digit, is_ws in *. apply andb_true_iff in H. destruct H as [H1 H2].
  apply Nat.leb_le in H1. apply Nat.leb_le in H2.
  repeat (apply orb_false_iff; split); apply Nat.eqb_neq; lia.
Qed.

Lemma digit_not_bracket : forall c, is_digit c = true -> Ascii.eqb c "["%char = false.
Proof.
  intros c H. destruct (Ascii.eqb c "[") eqn:E; [|reflexivity]. apply Ascii.eqb_eq in E. subst c. discriminate.
Qed.

(* ------------------------------------------------------------------ the numstat row *)
Definition render_change (a d : nat) (f : string) : string :=
  string_of_nat a ++ tab ++ string_of_nat d ++ tab ++ f.

(* a path as git prints it in a numstat row: no line end, does not begin with white space *)
Definition path_ok (f : string) : bool := no_nl f && stops is_ws f.

Lemma stops_digits : forall (p : ascii -> bool) n r,
    (forall c, is_digit c = true -> p c = false) -> stops p (string_of_nat n ++ r) = true.
Proof.
  intros p n r H. pose proof (string_of_nat_digits n) as Hd. pose proof (string_of_nat_nonempty n) as Hn.
  destruct (string_of_nat n) as [|c s]; [congruence|]. cbn [String.append stops].
  cbn [all_chars] in Hd. apply andb_true_iff in Hd. destruct Hd as [Hc _]. now rewrite (H c Hc).
Qed.

Lemma head_digit : forall n r, exists c s, string_of_nat n ++ r = String c s /\ is_digit c = true.
Proof.
  intros n r. pose proof (string_of_nat_digits n) as Hd. pose proof (string_of_nat_nonempty n) as Hn.
  destruct (string_of_nat n) as [|c s]; [congruence|]. exists c, (s ++ r). split; [reflexivity|].
  cbn [all_chars] in Hd. apply andb_true_iff in Hd. tauto.
Qed.

Lemma tab_is_ws : is_ws (ascii_of_nat 9) = true. Proof. reflexivity. Qed.
Lemma tab_not_num_dash : is_num_dash (ascii_of_nat 9) = false. Proof. reflexivity. Qed.

Theorem parse_changes_render : forall a d f,
    path_ok f = true ->
    parse_changes (render_change a d f) = Some (string_of_nat a, string_of_nat d, f).
Proof.
  intros a d f Hf. unfold path_ok in Hf. apply andb_true_iff in Hf. destruct Hf as [Hnl Hws].
  unfold render_change, parse_changes.
  rewrite (span_app is_num_dash (string_of_nat a) (tab ++ string_of_nat d ++ tab ++ f)).
  2: { eapply all_chars_impl; [exact digit_is_num_dash|apply string_of_nat_digits]. }
  2: { reflexivity. }
  destruct (String.eqb (string_of_nat a) "") eqn:Ea; [apply String.eqb_eq in Ea; exfalso; exact (string_of_nat_nonempty a Ea)|].
  rewrite (span_app is_ws tab (string_of_nat d ++ tab ++ f)); [|reflexivity|apply stops_digits; exact digit_not_ws].
  replace (String.eqb tab "") with false by reflexivity.
  rewrite (span_app is_num_dash (string_of_nat d) (tab ++ f)).
  2: { eapply all_chars_impl; [exact digit_is_num_dash|apply string_of_nat_digits]. }
  2: { reflexivity. }
  destruct (String.eqb (string_of_nat d) "") eqn:Ed; [apply String.eqb_eq in Ed; exfalso; exact (string_of_nat_nonempty d Ed)|].
  rewrite (span_app is_ws tab f); [|reflexivity|exact Hws].
  replace (String.eqb tab "") with false by reflexivity.
  now rewrite (contains_nl_false f Hnl).
Qed.

Lemma parse_header_digit_head : forall n r, parse_header (string_of_nat n ++ r) = None.
Proof.
  intros n r. destruct (head_digit n r) as [c [s [E Hc]]]. rewrite E. cbn [parse_header].
  now rewrite (digit_not_bracket c Hc).
Qed.

Theorem classify_change : forall a d f,
    path_ok f = true -> classify (render_change a d f) = LChange a d f.
Proof.
  intros a d f Hf. unfold classify.
  unfold render_change at 1. rewrite parse_header_digit_head.
  rewrite (parse_changes_render a d f Hf). now rewrite !atoi0_string_of_nat.
Qed.

Theorem classify_header : forall h a d m,
    hash_ok h = true -> author_ok a = true -> is_date d = true -> no_nl m = true ->
    classify (render_header h a d m) = LHeader h a d m.
Proof. intros h a d m Hh Ha Hd Hm. unfold classify. now rewrite parse_header_render. Qed.

(* ------------------------------------------------------------------ the summary line *)
(* " create mode 100644 path" / " delete mode 100755 path": blank, mode word, " mode 100", three digits, blank, path *)
Definition render_mode (perm mode key : string) : string := " " ++ mode ++ " mode 100" ++ perm ++ " " ++ key.

Definition mode_word_ok (w : string) : bool :=
  all_chars is_word w && Nat.leb 1 (String.length w) && Nat.leb (String.length w) 6.

Definition perm_ok (p : string) : bool :=
  match chars p with [x; y; z] => is_digit x && is_digit y && is_digit z | _ => false end.

Lemma blank_not_word : is_word " "%char = false. Proof. reflexivity. Qed.
Lemma blank_not_num_dash : is_num_dash " "%char = false. Proof. reflexivity. Qed.

Theorem mode_at_render : forall perm mode key,
    perm_ok perm = true -> mode_word_ok mode = true -> no_nl key = true ->
    mode_at (render_mode perm mode key) = Some (mode, key).
Proof.
  intros perm mode key Hp Hw Hk. unfold mode_word_ok in Hw.
  apply andb_true_iff in Hw. destruct Hw as [Hw H6]. apply andb_true_iff in Hw. destruct Hw as [Hw H1].
  unfold perm_ok in Hp. destruct perm as [|x [|y [|z [|q perm]]]]; try discriminate.
  cbn [chars list_ascii_of_string] in Hp.
  unfold render_mode.
  change (" " ++ mode ++ " mode 100" ++ String x (String y (String z "")) ++ " " ++ key)
    with (String " " (mode ++ (" mode 100" ++ String x (String y (String z "")) ++ " " ++ key))).
  cbn [mode_at]. rewrite blank_is_ws.
  rewrite (span_app is_word mode (" mode 100" ++ String x (String y (String z "")) ++ " " ++ key) Hw eq_refl).
  rewrite H1, H6. cbn [andb].
  change (" mode 100" ++ String x (String y (String z "")) ++ " " ++ key)
    with (String " " ("mode 100" ++ String x (String y (String z (String " " key))))).
  cbv beta iota. rewrite blank_is_ws.
  replace (has_prefix "mode 100" ("mode 100" ++ String x (String y (String z (String " " key))))) with true by reflexivity.
  change (drop 8 ("mode 100" ++ String x (String y (String z (String " " key))))) with (String x (String y (String z (String " " key)))).
  cbn [take chars list_ascii_of_string drop]. rewrite Hp. cbv beta iota. rewrite blank_is_ws.
  rewrite (str_index_nl_none key Hk). now rewrite take_all.
Qed.

Theorem classify_mode : forall perm mode key,
    perm_ok perm = true -> mode_word_ok mode = true -> no_nl key = true ->
    classify (render_mode perm mode key) = LMode mode key.
Proof.
  intros perm mode key Hp Hw Hk. unfold classify.
  assert (Hh : parse_header (render_mode perm mode key) = None) by reflexivity.
  assert (Hc : parse_changes (render_mode perm mode key) = None).
  { unfold render_mode, parse_changes.
    change (" " ++ mode ++ " mode 100" ++ perm ++ " " ++ key) with (String " " (mode ++ " mode 100" ++ perm ++ " " ++ key)).
    rewrite span_stop by reflexivity. reflexivity. }
  rewrite Hh, Hc.
  assert (Hm : forall fuel, parse_mode fuel (render_mode perm mode key) = Some (mode, key)).
  { intros fuel. destruct fuel; cbn [parse_mode]; now rewrite mode_at_render. }
  now rewrite Hm.
Qed.

Lemma classify_blank : classify "" = LOther.
Proof. reflexivity. Qed.

(* ------------------------------------------------------------------ a whole log *)
Definition render_block (perm : string) (b : block) : list string :=
  if b_header_only b then [render_header (b_h b) (b_a b) (b_d b) (b_m b)]
  else render_header (b_h b) (b_a b) (b_d b) (b_m b)
       :: map (fun c => render_change (fst (fst c)) (snd (fst c)) (snd c)) (b_changes b)
       ++ map (fun mk => render_mode perm (fst mk) (snd mk)) (b_modes b) ++ [""].

Definition render_log (perm : string) (bs : list block) : string := join nl (flat_map (render_block perm) bs).

(* what the text-level statement asks of an entry, on top of WFblock *)
Definition text_ok (b : block) : bool :=
  hash_ok (b_h b) && author_ok (b_a b) && is_date (b_d b) && no_nl (b_m b) &&
  forallb (fun c => path_ok (snd c)) (b_changes b) &&
  forallb (fun mk => mode_word_ok (fst mk) && no_nl (snd mk)) (b_modes b).

Lemma classify_block : forall perm b,
    perm_ok perm = true -> text_ok b = true -> map classify (render_block perm b) = kinds_of b.
Proof.
  intros perm b Hp H. unfold text_ok in H.
  apply andb_true_iff in H. destruct H as [H H0]. apply andb_true_iff in H. destruct H as [H H1].
  apply andb_true_iff in H. destruct H as [H Hm]. apply andb_true_iff in H. destruct H as [H Hd].
  apply andb_true_iff in H. destruct H as [Hh Ha].
  unfold render_block, kinds_of. destruct (b_header_only b).
  - cbn [map]. rewrite classify_header by assumption. reflexivity.
  - cbn [map]. rewrite classify_header by assumption. f_equal.
    rewrite !map_app, !map_map. cbn [map]. rewrite classify_blank. f_equal; [|f_equal].
    + apply map_ext_in. intros [[a d] f] Hin. cbn [fst snd].
      apply classify_change. rewrite forallb_forall in H1. exact (H1 _ Hin).
    + apply map_ext_in. intros [mode key] Hin. cbn [fst snd].
      rewrite forallb_forall in H0. specialize (H0 _ Hin). cbn [fst snd] in H0.
      apply andb_true_iff in H0. destruct H0 as [Hw Hk]. now apply classify_mode.
Qed.

Lemma classify_log_lines : forall perm bs,
    perm_ok perm = true -> forallb text_ok bs = true ->
    map classify (flat_map (render_block perm) bs) = flat_map kinds_of bs.
Proof.
  intros perm bs Hp. induction bs as [|b bs IH]; intros H; [reflexivity|].
  cbn [forallb] in H. apply andb_true_iff in H. destruct H as [Hb Hbs].
  cbn [flat_map]. rewrite map_app, (classify_block perm b Hp Hb). now rewrite IH.
Qed.

(* no printed line holds a line end *)
Lemma all_chars_app : forall p a b, all_chars p (a ++ b) = all_chars p a && all_chars p b.
Proof. induction a as [|c a IH]; intros b; cbn [String.append all_chars]; [reflexivity|]. now rewrite IH, andb_assoc. Qed.

Lemma digits_no_nl : forall n, no_nl (string_of_nat n) = true.
Proof.
  intros n. unfold no_nl. eapply all_chars_impl; [|apply string_of_nat_digits].
  intros c Hc. unfold not_nl. destruct (Ascii.eqb c c_nl) eqn:E; [|reflexivity].
  apply Ascii.eqb_eq in E. subst c. discriminate.
Qed.

Lemma author_no_nl : forall a, author_ok a = true -> no_nl a = true.
Proof.
  intros a H. unfold no_nl. eapply all_chars_impl; [|exact H].
  intros c Hc. unfold author_char in Hc. apply andb_true_iff in Hc. tauto.
Qed.

Lemma hex_no_nl : forall h, all_chars is_hex_lower h = true -> no_nl h = true.
Proof.
  intros h H. unfold no_nl. eapply all_chars_impl; [|exact H].
  intros c Hc. unfold not_nl. destruct (Ascii.eqb c c_nl) eqn:E; [|reflexivity].
  apply Ascii.eqb_eq in E. subst c. discriminate.
Qed.

Lemma word_no_nl : forall w, all_chars is_word w = true -> no_nl w = true.
Proof.
  intros h H. unfold no_nl. eapply all_chars_impl; [|exact H].
  intros c Hc. unfold not_nl. destruct (Ascii.eqb c c_nl) eqn:E; [|reflexivity].
  apply Ascii.eqb_eq in E. subst c. discriminate.
Qed.

Lemma digit_not_nl : forall x, is_digit x = true -> not_nl x = true.
Proof.
  intros x Hx. unfold not_nl. destruct (Ascii.eqb x c_nl) eqn:E; [|reflexivity].
  apply Ascii.eqb_eq in E. subst x. discriminate.
Qed.

Lemma dash_not_nl : forall x, Ascii.eqb x "-" = true -> not_nl x = true.
Proof. intros x Hx. apply Ascii.eqb_eq in Hx. subst x. reflexivity. Qed.

Ltac case_true H t :=
  let E := fresh "E" in destruct t eqn:E; [|cbn [andb] in H; discriminate H].

Lemma date_no_nl : forall d, is_date d = true -> no_nl d = true.
Proof.
  intros d H. unfold is_date in H.
  destruct d as [|a [|b [|c [|e [|h1 [|f [|g [|h2 [|i [|j [|k d]]]]]]]]]]]; try discriminate.
  cbn [chars list_ascii_of_string] in H.
  case_true H (is_digit a). case_true H (is_digit b). case_true H (is_digit c). case_true H (is_digit e).
  case_true H (Ascii.eqb h1 "-"). case_true H (is_digit f). case_true H (is_digit g).
  case_true H (Ascii.eqb h2 "-"). case_true H (is_digit i). case_true H (is_digit j).
  unfold no_nl. cbn [all_chars].
  repeat first [rewrite digit_not_nl by assumption | rewrite dash_not_nl by assumption]. reflexivity.
Qed.

Lemma perm_no_nl : forall p, perm_ok p = true -> no_nl p = true.
Proof.
  intros p H. unfold perm_ok in H. destruct p as [|x [|y [|z [|q p]]]]; try discriminate.
  cbn [chars list_ascii_of_string] in H.
  case_true H (is_digit x). case_true H (is_digit y). case_true H (is_digit z).
  unfold no_nl. cbn [all_chars]. rewrite !digit_not_nl by assumption. reflexivity.
Qed.

Lemma block_lines_no_nl : forall perm b,
    perm_ok perm = true -> text_ok b = true -> forallb no_nl (render_block perm b) = true.
Proof.
  intros perm b Hp H. unfold text_ok in H.
  apply andb_true_iff in H. destruct H as [H H0]. apply andb_true_iff in H. destruct H as [H H1].
  apply andb_true_iff in H. destruct H as [H Hm]. apply andb_true_iff in H. destruct H as [H Hd].
  apply andb_true_iff in H. destruct H as [Hh Ha].
  assert (Hhead : no_nl (render_header (b_h b) (b_a b) (b_d b) (b_m b)) = true).
  { unfold render_header, no_nl. rewrite !all_chars_app.
    unfold hash_ok in Hh. apply andb_true_iff in Hh. destruct Hh as [Hh _]. apply andb_true_iff in Hh. destruct Hh as [Hh _].
    fold (no_nl (b_h b)) (no_nl (b_a b)) (no_nl (b_d b)) (no_nl (b_m b)).
    rewrite (hex_no_nl _ Hh), (author_no_nl _ Ha), (date_no_nl _ Hd), Hm. reflexivity. }
  unfold render_block. destruct (b_header_only b); cbn [forallb]; rewrite Hhead; [reflexivity|].
  cbn [andb]. rewrite !forallb_app. cbn [forallb]. rewrite andb_true_r.
  apply andb_true_iff. split.
  - rewrite forallb_forall. intros l Hl. apply in_map_iff in Hl. destruct Hl as [[[a d] f] [El Hin]]. subst l.
    cbn [fst snd]. rewrite forallb_forall in H1. specialize (H1 _ Hin). cbn [snd] in H1.
    unfold path_ok in H1. apply andb_true_iff in H1. destruct H1 as [Hf _].
    unfold render_change, no_nl. rewrite !all_chars_app.
    fold (no_nl (string_of_nat a)) (no_nl (string_of_nat d)) (no_nl f).
    rewrite !digits_no_nl, Hf. reflexivity.
  - rewrite forallb_forall. intros l Hl. apply in_map_iff in Hl. destruct Hl as [[mode key] [El Hin]]. subst l.
    cbn [fst snd]. rewrite forallb_forall in H0. specialize (H0 _ Hin). cbn [fst snd] in H0.
    apply andb_true_iff in H0. destruct H0 as [Hw Hk].
    unfold mode_word_ok in Hw. apply andb_true_iff in Hw. destruct Hw as [Hw _]. apply andb_true_iff in Hw. destruct Hw as [Hw _].
    unfold render_mode, no_nl. rewrite !all_chars_app.
    fold (no_nl mode) (no_nl perm) (no_nl key).
    rewrite (word_no_nl _ Hw), (perm_no_nl _ Hp), Hk. reflexivity.
Qed.

Lemma log_lines_no_nl : forall perm bs,
    perm_ok perm = true -> forallb text_ok bs = true ->
    forallb no_nl (flat_map (render_block perm) bs) = true.
Proof.
  intros perm bs Hp. induction bs as [|b bs IH]; intros H; [reflexivity|].
  cbn [forallb] in H. apply andb_true_iff in H. destruct H as [Hb Hbs].
  cbn [flat_map]. rewrite forallb_app, (block_lines_no_nl perm b Hp Hb). now rewrite IH.
Qed.

Lemma render_block_nonempty : forall perm b, render_block perm b <> [].
Proof. intros perm b. unfold render_block. destruct (b_header_only b); discriminate. Qed.

Lemma fold_parse_line : forall lines st,
    fold_left parse_line lines st = fold_left step (map classify lines) st.
Proof. induction lines as [|l r IH]; intros st; [reflexivity|]. cbn [fold_left map]. apply IH. Qed.

(* THE TEXT-LEVEL STATEMENT: every well-formed history, printed as git prints it, is read back exactly --
   one commit per entry that has file changes, each with its hash, author, date, subject and every file change
   with its line counts and its mode, in order *)
Theorem log_text_roundtrip : forall perm bs,
    perm_ok perm = true -> Forall WFblock bs -> forallb text_ok bs = true ->
    build_message_by_input (render_log perm bs) = expected_commits bs.
Proof.
  intros perm bs Hp Hwf Hok. unfold build_message_by_input, render_log.
  destruct bs as [|b bs].
  - reflexivity.
  - rewrite split_join_nl.
    + rewrite fold_parse_line, (classify_log_lines perm (b :: bs) Hp Hok).
      now apply parse_blocks_from_start.
    + cbn [flat_map]. pose proof (render_block_nonempty perm b) as Hn.
      destruct (render_block perm b); [congruence|discriminate].
    + now apply log_lines_no_nl.
Qed.

(* non-vacuity: the three entries of GitLogProofs.ex_blocks (a create, an entry without changes, a binary file with
   a create) satisfy the text hypotheses once the rename row is left out *)
Definition ex_text_blocks : list block :=
  [ mkBlock "cfa3acd" "Al Ice" "2026-09-30" "feat: one [abc123] 2020-01-01 x" [(1, 0, "a.txt"); (12, 340, "dir with blank/b c.txt")]
            [("create", "a.txt")] false;
    mkBlock "5aeb8a8" "Al Ice" "2026-09-30" "empty one" [] [] true;
    mkBlock "2e32690aa" "Bob-O'Neil <b@x.org>" "2026-10-01" "second" [(0, 0, "bin.dat"); (0, 7, "gone.txt")]
            [("create", "bin.dat"); ("delete", "gone.txt")] false ].

Example ex_text_blocks_ok :
  forallb text_ok ex_text_blocks = true /\ forallb wf_block_b ex_text_blocks = true /\
  List.length (build_message_by_input (render_log "644" ex_text_blocks)) = 2.
Proof. repeat split; vm_compute; reflexivity. Qed.
