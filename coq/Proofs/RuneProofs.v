(* Columns count characters: what rune_count / drop_runes / take_runes (Lib/Str.v) do on UTF-8 text.
   A text is given as its characters, each a byte that is not a continuation byte followed by continuation bytes
   (every valid UTF-8 string has this form, and so has text with stray invalid lead bytes: ANTLR, like Go, takes each
   of them for one character). *)
From Coq Require Import String List Bool Arith Lia Ascii.
From Coca Require Import Lib.Str.
Import ListNotations.
Open Scope list_scope.
Open Scope string_scope.

Definition uchar : Type := (ascii * string)%type.          (* lead byte, continuation bytes *)

Fixpoint all_cont (s : string) : bool :=
  match s with EmptyString => true | String c r => is_cont_byte c && all_cont r end.

Definition uchar_ok (u : uchar) : bool := negb (is_cont_byte (fst u)) && all_cont (snd u).

Definition ustr (cs : list uchar) : string :=
  fold_right (fun u acc => String (fst u) (snd u ++ acc)) "" cs.

(* the text does not begin in the middle of a character *)
Definition starts_clean (s : string) : bool :=
  match s with String c _ => negb (is_cont_byte c) | EmptyString => true end.

Lemma skip_cont_app : forall k s, all_cont k = true -> starts_clean s = true -> skip_cont (k ++ s) = s.
Proof.
  induction k as [|c k IH]; intros s Hk Hs.
  - cbn [String.append]. destruct s as [|d s]; [reflexivity|]. cbn [skip_cont starts_clean] in *.
    apply negb_true_iff in Hs. now rewrite Hs.
  - cbn [all_cont] in Hk. apply andb_true_iff in Hk. destruct Hk as [Hc Hk].
    cbn [String.append skip_cont]. rewrite Hc. now apply IH.
Qed.

Lemma take_cont_app : forall k s, all_cont k = true -> starts_clean s = true -> take_cont (k ++ s) = k.
Proof.
  induction k as [|c k IH]; intros s Hk Hs.
  - cbn [String.append]. destruct s as [|d s]; [reflexivity|]. cbn [take_cont starts_clean] in *.
    apply negb_true_iff in Hs. now rewrite Hs.
  - cbn [all_cont] in Hk. apply andb_true_iff in Hk. destruct Hk as [Hc Hk].
    cbn [String.append take_cont]. rewrite Hc. f_equal. now apply IH.
Qed.

Lemma ustr_starts_clean : forall cs, forallb uchar_ok cs = true -> starts_clean (ustr cs) = true.
Proof.
  intros [|u cs] H; [reflexivity|]. cbn [forallb] in H. apply andb_true_iff in H. destruct H as [Hu _].
  unfold uchar_ok in Hu. apply andb_true_iff in Hu. destruct Hu as [Hl _]. exact Hl.
Qed.

Lemma starts_clean_app : forall cs s,
    forallb uchar_ok cs = true -> starts_clean s = true -> starts_clean (ustr cs ++ s) = true.
Proof.
  intros [|u cs] s H Hs; [exact Hs|]. cbn [forallb] in H. apply andb_true_iff in H. destruct H as [Hu _].
  unfold uchar_ok in Hu. apply andb_true_iff in Hu. destruct Hu as [Hl _]. exact Hl.
Qed.

Lemma all_cont_rune_count : forall k, all_cont k = true -> rune_count k = 0.
Proof.
  induction k as [|c k IH]; intros H; [reflexivity|].
  cbn [all_cont] in H. apply andb_true_iff in H. destruct H as [Hc Hk]. cbn [rune_count]. rewrite Hc. now rewrite IH.
Qed.

Lemma rune_count_app : forall a b, rune_count (a ++ b) = rune_count a + rune_count b.
Proof. induction a as [|c a IH]; intros b; [reflexivity|]. cbn [String.append rune_count]. rewrite IH. lia. Qed.

(* the number of characters *)
Theorem rune_count_ustr : forall cs, forallb uchar_ok cs = true -> rune_count (ustr cs) = List.length cs.
Proof.
  induction cs as [|u cs IH]; intros H; [reflexivity|].
  cbn [forallb] in H. apply andb_true_iff in H. destruct H as [Hu Hcs].
  unfold uchar_ok in Hu. apply andb_true_iff in Hu. destruct Hu as [Hl Hk]. apply negb_true_iff in Hl.
  cbn [ustr fold_right rune_count]. fold (ustr cs). rewrite Hl, rune_count_app, (all_cont_rune_count _ Hk), IH by assumption.
  reflexivity.
Qed.

Theorem drop_runes_ustr : forall cs s,
    forallb uchar_ok cs = true -> starts_clean s = true -> drop_runes (List.length cs) (ustr cs ++ s) = s.
Proof.
  induction cs as [|u cs IH]; intros s H Hs; [reflexivity|].
  cbn [forallb] in H. apply andb_true_iff in H. destruct H as [Hu Hcs].
  unfold uchar_ok in Hu. apply andb_true_iff in Hu. destruct Hu as [Hl Hk].
  cbn [ustr fold_right List.length String.append drop_runes]. fold (ustr cs).
  rewrite append_assoc. rewrite skip_cont_app; [now apply IH|exact Hk|now apply starts_clean_app].
Qed.

Theorem take_runes_ustr : forall cs s,
    forallb uchar_ok cs = true -> starts_clean s = true -> take_runes (List.length cs) (ustr cs ++ s) = ustr cs.
Proof.
  induction cs as [|u cs IH]; intros s H Hs; [reflexivity|].
  cbn [forallb] in H. apply andb_true_iff in H. destruct H as [Hu Hcs].
  unfold uchar_ok in Hu. apply andb_true_iff in Hu. destruct Hu as [Hl Hk].
  cbn [ustr fold_right List.length String.append take_runes]. fold (ustr cs).
  rewrite append_assoc.
  rewrite take_cont_app; [|exact Hk|now apply starts_clean_app].
  rewrite skip_cont_app; [|exact Hk|now apply starts_clean_app].
  now rewrite IH.
Qed.

(* THE POINT: on a line  pre ++ name ++ post  the character columns [|pre|, |pre| + |name|) select exactly the name,
   whatever multi-byte text stands before it and whatever letters it is made of *)
Theorem columns_select_name : forall pre name post,
    forallb uchar_ok pre = true -> forallb uchar_ok name = true -> starts_clean post = true ->
    take_runes (rune_count (ustr name)) (drop_runes (List.length pre) (ustr pre ++ ustr name ++ post)) = ustr name.
Proof.
  intros pre name post Hp Hn Hs.
  rewrite drop_runes_ustr by (auto; now apply starts_clean_app).
  rewrite rune_count_ustr by assumption. now apply take_runes_ustr.
Qed.

(* for ASCII text characters are bytes: the functions are String.length, drop and take *)
Fixpoint ascii_only (s : string) : bool :=
  match s with EmptyString => true | String c r => Nat.ltb (nat_of_ascii c) 128 && ascii_only r end.

Lemma ascii_not_cont : forall c, Nat.ltb (nat_of_ascii c) 128 = true -> is_cont_byte c = false.
Proof.
  intros c H. unfold is_cont_byte. apply Nat.ltb_lt in H. apply andb_false_iff. left. apply Nat.leb_gt. lia.
Qed.

Theorem ascii_rune_count : forall s, ascii_only s = true -> rune_count s = String.length s.
Proof.
  induction s as [|c s IH]; intros H; [reflexivity|].
  cbn [ascii_only] in H. apply andb_true_iff in H. destruct H as [Hc Hs].
  cbn [rune_count String.length]. rewrite (ascii_not_cont c Hc), IH by assumption. reflexivity.
Qed.

Lemma ascii_skip_cont : forall s, ascii_only s = true -> skip_cont s = s.
Proof.
  intros [|c s] H; [reflexivity|]. cbn [ascii_only] in H. apply andb_true_iff in H. destruct H as [Hc _].
  cbn [skip_cont]. now rewrite (ascii_not_cont c Hc).
Qed.

Lemma ascii_take_cont : forall s, ascii_only s = true -> take_cont s = "".
Proof.
  intros [|c s] H; [reflexivity|]. cbn [ascii_only] in H. apply andb_true_iff in H. destruct H as [Hc _].
  cbn [take_cont]. now rewrite (ascii_not_cont c Hc).
Qed.

Theorem ascii_drop_runes : forall n s, ascii_only s = true -> drop_runes n s = drop n s.
Proof.
  induction n as [|n IH]; intros s H; [reflexivity|].
  destruct s as [|c s]; [reflexivity|]. cbn [ascii_only] in H. apply andb_true_iff in H. destruct H as [_ Hs].
  cbn [drop_runes drop]. rewrite (ascii_skip_cont s Hs). now apply IH.
Qed.

Theorem ascii_take_runes : forall n s, ascii_only s = true -> take_runes n s = take n s.
Proof.
  induction n as [|n IH]; intros s H; [reflexivity|].
  destruct s as [|c s]; [reflexivity|]. cbn [ascii_only] in H. apply andb_true_iff in H. destruct H as [_ Hs].
  cbn [take_runes take]. rewrite (ascii_take_cont s Hs), (ascii_skip_cont s Hs). cbn [String.append]. f_equal. now apply IH.
Qed.

Theorem ascii_columns : forall n s,
    ascii_only s = true -> rune_count s = String.length s /\ drop_runes n s = drop n s /\ take_runes n s = take n s.
Proof. intros n s H. repeat split; [now apply ascii_rune_count|now apply ascii_drop_runes|now apply ascii_take_runes]. Qed.

Example ex_columns :
  rune_count "größe" = 5 /\ String.length "größe" = 7 /\
  take_runes 5 (drop_runes 10 "  é  中 r. größe() ;") = "größe".
Proof. repeat split; vm_compute; reflexivity. Qed.
