(* C12, exactness for conventional controllers: for EVERY controller class written in the conventional forms --
   @RestController / @Controller before or after an optional class-level @RequestMapping (shorthand, value=, bare),
   any number of handler methods, each with one mapping annotation in shorthand, value=, value= + method= (either
   order) or bare form, any parameters (the last @RequestBody one names the body type), plain methods and fields
   in between -- the scan yields exactly one entry per handler, in order, with the verb, the class's base path
   followed by the method's path, the body type and the handler's package, class and method name. *)
From Coq Require Import String List Bool Arith Lia Ascii.
From Coca Require Import Lib.Sx Lib.GoMap Lib.Str Model.GitSummarySpec Model.ApiScan Model.ApiSpec Proofs.ApiProofs Proofs.ApiTotalProofs.
Import ListNotations.
Open Scope list_scope.
Open Scope string_scope.

(* ------------------------------------------------------------------ removing the quotes of a quoted value *)
Fixpoint no_dq (s : string) : bool :=
  match s with EmptyString => true | String c r => negb (Ascii.eqb c c_dquote) && no_dq r end.

Lemma has_prefix_dq : forall c r, has_prefix dquote (String c r) = Ascii.eqb c_dquote c.
Proof. intros c r. unfold dquote. cbn [has_prefix]. fold c_dquote. destruct (Ascii.eqb c_dquote c); reflexivity. Qed.

Lemma index_dq_none : forall a fuel pos, no_dq a = true -> index_from fuel pos dquote a = None.
Proof.
  induction a as [|c a IH]; intros fuel pos H.
  - destruct fuel; reflexivity.
  - cbn [no_dq] in H. apply andb_true_iff in H. destruct H as [Hc Ha].
    apply negb_true_iff in Hc. rewrite Ascii.eqb_sym in Hc.
    destruct fuel as [|fuel]; cbn [index_from]; rewrite has_prefix_dq, Hc; [reflexivity|]. now apply IH.
Qed.

Lemma index_dq_some : forall a r fuel pos,
    no_dq a = true -> String.length a <= fuel ->
    index_from fuel pos dquote (a ++ dquote ++ r) = Some (pos + String.length a).
Proof.
  induction a as [|c a IH]; intros r fuel pos H Hf.
  - cbn [String.append String.length]. unfold dquote at 2. cbn [String.append].
    destruct fuel; cbn [index_from]; rewrite has_prefix_dq, Ascii.eqb_refl; f_equal; lia.
  - cbn [no_dq] in H. apply andb_true_iff in H. destruct H as [Hc Ha].
    apply negb_true_iff in Hc. rewrite Ascii.eqb_sym in Hc.
    cbn [String.length] in Hf. destruct fuel as [|fuel]; [lia|].
    cbn [String.append index_from]. rewrite has_prefix_dq, Hc.
    rewrite IH by (auto; lia). cbn [String.length]. f_equal. lia.
Qed.

Lemma take_app_len3 : forall a r, take (String.length a) (a ++ r) = a.
Proof. induction a; intros; simpl; auto. now rewrite IHa. Qed.

Lemma drop_app_len3 : forall a r, drop (String.length a) (a ++ r) = r.
Proof. induction a; intros; simpl; auto. Qed.

Lemma drop_plus_one : forall a r, drop (String.length a + 1) (a ++ dquote ++ r) = r.
Proof.
  intros a r. replace (String.length a + 1) with (String.length (a ++ dquote)) by (rewrite length_append; reflexivity).
  rewrite <- append_assoc. apply drop_app_len3.
Qed.

Definition q (p : string) : string := dquote ++ p ++ dquote.

(* ReplaceAll of the double quote by nothing, on base followed by the quoted path: base followed by the path *)
Lemma unquote_fuel : forall n b p,
    no_dq b = true -> no_dq p = true ->
    replace_all_fuel (S (S (S n))) dquote "" (b ++ dquote ++ p ++ dquote) = b ++ p.
Proof.
  intros n b p Hb Hp. cbn [replace_all_fuel]. unfold str_index.
  rewrite index_dq_some; [|assumption|rewrite !length_append; lia].
  cbn [plus]. rewrite take_app_len3. change (String.length dquote) with 1. rewrite drop_plus_one.
  unfold str_index.
  replace (p ++ dquote) with (p ++ dquote ++ "") by reflexivity.
  rewrite index_dq_some; [|assumption|rewrite !length_append; lia].
  cbn [plus]. rewrite take_app_len3. change (String.length dquote) with 1. rewrite drop_plus_one.
  destruct n; cbn [replace_all_fuel String.append]; now rewrite !append_nil_r.
Qed.

Lemma unquote_uri : forall b p, no_dq b = true -> no_dq p = true -> replace_all dquote "" (b ++ q p) = b ++ p.
Proof.
  intros b p Hb Hp. unfold replace_all, q.
  assert (Hl : String.length (b ++ dquote ++ p ++ dquote) = S (S (String.length b + String.length p))).
  { rewrite !length_append. unfold dquote. cbn [String.length]. lia. }
  rewrite Hl. now apply unquote_fuel.
Qed.

Lemma strip1_q : forall p, strip1 (q p) = Some p.
Proof.
  intros p. unfold strip1, q.
  assert (Hl : String.length (dquote ++ p ++ dquote) = S (S (String.length p))).
  { rewrite !length_append. unfold dquote. cbn [String.length]. lia. }
  rewrite Hl. cbn [Nat.ltb Nat.leb]. replace (S (S (String.length p)) - 2) with (String.length p) by lia.
  unfold dquote at 1. cbn [String.append drop]. now rewrite take_app_len3.
Qed.

Lemma replace_all_no_dq : forall s, no_dq s = true -> replace_all dquote "" s = s.
Proof.
  intros s H. unfold replace_all. cbn [replace_all_fuel]. unfold str_index. now rewrite index_dq_none.
Qed.

(* ------------------------------------------------------------------ conventional controllers *)
Inductive hform := HShort | HValue | HReqVM | HReqMV | HBare.

Record xhand := mkXHd {
  h_form : hform; h_verb : string; h_path : string; h_name : string;
  h_params : list aparam;              (* parameters: their own annotations are not mapping annotations *)
  h_others : list aannot }.            (* other annotations of the method (@Override, @Deprecated, ...) before the mapping *)

Definition verb_ok (v : string) : bool := str_mem v ["GET"; "PUT"; "POST"; "DELETE"].

Definition mapping_of (v : string) : string :=
  if String.eqb v "GET" then "GetMapping" else if String.eqb v "PUT" then "PutMapping"
  else if String.eqb v "POST" then "PostMapping" else "DeleteMapping".

Definition annot_of (h : xhand) : aannot :=
  match h_form h with
  | HShort => mkAA (mapping_of (h_verb h)) true (q (h_path h)) false []
  | HValue => mkAA (mapping_of (h_verb h)) false "" true [("value", q (h_path h))]
  | HReqVM => mkAA "RequestMapping" false "" true [("value", q (h_path h)); ("method", "RequestMethod." ++ h_verb h)]
  | HReqMV => mkAA "RequestMapping" false "" true [("method", "RequestMethod." ++ h_verb h); ("value", q (h_path h))]
  | HBare => mkAA (mapping_of (h_verb h)) false "" false []
  end.

Definition path_of (h : xhand) : string := match h_form h with HBare => "" | _ => h_path h end.

(* an annotation the scan has nothing to do with inside a controller class *)
Definition plain_annot (a : aannot) : bool := negb (is_mapping (aa_name a)).

Definition hand_ok (h : xhand) : bool :=
  verb_ok (h_verb h) && no_dq (h_path h) && forallb plain_annot (h_others h) &&
  forallb (fun p => forallb plain_annot (ap_annots p)) (h_params h).

Definition member_of (h : xhand) : amember := mkAM true (h_name h) (h_others h ++ [annot_of h])%list (h_params h).

(* the body type: the last parameter carrying @RequestBody *)
Definition body_of (ps : list aparam) : string :=
  fold_left (fun acc p => if ap_body p then ap_type p else acc) ps "".

(* a member that is not a handler: a field or a method without mapping annotation *)
Definition plain_member (m : amember) : bool :=
  forallb plain_annot (am_annots m) && forallb (fun p => forallb plain_annot (ap_annots p)) (am_params m).

Inductive xmember := XH (h : xhand) | XP (m : amember).

Definition amember_of (x : xmember) : amember := match x with XH h => member_of h | XP m => m end.
Definition xmember_ok (x : xmember) : bool := match x with XH h => hand_ok h | XP m => plain_member m end.

Definition entry_of (base pkg cls : string) (h : xhand) : rest_entry :=
  mkRest (base ++ path_of h) (h_verb h) (h_name h) (body_of (h_params h)) pkg cls.

Definition entries_of (base pkg cls : string) (ms : list xmember) : list rest_entry :=
  flat_map (fun x => match x with XH h => [entry_of base pkg cls h] | XP _ => [] end) ms.

(* the state inside a controller class between two members *)
Definition inside (base : string) (cur : rest_entry) (apis : list rest_entry) (clz pkg : string)
           (imports : list string) (impl : string) : astate :=
  mkAS true true false base cur apis clz pkg imports impl "".

Lemma add_mapping : forall r v, verb_ok v = true -> add_api_method r (mapping_of v) = set_verb r v.
Proof.
  intros r v H. unfold verb_ok, str_mem in H. cbn [existsb] in H.
  repeat (apply orb_true_iff in H; destruct H as [H|H]); try discriminate;
    apply String.eqb_eq in H; subst v; reflexivity.
Qed.

Lemma add_request_method : forall r v, verb_ok v = true -> add_api_method r ("RequestMethod." ++ v) = set_verb r v.
Proof.
  intros r v H. unfold verb_ok, str_mem in H. cbn [existsb] in H.
  repeat (apply orb_true_iff in H; destruct H as [H|H]); try discriminate;
    apply String.eqb_eq in H; subst v; reflexivity.
Qed.

Lemma mapping_is_mapping : forall v, is_mapping (mapping_of v) = true.
Proof.
  intros v. unfold mapping_of.
  destruct (String.eqb v "GET"); [reflexivity|]. destruct (String.eqb v "PUT"); [reflexivity|].
  destruct (String.eqb v "POST"); reflexivity.
Qed.

Lemma mapping_not_request : forall v, String.eqb (mapping_of v) "RequestMapping" = false.
Proof.
  intros v. unfold mapping_of.
  destruct (String.eqb v "GET"); [reflexivity|]. destruct (String.eqb v "PUT"); [reflexivity|].
  destruct (String.eqb v "POST"); reflexivity.
Qed.

Lemma mapping_not_controller : forall v,
    String.eqb (mapping_of v) "RestController" = false /\ String.eqb (mapping_of v) "Controller" = false.
Proof.
  intros v. unfold mapping_of.
  destruct (String.eqb v "GET"); [split; reflexivity|]. destruct (String.eqb v "PUT"); [split; reflexivity|].
  destruct (String.eqb v "POST"); split; reflexivity.
Qed.

(* a plain annotation leaves the state inside a controller class as it is *)
Lemma plain_annot_inside : forall a base cur apis clz pkg imports impl rest_flag,
    plain_annot a = true ->
    enter_annotation (mkAS true true rest_flag base cur apis clz pkg imports impl "") a
    = AOk (mkAS true true rest_flag base cur apis clz pkg imports impl "").
Proof.
  intros a base cur apis clz pkg imports impl rf H. unfold plain_annot in H. apply negb_true_iff in H.
  unfold enter_annotation. cbn [a_hasEnterClass a_isController a_hasEnterRest a_baseUrl a_current a_apis a_clz a_pkg
                               a_imports a_implements a_requestBody orb negb]. now rewrite H.
Qed.

Lemma plain_annots_inside : forall l base cur apis clz pkg imports impl rest_flag,
    forallb plain_annot l = true ->
    enter_annotations (mkAS true true rest_flag base cur apis clz pkg imports impl "") l
    = AOk (mkAS true true rest_flag base cur apis clz pkg imports impl "").
Proof.
  induction l as [|a l IH]; intros base cur apis clz pkg imports impl rf H; [reflexivity|].
  cbn [forallb] in H. apply andb_true_iff in H. destruct H as [Ha Hl].
  unfold enter_annotations. cbn [fold_left]. rewrite plain_annot_inside by assumption.
  now apply IH.
Qed.

Lemma enter_annotations_app : forall l1 l2 st,
    enter_annotations st (l1 ++ l2)%list =
    match enter_annotations st l1 with AOk s => enter_annotations s l2 | APanic => APanic end.
Proof.
  intros l1 l2 st. unfold enter_annotations. rewrite fold_left_app.
  destruct (fold_left _ l1 (AOk st)) as [s|]; [reflexivity|].
  induction l2 as [|a l2 IH]; [reflexivity|]. cbn [fold_left]. exact IH.
Qed.

(* the mapping annotation of a handler: the entry under construction gets the verb and base + path *)
Lemma handler_annot : forall h base cur apis clz pkg imports impl,
    hand_ok h = true -> no_dq base = true ->
    enter_annotation (inside base cur apis clz pkg imports impl) (annot_of h)
    = AOk (mkAS true true true base (mkRest (base ++ path_of h) (h_verb h) "" "" "" "") apis clz pkg imports impl "").
Proof.
  intros h base cur apis clz pkg imports impl Hok Hb. unfold hand_ok in Hok.
  apply andb_true_iff in Hok. destruct Hok as [Hok _]. apply andb_true_iff in Hok. destruct Hok as [Hok _].
  apply andb_true_iff in Hok. destruct Hok as [Hv Hp].
  destruct (mapping_not_controller (h_verb h)) as [Hc1 Hc2].
  unfold enter_annotation, inside, annot_of, path_of.
  destruct (h_form h); cbn [aa_name aa_has_value aa_value aa_has_pairs aa_pairs a_hasEnterClass a_isController
                            a_hasEnterRest a_baseUrl a_current a_apis a_clz a_pkg a_imports a_implements a_requestBody
                            orb negb].
  - rewrite mapping_is_mapping, mapping_not_request. cbn [negb]. rewrite unquote_uri by assumption.
    now rewrite add_mapping by assumption.
  - rewrite mapping_is_mapping, mapping_not_request. cbn [negb]. rewrite append_nil_r, replace_all_no_dq by assumption.
    rewrite add_mapping by assumption. cbn [fold_left fst snd String.eqb].
    replace (String.eqb "value" "method") with false by reflexivity.
    replace (String.eqb "value" "value") with true by reflexivity. rewrite strip1_q. reflexivity.
  - replace (is_mapping "RequestMapping") with true by reflexivity. cbn [negb].
    replace (String.eqb "RequestMapping" "RequestMapping") with true by reflexivity. cbn [negb].
    rewrite append_nil_r, replace_all_no_dq by assumption. cbn [fold_left fst snd].
    replace (String.eqb "value" "method") with false by reflexivity.
    replace (String.eqb "value" "value") with true by reflexivity.
    replace (String.eqb "method" "method") with true by reflexivity.
    replace (String.eqb "method" "value") with false by reflexivity.
    rewrite strip1_q. rewrite add_request_method by assumption. reflexivity.
  - replace (is_mapping "RequestMapping") with true by reflexivity. cbn [negb].
    replace (String.eqb "RequestMapping" "RequestMapping") with true by reflexivity. cbn [negb].
    rewrite append_nil_r, replace_all_no_dq by assumption. cbn [fold_left fst snd].
    replace (String.eqb "value" "method") with false by reflexivity.
    replace (String.eqb "value" "value") with true by reflexivity.
    replace (String.eqb "method" "method") with true by reflexivity.
    replace (String.eqb "method" "value") with false by reflexivity.
    rewrite add_request_method by assumption. rewrite strip1_q. reflexivity.
  - rewrite mapping_is_mapping, mapping_not_request. cbn [negb]. rewrite !append_nil_r, replace_all_no_dq by assumption.
    now rewrite add_mapping by assumption.
Qed.

(* ------------------------------------------------------------------ one member *)
Lemma params_annots_plain : forall ps,
    forallb (fun p => forallb plain_annot (ap_annots p)) ps = true -> forallb plain_annot (flat_map ap_annots ps) = true.
Proof.
  induction ps as [|p ps IH]; intros H; [reflexivity|].
  cbn [forallb] in H. apply andb_true_iff in H. destruct H as [Hp Hps].
  cbn [flat_map]. rewrite forallb_app, Hp. now apply IH.
Qed.

Lemma handler_member : forall h base cur apis clz pkg imports impl,
    hand_ok h = true -> no_dq base = true ->
    member_api (AOk (inside base cur apis clz pkg imports impl)) (member_of h)
    = AOk (inside base (entry_of base pkg clz h) (apis ++ [entry_of base pkg clz h])%list clz pkg imports impl).
Proof.
  intros h base cur apis clz pkg imports impl Hok Hb. pose proof Hok as Hok'. unfold hand_ok in Hok'.
  apply andb_true_iff in Hok'. destruct Hok' as [Hok' Hpa]. apply andb_true_iff in Hok'. destruct Hok' as [_ Hoth].
  unfold member_api, member_of. cbn [am_annots am_is_method am_params am_name].
  rewrite enter_annotations_app. unfold inside at 1. rewrite plain_annots_inside by assumption.
  unfold enter_annotations at 1. cbn [fold_left].
  fold (inside base cur apis clz pkg imports impl). rewrite handler_annot by assumption.
  set (e := entry_of base pkg clz h).
  assert (Hm : enter_method (mkAS true true true base (mkRest (base ++ path_of h) (h_verb h) "" "" "" "") apis clz pkg imports impl "")
                            (mkAM true (h_name h) (h_others h ++ [annot_of h])%list (h_params h))
               = inside base e (apis ++ [e])%list clz pkg imports impl).
  { unfold enter_method, inside, e, entry_of, body_of.
    cbn [a_hasEnterRest negb a_current r_uri r_verb r_body am_name a_pkg a_clz am_params a_requestBody a_hasEnterClass
         a_isController a_baseUrl a_apis a_imports a_implements r_method r_pkg r_class].
    destruct (h_params h) as [|p ps]; reflexivity. }
  rewrite Hm. unfold inside. apply plain_annots_inside. now apply params_annots_plain.
Qed.

Lemma plain_member_step : forall m base cur apis clz pkg imports impl,
    plain_member m = true ->
    member_api (AOk (inside base cur apis clz pkg imports impl)) m = AOk (inside base cur apis clz pkg imports impl).
Proof.
  intros m base cur apis clz pkg imports impl H. unfold plain_member in H.
  apply andb_true_iff in H. destruct H as [Ha Hp].
  unfold member_api, inside. rewrite plain_annots_inside by assumption.
  destruct (am_is_method m); [|reflexivity].
  unfold enter_method. cbn [a_hasEnterRest negb]. apply plain_annots_inside. now apply params_annots_plain.
Qed.

Lemma members_fold : forall ms base cur apis clz pkg imports impl,
    forallb xmember_ok ms = true -> no_dq base = true ->
    exists cur',
      fold_left member_api (map amember_of ms) (AOk (inside base cur apis clz pkg imports impl))
      = AOk (inside base cur' (apis ++ entries_of base pkg clz ms)%list clz pkg imports impl).
Proof.
  induction ms as [|x ms IH]; intros base cur apis clz pkg imports impl H Hb.
  - exists cur. cbn [map fold_left entries_of flat_map]. now rewrite app_nil_r.
  - cbn [forallb] in H. apply andb_true_iff in H. destruct H as [Hx Hms].
    cbn [map fold_left]. destruct x as [h|m]; cbn [amember_of xmember_ok] in *.
    + rewrite handler_member by assumption.
      destruct (IH base (entry_of base pkg clz h) (apis ++ [entry_of base pkg clz h])%list clz pkg imports impl Hms Hb) as [c' E].
      exists c'. rewrite E. cbn [entries_of flat_map]. now rewrite <- app_assoc.
    + rewrite plain_member_step by assumption.
      destruct (IH base cur apis clz pkg imports impl Hms Hb) as [c' E]. exists c'. rewrite E. reflexivity.
Qed.

(* ------------------------------------------------------------------ the class header *)
Inductive bform := BNone | BShort | BValue | BBare.

Record xctl := mkXCtl {
  k_pkg : string; k_name : string; k_imports : list string;
  k_ctl : string;                    (* "RestController" or "Controller" *)
  k_bform : bform; k_base : string;  (* class-level @RequestMapping *)
  k_base_first : bool;               (* the mapping is written before the controller annotation *)
  k_members : list xmember }.

Definition base_annot (c : xctl) : list aannot :=
  match k_bform c with
  | BNone => []
  | BShort => [mkAA "RequestMapping" true (q (k_base c)) false []]
  | BValue => [mkAA "RequestMapping" false "" true [("value", q (k_base c))]]
  | BBare => [mkAA "RequestMapping" false "" false []]
  end.

Definition base_of (c : xctl) : string :=
  match k_bform c with BNone => "" | BBare => "/" | _ => k_base c end.

Definition class_annots (c : xctl) : list aannot :=
  let ctl := [mkAA (k_ctl c) false "" false []] in
  if k_base_first c then (base_annot c ++ ctl)%list else (ctl ++ base_annot c)%list.

Definition unit_of (c : xctl) : aunit :=
  mkAU (k_pkg c) true (k_imports c) true (k_name c) "" false (class_annots c) (map amember_of (k_members c)).

Definition ctl_ok (c : xctl) : bool :=
  (String.eqb (k_ctl c) "RestController" || String.eqb (k_ctl c) "Controller") &&
  no_dq (k_base c) && forallb xmember_ok (k_members c).

Lemma base_no_dq : forall c, no_dq (k_base c) = true -> no_dq (base_of c) = true.
Proof. intros c H. unfold base_of. destruct (k_bform c); auto. Qed.

Definition hdr (ctl : bool) (base pkg : string) (imports : list string) : astate :=
  mkAS false ctl false base empty_rest [] "" pkg imports "" "".

Lemma ctl_annot_step : forall k ctl0 base pkg imports,
    (String.eqb k "RestController" || String.eqb k "Controller") = true ->
    enter_annotation (hdr ctl0 base pkg imports) (mkAA k false "" false []) = AOk (hdr true base pkg imports).
Proof.
  intros k ctl0 base pkg imports Hc.
  assert (Hcn : String.eqb k "RequestMapping" = false).
  { apply orb_true_iff in Hc. destruct Hc as [Hc|Hc]; apply String.eqb_eq in Hc; rewrite Hc; reflexivity. }
  unfold enter_annotation, hdr.
  cbn [aa_name a_hasEnterClass a_isController a_hasEnterRest a_baseUrl a_current a_apis a_clz a_pkg a_imports
       a_implements a_requestBody negb].
  rewrite <- orb_assoc, Hc, orb_true_r. unfold build_base. cbn [aa_name]. rewrite Hcn. reflexivity.
Qed.

Lemma base_annot_step : forall c ctl0 pkg imports,
    enter_annotations (hdr ctl0 "" pkg imports) (base_annot c) = AOk (hdr ctl0 (base_of c) pkg imports).
Proof.
  intros c ctl0 pkg imports. unfold base_annot, base_of, enter_annotations, hdr.
  destruct (k_bform c); cbn [fold_left]; [reflexivity| | |];
    unfold enter_annotation;
    cbn [aa_name aa_has_value aa_value aa_has_pairs aa_pairs a_hasEnterClass a_isController a_hasEnterRest a_baseUrl
         a_current a_apis a_clz a_pkg a_imports a_implements a_requestBody negb];
    replace (String.eqb "RequestMapping" "RestController") with false by reflexivity;
    replace (String.eqb "RequestMapping" "Controller") with false by reflexivity;
    rewrite !orb_false_r; unfold build_base; cbn [aa_name aa_has_value aa_value aa_has_pairs aa_pairs];
    replace (String.eqb "RequestMapping" "RequestMapping") with true by reflexivity; cbn [negb fold_left fst snd].
  - rewrite strip1_q. reflexivity.
  - replace (String.eqb "value" "value") with true by reflexivity. rewrite strip1_q. reflexivity.
  - reflexivity.
Qed.

(* the annotations in front of the class: the controller flag is set and the base path is the class's own *)
Lemma header_annots : forall c,
    ctl_ok c = true ->
    enter_annotations (hdr false "" (k_pkg c) (k_imports c)) (class_annots c)
    = AOk (hdr true (base_of c) (k_pkg c) (k_imports c)).
Proof.
  intros c H. unfold ctl_ok in H. apply andb_true_iff in H. destruct H as [H _].
  apply andb_true_iff in H. destruct H as [Hc Hb].
  unfold class_annots. destruct (k_base_first c); rewrite enter_annotations_app.
  - rewrite base_annot_step. unfold enter_annotations. cbn [fold_left]. now apply ctl_annot_step.
  - assert (E : enter_annotations (hdr false "" (k_pkg c) (k_imports c)) [mkAA (k_ctl c) false "" false []]
               = AOk (hdr true "" (k_pkg c) (k_imports c))).
    { unfold enter_annotations. cbn [fold_left]. now apply ctl_annot_step. }
    rewrite E. apply base_annot_step.
Qed.

(* THE STATEMENT: a conventional controller yields exactly its handlers' entries, in order *)
Theorem controller_exact : forall c,
    ctl_ok c = true ->
    unit_apis (unit_of c) = Some (entries_of (base_of c) (k_pkg c) (k_name c) (k_members c)).
Proof.
  intros c H. pose proof H as H'. unfold ctl_ok in H'. apply andb_true_iff in H'. destruct H' as [H' Hms].
  apply andb_true_iff in H'. destruct H' as [_ Hb].
  unfold unit_apis, api_unit, new_api_listener, unit_of.
  cbn [au_pkg au_has_pkg au_imports au_is_class au_name au_implements au_has_implements au_annots au_members
       a_hasEnterClass a_isController a_hasEnterRest a_baseUrl a_current a_apis a_clz a_pkg a_imports a_implements
       a_requestBody app].
  fold (hdr false "" (k_pkg c) (k_imports c)). rewrite (header_annots c H). unfold hdr.
  cbn [a_hasEnterClass a_isController a_hasEnterRest a_baseUrl a_current a_apis a_clz a_pkg a_imports a_implements
       a_requestBody].
  destruct (members_fold (k_members c) (base_of c) empty_rest [] (k_name c) (k_pkg c) (k_imports c) "" Hms (base_no_dq c Hb))
    as [cur' E].
  unfold inside in E. rewrite E. cbn [a_apis app]. reflexivity.
Qed.

(* ------------------------------------------------------------------ against the independent statement (ApiSpec) *)
Definition xh_of (h : xhand) : xhandler := mkXH (h_verb h) (path_of h) (h_name h) (body_of (h_params h)).

Definition handlers_of (ms : list xmember) : list xhand :=
  flat_map (fun x => match x with XH h => [h] | XP _ => [] end) ms.

Definition xclass_of (c : xctl) : xclass :=
  mkXC (k_pkg c) (k_name c) true (base_of c) (map xh_of (handlers_of (k_members c))).

Lemma observed_entries : forall base pkg cls ms,
    observed_rows (entries_of base pkg cls ms) =
    map (fun h => entry_row (xh_verb h) (base ++ xh_path h) pkg cls (xh_method h) (xh_body h)) (map xh_of (handlers_of ms)).
Proof.
  induction ms as [|x ms IH]; [reflexivity|].
  destruct x as [h|m]; cbn [entries_of flat_map handlers_of app map observed_rows].
  - fold (entries_of base pkg cls ms) (handlers_of ms). unfold observed_rows in IH. rewrite IH. reflexivity.
  - exact IH.
Qed.

Lemma same_bag_refl : forall l, same_bag l l = true.
Proof.
  intros l. unfold same_bag. rewrite Nat.eqb_refl. cbn [andb]. apply forallb_forall. intros x _. apply Nat.eqb_refl.
Qed.

Theorem controller_meets_spec : forall c,
    ctl_ok c = true ->
    exists obs, unit_apis (unit_of c) = Some obs /\ c12_verdict [xclass_of c] obs = [].
Proof.
  intros c H. eexists. split; [apply (controller_exact c H)|].
  unfold c12_verdict, expected_rows, xclass_of. cbn [flat_map xc_controller xc_handlers xc_base xc_pkg xc_name].
  rewrite app_nil_r. rewrite observed_entries. rewrite same_bag_refl. cbn [app].
  assert (Hall : forallb (fun r : rest_entry =>
                   existsb (fun c0 : xclass => xc_controller c0 && String.eqb (xc_pkg c0) (r_pkg r) && String.eqb (xc_name c0) (r_class r))
                           [mkXC (k_pkg c) (k_name c) true (base_of c) (map xh_of (handlers_of (k_members c)))])
                 (entries_of (base_of c) (k_pkg c) (k_name c) (k_members c)) = true).
  { apply forallb_forall. intros r Hr. unfold entries_of in Hr. apply in_flat_map in Hr. destruct Hr as [x [_ Hr]].
    destruct x as [h|m]; [|destruct Hr]. destruct Hr as [Hr|[]]. subst r.
    cbn [existsb xc_controller xc_pkg xc_name entry_of r_pkg r_class andb]. now rewrite !String.eqb_refl. }
  rewrite Hall. reflexivity.
Qed.

(* non-vacuity: every form at once *)
Definition ex_ctl : xctl :=
  mkXCtl "com.web" "BookController" ["java.util.List"] "RestController" BValue "/books" true
    [ XP (mkAM false "repo" [mkAA "Autowired" false "" false []] []);
      XH (mkXHd HShort "GET" "/{id}" "get" [mkAP false "Long" "id" [mkAA "PathVariable" true (q "id") false []]] []);
      XP (mkAM true "helper" [] [mkAP false "int" "x" []]);
      XH (mkXHd HReqVM "POST" "/new" "create" [mkAP true "BookDto" "dto" [mkAA "RequestBody" false "" false []];
                                                mkAP false "String" "lang" []] [mkAA "Override" false "" false []]);
      XH (mkXHd HReqMV "PUT" "/u" "update" [] []);
      XH (mkXHd HValue "DELETE" "/d" "remove" [mkAP true "A" "a" []; mkAP true "B" "b" []] []);
      XH (mkXHd HBare "GET" "ignored" "all" [] []) ].

Example ex_ctl_ok :
  ctl_ok ex_ctl = true /\
  option_map observed_rows (unit_apis (unit_of ex_ctl))
  = Some [ entry_row "GET" "/books/{id}" "com.web" "BookController" "get" "";
           entry_row "POST" "/books/new" "com.web" "BookController" "create" "BookDto";
           entry_row "PUT" "/books/u" "com.web" "BookController" "update" "";
           entry_row "DELETE" "/books/d" "com.web" "BookController" "remove" "B";
           entry_row "GET" "/books" "com.web" "BookController" "all" "" ].
Proof. split; vm_compute; reflexivity. Qed.
