(* Lemmas about Model/BadSmell.v (C10). *)
From Coq Require Import String List Bool Arith Lia Permutation.
From Coca Require Import Lib.Sx Lib.GoMap Lib.Str Lib.Cmp Model.GitSummary Model.BadSmell Model.BadSmellSpec
     Generated.Constants Proofs.GitSummaryProofs.
Import ListNotations.
Open Scope string_scope.
Open Scope list_scope.

(* ---- the tie to the source: thresholds and comparison operators as written in bs_app.go ---- *)
Theorem thresholds_documented :
  BS_METHOD_LENGTH = 30 /\ bs_long_method_cmp = ">" /\
  BS_LONG_PARAS_LENGTH = 5 /\ bs_long_params_cmp = ">" /\
  BS_LARGE_LENGTH = 20 /\ bs_large_class_cmp = ">=" /\
  BS_IF_SWITCH_LENGTH = 8 /\ bs_if_size_cmp = ">=" /\ bs_switch_size_cmp = ">=" /\
  BS_IF_LINES_LENGTH = 3 /\ bs_if_lines_cmp = ">=".
Proof. repeat split; reflexivity. Qed.

Lemma long_method_test : forall n, cmp_eval bs_long_method_cmp n BS_METHOD_LENGTH = Nat.ltb 30 n.
Proof. reflexivity. Qed.
Lemma long_params_test : forall n, cmp_eval bs_long_params_cmp n BS_LONG_PARAS_LENGTH = Nat.ltb 5 n.
Proof. reflexivity. Qed.
Lemma large_class_test : forall n, cmp_eval bs_large_class_cmp n BS_LARGE_LENGTH = Nat.leb 20 n.
Proof. reflexivity. Qed.
Lemma if_size_test : forall n, cmp_eval bs_if_size_cmp n BS_IF_SWITCH_LENGTH = Nat.leb 8 n.
Proof. reflexivity. Qed.
Lemma switch_size_test : forall n, cmp_eval bs_switch_size_cmp n BS_IF_SWITCH_LENGTH = Nat.leb 8 n.
Proof. reflexivity. Qed.
Lemma if_lines_test : forall n, cmp_eval bs_if_lines_cmp n BS_IF_LINES_LENGTH = Nat.leb 4 (S n).
Proof. reflexivity. Qed.

(* ---- the findings of one method ---- *)
Definition spec_method_rows (n : bs_node) (m : bs_method) : list string :=
  ((if Nat.ltb 30 (bm_el m - bm_sl m) then [row (bn_path n) (string_of_nat (bm_sl m)) "longMethod" (bm_el m - bm_sl m)] else []) ++
   (if Nat.ltb 5 (bm_nparams m) then [row (bn_path n) (string_of_nat (bm_sl m)) "longParameterList" (bm_nparams m)] else []) ++
   (if Nat.leb 8 (bm_ifs m) then [row (bn_path n) (string_of_nat (bm_sl m)) "repeatedSwitches" (bm_ifs m)] else []) ++
   (if Nat.leb 8 (bm_switches m) then [row (bn_path n) (string_of_nat (bm_sl m)) "repeatedSwitches" (bm_switches m)] else []) ++
   flat_map (fun c => if Nat.leb 4 (S (snd c - fst c))
                      then [row (bn_path n) (string_of_nat (fst c)) "complexCondition" 0] else []) (bm_conds m)).

Lemma check_method_rows : forall n m, map smell_row (check_method n m) = spec_method_rows n m.
Proof.
  intros n m. unfold check_method, spec_method_rows.
  rewrite long_method_test, long_params_test, if_size_test, switch_size_test.
  rewrite !map_app. f_equal; [|f_equal; [|f_equal; [|f_equal]]].
  - destruct (Nat.ltb 30 (bm_el m - bm_sl m)); reflexivity.
  - destruct (Nat.ltb 5 (bm_nparams m)); reflexivity.
  - destruct (Nat.leb 8 (bm_ifs m)); reflexivity.
  - destruct (Nat.leb 8 (bm_switches m)); reflexivity.
  - induction (bm_conds m) as [|c cs IH]; [reflexivity|]. cbn [flat_map]. rewrite map_app, IH. f_equal.
    rewrite if_lines_test. destruct (Nat.leb 4 (S (snd c - fst c))); reflexivity.
Qed.

Lemma map_flat_map : forall (A B C : Type) (f : B -> C) (g : A -> list B) l,
    map f (flat_map g l) = flat_map (fun x => map f (g x)) l.
Proof. intros A B C f g. induction l as [|x l IH]; [reflexivity|]. cbn [flat_map]. now rewrite map_app, IH. Qed.

Lemma gs_same : forall name, is_getter_setter name = gs name.
Proof. intros. unfold is_getter_setter, gs. apply orb_comm. Qed.

(* the findings of one class are exactly the documented ones (as a collection) *)
Theorem check_node_exact : forall n,
    Permutation (map smell_row (check_node n)) (expected_smells [n]).
Proof.
  intros n. unfold check_node, expected_smells. cbn [flat_map]. rewrite app_nil_r.
  rewrite !map_app. rewrite map_flat_map.
  rewrite (flat_map_ext _ _ (fun m => check_method_rows n m)).
  rewrite large_class_test.
  set (cls := String.eqb (bn_type n) "Class").
  set (ms := bn_methods n).
  assert (Hgs : forallb (fun m => is_getter_setter (bm_name m)) ms = forallb (fun m => gs (bm_name m)) ms).
  { clear. induction ms as [|m ms IH]; [reflexivity|]. cbn [forallb]. now rewrite gs_same, IH. }
  assert (Hnorm : List.length (filter (fun m => negb (is_getter_setter (bm_name m))) ms) =
                  List.length (filter (fun m => negb (gs (bm_name m))) ms)).
  { f_equal. apply filter_ext. intros. now rewrite gs_same. }
  rewrite Hgs, Hnorm.
  set (normal := List.length (filter (fun m => negb (gs (bm_name m))) ms)).
  set (A1 := map smell_row (if cls && Nat.ltb (List.length ms) 1 then [mkSmell (bn_path n) "" "lazyElement" "" 0] else [])).
  set (M1 := flat_map (spec_method_rows n) ms).
  assert (HA : A1 = (if cls && Nat.eqb (List.length ms) 0 then [row (bn_path n) "" "lazyElement" 0] else [])).
  { unfold A1. destruct (List.length ms) as [|k]; destruct cls; reflexivity. }
  rewrite HA.
  assert (HD : map smell_row (if forallb (fun m => gs (bm_name m)) ms && cls && Nat.ltb 0 (List.length ms)
                              then [mkSmell (bn_path n) "" "dataClass" "" (List.length ms)] else []) =
               (if cls && Nat.ltb 0 (List.length ms) && forallb (fun m => gs (bm_name m)) ms
                then [row (bn_path n) "" "dataClass" (List.length ms)] else [])).
  { destruct (forallb (fun m => gs (bm_name m)) ms); destruct cls; destruct (Nat.ltb 0 (List.length ms)); reflexivity. }
  rewrite HD.
  assert (HL : map smell_row (if cls && Nat.leb 20 normal
                              then [mkSmell (bn_path n) "" "largeClass"
                                            ("methods number (without getter/setter): " ++ string_of_nat normal) normal] else []) =
               (if cls && Nat.leb 20 normal then [row (bn_path n) "" "largeClass" normal] else [])).
  { destruct (cls && Nat.leb 20 normal); reflexivity. }
  rewrite HL.
  (* [A; M; D; L] vs [A; D; L; M] *)
  apply Permutation_app_head.
  match goal with |- Permutation (?M ++ ?D ++ ?L) (?D ++ ?L ++ ?M') =>
    change M' with M; rewrite (app_assoc D L M); apply Permutation_app_comm end.
Qed.

Lemma expected_smells_app : forall a b, expected_smells (a ++ b) = expected_smells a ++ expected_smells b.
Proof. intros. unfold expected_smells. apply flat_map_app. Qed.

Theorem smells_exact : forall nodes,
    Permutation (map smell_row (analysis_bad_smell nodes)) (expected_smells nodes).
Proof.
  induction nodes as [|n ns IH]; [constructor|].
  unfold analysis_bad_smell in *. cbn [flat_map]. rewrite map_app.
  change (n :: ns) with ([n] ++ ns). rewrite expected_smells_app.
  apply Permutation_app; [apply check_node_exact|exact IH].
Qed.

(* ---- ignore ---- *)
Theorem ignore_exact : forall nodes ignore s,
    In s (identify_bad_smell nodes ignore) <-> In s (analysis_bad_smell nodes) /\ ~ In (sm_bs s) ignore.
Proof.
  intros nodes ignore s. unfold identify_bad_smell. rewrite filter_In. split.
  - intros [H1 H2]. split; [assumption|]. intros Hc. apply str_mem_In in Hc. rewrite Hc in H2. discriminate.
  - intros [H1 H2]. split; [assumption|]. apply negb_true_iff. destruct (str_mem (sm_bs s) ignore) eqn:E; [|reflexivity].
    apply str_mem_In in E. contradiction.
Qed.

(* ---- sort by type ---- *)
Lemma group_step_perm : forall (m : gomap (list smell)) s,
    Permutation (flat_map snd (mput m (sm_bs s) (mget_d [] m (sm_bs s) ++ [s]))) (flat_map snd m ++ [s]).
Proof.
  induction m as [|[k v] m IH]; intros s; unfold mget_d in *; cbn [mput mget flat_map snd app].
  - reflexivity.
  - destruct (String.eqb k (sm_bs s)) eqn:E; cbn [flat_map snd].
    + rewrite <- !app_assoc. apply Permutation_app_head. apply Permutation_app_comm.
    + rewrite <- app_assoc. apply Permutation_app_head. apply IH.
Qed.

Lemma group_step_kinds : forall (m : gomap (list smell)) s,
    (forall k l, In (k, l) m -> forall x, In x l -> sm_bs x = k) ->
    forall k l, In (k, l) (mput m (sm_bs s) (mget_d [] m (sm_bs s) ++ [s])) -> forall x, In x l -> sm_bs x = k.
Proof.
  induction m as [|[k0 v0] m IH]; intros s Hinv k l Hin x Hx; unfold mget_d in *; cbn [mput mget] in Hin.
  - destruct Hin as [Hin|[]]. inversion Hin; subst. destruct Hx as [Hx|[]]. now subst.
  - destruct (String.eqb k0 (sm_bs s)) eqn:E.
    + apply String.eqb_eq in E. destruct Hin as [Hin|Hin].
      * inversion Hin; subst. apply in_app_or in Hx. destruct Hx as [Hx|[Hx|[]]].
        -- eapply Hinv; [left; reflexivity|exact Hx].
        -- subst. now symmetry.
      * eapply Hinv; [right; exact Hin|exact Hx].
    + destruct Hin as [Hin|Hin].
      * inversion Hin; subst. eapply Hinv; [left; reflexivity|exact Hx].
      * eapply IH; [|exact Hin|exact Hx]. intros k' l' H' y Hy. eapply Hinv; [right; exact H'|exact Hy].
Qed.

Definition groups_of (l : list smell) : gomap (list smell) :=
  fold_left (fun m s => mput m (sm_bs s) (mget_d [] m (sm_bs s) ++ [s])) l [].

Lemma groups_perm : forall l m0,
    Permutation (flat_map snd (fold_left (fun m s => mput m (sm_bs s) (mget_d [] m (sm_bs s) ++ [s])) l m0))
                (flat_map snd m0 ++ l).
Proof.
  induction l as [|s l IH]; intros m0; cbn [fold_left]; [now rewrite app_nil_r|].
  rewrite IH. rewrite group_step_perm. rewrite <- app_assoc. reflexivity.
Qed.

Lemma groups_kinds : forall l m0,
    (forall k g, In (k, g) m0 -> forall x, In x g -> sm_bs x = k) ->
    forall k g, In (k, g) (fold_left (fun m s => mput m (sm_bs s) (mget_d [] m (sm_bs s) ++ [s])) l m0) ->
                forall x, In x g -> sm_bs x = k.
Proof.
  induction l as [|s l IH]; intros m0 Hinv; cbn [fold_left]; [exact Hinv|].
  apply IH. now apply group_step_kinds.
Qed.

(* sorting by type regroups the same findings by kind ... *)
Theorem sort_by_type_groups : forall l,
    Permutation (flat_map snd (sort_smell_by_type l)) l /\
    (forall k g, In (k, g) (sort_smell_by_type l) -> forall x, In x g -> sm_bs x = k).
Proof.
  intros l. unfold sort_smell_by_type. fold (groups_of l). split.
  - transitivity (flat_map snd (groups_of l)).
    + induction (groups_of l) as [|[k v] m IH]; [constructor|]. cbn [map flat_map snd fst].
      apply Permutation_app; [|exact IH].
      destruct (smell_have_size k); [|reflexivity].
      apply sort_by_perm; [apply (ge_total _ sm_size)|apply (ge_trans _ sm_size)].
    + pose proof (groups_perm l []) as H. simpl in H. exact H.
  - intros k g Hin x Hx. apply in_map_iff in Hin. destruct Hin as [[k0 v0] [He Hin]]. cbn [fst snd] in He.
    inversion He; subst k g.
    assert (Hx' : In x v0).
    { destruct (smell_have_size k0); [|exact Hx].
      eapply Permutation_in; [|exact Hx].
      apply sort_by_perm; [apply (ge_total _ sm_size)|apply (ge_trans _ sm_size)]. }
    eapply (groups_kinds l []); [intros ? ? []|exact Hin|exact Hx'].
Qed.

(* ... and every sized kind is in non-increasing order of size *)
Theorem sort_by_type_sorted : forall l k g,
    In (k, g) (sort_smell_by_type l) -> smell_have_size k = true ->
    sorted (fun a b => Nat.leb (sm_size b) (sm_size a)) g.
Proof.
  intros l k g Hin Hs. unfold sort_smell_by_type in Hin. apply in_map_iff in Hin.
  destruct Hin as [[k0 v0] [He _]]. cbn [fst snd] in He. inversion He; subst k g. rewrite Hs.
  apply sort_by_sorted; [apply (ge_total _ sm_size)|apply (ge_trans _ sm_size)].
Qed.

Theorem sized_kinds_are_the_five : forall k,
    smell_have_size k = true <->
    In k ["largeClass"; "repeatedSwitches"; "longParameterList"; "longMethod"; "dataClass"].
Proof. intros k. unfold smell_have_size. apply str_mem_In. Qed.

(* non-vacuity: a class exactly at, and one exactly past, every threshold *)
Definition ex_bs_nodes : list bs_node :=
  [ mkBN "a/K0.java" "Class"
         [mkBM "run" 10 40 5 7 7 [(12, 14)]; mkBM "go" 50 81 6 8 8 [(52, 55)]];
    mkBN "a/K1.java" "Class" [mkBM "getX" 3 4 0 0 0 []; mkBM "setX" 5 6 1 0 0 []];
    mkBN "a/K2.java" "Class" []; mkBN "a/I.java" "Interface" [] ].

Example ex_bs_findings :
  map smell_row (analysis_bad_smell ex_bs_nodes) =
  [ row "a/K0.java" "50" "longMethod" 31; row "a/K0.java" "50" "longParameterList" 6;
    row "a/K0.java" "50" "repeatedSwitches" 8; row "a/K0.java" "50" "repeatedSwitches" 8;
    row "a/K0.java" "52" "complexCondition" 0;
    row "a/K1.java" "" "dataClass" 2; row "a/K2.java" "" "lazyElement" 0 ].
Proof. vm_compute. reflexivity. Qed.
