(* Proofs about the front-end models (Model/GoFront.v, Model/PyFront.v -- the state of /repo
   after the C20 fix commits) against the C20 deciders (Model/FrontSpec.v). *)
From Coq Require Import String List Bool Arith Lia Ascii Permutation.
From Coca Require Import Lib.Str Lib.GoMap Model.GoFront Model.PyFront Model.FrontSpec.
Import ListNotations.
Open Scope string_scope.
Open Scope list_scope.

(* ================================================================== generic helpers *)
Lemma strs_eqb_refl : forall l, strs_eqb l l = true.
Proof. induction l; simpl; auto. now rewrite String.eqb_refl. Qed.

Lemma strs_eqb_eq : forall a b, strs_eqb a b = true -> a = b.
Proof.
  induction a as [|x a IH]; destruct b as [|y b]; simpl; intros H; auto; try discriminate.
  apply andb_true_iff in H. destruct H as [H1 H2]. apply String.eqb_eq in H1. subst. f_equal. auto.
Qed.

Lemma ms_eqb_refl : forall l, ms_eqb l l = true.
Proof.
  intros l. unfold ms_eqb. apply forallb_forall. intros x _. apply Nat.eqb_refl.
Qed.

Lemma filter_perm : forall (A : Type) (p : A -> bool) a b,
    Permutation a b -> Permutation (filter p a) (filter p b).
Proof.
  intros A p a b H. induction H; simpl.
  - constructor.
  - destruct (p x); auto.
  - destruct (p x), (p y); auto. apply perm_swap.
  - eapply perm_trans; eauto.
Qed.

Lemma ms_eqb_perm : forall a b, Permutation a b -> ms_eqb a b = true.
Proof.
  intros a b H. unfold ms_eqb. apply forallb_forall. intros k _. apply Nat.eqb_eq.
  unfold count_str. apply Permutation_length. now apply filter_perm.
Qed.

Lemma forallb_impl : forall (A : Type) (p q : A -> bool) l,
    (forall x, p x = true -> q x = true) -> forallb p l = true -> forallb q l = true.
Proof.
  intros A p q l H. rewrite !forallb_forall. intros Hp x Hx. apply H. now apply Hp.
Qed.

Fixpoint nodup_b (l : list string) : bool :=
  match l with [] => true | x :: r => negb (str_mem x r) && nodup_b r end.

Lemma nodup_b_sound : forall l, nodup_b l = true -> NoDup l.
Proof.
  induction l as [|x r IH]; intros H; constructor.
  - simpl in H. apply andb_true_iff in H. destruct H as [H _]. apply negb_true_iff in H.
    intros Hin. apply str_mem_In in Hin. congruence.
  - simpl in H. apply andb_true_iff in H. destruct H as [_ H]. now apply IH.
Qed.

Lemma find_key_nodup : forall (A : Type) (key : A -> string) (l : list A) (x : A),
    NoDup (map key l) -> In x l -> find (fun y => String.eqb (key y) (key x)) l = Some x.
Proof.
  induction l as [|y l IH]; intros x Hnd Hin; [destruct Hin|].
  simpl in Hnd. inversion Hnd as [|? ? Hnot Hnd']; subst.
  cbn [find]. destruct Hin as [Hin|Hin].
  - subst y. now rewrite String.eqb_refl.
  - destruct (String.eqb (key y) (key x)) eqn:E.
    + apply String.eqb_eq in E. exfalso. apply Hnot. rewrite E. now apply in_map.
    + now apply IH.
Qed.

Lemma find_func_nodup : forall l x,
    NoDup (map of_name l) -> In x l -> find_func (of_name x) l = Some x.
Proof. intros. unfold find_func. now apply (find_key_nodup ofunc of_name). Qed.

(* ================================================================== association-list maps *)
Lemma mget_in : forall (V : Type) (m : gomap V) k v, mget m k = Some v -> In (k, v) m.
Proof.
  induction m as [|[k0 v0] m IH]; intros k v H; simpl in H; [discriminate|].
  destruct (String.eqb k0 k) eqn:E.
  - apply String.eqb_eq in E. inversion H; subst. now left.
  - right. now apply IH.
Qed.

Lemma mkeys_mput : forall (V : Type) (m : gomap V) k v,
    mkeys (mput m k v) = if mhas m k then mkeys m else mkeys m ++ [k].
Proof.
  unfold mhas, mkeys. induction m as [|[k0 v0] m IH]; intros k v; simpl; auto.
  destruct (String.eqb k0 k) eqn:E; simpl; auto.
  rewrite IH. destruct (mget m k); reflexivity.
Qed.

Lemma mput_keys_nodup : forall (V : Type) (m : gomap V) k v, NoDup (mkeys m) -> NoDup (mkeys (mput m k v)).
Proof.
  intros V m k v H. rewrite mkeys_mput. unfold mhas. destruct (mget m k) eqn:E; auto.
  apply (Permutation_NoDup (Permutation_cons_append (mkeys m) k)).
  constructor; auto. now apply mget_none_not_in_keys.
Qed.

(* well-formed dsMap: distinct keys, every cell carries its key as name *)
Definition wf_map (m : gomap ods) : Prop :=
  NoDup (mkeys m) /\ Forall (fun kc : string * ods => od_name (snd kc) = fst kc) m.

Lemma mput_forall : forall (V : Type) (P : string * V -> Prop) (m : gomap V) k v,
    Forall P m -> P (k, v) -> Forall P (mput m k v).
Proof.
  induction m as [|[k0 v0] m IH]; intros k v Hm Hv; simpl.
  - constructor; auto.
  - inversion Hm; subst. destruct (String.eqb k0 k) eqn:E.
    + apply String.eqb_eq in E. subst. constructor; auto.
    + constructor; auto.
Qed.

Lemma wf_mput : forall m k v, wf_map m -> od_name v = k -> wf_map (mput m k v).
Proof.
  intros m k v [H1 H2] Hn. split.
  - now apply mput_keys_nodup.
  - apply mput_forall; auto.
Qed.

Lemma wf_mget_name : forall m k c, wf_map m -> mget m k = Some c -> od_name c = k.
Proof.
  intros m k c [_ H] Hg. apply mget_in in Hg. rewrite Forall_forall in H. apply (H (k, c) Hg).
Qed.

Lemma named_single : forall m t c,
    wf_map m -> mget m t = Some c ->
    filter (fun d => String.eqb (od_name d) t) (map snd m) = [c].
Proof.
  induction m as [|[k0 c0] m IH]; intros t c [Hnd Hf] Hg; [discriminate|].
  cbn [mkeys map fst] in Hnd. inversion Hnd as [|? ? Hnot Hnd']; subst.
  inversion Hf as [|? ? Hc0 Hf']; subst. cbn [snd fst] in Hc0.
  cbn [mget] in Hg. cbn [map snd filter]. rewrite Hc0.
  destruct (String.eqb k0 t) eqn:E.
  - apply String.eqb_eq in E. subst k0. inversion Hg; subst c0. f_equal.
    (* no other cell is named t *)
    clear IH Hg Hnd Hf Hc0. induction m as [|[k1 c1] m IHm]; auto.
    inversion Hf' as [|? ? Hc1 Hf'']; subst. cbn [snd fst] in Hc1.
    cbn [map snd filter]. rewrite Hc1.
    destruct (String.eqb k1 t) eqn:E1.
    + apply String.eqb_eq in E1. subst. exfalso. apply Hnot. now left.
    + apply IHm; auto.
      * intros Hin. apply Hnot. now right.
      * cbn [mkeys map fst] in Hnd'. now inversion Hnd'.
  - apply IH; auto. split; auto.
Qed.

(* ---- the insertion sort only permutes *)
Lemma insert_ds_perm : forall x l, Permutation (insert_ds x l) (x :: l).
Proof.
  induction l as [|y l IH]; simpl; auto.
  destruct (str_leb (od_name x) (od_name y)); auto.
  eapply perm_trans; [apply perm_skip; exact IH|]. apply perm_swap.
Qed.

Lemma sort_dss_perm : forall l, Permutation (sort_dss l) l.
Proof.
  induction l as [|x l IH]; simpl; auto. unfold sort_dss in *. cbn [fold_right].
  eapply perm_trans; [apply insert_ds_perm|]. now apply perm_skip.
Qed.

Lemma filter_sorted_single : forall p l c,
    filter p l = [c] -> filter p (sort_dss l) = [c].
Proof.
  intros p l c H. apply Permutation_length_1_inv. rewrite <- H.
  apply Permutation_sym. apply filter_perm. apply sort_dss_perm.
Qed.

(* ================================================================== Go: the visitor, key by key *)
Lemma with_funcs_funcs : forall c fs, od_funcs (with_funcs c fs) = fs.
Proof. reflexivity. Qed.
Lemma with_funcs_twice : forall c a b, with_funcs (with_funcs c a) b = with_funcs c b.
Proof. reflexivity. Qed.
Lemma with_funcs_name : forall c fs, od_name (with_funcs c fs) = od_name c.
Proof. reflexivity. Qed.
Lemma with_funcs_id : forall c, with_funcs c (od_funcs c) = c.
Proof. destruct c; reflexivity. Qed.

Definition type_name (T : gdecl) : option string :=
  match T with
  | DStruct n _ => Some n | DIface n _ => Some n | DType n _ => Some n
  | DFunc _ _ _ _ _ => None
  end.

Definition names_type (t : string) (d : gdecl) : bool :=
  match type_name d with Some n => String.eqb n t | None => false end.

Section Visitor.
  Variables (sc : list (string * string)) (pkg : string) (imps : list (string * string)).

  Definition bfun (n : string) (ps rs : list gparam) (b : option (list gstmt)) : ofunc :=
    build_function sc pkg imps n ps rs b.

  (* the methods declared on type t in a list of declarations *)
  Definition meth_funcs (t : string) (l : list gdecl) : list ofunc :=
    flat_map (fun d => match d with
                       | DFunc (Some r) n ps rs b => if String.eqb (rv_type r) t then [bfun n ps rs b] else []
                       | _ => [] end) l.

  Definition free_funcs (l : list gdecl) : list ofunc :=
    flat_map (fun d => match d with DFunc None n ps rs b => [bfun n ps rs b] | _ => [] end) l.

  Definition decl_members (d : gdecl) : list omember :=
    match d with
    | DFunc None n ps rs b => [mkOMember "default" "method" [bfun n ps rs b]]
    | DFunc (Some _) _ _ _ _ => []
    | _ => type_members d
    end.

  (* what one declaration does to (dsMap[t], pendingMethods[t]) *)
  Definition key_step (t : string) (ks : option ods * list ofunc) (d : gdecl) : option ods * list ofunc :=
    match d with
    | DFunc (Some r) n ps rs b =>
      if String.eqb (rv_type r) t then
        match fst ks with
        | Some c => (Some (with_funcs c (od_funcs c ++ [bfun n ps rs b])), snd ks)
        | None => (None, snd ks ++ [bfun n ps rs b])
        end
      else ks
    | DFunc None _ _ _ _ => ks
    | _ => if names_type t d then (Some (type_cell pkg imps d), snd ks) else ks
    end.

  Definition key_of (st : vstate) (t : string) : option ods * list ofunc :=
    (mget (v_map st) t, mget_d [] (v_pending st) t).

  Lemma proj_step : forall d st t,
      key_of (decl_step sc pkg imps st d) t = key_step t (key_of st t) d.
  Proof.
    intros d st t. unfold key_of.
    destruct d as [n fs|n ms|n ty|recv n ps rs b]; cbn [decl_step key_step v_map v_pending names_type type_name fst snd].
    - rewrite mget_mput. destruct (String.eqb n t); reflexivity.
    - rewrite mget_mput. destruct (String.eqb n t); reflexivity.
    - rewrite mget_mput. destruct (String.eqb n t); reflexivity.
    - destruct recv as [r|]; [|reflexivity]. fold (bfun n ps rs b).
      destruct (String.eqb (rv_type r) t) eqn:E.
      + apply String.eqb_eq in E. subst t.
        destruct (mget (v_map st) (rv_type r)) as [c|] eqn:Em; cbn [v_map v_pending].
        * rewrite mget_mput_same. reflexivity.
        * rewrite Em. rewrite mget_d_mput. now rewrite String.eqb_refl.
      + destruct (mget (v_map st) (rv_type r)) as [c|] eqn:Em; cbn [v_map v_pending].
        * rewrite mget_mput. now rewrite E.
        * rewrite mget_d_mput. now rewrite E.
  Qed.

  Lemma proj_visit : forall ds st t,
      key_of (visit sc pkg imps ds st) t = fold_left (key_step t) ds (key_of st t).
  Proof.
    induction ds as [|d ds IH]; intros st t; auto.
    unfold visit in *. cbn [fold_left]. rewrite IH. now rewrite proj_step.
  Qed.

  Lemma key_fold_no_type : forall t l c p,
      forallb (fun d => negb (names_type t d)) l = true ->
      fold_left (key_step t) l (c, p) =
      match c with
      | Some c0 => (Some (with_funcs c0 (od_funcs c0 ++ meth_funcs t l)), p)
      | None => (None, p ++ meth_funcs t l)
      end.
  Proof.
    induction l as [|d l IH]; intros c p H.
    - simpl. destruct c as [c0|]; rewrite app_nil_r; auto. now rewrite with_funcs_id.
    - simpl in H. apply andb_true_iff in H. destruct H as [Hd Hl]. apply negb_true_iff in Hd.
      cbn [fold_left].
      destruct d as [n fs|n ms|n ty|[r|] n ps rs b];
        cbn [key_step meth_funcs flat_map fst snd app]; fold (meth_funcs t l);
        try (rewrite Hd; now apply IH); try now apply IH.
      destruct (String.eqb (rv_type r) t); [|now apply IH].
      destruct c as [c0|]; rewrite IH by assumption.
      + rewrite with_funcs_funcs, with_funcs_twice. cbn [app]. now rewrite <- app_assoc.
      + cbn [app]. now rewrite <- app_assoc.
  Qed.

  Lemma visit_members : forall ds st,
      v_members (visit sc pkg imps ds st) = v_members st ++ flat_map decl_members ds.
  Proof.
    induction ds as [|d ds IH]; intros st; unfold visit in *; cbn [fold_left flat_map].
    - now rewrite app_nil_r.
    - rewrite IH. rewrite app_assoc. f_equal.
      destruct d as [n fs|n ms|n ty|[r|] n ps rs b]; cbn [decl_step v_members decl_members]; auto.
      + destruct (mget (v_map st) (rv_type r)); cbn [v_members]; now rewrite app_nil_r.
  Qed.

  Lemma type_cell_name : forall d n, type_name d = Some n -> od_name (type_cell pkg imps d) = n.
  Proof. intros d n H. destruct d as [x fs|x [|m ms]|x ty|]; simpl in *; congruence. Qed.

  Lemma type_cell_funcs : forall d, od_funcs (type_cell pkg imps d) = [].
  Proof. intros d. destruct d as [x fs|x [|m ms]|x ty|]; reflexivity. Qed.

  Lemma wf_step : forall d st,
      wf_map (v_map st) -> wf_map (v_map (decl_step sc pkg imps st d)).
  Proof.
    intros d st H. destruct d as [n fs|n ms|n ty|[r|] n ps rs b]; cbn [decl_step v_map]; auto;
      try (apply wf_mput; auto; now apply type_cell_name).
    destruct (mget (v_map st) (rv_type r)) as [c|] eqn:E; cbn [v_map]; auto.
    apply wf_mput; auto. rewrite with_funcs_name. eapply wf_mget_name; eauto.
  Qed.

  Lemma wf_visit : forall ds st, wf_map (v_map st) -> wf_map (v_map (visit sc pkg imps ds st)).
  Proof.
    induction ds as [|d ds IH]; intros st H; auto. unfold visit in *. cbn [fold_left].
    apply IH. now apply wf_step.
  Qed.

  Lemma pending_nodup : forall ds st,
      NoDup (mkeys (v_pending st)) -> NoDup (mkeys (v_pending (visit sc pkg imps ds st))).
  Proof.
    induction ds as [|d ds IH]; intros st H; auto. unfold visit in *. cbn [fold_left].
    apply IH. destruct d as [n fs|n ms|n ty|[r|] n ps rs b]; cbn [decl_step v_pending]; auto.
    destruct (mget (v_map st) (rv_type r)); cbn [v_pending]; auto. now apply mput_keys_nodup.
  Qed.

  (* ---- attaching the pending methods *)
  Lemma wf_finalize : forall pend m, wf_map m -> wf_map (finalize pkg pend m).
  Proof.
    induction pend as [|[r ms] pend IH]; intros m H; auto. unfold finalize in *. cbn [fold_left].
    apply IH. unfold attach_pending. cbn [fst snd].
    destruct (mget m r) as [c|] eqn:E; apply wf_mput; auto.
    rewrite with_funcs_name. eapply wf_mget_name; eauto.
  Qed.

  Lemma finalize_get : forall pend m t,
      NoDup (mkeys pend) ->
      mget (finalize pkg pend m) t =
      match mget m t with
      | Some c => Some (with_funcs c (od_funcs c ++ mget_d [] pend t))
      | None => match mget pend t with Some ms => Some (mkODs t pkg [] ms []) | None => None end
      end.
  Proof.
    induction pend as [|[r ms] pend IH]; intros m t Hnd.
    - simpl. destruct (mget m t) as [c|]; auto. unfold mget_d. cbn [mget]. rewrite app_nil_r.
      now rewrite with_funcs_id.
    - cbn [mkeys map fst] in Hnd. inversion Hnd as [|? ? Hnot Hnd']; subst.
      unfold finalize in *. cbn [fold_left]. rewrite IH by assumption.
      unfold attach_pending. cbn [fst snd]. unfold mget_d. cbn [mget].
      destruct (String.eqb r t) eqn:E.
      + apply String.eqb_eq in E. subst t.
        assert (Hp : mget pend r = None).
        { destruct (mget pend r) eqn:Ep; auto. exfalso. apply Hnot. eapply mget_some_in_keys; eauto. }
        rewrite Hp. destruct (mget m r) as [c|] eqn:Em; rewrite mget_mput_same.
        * rewrite with_funcs_funcs, with_funcs_twice. now rewrite app_nil_r.
        * cbn [with_funcs od_name od_pkg od_props od_funcs od_fcalls]. now rewrite app_nil_r.
      + destruct (mget m r) as [c|] eqn:Em; rewrite mget_mput, E; reflexivity.
  Qed.
End Visitor.

(* ================================================================== Go: reading the declarations *)
Definition tnames (l : list gdecl) : list string :=
  flat_map (fun d => match type_name d with Some n => [n] | None => [] end) l.

Lemma type_names_tnames : forall f, type_names f = tnames (gf_decls f).
Proof.
  intros f. unfold type_names, tnames. induction (gf_decls f) as [|d l IH]; auto.
  cbn [flat_map]. rewrite IH. destruct d; reflexivity.
Qed.

Lemma tnames_app : forall a b, tnames (a ++ b) = tnames a ++ tnames b.
Proof. intros. unfold tnames. apply flat_map_app. Qed.

Lemma not_in_tnames : forall t l,
    ~ In t (tnames l) -> forallb (fun d => negb (names_type t d)) l = true.
Proof.
  induction l as [|d l IH]; intros H; auto. cbn [forallb]. apply andb_true_iff. split.
  - unfold names_type. unfold tnames in H. cbn [flat_map] in H.
    destruct (type_name d) as [n|]; auto. apply negb_true_iff. apply String.eqb_neq.
    intros E. subst. apply H. now left.
  - apply IH. intros Hin. apply H. unfold tnames in *. cbn [flat_map]. apply in_or_app. now right.
Qed.

Lemma in_tnames : forall t l, In t (tnames l) -> exists T, In T l /\ type_name T = Some t.
Proof.
  intros t l H. unfold tnames in H. apply in_flat_map in H. destruct H as [T [HT Hin]].
  exists T. split; auto. destruct (type_name T) as [n|]; [|destruct Hin].
  destruct Hin as [Hin|[]]. now subst.
Qed.

Lemma split_type : forall l T t,
    NoDup (tnames l) -> In T l -> type_name T = Some t ->
    exists l1 l2, l = l1 ++ T :: l2 /\ ~ In t (tnames l1) /\ ~ In t (tnames l2).
Proof.
  intros l T t Hnd Hin Ht. apply in_split in Hin. destruct Hin as [l1 [l2 E]]. exists l1, l2.
  split; auto. subst l. rewrite tnames_app in Hnd. unfold tnames at 2 in Hnd. cbn [flat_map] in Hnd.
  rewrite Ht in Hnd. cbn [app] in Hnd. fold (tnames l2) in Hnd.
  apply NoDup_remove_2 in Hnd. split; intros H; apply Hnd; apply in_or_app; auto.
Qed.

(* every name of a field / parameter list *)
Lemma obs_props_fields : forall fs,
    map (fun p => (op_name p, op_tv p)) (flat_map oprops_of_field fs) = declared_names fs.
Proof.
  induction fs as [|p fs IH]; auto. cbn [flat_map]. rewrite map_app, IH.
  unfold declared_names at 2. cbn [flat_map]. fold (declared_names fs). f_equal.
  unfold oprops_of_field, group_names, type_text. destruct (type_tt_tv (gp_type p)) as [ty tv].
  cbn [snd]. destruct (gp_names p) as [|x r]; [reflexivity|].
  rewrite map_map. reflexivity.
Qed.

Lemma params3_names : forall ps,
    map (fun p => (p3_name p, p3_tv p)) (prop3s_of_params ps) = declared_names ps.
Proof.
  induction ps as [|p ps IH]; auto. unfold prop3s_of_params in *. cbn [flat_map]. rewrite map_app, IH.
  unfold declared_names at 2. cbn [flat_map]. fold (declared_names ps). f_equal.
  unfold prop3s_of_param, group_names, type_text. destruct (type_tt_tv (gp_type p)) as [ty tv].
  cbn [snd]. destruct (gp_names p) as [|x r]; [reflexivity|].
  rewrite map_map. reflexivity.
Qed.

Lemma obs_sig_bfun : forall sc pkg imps n ps rs b,
    obs_sig (bfun sc pkg imps n ps rs b) = sig_key n (declared_names ps).
Proof.
  intros. unfold obs_sig, bfun, build_function. cbn [of_name of_params]. now rewrite params3_names.
Qed.

Lemma of_name_bfun : forall sc pkg imps n ps rs b, of_name (bfun sc pkg imps n ps rs b) = n.
Proof. reflexivity. Qed.

Definition meth_sigs (t : string) (l : list gdecl) : list string :=
  flat_map (fun d => match d with
                     | DFunc (Some r) n ps _ _ =>
                       if String.eqb (rv_type r) t then [sig_key n (declared_names ps)] else []
                     | _ => [] end) l.

Definition meth_names (t : string) (l : list gdecl) : list string :=
  flat_map (fun d => match d with
                     | DFunc (Some r) n _ _ _ => if String.eqb (rv_type r) t then [n] else []
                     | _ => [] end) l.

Definition free_names (l : list gdecl) : list string :=
  flat_map (fun d => match d with DFunc None n _ _ _ => [n] | _ => [] end) l.

Lemma meth_funcs_sigs : forall sc pkg imps t l,
    map obs_sig (meth_funcs sc pkg imps t l) = meth_sigs t l.
Proof.
  induction l as [|d l IH]; auto. unfold meth_funcs, meth_sigs in *. cbn [flat_map].
  rewrite map_app, IH. f_equal. destruct d as [| | |[r|] n ps rs b]; auto.
  destruct (String.eqb (rv_type r) t); auto. cbn [map]. now rewrite obs_sig_bfun.
Qed.

Lemma meth_funcs_names : forall sc pkg imps t l,
    map of_name (meth_funcs sc pkg imps t l) = meth_names t l.
Proof.
  induction l as [|d l IH]; auto. unfold meth_funcs, meth_names in *. cbn [flat_map].
  rewrite map_app, IH. f_equal. destruct d as [| | |[r|] n ps rs b]; auto.
  destruct (String.eqb (rv_type r) t); auto.
Qed.

Lemma free_funcs_names : forall sc pkg imps l, map of_name (free_funcs sc pkg imps l) = free_names l.
Proof.
  induction l as [|d l IH]; auto. unfold free_funcs, free_names in *. cbn [flat_map].
  rewrite map_app, IH. f_equal. destruct d as [| | |[r|] n ps rs b]; auto.
Qed.

Lemma free_names_func_decls : forall f, map fst (func_decls f) = free_names (gf_decls f).
Proof.
  intros f. unfold func_decls, free_names. induction (gf_decls f) as [|d l IH]; auto.
  cbn [flat_map]. rewrite map_app, IH. f_equal. destruct d as [| | |[r|] n ps rs b]; auto.
Qed.

Lemma free_sigs_func_decls : forall sc pkg imps f,
    map obs_sig (free_funcs sc pkg imps (gf_decls f)) =
    map (fun fd => sig_key (fst fd) (declared_names (snd fd))) (func_decls f).
Proof.
  intros. unfold func_decls, free_funcs. induction (gf_decls f) as [|d l IH]; auto.
  cbn [flat_map]. rewrite !map_app, IH. f_equal. destruct d as [| | |[r|] n ps rs b]; auto.
  cbn [map fst snd]. now rewrite obs_sig_bfun.
Qed.

Lemma obs_funcs_members : forall sc pkg imps pk im dss l,
    obs_funcs (mkOFile pk im dss (flat_map (decl_members sc pkg imps) l)) = free_funcs sc pkg imps l.
Proof.
  intros. unfold obs_funcs, free_funcs. cbn [o_members].
  induction l as [|d l IH]; auto. cbn [flat_map]. rewrite flat_map_app, IH. f_equal.
  destruct d as [n fs|n [|m ms]|n ty|[r|] n ps rs b]; cbn; rewrite ?andb_false_r; auto.
Qed.

(* ================================================================== Go: calls of a function body *)
Fixpoint gstmt_ind2 (P : gstmt -> Prop)
         (He : forall c, P (SExpr c)) (Hd : forall c, P (SDefer c))
         (Ha : forall l r, P (SAssign l r)) (Hr : forall rs, P (SReturn rs))
         (Hi : forall b e, Forall P b -> Forall P e -> P (SIf b e))
         (Hb : forall b, Forall P b -> P (SBlock b))
         (Hl : forall c b, Forall P b -> P (SCallLit c b)) (s : gstmt) : P s :=
  let all := fix all (l : list gstmt) : Forall P l :=
               match l with
               | [] => Forall_nil P
               | x :: r => Forall_cons x (gstmt_ind2 P He Hd Ha Hr Hi Hb Hl x) (all r)
               end in
  match s with
  | SExpr c => He c
  | SDefer c => Hd c
  | SAssign l r => Ha l r
  | SReturn rs => Hr rs
  | SIf b e => Hi b e (all b) (all e)
  | SBlock b => Hb b (all b)
  | SCallLit c b => Hl c b (all b)
  end.

Definition fn_ident_b (f : string) : bool :=
  negb (String.eqb f "") && negb (String.eqb f "func") && negb (String.eqb f "type").

Definition call_plain_b (c : gcall) : bool := String.eqb (gc_x c) "" || fn_ident_b (gc_f c).

Definition ret_plain_b (e : gexpr) : bool :=
  match e with
  | XCall c => match sel_args (gc_args c) with [] => true | _ => false end
  | XAtom _ => true
  end.

(* a selector call statement names its function by an identifier other than func / type;
   a returned call has no selector among its arguments -- at every nesting depth *)
(* directly inside a function literal: no defer of a selector call (the code files it twice, D-C20-lit-defer) *)
Definition lit_quiet_b (s : gstmt) : bool :=
  match s with SDefer d => String.eqb (gc_x d) "" | _ => true end.

Fixpoint stmt_plain_b (s : gstmt) : bool :=
  let all := fix all (l : list gstmt) : bool :=
               match l with [] => true | x :: r => stmt_plain_b x && all r end in
  match s with
  | SExpr c => call_plain_b c
  | SDefer c => call_plain_b c
  | SAssign _ _ => true
  | SReturn rs => forallb ret_plain_b rs
  | SIf b e => all b && all e
  | SBlock b => all b
  | SCallLit c b => call_plain_b c && all b && forallb lit_quiet_b b
  end.

Definition decl_plain_b (d : gdecl) : bool :=
  match d with DFunc _ _ _ _ (Some b) => forallb stmt_plain_b b | _ => true end.

Lemma stmt_plain_if : forall b e, stmt_plain_b (SIf b e) = forallb stmt_plain_b b && forallb stmt_plain_b e.
Proof. reflexivity. Qed.
Lemma stmt_plain_block : forall b, stmt_plain_b (SBlock b) = forallb stmt_plain_b b.
Proof. reflexivity. Qed.
Lemma stmt_calls_if : forall b e, stmt_calls (SIf b e) = flat_map stmt_calls b ++ flat_map stmt_calls e.
Proof. reflexivity. Qed.
Lemma stmt_calls_block : forall b, stmt_calls (SBlock b) = flat_map stmt_calls b.
Proof. reflexivity. Qed.
Lemma stmt_plain_lit : forall c b,
    stmt_plain_b (SCallLit c b) = call_plain_b c && forallb stmt_plain_b b && forallb lit_quiet_b b.
Proof. reflexivity. Qed.
Lemma stmt_calls_lit : forall c b, stmt_calls (SCallLit c b) = flat_map stmt_calls b ++ sel_call c.
Proof. reflexivity. Qed.

(* the walk over the statements of a function literal (the local fixpoint of stmt_step) *)
Fixpoint lit_steps (sc : list (string * string)) (imps : list (string * string)) (ps : list p3)
         (pk : string) (lv : list (string * string)) (l : list gstmt) (cs : list ocall) : list ocall :=
  match l with
  | [] => cs
  | x :: r => lit_steps sc imps ps pk lv r (refile (stmt_result sc pk imps ps lv x) (snd (stmt_step sc pk imps ps x (lv, cs))))
  end.

Lemma stmt_step_lit : forall sc pkg imps ps c b acc,
    stmt_step sc pkg imps ps (SCallLit c b) acc =
    (fst acc, lit_steps sc imps ps (oc_pkg (build_call sc pkg imps ps (fst acc) c)) (fst acc) b (snd acc)
              ++ [build_call sc pkg imps ps (fst acc) c]).
Proof.
  intros. cbn [stmt_step]. f_equal. f_equal.
  generalize (oc_pkg (build_call sc pkg imps ps (fst acc) c)) as pk.
  generalize (fst acc) as lv. generalize (snd acc) as cs.
  induction b as [|x r IH]; intros cs lv pk; [reflexivity|]. cbn [lit_steps]. rewrite <- IH. reflexivity.
Qed.

Definition scope_kinds (sc : list (string * string)) : Prop :=
  forall n k, mget sc n = Some k -> k = "func" \/ k = "type".

Lemma mget_app_some : forall (a b : list (string * string)) n k,
    mget (a ++ b) n = Some k -> mget a n = Some k \/ mget b n = Some k.
Proof.
  induction a as [|[k0 v0] a IH]; intros b n k H; simpl in *; auto.
  destruct (String.eqb k0 n); auto.
Qed.

Lemma file_scope_kinds : forall ds, scope_kinds (file_scope ds).
Proof.
  induction ds as [|d ds IH]; intros n k H.
  - discriminate.
  - unfold file_scope in H. cbn [flat_map] in H. apply mget_app_some in H. destruct H as [H|H].
    + destruct d as [x fs|x ms|x ty|[r|] x ps rs b]; simpl in H;
        try (destruct (String.eqb x n); inversion H; auto; fail); try discriminate.
      destruct (String.eqb x "init"); simpl in H; try discriminate.
      destruct (String.eqb x n); inversion H; auto.
    + eapply IH. exact H.
Qed.

Lemma ident_kind_cases : forall sc n,
    scope_kinds sc -> ident_kind sc n = "" \/ ident_kind sc n = "func" \/ ident_kind sc n = "type".
Proof.
  intros sc n H. unfold ident_kind. destruct (mget sc n) as [k|] eqn:E; auto.
  destruct (H _ _ E); auto.
Qed.

Definition pr (c : ocall) : string * string := (oc_node c, oc_fn c).

Lemma count_pair_app : forall w a b, count_pair w (a ++ b) = count_pair w a + count_pair w b.
Proof. intros. unfold count_pair. now rewrite filter_app, app_length. Qed.

Lemma count_pair_zero : forall w l,
    (forall p, In p l -> snd p <> snd w) -> count_pair w l = 0.
Proof.
  induction l as [|p l IH]; intros H; auto.
  unfold count_pair in *. simpl. unfold pair_eqb at 1.
  destruct (String.eqb (snd w) (snd p)) eqn:E.
  - apply String.eqb_eq in E. exfalso. apply (H p); [now left|now symmetry].
  - rewrite andb_false_r. apply IH. intros q Hq. apply H. now right.
Qed.

Lemma fn_ident_not : forall f,
    fn_ident_b f = true -> f <> "" /\ f <> "func" /\ f <> "type".
Proof.
  intros f H. unfold fn_ident_b in H. apply andb_true_iff in H. destruct H as [H H3].
  apply andb_true_iff in H. destruct H as [H1 H2].
  apply negb_true_iff in H1, H2, H3. apply String.eqb_neq in H1, H2, H3. auto.
Qed.

Section Calls.
  Variables (sc : list (string * string)) (imps : list (string * string)) (ps : list p3).
  Hypothesis Hsc : scope_kinds sc.

  (* the package a call is filed under plays no part in its (receiver, function) pair: the statements of a function
     literal are walked with ANOTHER current package, so every lemma below holds for every package *)
  Lemma call_pair : forall pkg lv c w,
      call_plain_b c = true -> fn_ident_b (snd w) = true ->
      count_pair w [pr (build_call sc pkg imps ps lv c)] = count_pair w (sel_call c).
  Proof.
    intros pkg lv c w Hc Hw. unfold build_call, fun_expr, sel_call.
    destruct (String.eqb (gc_x c) "") eqn:E.
    - cbv beta iota zeta. transitivity 0; [|reflexivity].
      apply count_pair_zero. intros p [Hp|[]]. subst p. cbn [pr snd oc_fn].
      apply fn_ident_not in Hw. destruct Hw as [W1 [W2 W3]].
      destruct (ident_kind_cases sc (gc_f c) Hsc) as [K|[K|K]]; rewrite K; auto.
    - cbv beta iota zeta. reflexivity.
  Qed.

  Lemma assign_calls_fn : forall lhs rhs c, In c (assign_calls sc imps lhs rhs) -> oc_fn c = "".
  Proof.
    intros lhs rhs c H. unfold assign_calls in H.
    apply in_flat_map in H. destruct H as [lh [_ H]].
    apply in_flat_map in H. destruct H as [e [_ H]].
    destruct (build_expr sc e) as [[typ nm] k].
    destruct (String.eqb typ "call"); [|destruct H].
    destruct (String.eqb (get_package_name nm imps) ""); [destruct H|].
    destruct H as [H|[]]. now subst c.
  Qed.

  Lemma return_calls_fn : forall lv rs c,
      forallb ret_plain_b rs = true -> In c (return_calls sc imps ps lv rs) -> oc_fn c = "".
  Proof.
    intros lv rs c Hp H. unfold return_calls in H.
    apply in_flat_map in H. destruct H as [e [He H]].
    rewrite forallb_forall in Hp. specialize (Hp e He).
    destruct e as [a|c0].
    - destruct a; simpl in H; destruct H.
    - cbn [build_expr] in H. cbn [ret_plain_b] in Hp.
      destruct (sel_args (gc_args c0)); [|discriminate]. cbn [join] in H.
      rewrite String.eqb_refl in H. apply in_flat_map in H. destruct H as [p [_ H]].
      destruct (String.eqb (p3_name p) (call_value c0)); [|destruct H].
      destruct H as [H|[]]. now subst c.
  Qed.

  Definition pairs_ok (s : gstmt) : Prop :=
    forall pkg acc w, stmt_plain_b s = true -> fn_ident_b (snd w) = true ->
                  count_pair w (map pr (snd (stmt_step sc pkg imps ps s acc))) =
                  count_pair w (map pr (snd acc)) + count_pair w (stmt_calls s).

  Lemma stmts_pairs : forall l,
      Forall pairs_ok l ->
      forall pkg acc w, forallb stmt_plain_b l = true -> fn_ident_b (snd w) = true ->
                    count_pair w (map pr (snd (stmts_step sc pkg imps ps l acc))) =
                    count_pair w (map pr (snd acc)) + count_pair w (flat_map stmt_calls l).
  Proof.
    induction l as [|s l IH]; intros HF pkg acc w Hp Hw.
    - cbn. lia.
    - inversion HF as [|? ? Hs Hl]; subst. simpl in Hp. apply andb_true_iff in Hp. destruct Hp as [Hps Hpl].
      unfold stmts_step in *. cbn [fold_left flat_map]. rewrite count_pair_app.
      rewrite (IH Hl pkg _ w Hpl Hw). rewrite (Hs pkg acc w Hps Hw). lia.
  Qed.

  (* what is filed a second time inside a literal does not count for a written selector call: a deferred LOCAL call
     has no selector, a returned call is filed without a function name *)
  Lemma refile_quiet : forall pk lv x cs w,
      stmt_plain_b x = true -> lit_quiet_b x = true -> fn_ident_b (snd w) = true ->
      count_pair w (map pr (refile (stmt_result sc pk imps ps lv x) cs)) = count_pair w (map pr cs).
  Proof.
    intros pk lv x cs w Hp Hq Hw. unfold refile.
    destruct (stmt_result sc pk imps ps lv x) as [c|] eqn:E; [|reflexivity].
    destruct (String.eqb (oc_node c) ""); [reflexivity|].
    rewrite map_app, count_pair_app. cbn [map].
    assert (Z : count_pair w [pr c] = 0); [|lia].
    destruct x as [c1|d|lhs rhs|rs|b e|b|c1 b]; cbn [stmt_result] in E; try discriminate.
    - injection E as E. subst c. cbn [stmt_plain_b] in Hp. cbn [lit_quiet_b] in Hq.
      rewrite (call_pair pk lv d w Hp Hw). unfold sel_call. now rewrite Hq.
    - cbn [stmt_plain_b] in Hp. apply nth_error_In in E.
      apply count_pair_zero. intros p [Hp0|[]]. subst p. cbn [pr snd].
      rewrite (return_calls_fn _ _ _ Hp E). apply fn_ident_not in Hw. intros E0. symmetry in E0. tauto.
  Qed.

  (* the statements of a function literal: every one starts from the same local variables *)
  Lemma lit_pairs : forall l,
      Forall pairs_ok l ->
      forall pk lv cs w, forallb stmt_plain_b l = true -> forallb lit_quiet_b l = true -> fn_ident_b (snd w) = true ->
                    count_pair w (map pr (lit_steps sc imps ps pk lv l cs)) =
                    count_pair w (map pr cs) + count_pair w (flat_map stmt_calls l).
  Proof.
    induction l as [|s l IH]; intros HF pk lv cs w Hp Hq Hw.
    - cbn [lit_steps flat_map]. change (count_pair w []) with 0. lia.
    - inversion HF as [|? ? Hs Hl]; subst. simpl in Hp. apply andb_true_iff in Hp. destruct Hp as [Hps Hpl].
      simpl in Hq. apply andb_true_iff in Hq. destruct Hq as [Hqs Hql].
      cbn [lit_steps flat_map]. rewrite count_pair_app.
      rewrite (IH Hl pk lv _ w Hpl Hql Hw). rewrite (refile_quiet pk lv s _ w Hps Hqs Hw).
      rewrite (Hs pk (lv, cs) w Hps Hw). cbn [snd]. lia.
  Qed.

  Lemma stmt_pairs : forall s, pairs_ok s.
  Proof.
    induction s as [c|c|lhs rhs|rs|b e IHb IHe|b IHb|c b IHb] using gstmt_ind2; intros pkg acc w Hs Hw.
    - cbn [stmt_step snd stmt_calls stmt_plain_b] in *.
      rewrite map_app, count_pair_app. f_equal. cbn [map]. now apply call_pair.
    - cbn [stmt_step snd stmt_calls stmt_plain_b] in *.
      rewrite map_app, count_pair_app. f_equal. cbn [map]. now apply call_pair.
    - cbn [stmt_step snd stmt_calls] in *.
      rewrite map_app, count_pair_app. f_equal. apply count_pair_zero.
      intros p Hp. apply in_map_iff in Hp. destruct Hp as [c [Hc Hin]]. subst p.
      cbn. rewrite (assign_calls_fn _ _ _ Hin). apply fn_ident_not in Hw. intros E. symmetry in E. tauto.
    - cbn [stmt_step snd stmt_calls stmt_plain_b] in *.
      rewrite map_app, count_pair_app. f_equal. apply count_pair_zero.
      intros p Hp. apply in_map_iff in Hp. destruct Hp as [c [Hc Hin]]. subst p.
      cbn. rewrite (return_calls_fn _ _ _ Hs Hin). apply fn_ident_not in Hw. intros E. symmetry in E. tauto.
    - rewrite stmt_plain_if in Hs. apply andb_true_iff in Hs. destruct Hs as [Hsb Hse].
      rewrite stmt_calls_if, count_pair_app.
      change (stmt_step sc pkg imps ps (SIf b e) acc)
        with (stmts_step sc pkg imps ps e (stmts_step sc pkg imps ps b acc)).
      rewrite (stmts_pairs e IHe pkg _ w Hse Hw). rewrite (stmts_pairs b IHb pkg acc w Hsb Hw). lia.
    - rewrite stmt_plain_block in Hs. rewrite stmt_calls_block.
      change (stmt_step sc pkg imps ps (SBlock b) acc) with (stmts_step sc pkg imps ps b acc).
      apply (stmts_pairs b IHb pkg acc w Hs Hw).
    - rewrite stmt_plain_lit in Hs. apply andb_true_iff in Hs. destruct Hs as [Hs Hq].
      apply andb_true_iff in Hs. destruct Hs as [Hc Hb].
      rewrite stmt_step_lit, stmt_calls_lit. cbn [snd]. rewrite map_app, !count_pair_app.
      rewrite (lit_pairs b IHb _ _ _ w Hb Hq Hw). cbn [map]. rewrite (call_pair pkg (fst acc) c w Hc Hw). lia.
  Qed.

  Lemma fold_pairs : forall pkg body acc w,
      forallb stmt_plain_b body = true -> fn_ident_b (snd w) = true ->
      count_pair w (map pr (snd (stmts_step sc pkg imps ps body acc))) =
      count_pair w (map pr (snd acc)) + count_pair w (flat_map stmt_calls body).
  Proof.
    intros. apply stmts_pairs; auto. apply Forall_forall. intros s _. apply stmt_pairs.
  Qed.
End Calls.

Lemma written_ident_stmt : forall s w,
    stmt_plain_b s = true -> In w (stmt_calls s) -> fn_ident_b (snd w) = true.
Proof.
  assert (Hcall : forall c w, call_plain_b c = true -> In w (sel_call c) -> fn_ident_b (snd w) = true).
  { intros c w Hc Hin. unfold sel_call in Hin. unfold call_plain_b in Hc.
    destruct (String.eqb (gc_x c) ""); [destruct Hin|].
    destruct Hin as [Hin|[]]. subst w. exact Hc. }
  assert (Hall : forall l w, Forall (fun s => forall w, stmt_plain_b s = true -> In w (stmt_calls s) ->
                                                        fn_ident_b (snd w) = true) l ->
                             forallb stmt_plain_b l = true -> In w (flat_map stmt_calls l) ->
                             fn_ident_b (snd w) = true).
  { intros l w HF Hp Hin. apply in_flat_map in Hin. destruct Hin as [s [Hs Hw]].
    rewrite Forall_forall in HF. rewrite forallb_forall in Hp. eapply HF; eauto. }
  induction s as [c|c|lhs rhs|rs|b e IHb IHe|b IHb|c b IHb] using gstmt_ind2; intros w Hs Hw.
  - eapply Hcall; eauto.
  - eapply Hcall; eauto.
  - destruct Hw.
  - destruct Hw.
  - rewrite stmt_plain_if in Hs. apply andb_true_iff in Hs. destruct Hs as [Hsb Hse].
    rewrite stmt_calls_if in Hw. apply in_app_or in Hw. destruct Hw as [Hw|Hw]; eauto.
  - rewrite stmt_plain_block in Hs. rewrite stmt_calls_block in Hw. eauto.
  - rewrite stmt_plain_lit in Hs. apply andb_true_iff in Hs. destruct Hs as [Hs _].
    apply andb_true_iff in Hs. destruct Hs as [Hc Hb].
    rewrite stmt_calls_lit in Hw. apply in_app_or in Hw. destruct Hw as [Hw|Hw]; eauto.
Qed.

Lemma calls_listed_bfun : forall sc pkg imps n ps rs b,
    scope_kinds sc -> decl_plain_b (DFunc None n ps rs b) = true ->
    calls_listed (body_calls b) (Some (bfun sc pkg imps n ps rs b)) = true.
Proof.
  intros sc pkg imps n ps rs b Hsc Hb. unfold calls_listed. apply forallb_forall. intros w Hw.
  apply Nat.eqb_eq. unfold obs_call_pairs, bfun, build_function. cbn [of_calls].
  change (map (fun c => (oc_node c, oc_fn c))) with (map pr).
  destruct b as [b|]; [|destruct Hw]. cbn [decl_plain_b body_calls] in *.
  rewrite fold_pairs; auto.
  apply in_flat_map in Hw. destruct Hw as [s [Hs Hw]]. rewrite forallb_forall in Hb.
  eapply written_ident_stmt; eauto.
Qed.

(* ------------------------------------------------------------------ imports *)
Definition import_plain_b (i : string * string) : bool :=
  negb (contains (snd i) default_module) && negb (has_prefix "." (replace_all "/" "." (snd i))).

Lemma not_contains_replace : forall s old new, contains s old = false -> replace_all old new s = s.
Proof.
  intros s old new H. unfold contains in H. unfold replace_all. cbn [replace_all_fuel].
  destruct (str_index old s); [discriminate|reflexivity].
Qed.

Lemma has_prefix_app_l : forall a b s, has_prefix (a ++ b)%string s = true -> has_prefix a s = true.
Proof.
  intros a b s H. apply has_prefix_spec in H. destruct H as [r H]. apply has_prefix_spec.
  exists (b ++ r)%string. rewrite H. apply append_assoc.
Qed.

Lemma has_prefix_contains : forall p s, has_prefix p s = true -> contains s p = true.
Proof.
  intros p s H. unfold contains, str_index.
  destruct (String.length s); cbn [index_from]; now rewrite H.
Qed.

Lemma import_plain : forall i, import_plain_b i = true -> build_import i = expected_import i.
Proof.
  intros [a path] H. unfold import_plain_b in H. cbn [snd] in H.
  apply andb_true_iff in H. destruct H as [H1 H2]. apply negb_true_iff in H1, H2.
  unfold build_import, expected_import, import_source. cbn [fst snd].
  rewrite (not_contains_replace _ _ _ H1). rewrite H2.
  destruct (has_prefix (default_module ++ "/")%string path) eqn:E; auto.
  apply has_prefix_app_l in E. apply has_prefix_contains in E. congruence.
Qed.

Lemma imports_plain : forall l,
    forallb import_plain_b l = true -> map build_import l = map expected_import l.
Proof.
  induction l as [|i l IH]; intros H; simpl; auto.
  simpl in H. apply andb_true_iff in H. destruct H as [Hi Hl].
  rewrite import_plain by assumption. now rewrite IH.
Qed.

(* ================================================================== Go: every file *)
(* the front-end never crashes *)
Theorem go_no_crash : forall f, exists o, go_front f = GOk o.
Proof. intros f. unfold go_front. eauto. Qed.

Definition recv_types (l : list gdecl) : list string :=
  flat_map (fun d => match d with DFunc (Some r) _ _ _ _ => [rv_type r] | _ => [] end) l.

Definition receivers_declared_b (f : gfile) : bool :=
  forallb (fun d => match d with
                    | DFunc (Some r) _ _ _ _ => str_mem (rv_type r) (type_names f)
                    | _ => true end) (gf_decls f).

Section GoDecls.
  Variable f : gfile.
  Let sc := file_scope (gf_decls f).
  Let imps := map build_import (gf_imports f).
  Let pkg := gf_pkg f.
  Let st := visit sc pkg imps (gf_decls f) vstate0.
  Let O := mkOFile pkg imps (sort_dss (map snd (final_map pkg st))) (v_members st).

  Hypothesis Htn : nodup_b (type_names f) = true.

  Lemma go_front_O : go_front f = GOk O.
  Proof. reflexivity. Qed.

  Lemma wf_final : wf_map (final_map pkg st).
  Proof.
    unfold final_map. apply wf_finalize. unfold st. apply wf_visit.
    split; [constructor|constructor].
  Qed.

  Lemma tn_nodup : NoDup (tnames (gf_decls f)).
  Proof. rewrite <- type_names_tnames. now apply nodup_b_sound. Qed.

  (* the entry of a declared type: its own cell with the methods declared after it followed by
     those declared before it *)
  Lemma cell_of_decl : forall l1 T l2 t,
      gf_decls f = l1 ++ T :: l2 -> type_name T = Some t ->
      dss_named O t = [with_funcs (type_cell pkg imps T)
                                  (meth_funcs sc pkg imps t l2 ++ meth_funcs sc pkg imps t l1)].
  Proof.
    intros l1 T l2 t Hd Ht.
    assert (Hin : In T (gf_decls f)) by (rewrite Hd; apply in_or_app; right; now left).
    pose proof tn_nodup as Hnd. rewrite Hd in Hnd. rewrite tnames_app in Hnd.
    unfold tnames at 2 in Hnd. cbn [flat_map] in Hnd. rewrite Ht in Hnd. cbn [app] in Hnd.
    fold (tnames l2) in Hnd. apply NoDup_remove_2 in Hnd.
    assert (H1 : ~ In t (tnames l1)) by (intros H; apply Hnd; apply in_or_app; auto).
    assert (H2 : ~ In t (tnames l2)) by (intros H; apply Hnd; apply in_or_app; auto).
    assert (Hk : key_of st t =
                 (Some (with_funcs (type_cell pkg imps T) (meth_funcs sc pkg imps t l2)),
                  meth_funcs sc pkg imps t l1)).
    { unfold st. rewrite proj_visit. rewrite Hd. rewrite fold_left_app. cbn [fold_left].
      unfold key_of at 1. cbn [vstate0 v_map v_pending mget]. unfold mget_d. cbn [mget].
      rewrite (key_fold_no_type sc pkg imps t l1 None [] (not_in_tnames _ _ H1)). cbn [app].
      assert (Hs : key_step sc pkg imps t (None, meth_funcs sc pkg imps t l1) T =
                   (Some (type_cell pkg imps T), meth_funcs sc pkg imps t l1)).
      { destruct T as [n fs|n ms|n ty|]; simpl in Ht; inversion Ht; subst;
          cbn [key_step names_type type_name snd]; now rewrite String.eqb_refl. }
      rewrite Hs. rewrite (key_fold_no_type sc pkg imps t l2 _ _ (not_in_tnames _ _ H2)).
      now rewrite type_cell_funcs. }
    unfold key_of in Hk. injection Hk as Hm Hp.
    assert (Hf : mget (final_map pkg st) t =
                 Some (with_funcs (type_cell pkg imps T)
                                  (meth_funcs sc pkg imps t l2 ++ meth_funcs sc pkg imps t l1))).
    { unfold final_map. rewrite finalize_get.
      - rewrite Hm, Hp. now rewrite with_funcs_funcs, with_funcs_twice.
      - unfold st. apply pending_nodup. constructor. }
    unfold dss_named, O. cbn [o_dss]. apply filter_sorted_single.
    apply named_single; [apply wf_final|exact Hf].
  Qed.

  Lemma cell_of_in : forall T t,
      In T (gf_decls f) -> type_name T = Some t ->
      exists l1 l2, gf_decls f = l1 ++ T :: l2 /\
                    dss_named O t = [with_funcs (type_cell pkg imps T)
                                                (meth_funcs sc pkg imps t l2 ++ meth_funcs sc pkg imps t l1)].
  Proof.
    intros T t Hin Ht. apply in_split in Hin. destruct Hin as [l1 [l2 E]].
    exists l1, l2. split; auto. now apply cell_of_decl.
  Qed.

  (* the entry created for a receiver type the file does not declare: all its methods *)
  Lemma cell_of_undeclared : forall t,
      ~ In t (tnames (gf_decls f)) -> meth_funcs sc pkg imps t (gf_decls f) <> [] ->
      dss_named O t = [mkODs t pkg [] (meth_funcs sc pkg imps t (gf_decls f)) []].
  Proof.
    intros t Hn Hne.
    assert (Hk : key_of st t = (None, meth_funcs sc pkg imps t (gf_decls f))).
    { unfold st. rewrite proj_visit. unfold key_of at 1. cbn [vstate0 v_map v_pending mget].
      unfold mget_d. cbn [mget].
      now rewrite (key_fold_no_type sc pkg imps t (gf_decls f) None [] (not_in_tnames _ _ Hn)). }
    unfold key_of in Hk. injection Hk as Hm Hp.
    assert (Hf : mget (final_map pkg st) t = Some (mkODs t pkg [] (meth_funcs sc pkg imps t (gf_decls f)) [])).
    { unfold final_map. rewrite finalize_get.
      - rewrite Hm. unfold mget_d in Hp. destruct (mget (v_pending st) t) as [ms|]; [now subst|].
        exfalso. apply Hne. now symmetry.
      - unfold st. apply pending_nodup. constructor. }
    unfold dss_named, O. cbn [o_dss]. apply filter_sorted_single.
    apply named_single; [apply wf_final|exact Hf].
  Qed.

  Lemma decls_structs : go_structs_ok f O = true.
  Proof.
    unfold go_structs_ok. apply forallb_forall. intros [n fs] Hin. unfold struct_decls in Hin.
    apply in_flat_map in Hin. destruct Hin as [d [Hd Hin]].
    destruct d as [n' fs'| | |]; try (destruct Hin; fail). destruct Hin as [Hin|[]]. inversion Hin; subst.
    destruct (cell_of_in (DStruct n fs) n Hd eq_refl) as [l1 [l2 [_ Hc]]]. cbn [fst snd]. rewrite Hc.
    unfold obs_prop_names. cbn [with_funcs od_props type_cell]. rewrite obs_props_fields.
    apply strs_eqb_refl.
  Qed.

  Lemma decls_interfaces : go_interfaces_ok f O = true.
  Proof.
    unfold go_interfaces_ok. apply forallb_forall. intros [n ms] Hin. unfold iface_decls in Hin.
    apply in_flat_map in Hin. destruct Hin as [d [Hd Hin]].
    destruct d as [|n' ms'| |]; try (destruct Hin; fail). destruct Hin as [Hin|[]]. inversion Hin; subst.
    destruct (cell_of_in (DIface n ms) n Hd eq_refl) as [l1 [l2 [_ Hc]]]. cbn [fst snd]. rewrite Hc.
    destruct ms as [|m ms]; [reflexivity|].
    cbn [with_funcs od_props type_cell]. rewrite map_map. cbn [oprop_of_imethod op_name]. apply ms_eqb_refl.
  Qed.

  Lemma method_sigs_split : forall l1 T l2 t,
      gf_decls f = l1 ++ T :: l2 -> type_name T = Some t ->
      method_sigs f t = meth_sigs t l1 ++ meth_sigs t l2.
  Proof.
    intros l1 T l2 t Hd Ht. unfold method_sigs. rewrite Hd. rewrite flat_map_app. cbn [flat_map].
    fold (meth_sigs t l1). fold (meth_sigs t l2). destruct T; simpl in Ht; try discriminate; reflexivity.
  Qed.

  Lemma decls_methods : go_methods_ok f O = true.
  Proof.
    unfold go_methods_ok. apply forallb_forall. intros t Ht. rewrite type_names_tnames in Ht.
    apply in_tnames in Ht. destruct Ht as [T [HT Htn']].
    destruct (cell_of_in T t HT Htn') as [l1 [l2 [Hd Hc]]].
    unfold obs_methods. rewrite Hc. cbn [with_funcs od_funcs]. rewrite map_app.
    rewrite !meth_funcs_sigs. rewrite (method_sigs_split l1 T l2 t Hd Htn').
    apply ms_eqb_perm. apply Permutation_app_comm.
  Qed.

  Lemma obs_funcs_O : obs_funcs O = free_funcs sc pkg imps (gf_decls f).
  Proof.
    unfold O. unfold st at 2. rewrite visit_members. cbn [vstate0 v_members app].
    apply obs_funcs_members.
  Qed.

  Lemma decls_functions : go_functions_ok f O = true.
  Proof.
    unfold go_functions_ok. rewrite obs_funcs_O. rewrite free_sigs_func_decls. apply ms_eqb_refl.
  Qed.

  Hypothesis Himp : forallb import_plain_b (gf_imports f) = true.

  Lemma decls_imports : go_imports_ok f O = true.
  Proof.
    unfold go_imports_ok, O. cbn [o_imports]. unfold imps.
    rewrite (imports_plain _ Himp). rewrite map_map. apply strs_eqb_refl.
  Qed.

  Hypothesis Hplain : forallb decl_plain_b (gf_decls f) = true.
  Hypothesis Hnd_f : nodup_b (map fst (func_decls f)) = true.
  Hypothesis Hnd_m : forallb (fun t => nodup_b (meth_names t (gf_decls f))) (recv_types (gf_decls f)) = true.

  Lemma meth_names_split : forall l1 T l2 t,
      gf_decls f = l1 ++ T :: l2 -> type_name T = Some t ->
      meth_names t (gf_decls f) = meth_names t l1 ++ meth_names t l2.
  Proof.
    intros l1 T l2 t Hd Ht. rewrite Hd. unfold meth_names. rewrite flat_map_app. cbn [flat_map].
    destruct T; simpl in Ht; try discriminate; reflexivity.
  Qed.

  Lemma decls_calls : go_calls_ok f O = true.
  Proof.
    unfold go_calls_ok. apply forallb_forall. intros d Hd.
    destruct d as [n fs|n ms|n ty|recv n ps rs b]; auto.
    assert (Hpl : decl_plain_b (DFunc None n ps rs b) = true).
    { pose proof Hplain as H. rewrite forallb_forall in H. specialize (H _ Hd). exact H. }
    destruct recv as [r|].
    - (* a method *)
      assert (Hrt : In (rv_type r) (recv_types (gf_decls f))).
      { unfold recv_types. apply in_flat_map. eexists. split; [exact Hd|]. now left. }
      assert (Hndm : NoDup (meth_names (rv_type r) (gf_decls f))).
      { pose proof Hnd_m as H. rewrite forallb_forall in H. apply nodup_b_sound. now apply H. }
      destruct (in_dec string_dec (rv_type r) (tnames (gf_decls f))) as [Hr'|Hr'].
      + (* its receiver type is declared in the file *)
        apply in_tnames in Hr'. destruct Hr' as [T [HT Htn']].
        destruct (cell_of_in T (rv_type r) HT Htn') as [l1 [l2 [Hsplit Hc]]].
        unfold obs_methods. rewrite Hc. cbn [with_funcs od_funcs].
        assert (Hx : In (bfun sc pkg imps n ps rs b)
                        (meth_funcs sc pkg imps (rv_type r) l2 ++ meth_funcs sc pkg imps (rv_type r) l1)).
        { rewrite Hsplit in Hd. apply in_app_or in Hd. apply in_or_app.
          destruct Hd as [Hd|[Hd|Hd]].
          - right. unfold meth_funcs. apply in_flat_map. eexists. split; [exact Hd|].
            cbn. rewrite String.eqb_refl. now left.
          - subst T. discriminate.
          - left. unfold meth_funcs. apply in_flat_map. eexists. split; [exact Hd|].
            cbn. rewrite String.eqb_refl. now left. }
        assert (Hnd : NoDup (map of_name (meth_funcs sc pkg imps (rv_type r) l2 ++
                                          meth_funcs sc pkg imps (rv_type r) l1))).
        { rewrite map_app, !meth_funcs_names.
          apply (Permutation_NoDup (Permutation_app_comm (meth_names (rv_type r) l1) (meth_names (rv_type r) l2))).
          now rewrite <- (meth_names_split l1 T l2 (rv_type r) Hsplit Htn'). }
        pose proof (find_func_nodup _ _ Hnd Hx) as Hf. rewrite of_name_bfun in Hf. rewrite Hf.
        apply calls_listed_bfun; [apply file_scope_kinds|exact Hpl].
      + (* its receiver type is declared elsewhere: the entry created after the walk *)
        assert (Hx : In (bfun sc pkg imps n ps rs b) (meth_funcs sc pkg imps (rv_type r) (gf_decls f))).
        { unfold meth_funcs. apply in_flat_map. eexists. split; [exact Hd|].
          cbn. rewrite String.eqb_refl. now left. }
        assert (Hne : meth_funcs sc pkg imps (rv_type r) (gf_decls f) <> []).
        { intros E. rewrite E in Hx. destruct Hx. }
        unfold obs_methods. rewrite (cell_of_undeclared (rv_type r) Hr' Hne). cbn [od_funcs].
        assert (Hnd : NoDup (map of_name (meth_funcs sc pkg imps (rv_type r) (gf_decls f)))).
        { now rewrite meth_funcs_names. }
        pose proof (find_func_nodup _ _ Hnd Hx) as Hf. rewrite of_name_bfun in Hf. rewrite Hf.
        apply calls_listed_bfun; [apply file_scope_kinds|exact Hpl].
    - rewrite obs_funcs_O.
      assert (Hx : In (bfun sc pkg imps n ps rs b) (free_funcs sc pkg imps (gf_decls f))).
      { unfold free_funcs. apply in_flat_map. eexists. split; [exact Hd|]. now left. }
      assert (Hnd : NoDup (map of_name (free_funcs sc pkg imps (gf_decls f)))).
      { rewrite free_funcs_names, <- free_names_func_decls. now apply nodup_b_sound. }
      pose proof (find_func_nodup _ _ Hnd Hx) as Hf. rewrite of_name_bfun in Hf. rewrite Hf.
      apply calls_listed_bfun; [apply file_scope_kinds|exact Hpl].
  Qed.

  Theorem decls_verdict : go_verdict f (go_front f) = [].
  Proof.
    rewrite go_front_O. unfold go_verdict.
    rewrite decls_structs, decls_interfaces, decls_methods, decls_functions, decls_imports, decls_calls.
    reflexivity.
  Qed.
End GoDecls.

(* Every Go file -- any number of struct / interface / other type declarations in any order
   relative to their methods, functions with or without body, grouped names, statements nested
   in if / else / blocks -- is listed exactly: every struct with its fields, every interface
   with its method set, the methods of every type, every function with its parameters, every
   import, every selector call statement, each once under its own name.  Hypotheses (decidable):
   distinct type names, distinct function names and distinct method names per receiver type,
   call statements name their function by an identifier, returned calls carry no selector
   argument, import paths do not contain the module name.  Receiver types need NOT be declared
   in the file. *)
Theorem go_decls_exact : forall f,
    nodup_b (type_names f) = true ->
    nodup_b (map fst (func_decls f)) = true ->
    forallb (fun t => nodup_b (meth_names t (gf_decls f))) (recv_types (gf_decls f)) = true ->
    forallb decl_plain_b (gf_decls f) = true ->
    forallb import_plain_b (gf_imports f) = true ->
    go_verdict f (go_front f) = [].
Proof. intros. apply decls_verdict; auto. Qed.

(* the declaration clauses alone need only distinct type names *)
Theorem go_listing_exact : forall f o,
    nodup_b (type_names f) = true -> go_front f = GOk o ->
    go_structs_ok f o = true /\ go_interfaces_ok f o = true /\ go_methods_ok f o = true /\
    go_functions_ok f o = true.
Proof.
  intros f o H Ho. rewrite go_front_O in Ho. inversion Ho; subst o.
  repeat split; [apply decls_structs|apply decls_interfaces|apply decls_methods|apply decls_functions]; auto.
Qed.

(* ================================================================== strings.Split / strings.Join round trip *)
Fixpoint comma_free (s : string) : bool :=
  match s with
  | EmptyString => true
  | String c r => negb (Ascii.eqb c ","%char) && comma_free r
  end.

Lemma index_from_comma_none : forall a fuel pos,
    comma_free a = true -> index_from fuel pos "," a = None.
Proof.
  induction a as [|c a IH]; intros fuel pos H.
  - destruct fuel; reflexivity.
  - simpl in H. apply andb_true_iff in H. destruct H as [Hc Ha]. apply negb_true_iff in Hc.
    destruct fuel; cbn [index_from has_prefix]; rewrite (Ascii.eqb_sym), Hc; auto.
Qed.

Lemma index_from_comma_some : forall a r fuel pos,
    comma_free a = true -> String.length a <= fuel ->
    index_from fuel pos "," (a ++ "," ++ r)%string = Some (pos + String.length a).
Proof.
  induction a as [|c a IH]; intros r fuel pos H Hf.
  - cbn [String.append String.length]. destruct fuel; cbn [index_from has_prefix]; rewrite Ascii.eqb_refl; f_equal; lia.
  - simpl in H. apply andb_true_iff in H. destruct H as [Hc Ha]. apply negb_true_iff in Hc.
    cbn [String.append String.length] in *. destruct fuel as [|fuel]; [lia|].
    cbn [index_from has_prefix]. rewrite (Ascii.eqb_sym), Hc. rewrite IH by (auto; lia). f_equal. lia.
Qed.

Lemma take_app_len : forall a r, take (String.length a) (a ++ r)%string = a.
Proof. induction a; intros; simpl; auto. now rewrite IHa. Qed.

Lemma drop_app_len : forall a r, drop (String.length a) (a ++ r)%string = r.
Proof. induction a; intros; simpl; auto. Qed.

Lemma split_join_fuel : forall l fuel,
    l <> [] -> forallb comma_free l = true -> List.length l <= fuel ->
    split_fuel fuel "," (join "," l) = l.
Proof.
  induction l as [|x l IH]; intros fuel Hne Hc Hf; [congruence|].
  simpl in Hc. apply andb_true_iff in Hc. destruct Hc as [Hx Hl].
  destruct l as [|y l].
  - cbn [join]. destruct fuel; cbn [split_fuel]; auto.
    unfold str_index. now rewrite index_from_comma_none.
  - cbn [List.length] in Hf. destruct fuel as [|fuel]; [lia|].
    change (join "," (x :: y :: l)) with (x ++ "," ++ join "," (y :: l))%string.
    cbn [split_fuel]. unfold str_index.
    rewrite index_from_comma_some; [|assumption|rewrite !length_append; lia].
    cbn [plus]. rewrite take_app_len.
    replace (String.length x + String.length ",") with (String.length (x ++ ","))%string
      by (rewrite length_append; reflexivity).
    rewrite <- append_assoc. rewrite drop_app_len. f_equal.
    apply IH; [discriminate|assumption|cbn [List.length]; lia].
Qed.

Lemma join_length_ge : forall l, List.length l <= S (String.length (join "," l)).
Proof.
  induction l as [|x l IH]; [simpl; lia|].
  destruct l as [|y l]; [simpl; lia|].
  change (join "," (x :: y :: l)) with (x ++ "," ++ join "," (y :: l))%string.
  rewrite !length_append. cbn [List.length String.length] in *. lia.
Qed.

Lemma split_join : forall l,
    l <> [] -> forallb comma_free l = true -> split "," (join "," l) = l.
Proof.
  intros l Hne Hc. unfold split. apply split_join_fuel; auto. apply join_length_ge.
Qed.

(* ================================================================== Python: the listener *)
Definition walk_list (l : list pnode) (st : pstate) : pstate := fold_left (fun s c => walk c s) l st.

Lemma walk_unfold : forall k d n kids st,
    walk (PNode k d n kids) st = exit_node k (walk_list kids (enter_node k d n st)).
Proof. intros. cbn [walk]. reflexivity. Qed.

Lemma classes_of_unfold : forall k d n kids,
    classes_of (PNode k d n kids) =
    (if k then [PNode k d n kids] else []) ++ flat_map classes_of kids.
Proof. intros. cbn [classes_of]. f_equal. Qed.

Fixpoint pnode_ind2 (P : pnode -> Prop)
         (H : forall k d n kids, Forall P kids -> P (PNode k d n kids)) (n : pnode) : P n :=
  match n with
  | PNode k d nm kids =>
    H k d nm kids ((fix go (l : list pnode) : Forall P l :=
                      match l with
                      | [] => Forall_nil P
                      | c :: r => Forall_cons c (pnode_ind2 P H c) (go r)
                      end) kids)
  end.

Definition is_def (n : pnode) : bool := negb (node_is_class n).
Definition meth_out (k : pnode) : pfunc := (node_name k, node_decos k).

(* the classes a tree produces, in the order the listener appends them (a class after the
   classes nested in it, wherever they are nested), each with the defs written directly in it *)
Fixpoint emit (n : pnode) : list pclass :=
  match n with
  | PNode k d nm kids =>
    ((fix go (l : list pnode) : list pclass :=
        match l with [] => [] | c :: r => emit c ++ go r end) kids ++
     (if k then [(nm, d, map meth_out (filter is_def kids))] else []))
  end.

Lemma emit_unfold : forall k d nm kids,
    emit (PNode k d nm kids) =
    flat_map emit kids ++ (if k then [(nm, d, map meth_out (filter is_def kids))] else []).
Proof. reflexivity. Qed.

(* EnterFuncdef of a def that is not nested in a def of its class *)
Definition list_def (nm : string) (d : list pdeco) (mm : list pmember) (cur : option pclass)
  : list pmember * option pclass :=
  match cur with
  | Some (cn, cd, fs) => (mm, Some (cn, cd, fs ++ [(nm, d)]))
  | None => (mm ++ [(nm, [(nm, d)])], None)
  end.

Definition node_ok (n : pnode) : Prop :=
  forall i c mm cur outer depths dep,
    walk n (mkPS i c mm cur outer depths dep false) =
    if node_is_class n then mkPS i (c ++ emit n) mm cur outer depths dep false
    else if Nat.ltb 0 dep then mkPS i (c ++ emit n) mm cur outer depths dep false
         else mkPS i (c ++ emit n) (fst (list_def (node_name n) (node_decos n) mm cur))
                   (snd (list_def (node_name n) (node_decos n) mm cur)) outer depths dep false.

(* the body of a def (or of anything at def depth >= 1): nested defs are ignored, nested classes recorded *)
Lemma walk_kids_def : forall kids,
    Forall node_ok kids ->
    forall i c mm cur outer depths dep, 0 < dep ->
      walk_list kids (mkPS i c mm cur outer depths dep false) =
      mkPS i (c ++ flat_map emit kids) mm cur outer depths dep false.
Proof.
  induction kids as [|k kids IH]; intros HF i c mm cur outer depths dep Hd.
  - simpl. now rewrite app_nil_r.
  - inversion HF as [|? ? Hk Hr]; subst. unfold walk_list in *. cbn [fold_left].
    rewrite Hk. assert (Hlt : Nat.ltb 0 dep = true) by now apply Nat.ltb_lt.
    rewrite Hlt. destruct (node_is_class k); rewrite IH by assumption; cbn [flat_map]; now rewrite app_assoc.
Qed.

(* the body of a class: its defs become its methods, nested classes are recorded *)
Lemma walk_kids_class : forall kids,
    Forall node_ok kids ->
    forall i c mm nm d fs outer depths,
      walk_list kids (mkPS i c mm (Some (nm, d, fs)) outer depths 0 false) =
      mkPS i (c ++ flat_map emit kids) mm (Some (nm, d, fs ++ map meth_out (filter is_def kids))) outer depths 0 false.
Proof.
  induction kids as [|k kids IH]; intros HF i c mm nm d fs outer depths.
  - simpl. now rewrite !app_nil_r.
  - inversion HF as [|? ? Hk Hr]; subst. unfold walk_list in *. cbn [fold_left].
    rewrite Hk. cbn [Nat.ltb Nat.leb filter]. unfold is_def at 1.
    destruct (node_is_class k) eqn:Ek; cbn [negb].
    + rewrite IH by assumption. cbn [flat_map]. now rewrite app_assoc.
    + cbn [list_def fst snd]. rewrite IH by assumption. cbn [flat_map map].
      unfold meth_out at 2. rewrite <- !app_assoc. reflexivity.
Qed.

Lemma walk_node : forall n, node_ok n.
Proof.
  induction n as [k d nm kids IH] using pnode_ind2. intros i c mm cur outer depths dep.
  rewrite walk_unfold, emit_unfold. cbn [node_is_class node_name node_decos]. destruct k.
  - cbn [enter_node ps_crashed ps_imports ps_classes ps_members ps_cur ps_outer ps_depths ps_depth].
    rewrite (walk_kids_class kids IH). cbn. now rewrite app_assoc.
  - unfold enter_node. cbn [ps_crashed ps_depth ps_imports ps_classes ps_members ps_cur ps_outer ps_depths].
    destruct (Nat.ltb 0 dep) eqn:E.
    + rewrite (walk_kids_def kids IH) by lia. cbn. now rewrite app_nil_r.
    + assert (dep = 0) by (apply Nat.ltb_ge in E; lia). subst dep.
      destruct cur as [[[cn cd] fs]|]; rewrite (walk_kids_def kids IH) by lia; cbn; now rewrite app_nil_r.
Qed.

(* ------------------------------------------------------------------ whole modules *)
(* from-import names: at least one, no alias, no comma inside a name *)
Definition from_ok (names : list (string * string)) : bool :=
  forallb (fun na => String.eqb (snd na) "") names &&
  forallb comma_free (map fst names) &&
  match names with [] => false | _ => true end.

Definition item_ok (it : pitem) : bool :=
  match it with
  | PImport [_] => true
  | PImport _ => false
  | PFrom _ names _ => from_ok names
  | PDecl _ => true
  end.

Definition out_imports (m : pmodule) : list pimport :=
  flat_map (fun it => match it with
                      | PImport names => [import_entry names]
                      | PFrom s names _ => [from_entry s names]
                      | PDecl _ => [] end) m.

Definition out_classes (m : pmodule) : list pclass := flat_map emit (top_nodes m).

Definition out_members (m : pmodule) : list pmember :=
  flat_map (fun it => match it with
                      | PDecl (PNode false d nm _) => [(nm, [(nm, d)])]
                      | _ => [] end) m.

Lemma top_nodes_cons : forall it m,
    top_nodes (it :: m) = (match it with PDecl n => [n] | _ => [] end) ++ top_nodes m.
Proof. reflexivity. Qed.

Lemma fold_items : forall m i c mm,
    fold_left item_step m (mkPS i c mm None [] [] 0 false) =
    mkPS (i ++ out_imports m) (c ++ out_classes m) (mm ++ out_members m) None [] [] 0 false.
Proof.
  induction m as [|it m IH]; intros i c mm.
  - simpl. unfold out_classes. simpl. now rewrite !app_nil_r.
  - cbn [fold_left]. unfold out_classes. rewrite top_nodes_cons.
    destruct it as [names|src names paren|n].
    + cbn [item_step ps_crashed ps_imports ps_classes ps_members ps_cur ps_outer ps_depths ps_depth].
      rewrite IH. cbn [out_imports out_members flat_map app]. unfold out_classes. now rewrite <- app_assoc.
    + cbn [item_step ps_crashed ps_imports ps_classes ps_members ps_cur ps_outer ps_depths ps_depth].
      rewrite IH. cbn [out_imports out_members flat_map app]. unfold out_classes. now rewrite <- app_assoc.
    + cbn [item_step ps_crashed]. rewrite walk_node. destruct n as [k d nm kids]. cbn [node_is_class]. destruct k.
      * rewrite IH. cbn [out_imports out_members flat_map app]. unfold out_classes. now rewrite <- app_assoc.
      * cbn [Nat.ltb Nat.leb list_def fst snd node_name node_decos]. rewrite IH.
        cbn [out_imports out_members flat_map app]. unfold out_classes. now rewrite <- !app_assoc.
Qed.

Definition module_output (m : pmodule) : pfile := mkPFile (out_imports m) (out_classes m) (out_members m).

(* what the listener returns, on EVERY module *)
Theorem py_module_output : forall m, py_front m = POk (module_output m).
Proof. intros m. unfold py_front, pstate0. rewrite fold_items. reflexivity. Qed.

(* the Python front-end never crashes *)
Theorem py_no_crash : forall m, exists o, py_front m = POk o.
Proof. intros m. rewrite py_module_output. eauto. Qed.

(* ------------------------------------------------------------------ the clauses *)
Definition class_rec (c : pnode) : pclass :=
  (node_name c, node_decos c, map meth_out (filter is_def (node_kids c))).

Lemma flat_map_perm : forall (A B : Type) (f g : A -> list B) l,
    Forall (fun x => Permutation (f x) (g x)) l -> Permutation (flat_map f l) (flat_map g l).
Proof.
  induction l as [|x l IH]; intros H; simpl; auto. inversion H; subst. apply Permutation_app; auto.
Qed.

Lemma map_flat_map : forall (A B C : Type) (g : B -> C) (f : A -> list B) l,
    map g (flat_map f l) = flat_map (fun x => map g (f x)) l.
Proof. induction l as [|x l IH]; auto. cbn [flat_map]. rewrite map_app. now rewrite IH. Qed.

(* the classes produced are the class records of the declared classes, up to order *)
Lemma emit_perm : forall n, Permutation (emit n) (map class_rec (classes_of n)).
Proof.
  induction n as [k d nm kids IH] using pnode_ind2.
  rewrite emit_unfold, classes_of_unfold.
  assert (Hk : Permutation (flat_map emit kids) (map class_rec (flat_map classes_of kids))).
  { rewrite map_flat_map. apply flat_map_perm. exact IH. }
  destruct k.
  - cbn [app map]. change (class_rec (PNode true d nm kids)) with (nm, d, map meth_out (filter is_def kids)).
    eapply perm_trans; [apply Permutation_app_comm|]. cbn [app]. now apply perm_skip.
  - cbn [app]. now rewrite app_nil_r.
Qed.

Lemma out_classes_perm : forall m, Permutation (out_classes m) (map class_rec (declared_classes m)).
Proof.
  intros m. unfold out_classes, declared_classes. rewrite map_flat_map. apply flat_map_perm.
  rewrite Forall_forall. intros n _. apply emit_perm.
Qed.

Lemma class_rec_name : forall l, map pc_name (map class_rec l) = map node_name l.
Proof. intros. rewrite map_map. apply map_ext. intros [k d nm kids]. reflexivity. Qed.

Lemma module_py_classes : forall m, py_classes_ok m (module_output m) = true.
Proof.
  intros m. unfold py_classes_ok, module_output. cbn [pf_classes].
  apply ms_eqb_perm. rewrite <- class_rec_name. apply Permutation_map. apply out_classes_perm.
Qed.

Definition class_names (m : pmodule) : list string := map node_name (declared_classes m).
Definition func_names (m : pmodule) : list string := map node_name (declared_functions m).

Lemma ms_eqb_by_perm : forall (A : Type) (e : A -> A -> bool) a b,
    Permutation a b -> ms_eqb_by e a b = true.
Proof.
  intros A e a b H. unfold ms_eqb_by. apply forallb_forall. intros k _. apply Nat.eqb_eq.
  unfold count_by. apply Permutation_length. now apply filter_perm.
Qed.

Lemma class_methods_defs : forall c, class_methods c = filter is_def (node_kids c).
Proof. reflexivity. Qed.

Lemma expected_class_rec : forall l, map expected_class l = map class_rec l.
Proof. intros l. apply map_ext. intros c. reflexivity. Qed.

(* no hypothesis on names: duplicates (two classes of one name, local to two methods) are matched as a multiset *)
Lemma module_py_methods : forall m, py_methods_ok m (module_output m) = true.
Proof.
  intros m. unfold py_methods_ok, module_output. cbn [pf_classes].
  apply ms_eqb_by_perm. rewrite expected_class_rec. apply out_classes_perm.
Qed.

Lemma decos_eqb_refl : forall l, decos_eqb l l = true.
Proof. intros. unfold decos_eqb. apply strs_eqb_refl. Qed.

Lemma member_func_names : forall m,
    map fst (obs_member_funcs (module_output m)) = map node_name (declared_functions m).
Proof.
  intros m. unfold obs_member_funcs, module_output, declared_functions, top_nodes. cbn [pf_members].
  induction m as [|it m IH]; auto.
  destruct it as [names|src names paren|[[|] d nm kids]]; cbn [out_members flat_map app map filter]; auto.
  fold (out_members m). cbn. now rewrite IH.
Qed.

Lemma member_funcs_expected : forall m,
    obs_member_funcs (module_output m) = map expected_func (declared_functions m).
Proof.
  intros m. unfold obs_member_funcs, module_output, declared_functions, top_nodes. cbn [pf_members].
  induction m as [|it m IH]; auto.
  destruct it as [names|src names paren|[[|] d nm kids]]; cbn [out_members flat_map app map filter]; auto.
  fold (out_members m). cbn. now rewrite IH.
Qed.

Lemma module_py_decorators : forall m, py_decorators_ok m (module_output m) = true.
Proof.
  intros m. unfold py_decorators_ok. apply andb_true_iff. split.
  - unfold module_output. cbn [pf_classes]. apply ms_eqb_by_perm. rewrite expected_class_rec.
    apply out_classes_perm.
  - rewrite member_funcs_expected. apply ms_eqb_by_perm. apply Permutation_refl.
Qed.

Lemma module_py_functions : forall m, py_functions_ok m (module_output m) = true.
Proof.
  intros m. unfold py_functions_ok. apply andb_true_iff. split.
  - rewrite member_func_names. apply ms_eqb_refl.
  - unfold module_output. cbn [pf_members]. apply forallb_forall. intros mb Hmb.
    unfold out_members in Hmb. apply in_flat_map in Hmb. destruct Hmb as [it [_ Hin]].
    destruct it as [names|src names paren|[[|] d nm kids]]; try (destruct Hin; fail).
    destruct Hin as [Hin|[]]. subst mb. cbn. apply String.eqb_refl.
Qed.

Lemma usage_match_plain : forall names,
    forallb (fun na => String.eqb (snd na) "") names = true -> usage_match names (map fst names) = true.
Proof.
  induction names as [|[n a] r IH]; intros H; auto.
  simpl in H. apply andb_true_iff in H. destruct H as [_ Hr].
  cbn [usage_match map fst]. rewrite String.eqb_refl. cbn. now apply IH.
Qed.

Lemma as_text_plain : forall names,
    forallb (fun na => String.eqb (snd na) "") names = true -> map as_text names = map fst names.
Proof.
  induction names as [|[n a] r IH]; intros H; auto.
  simpl in H. apply andb_true_iff in H. destruct H as [Ha Hr].
  cbn [map]. unfold as_text at 1. cbn [fst snd] in *. rewrite Ha. now rewrite IH.
Qed.

Lemma module_py_imports : forall m, forallb item_ok m = true -> py_imports_ok m (module_output m) = true.
Proof.
  intros m H. unfold py_imports_ok, module_output. cbn [pf_imports].
  induction m as [|it m IH]; auto.
  simpl in H. apply andb_true_iff in H. destruct H as [Hit Hm].
  destruct it as [names|src names paren|n]; cbn [declared_imports out_imports flat_map app].
  - destruct names as [|[d a] [|x r]]; try discriminate.
    cbn [map app imports_match import_match import_entry fst snd].
    rewrite String.eqb_refl. rewrite app_nil_r. rewrite strs_eqb_refl. cbn. now apply IH.
  - cbn [item_ok] in Hit. unfold from_ok in Hit. apply andb_true_iff in Hit. destruct Hit as [Hit Hn].
    apply andb_true_iff in Hit. destruct Hit as [Ha Hc].
    cbn [imports_match import_match from_entry fst snd]. rewrite String.eqb_refl.
    rewrite as_text_plain by assumption.
    rewrite split_join; [|destruct names; [discriminate|cbn [map]; discriminate]|assumption].
    rewrite usage_match_plain by assumption. cbn. now apply IH.
  - now apply IH.
Qed.


(* Every Python module -- classes and defs nested in each other in any way and to any depth,
   decorators anywhere, the same class name, method name or function name any number of times -- with
   one module per import statement and alias-free from-imports is listed exactly. *)
Theorem py_decls_exact : forall m,
    forallb item_ok m = true ->
    py_verdict m (py_front m) = [].
Proof.
  intros m H. rewrite py_module_output. unfold py_verdict.
  rewrite module_py_classes, module_py_methods, module_py_decorators, module_py_functions, module_py_imports
    by assumption.
  reflexivity.
Qed.

(* whatever the import statements look like, the declaration clauses hold *)
Theorem py_listing_exact : forall m o,
    py_front m = POk o ->
    py_classes_ok m o = true /\ py_methods_ok m o = true /\ py_decorators_ok m o = true /\
    py_functions_ok m o = true.
Proof.
  intros m o Ho. rewrite py_module_output in Ho. inversion Ho; subst o.
  repeat split; [apply module_py_classes|apply module_py_methods|apply module_py_decorators|
                 apply module_py_functions]; auto.
Qed.

(* ------------------------------------------------------------------ import a, b (still open) *)
Lemma imports_of_output : forall m, pf_imports (module_output m) = out_imports m.
Proof. reflexivity. Qed.

Definition import_items (m : pmodule) : nat :=
  List.length (filter (fun it => match it with PDecl _ => false | _ => true end) m).

Lemma out_imports_length : forall m, List.length (out_imports m) = import_items m.
Proof.
  induction m as [|it m IH]; auto. unfold out_imports, import_items in *. cbn [flat_map filter].
  rewrite app_length, IH. destruct it; reflexivity.
Qed.

Lemma imports_match_length : forall es os, imports_match es os = true -> List.length es = List.length os.
Proof.
  induction es as [|e es IH]; destruct os as [|o os]; simpl; intros H; auto; try discriminate.
  apply andb_true_iff in H. destruct H as [_ H]. f_equal. now apply IH.
Qed.

Definition import_lists_nonempty (m : pmodule) : bool :=
  forallb (fun it => match it with PImport [] => false | _ => true end) m.

Definition has_import_list (m : pmodule) : bool :=
  existsb (fun it => match it with PImport (_ :: _ :: _) => true | _ => false end) m.

Lemma declared_imports_count : forall m,
    import_lists_nonempty m = true ->
    import_items m + (if has_import_list m then 1 else 0) <= List.length (declared_imports m).
Proof.
  induction m as [|it m IH]; intros H; [simpl; lia|].
  simpl in H. apply andb_true_iff in H. destruct H as [Hit Hm]. specialize (IH Hm).
  unfold declared_imports, import_items, has_import_list in *. cbn [flat_map filter existsb].
  rewrite app_length.
  destruct it as [names|src names paren|n]; cbn [List.length].
  - destruct names as [|a [|b r]]; [discriminate| |].
    + cbn [map List.length orb]. destruct (existsb _ m); simpl in *; lia.
    + cbn [map List.length orb]. destruct (existsb _ m); simpl in *; lia.
  - cbn [orb]. destruct (existsb _ m); simpl in *; lia.
  - cbn [orb]. destruct (existsb _ m); simpl in *; lia.
Qed.

(* "import a, b" (two or more modules in one statement) is never listed correctly: the
   front-end produces one entry per statement, the module declares one import per name. *)
Theorem py_import_list_never_exact : forall m o,
    import_lists_nonempty m = true ->
    has_import_list m = true ->
    py_front m = POk o ->
    py_imports_ok m o = false.
Proof.
  intros m o Hne Hl Hr. rewrite py_module_output in Hr. inversion Hr; subst o. clear Hr.
  unfold py_imports_ok. rewrite imports_of_output.
  destruct (imports_match _ _) eqn:E; auto.
  apply imports_match_length in E. rewrite out_imports_length in E.
  pose proof (declared_imports_count m Hne) as H2. rewrite Hl in H2. lia.
Qed.

(* ================================================================== CommonAnalysis (function base) *)
Lemma visit_map_keys : forall sc pkg imps ds st k,
    In k (mkeys (v_map (visit sc pkg imps ds st))) -> In k (mkeys (v_map st)) \/ In k (tnames ds).
Proof.
  induction ds as [|d ds IH]; intros st k H; auto. unfold visit in *. cbn [fold_left] in H.
  apply IH in H. unfold tnames. cbn [flat_map]. destruct H as [H|H]; [|right; apply in_or_app; now right].
  destruct d as [n fs|n ms|n ty|[r|] n ps rs b]; cbn [decl_step v_map type_name] in *; auto;
    try (apply mkeys_mput_in in H; destruct H as [H|H]; [subst; right; apply in_or_app; left; now left|now left]).
  destruct (mget (v_map st) (rv_type r)) as [c|] eqn:E; cbn [v_map] in H; auto.
  apply mkeys_mput_in in H. destruct H as [H|H]; auto. subst. left. eapply mget_some_in_keys; eauto.
Qed.

Lemma visit_pending_keys : forall sc pkg imps ds st k,
    In k (mkeys (v_pending (visit sc pkg imps ds st))) ->
    In k (mkeys (v_pending st)) \/ In k (recv_types ds).
Proof.
  induction ds as [|d ds IH]; intros st k H; auto. unfold visit in *. cbn [fold_left] in H.
  apply IH in H. unfold recv_types. cbn [flat_map]. destruct H as [H|H]; [|right; apply in_or_app; now right].
  destruct d as [n fs|n ms|n ty|[r|] n ps rs b]; cbn [decl_step v_pending] in *; auto.
  destruct (mget (v_map st) (rv_type r)) as [c|] eqn:E; cbn [v_pending] in H; auto.
  apply mkeys_mput_in in H. destruct H as [H|H]; auto. subst. right. apply in_or_app. left. now left.
Qed.

Lemma finalize_keys : forall pkg pend m k,
    In k (mkeys (finalize pkg pend m)) -> In k (mkeys m) \/ In k (mkeys pend).
Proof.
  induction pend as [|[r ms] pend IH]; intros m k H; auto. unfold finalize in *. cbn [fold_left] in H.
  apply IH in H. cbn [mkeys map fst]. destruct H as [H|H]; [|right; now right].
  unfold attach_pending in H. cbn [fst snd] in H.
  destruct (mget m r) as [c|] eqn:E; apply mkeys_mput_in in H; destruct H as [H|H]; auto;
    subst; right; now left.
Qed.

Lemma wf_names_keys : forall m, wf_map m -> map od_name (map snd m) = mkeys m.
Proof.
  intros m [_ H]. unfold mkeys. induction m as [|[k c] m IH]; auto.
  inversion H as [|? ? Hc Hr]; subst. cbn [map snd fst] in *. rewrite Hc. f_equal. now apply IH.
Qed.

Lemma method_ds_members : forall sc pkg imps l,
    method_ds_names (flat_map (decl_members sc pkg imps) l) =
    map (fun n => (n, [])) (filter is_upper_first (free_names l)).
Proof.
  induction l as [|d l IH]; auto. unfold method_ds_names, free_names in *. cbn [flat_map].
  rewrite flat_map_app, filter_app, map_app, IH. f_equal.
  destruct d as [n fs|n [|m ms]|n ty|[r|] n ps rs b]; cbn; auto.
  destruct (is_upper_first n); reflexivity.
Qed.

(* analysis.CommonAnalysis over a directory holding the file names every declared type once and
   every exported top-level function once *)
Theorem go_common_exact : forall f,
    nodup_b (type_names f) = true -> receivers_declared_b f = true ->
    exists obs, go_common (go_front f) = Some obs /\ go_common_ok f obs = true.
Proof.
  intros f Htn Hrecv. rewrite go_front_O. eexists. split; [reflexivity|].
  set (sc := file_scope (gf_decls f)). set (imps := map build_import (gf_imports f)).
  set (st := visit sc (gf_pkg f) imps (gf_decls f) vstate0).
  unfold go_common_ok. cbn [o_dss o_members]. rewrite map_app, map_map. cbn [fst].
  assert (Hm : map fst (method_ds_names (v_members st)) = filter is_upper_first (map fst (func_decls f))).
  { unfold st. rewrite visit_members. cbn [vstate0 v_members app]. rewrite method_ds_members.
    rewrite map_map. cbn [fst]. rewrite map_id. now rewrite free_names_func_decls. }
  rewrite Hm. apply ms_eqb_perm. apply Permutation_app_tail.
  pose proof (wf_final f) as Hwf. fold sc imps st in Hwf.
  apply NoDup_Permutation.
  - apply (Permutation_NoDup (Permutation_sym (Permutation_map od_name (sort_dss_perm _)))).
    rewrite wf_names_keys by exact Hwf. apply Hwf.
  - now apply nodup_b_sound.
  - intros t. split; intros H.
    + apply in_map_iff in H. destruct H as [c [Hn Hc]].
      apply (Permutation_in _ (sort_dss_perm _)) in Hc.
      assert (Hk : In t (mkeys (final_map (gf_pkg f) st))).
      { rewrite <- wf_names_keys by exact Hwf. rewrite <- Hn. now apply in_map. }
      unfold final_map in Hk. apply finalize_keys in Hk. destruct Hk as [Hk|Hk].
      * unfold st in Hk. apply visit_map_keys in Hk. destruct Hk as [[]|Hk].
        now rewrite type_names_tnames.
      * unfold st in Hk. apply visit_pending_keys in Hk. destruct Hk as [[]|Hk].
        unfold recv_types in Hk. apply in_flat_map in Hk. destruct Hk as [d [Hd Hk]].
        unfold receivers_declared_b in Hrecv. rewrite forallb_forall in Hrecv. specialize (Hrecv d Hd).
        destruct d as [| | |[r|] n ps rs b]; try (destruct Hk; fail). destruct Hk as [Hk|[]].
        cbn in Hrecv. apply str_mem_In in Hrecv. rewrite Hk in Hrecv. exact Hrecv.
    + rewrite type_names_tnames in H. apply in_tnames in H. destruct H as [T [HT Htn']].
      destruct (cell_of_in f Htn T t HT Htn') as [l1 [l2 [_ Hc]]]. fold sc imps st in Hc.
      unfold dss_named in Hc. cbn [o_dss] in Hc.
      assert (Hin : In (with_funcs (type_cell (gf_pkg f) imps T)
                                   (meth_funcs sc (gf_pkg f) imps t l2 ++ meth_funcs sc (gf_pkg f) imps t l1))
                       (filter (fun d => String.eqb (od_name d) t)
                               (sort_dss (map snd (final_map (gf_pkg f) st))))).
      { rewrite Hc. now left. }
      apply filter_In in Hin. destruct Hin as [Hin Hn]. apply String.eqb_eq in Hn.
      rewrite <- Hn. now apply in_map.
Qed.

Theorem py_common_exact : forall m,
    exists obs, py_common (py_front m) = Some obs /\ py_common_ok m obs = true.
Proof.
  intros m. rewrite py_module_output. eexists. split; [reflexivity|].
  unfold py_common_ok. rewrite map_app. rewrite map_map. cbn [fst].
  change (map (fun c : pclass => fst (fst c)) (pf_classes (module_output m))) with (map pc_name (out_classes m)).
  assert (Hf : map fst (flat_map (fun mb : pmember =>
                  flat_map (fun fn : pfunc => if py_is_upper_first (fst fn) then [(fst fn, @nil string)] else [])
                           (snd mb)) (pf_members (module_output m))) =
               filter py_is_upper_first (map node_name (declared_functions m))).
  { rewrite <- member_func_names. unfold obs_member_funcs.
    induction (pf_members (module_output m)) as [|mb r IH]; auto.
    cbn [flat_map]. rewrite !map_app, filter_app. rewrite IH. f_equal.
    induction (snd mb) as [|fn fr IHf]; auto. cbn [flat_map map filter].
    destruct (py_is_upper_first (fst fn)); cbn; now rewrite IHf. }
  rewrite Hf. apply ms_eqb_perm. apply Permutation_app_tail.
  rewrite <- class_rec_name. apply Permutation_map. apply out_classes_perm.
Qed.

(* ================================================================== witnesses and instances *)
Definition recvp (v t : string) := Some (mkGRecv v t true).
Definition recvv (v t : string) := Some (mkGRecv v t false).
Definition p1 (n : string) (t : gtype) := mkGParam [n] t.
Definition call0 (x f : string) := mkGCall x f [].

(* type A struct{ x int }; func (a A) M1() { fmt.Println("a") }; type B struct{ y string };
   func (b *B) M2() { b.help() }; func (a *A) M3() {} *)
Definition ex_two_structs : gfile :=
  mkGFile "demo" [("", "fmt")]
    [DStruct "A" [p1 "x" (TId "int")];
     DFunc (recvv "a" "A") "M1" [] [] (Some [SExpr (mkGCall "fmt" "Println" [AStr "a"])]);
     DStruct "B" [p1 "y" (TId "string")];
     DFunc (recvp "b" "B") "M2" [] [] (Some [SExpr (call0 "b" "help")]);
     DFunc (recvp "a" "A") "M3" [] [] (Some [])].

Definition ex_method_first : gfile :=
  mkGFile "demo" [] [DFunc (recvv "a" "A") "M1" [] [] (Some []); DStruct "A" [p1 "x" (TId "int")]].

Definition ex_bodyless : gfile :=
  mkGFile "demo" [] [DFunc None "Add" [p1 "a" (TId "int"); p1 "b" (TId "int")] [mkGParam [] (TId "int")] None].

Definition ex_grouped : gfile :=
  mkGFile "demo" [] [DStruct "P" [mkGParam ["x"; "y"] (TId "int")];
                     DFunc None "Add" [mkGParam ["a"; "b"] (TId "int")] [mkGParam [] (TId "int")]
                           (Some [SReturn [XAtom (AId "a")]])].

Definition ex_call_in_if : gfile :=
  mkGFile "demo" [("", "fmt")]
    [DFunc None "Run" [] [] (Some [SIf [SExpr (mkGCall "fmt" "Println" [AStr "x"])] []])].

(* three types in an order that mixes them with their methods: a method before its type,
   an interface between two structs, grouped names, a declaration without body, calls nested
   in if / else if / blocks *)
Definition ex_multi : gfile :=
  mkGFile "demo" [("", "fmt"); ("str", "strings"); ("", "net/http")]
    [DFunc (recvp "p" "Person") "Greet" [p1 "w" (TSel "http" "ResponseWriter")] []
           (Some [SExpr (mkGCall "w" "Write" [ASel "p" "name"]); SDefer (call0 "p" "done");
                  SIf [SExpr (mkGCall "fmt" "Println" [AStr "x"]);
                       SIf [SExpr (call0 "p" "log")] [SBlock [SExpr (call0 "p" "log")]]]
                      [SIf [SAssign [LId "s"] [XCall (mkGCall "str" "ToUpper" [ASel "p" "name"])];
                            SExpr (mkGCall "fmt" "Println" [AId "s"])] []]]);
     DFunc None "NewPerson" [mkGParam ["first"; "last"] (TId "string")] [mkGParam [] (TStar "Person")]
           (Some [SExpr (mkGCall "fmt" "Println" [AStr "new"; AId "first"]); SReturn [XAtom (AId "nil")]]);
     DStruct "Person" [mkGParam ["name"; "nick"] (TId "string"); p1 "age" (TId "int");
                       mkGParam [] (TStar "Base"); p1 "client" (TStarSel "http" "Client")];
     DIface "Greeter" [mkGIM "Greet" [p1 "w" (TSel "http" "ResponseWriter")] [];
                       mkGIM "Name" [] [mkGParam [] (TId "string")]];
     DFunc (recvv "p" "Person") "done" [] [] (Some [SReturn []]);
     DFunc (recvv "b" "Base") "Reset" [] [] (Some [SExpr (call0 "b" "clear")]);
     DStruct "Base" [p1 "id" (TId "int")];
     DFunc None "sum" [mkGParam ["a"; "b"] (TId "int")] [mkGParam [] (TId "int")] None;
     DType "Names" (TArr "string");
     DFunc (recvv "n" "Names") "Len" [] [mkGParam [] (TId "int")] (Some [SReturn [XAtom (AInt "0")]]);
     DFunc (recvp "b" "Base") "clear" [] [] (Some [])].

(* -- the shapes of the repaired defects are now listed exactly *)
Lemma go_two_structs_exact :
  go_verdict ex_two_structs (go_front ex_two_structs) = [] /\
  (exists o, go_front ex_two_structs = GOk o /\ map od_name (o_dss o) = ["A"; "B"] /\
             map (fun d => map of_name (od_funcs d)) (o_dss o) = [["M1"; "M3"]; ["M2"]]).
Proof. split; [vm_compute; reflexivity|]. eexists. split; [vm_compute; reflexivity|]. split; reflexivity. Qed.

Lemma go_method_before_type_exact :
  go_verdict ex_method_first (go_front ex_method_first) = [] /\
  (exists o, go_front ex_method_first = GOk o /\
             map (fun d => (od_name d, map of_name (od_funcs d))) (o_dss o) = [("A", ["M1"])]).
Proof. split; [vm_compute; reflexivity|]. eexists. split; [vm_compute; reflexivity|]. reflexivity. Qed.

Lemma go_bodyless_exact : go_verdict ex_bodyless (go_front ex_bodyless) = [].
Proof. vm_compute; reflexivity. Qed.

Lemma go_grouped_names_exact : go_verdict ex_grouped (go_front ex_grouped) = [].
Proof. vm_compute; reflexivity. Qed.

(* a function literal passed as the last argument: its calls, its deferred local call and its nested literal are
   statements of the function, each selector call listed ONCE and before the call that takes the literal *)
Definition ex_call_lit : gfile :=
  mkGFile "demo" [("", "fmt"); ("", "sync")]
    [DFunc None "Run" [p1 "wg" (TStarSel "sync" "WaitGroup")] []
           (Some [SCallLit (mkGCall "wg" "Go" [])
                           [SDefer (mkGCall "" "cleanup" []);
                            SExpr (mkGCall "fmt" "Println" [AStr "start"]);
                            SExpr (mkGCall "wg" "Add" [AInt "1"]);
                            SCallLit (mkGCall "fmt" "Sscan" [AStr "x"]) [SExpr (call0 "wg" "Done")]];
                  SExpr (call0 "wg" "Wait")])].

Lemma go_call_lit_exact :
  go_verdict ex_call_lit (go_front ex_call_lit) = [] /\
  (exists o, go_front ex_call_lit = GOk o /\
             map (fun fn => map (fun c => (oc_node c, oc_fn c)) (of_calls fn)) (obs_funcs o)
             = [[("cleanup", ""); ("cleanup", ""); ("fmt", "Println"); ("wg", "Add"); ("wg", "Done"); ("fmt", "Sscan");
                 ("wg", "Go"); ("wg", "Wait")]]).
Proof. split; [vm_compute; reflexivity|]. eexists. split; [vm_compute; reflexivity|]. vm_compute. reflexivity. Qed.

(* open finding D-C20-lit-defer: "exactly once" is FALSE of the faithful model for a selector call deferred directly
   inside a function literal -- BuildCallFromExpr files the call BuildMethodCall has already filed *)
Definition ex_lit_defer : gfile :=
  mkGFile "demo" [("", "fmt")]
    [DFunc None "Run" [] [] (Some [SCallLit (mkGCall "" "each" []) [SDefer (mkGCall "fmt" "Println" [AStr "done"])]])].

Lemma go_lit_defer_refuted :
  go_verdict ex_lit_defer (go_front ex_lit_defer) = ["go_calls"] /\
  (exists o, go_front ex_lit_defer = GOk o /\
             map (fun fn => map (fun c => (oc_node c, oc_fn c)) (of_calls fn)) (obs_funcs o)
             = [[("fmt", "Println"); ("fmt", "Println"); ("each", "")]]).
Proof. split; [vm_compute; reflexivity|]. eexists. split; [vm_compute; reflexivity|]. vm_compute. reflexivity. Qed.

Lemma go_call_in_if_exact : go_verdict ex_call_in_if (go_front ex_call_in_if) = [].
Proof. vm_compute; reflexivity. Qed.

(* -- the hypotheses of go_decls_exact are satisfiable by a file of every repaired shape at once *)
Lemma go_multi_example : go_verdict ex_multi (go_front ex_multi) = [].
Proof. apply go_decls_exact; vm_compute; reflexivity. Qed.

Lemma go_multi_common_example :
  exists obs, go_common (go_front ex_multi) = Some obs /\ go_common_ok ex_multi obs = true.
Proof. apply go_common_exact; vm_compute; reflexivity. Qed.

(* Python *)
Definition ex_py_nested : pmodule :=
  [PImport [("os", "")]; PFrom "m" [("f1", ""); ("f2", "")] false;
   PDecl (PNode true [("dataclass", [])] "Outer"
                [PNode false [] "create" [PNode false [("cache", [])] "inner" []];
                 PNode true [] "Inner" [PNode false [] "im" []; PNode true [] "Deep" [PNode false [] "dm" []]];
                 PNode false [] "save" []]);
   PDecl (PNode false [("cache", [])] "index" [PNode false [] "helper" []])].

Definition ex_py_import_list : pmodule := [PImport [("a", ""); ("b", "")]].
Definition ex_py_from_as : pmodule := [PFrom "m" [("x", "y")] false].
(* def f(): class C: def m(self) *)
Definition ex_py_local_class : pmodule :=
  [PDecl (PNode false [] "f" [PNode true [] "C" [PNode false [] "m" []]])].

Lemma py_nested_example :
  py_verdict ex_py_nested (py_front ex_py_nested) = [] /\
  (exists o, py_front ex_py_nested = POk o /\
             map (fun c : pclass => (fst (fst c), map fst (snd c))) (pf_classes o) =
             [("Deep", ["dm"]); ("Inner", ["im"]); ("Outer", ["create"; "save"])] /\
             map fst (pf_members o) = ["index"]).
Proof.
  split; [apply py_decls_exact; vm_compute; reflexivity|].
  eexists. split; [vm_compute; reflexivity|]. split; reflexivity.
Qed.

Lemma py_import_list_refuted :
  py_front ex_py_import_list = POk (mkPFile [("a", ["b"])] [] []) /\
  py_verdict ex_py_import_list (py_front ex_py_import_list) = ["py_imports"].
Proof. split; vm_compute; reflexivity. Qed.

Lemma py_import_list_example :
  import_lists_nonempty ex_py_import_list = true /\ has_import_list ex_py_import_list = true.
Proof. split; reflexivity. Qed.

Lemma py_from_as_refuted :
  py_front ex_py_from_as = POk (mkPFile [("m", ["xasy"])] [] []) /\
  py_verdict ex_py_from_as (py_front ex_py_from_as) = ["py_imports"].
Proof. split; vm_compute; reflexivity. Qed.

(* def f(): class C: def m(self) -- listed again since f295c5c *)
Lemma py_local_class_example :
  py_front ex_py_local_class = POk (mkPFile [] [("C", [], [("m", [])])] [("f", [("f", [])])]) /\
  py_verdict ex_py_local_class (py_front ex_py_local_class) = [].
Proof. split; [vm_compute; reflexivity|apply py_decls_exact; vm_compute; reflexivity]. Qed.

(* class Base: def run(self): class L: pass   /  class Svc: @property def x / @x.setter def x; def run(self): class L: def stop
   -- the same class name twice (local to two methods), the same method name twice in a class: listed exactly, and
   the decider tells the two L apart: an output that gives both no method, or drops the setter's decorator, is
   rejected *)
Definition ex_py_dups : pmodule :=
  [PDecl (PNode true [] "Base" [PNode false [] "run" [PNode true [] "L" []]]);
   PDecl (PNode true [] "Svc" [PNode false [("property", [])] "x" []; PNode false [("x.setter", [])] "x" [];
                                PNode false [] "run" [PNode true [] "L" [PNode false [] "stop" []]]])].

Lemma py_dups_example :
  py_front ex_py_dups =
    POk (mkPFile [] [("L", [], []); ("Base", [], [("run", [])]); ("L", [], [("stop", [])]);
                     ("Svc", [], [("x", [("property", [])]); ("x", [("x.setter", [])]); ("run", [])])] []) /\
  py_verdict ex_py_dups (py_front ex_py_dups) = [] /\
  py_verdict ex_py_dups
    (POk (mkPFile [] [("L", [], []); ("Base", [], [("run", [])]); ("L", [], []);
                      ("Svc", [], [("x", [("property", [])]); ("x", [("x.setter", [])]); ("run", [])])] []))
    = ["py_methods"; "py_decorators"] /\
  py_verdict ex_py_dups
    (POk (mkPFile [] [("L", [], []); ("Base", [], [("run", [])]); ("L", [], [("stop", [])]);
                      ("Svc", [], [("x", [("property", [])]); ("x", [("property", [])]); ("run", [])])] []))
    = ["py_decorators"].
Proof. split; [vm_compute; reflexivity|]. split; [apply py_decls_exact; vm_compute; reflexivity|]. split; vm_compute; reflexivity. Qed.

(* the entry of a declared type, stated on go_front *)
Lemma go_cell_of_decl : forall f,
    nodup_b (type_names f) = true ->
    forall l1 T l2 t,
      gf_decls f = l1 ++ T :: l2 -> type_name T = Some t ->
      exists o, go_front f = GOk o /\
                dss_named o t =
                [with_funcs (type_cell (gf_pkg f) (map build_import (gf_imports f)) T)
                            (meth_funcs (file_scope (gf_decls f)) (gf_pkg f) (map build_import (gf_imports f)) t l2 ++
                             meth_funcs (file_scope (gf_decls f)) (gf_pkg f) (map build_import (gf_imports f)) t l1)].
Proof.
  intros f H l1 T l2 t Hd Ht. eexists. split; [apply go_front_O|]. exact (cell_of_decl f H l1 T l2 t Hd Ht).
Qed.

(* a method whose receiver type is declared in another file of the package *)
Definition ex_other_file : gfile :=
  mkGFile "demo" [("", "fmt")]
    [DFunc (recvp "e" "Elsewhere") "Run" [p1 "n" (TId "int")] []
           (Some [SExpr (mkGCall "fmt" "Println" [AId "n"]); SExpr (call0 "e" "stop")]);
     DStruct "A" [p1 "x" (TId "int")];
     DFunc (recvv "e" "Elsewhere") "stop" [] [] (Some [])].

Lemma go_other_file_example :
  go_verdict ex_other_file (go_front ex_other_file) = [] /\
  (exists o, go_front ex_other_file = GOk o /\
             map (fun d => (od_name d, map of_name (od_funcs d))) (o_dss o) =
             [("A", []); ("Elsewhere", ["Run"; "stop"])]).
Proof.
  split; [apply go_decls_exact; vm_compute; reflexivity|].
  eexists. split; [vm_compute; reflexivity|]. reflexivity.
Qed.
