(* Lemmas about Model/Deps.v (C19). *)
From Coq Require Import String List Ascii Bool Arith Lia.
From Coca Require Import Lib.Str Generated.Constants Model.Deps Model.DepsSpec.
Import ListNotations.
Open Scope string_scope.
Open Scope list_scope.

(* ================================================================== 1. ParseXML *)
(* the element list an abstract node denotes: blank character data, comments and processing
   instructions vanish, every other piece of character data is trimmed *)
Fixpoint norm (x : xnode) : list gelem :=
  match x with
  | XE n cs => [GNode n (flat_map norm cs)]
  | XT s => if String.eqb (trim_space s) "" then [] else [GText (trim_space s)]
  | XD s => if String.eqb (trim_space s) "" then [] else [GText (trim_space s)]
  | XC _ => []
  | XP _ => []
  | XX _ _ => []
  end.

Section XnodeInd.
  Variable P : xnode -> Prop.
  Hypothesis HE : forall n cs, Forall P cs -> P (XE n cs).
  Hypothesis HT : forall s, P (XT s).
  Hypothesis HD : forall s, P (XD s).
  Hypothesis HC : forall s, P (XC s).
  Hypothesis HP : forall s, P (XP s).
  Hypothesis HX : forall v e, P (XX v e).
  Fixpoint xnode_ind' (x : xnode) : P x :=
    match x with
    | XE n cs =>
      HE n cs ((fix go (l : list xnode) : Forall P l :=
                  match l with
                  | [] => Forall_nil P
                  | y :: r => Forall_cons y (xnode_ind' y) (go r)
                  end) cs)
    | XT s => HT s
    | XD s => HD s
    | XC s => HC s
    | XP s => HP s
    | XX v e => HX v e
    end.
End XnodeInd.

Definition feeds (x : xnode) : Prop :=
  forall n els rest root,
    fold_left xstep (tokens_of x) ((n, els) :: rest, root) = ((n, els ++ norm x) :: rest, root).

Lemma feeds_children : forall cs, Forall feeds cs ->
  forall n els rest root,
    fold_left xstep (flat_map tokens_of cs) ((n, els) :: rest, root)
    = ((n, els ++ flat_map norm cs) :: rest, root).
Proof.
  induction 1 as [|x cs Hx _ IH]; intros n els rest root; simpl.
  - now rewrite app_nil_r.
  - rewrite fold_left_app, Hx, IH. now rewrite <- app_assoc.
Qed.

Lemma feeds_char : forall s n els rest root,
    xstep ((n, els) :: rest, root) (TChar s)
    = ((n, els ++ (if String.eqb (trim_space s) "" then [] else [GText (trim_space s)])) :: rest, root).
Proof.
  intros. simpl. destruct (String.eqb (trim_space s) ""); [now rewrite app_nil_r | reflexivity].
Qed.

Lemma tokens_feed : forall x, feeds x.
Proof.
  induction x using xnode_ind'; intros m els rest root.
  - cbn [tokens_of]. cbn [fold_left]. rewrite fold_left_app.
    change (xstep ((m, els) :: rest, root) (TStart n)) with ((n, []) :: (m, els) :: rest, root).
    rewrite (feeds_children cs H). reflexivity.
  - cbn [tokens_of fold_left norm]. apply feeds_char.
  - cbn [tokens_of fold_left norm]. apply feeds_char.
  - simpl. now rewrite app_nil_r.
  - simpl. now rewrite app_nil_r.
  - simpl. now rewrite app_nil_r.
Qed.

(* the effect of one top-level node on (empty stack, root) *)
Definition root_after (x : xnode) (root : frame) : frame :=
  match x with
  | XE n cs => (n, flat_map norm cs)
  | _ => root
  end.

Lemma top_level_node : forall x root,
    fold_left xstep (tokens_of x) ([], root) = ([], root_after x root).
Proof.
  intros [n cs| s | s | s | s | v e] root; try reflexivity.
  cbn [tokens_of fold_left]. rewrite fold_left_app.
  change (xstep ([], root) (TStart n)) with ([(n, @nil gelem)], root).
  rewrite (feeds_children cs). { reflexivity. }
  apply Forall_forall. intros y _. apply tokens_feed.
Qed.

Definition doc_frame (doc : list xnode) (root : frame) : frame :=
  fold_left (fun r x => root_after x r) doc root.

Lemma tokens_fold : forall doc root,
    fold_left xstep (flat_map tokens_of doc) ([], root) = ([], doc_frame doc root).
Proof.
  unfold doc_frame. induction doc as [|x doc IH]; intros root; simpl; [reflexivity|].
  now rewrite fold_left_app, top_level_node, IH.
Qed.

Lemma doc_tokens_fold : forall doc root,
    fold_left xstep (doc_tokens doc) ([], root) = ([], doc_frame (readable doc) root).
Proof. intros. unfold doc_tokens. apply tokens_fold. Qed.

(* a document whose declarations the decoder accepts is read to its end *)
Lemma readable_all : forall doc, decls_ok doc = true -> readable doc = doc.
Proof.
  unfold decls_ok. induction doc as [|x doc IH]; intros H; [reflexivity|].
  cbn [forallb] in H. apply andb_true_iff in H. destruct H as [Hx H].
  destruct x; cbn [readable]; try (now rewrite IH).
  rewrite Hx. now rewrite IH.
Qed.

(* ParseXML rebuilds, from the token stream of any document, exactly the element tree of
   its (last) top-level element: no panic, nothing lost, nothing invented *)
Theorem xml_roundtrip : forall doc,
    parse_xml (doc_tokens doc) = Ok (doc_frame (readable doc) ("", [])).
Proof.
  intros doc. unfold parse_xml, xstate0. now rewrite doc_tokens_fold.
Qed.

Corollary xml_roundtrip_single : forall pre n cs post,
    decls_ok (pre ++ XE n cs :: post) = true ->
    forallb (fun x => negb (is_elem x)) post = true ->
    parse_xml (doc_tokens (pre ++ XE n cs :: post)) = Ok (n, flat_map norm cs).
Proof.
  intros pre n cs post Hd Hpost. rewrite xml_roundtrip, (readable_all _ Hd). f_equal.
  unfold doc_frame. rewrite fold_left_app. cbn [fold_left root_after]. clear Hd.
  induction post as [|y post IH]; [reflexivity|].
  simpl in Hpost. apply andb_true_iff in Hpost. destruct Hpost as [Hy Hpost].
  destruct y; try discriminate; simpl; now apply IH.
Qed.

Lemma doc_frame_root : forall doc n0 d0,
    snd (doc_frame doc (n0, flat_map norm d0)) = flat_map norm (doc_root doc d0).
Proof.
  unfold doc_frame. induction doc as [|x doc IH]; intros n0 d0; [reflexivity|].
  destruct x; simpl; apply IH.
Qed.

(* ================================================================== 2. AnalysisMaven / BuildDeps *)
Lemma blank_true : forall s, blank s = true -> trim_space s = "".
Proof. unfold blank. intros s H. now apply String.eqb_eq in H. Qed.

Lemma norm_blank_T : forall s, blank s = true -> norm (XT s) = [].
Proof. intros s H. simpl. unfold blank in H. now rewrite H. Qed.
Lemma norm_blank_D : forall s, blank s = true -> norm (XD s) = [].
Proof. intros s H. simpl. unfold blank in H. now rewrite H. Qed.

(* what a value element contributes to the field it is appended to *)
Definition upd (cur : string) (f : list xnode) : string := (cur ++ elem_text f)%string.
Definition fld (name : string) (cs : list xnode) (dflt : string) : string :=
  fold_left upd (child_elems name cs) dflt.

(* the pieces of character data of a value, however many, are appended in order *)
Lemma last_text_norm : forall f cur,
    wf_field f = true -> last_text (flat_map norm f) cur = Ok (upd cur f).
Proof.
  unfold wf_field, upd. induction f as [|x f IH]; intros cur H.
  - simpl. now rewrite append_nil_r.
  - cbn [forallb] in H. apply andb_true_iff in H. destruct H as [Hx H].
    destruct x as [n cs| s | s | s | s | v e]; try discriminate.
    + cbn [flat_map norm elem_text piece]. destruct (String.eqb (trim_space s) "") eqn:E.
      * apply String.eqb_eq in E. rewrite E. cbn [app]. now rewrite IH.
      * cbn [app last_text]. rewrite IH by assumption. now rewrite append_assoc.
    + cbn [flat_map norm elem_text piece]. destruct (String.eqb (trim_space s) "") eqn:E.
      * apply String.eqb_eq in E. rewrite E. cbn [app]. now rewrite IH.
      * cbn [app last_text]. rewrite IH by assumption. now rewrite append_assoc.
    + cbn [flat_map norm app elem_text piece]. now rewrite IH.
    + cbn [flat_map norm app elem_text piece]. now rewrite IH.
    + cbn [flat_map norm app elem_text piece]. now rewrite IH.
Qed.

Definition fields_wf (cs : list xnode) : bool :=
  forallb (fun x => match x with XE n f => if is_field_name n then wf_field f else true | _ => true end) cs.

Lemma dep_eta : forall d, mkDep (d_group d) (d_artifact d) (d_scope d) = d.
Proof. now destruct d. Qed.

Lemma dep_fields_node : forall name sub r d,
    dep_fields (GNode name sub :: r) d =
    match (if String.eqb name "groupId" then
             match last_text sub (d_group d) with
             | Ok g => Ok (mkDep g (d_artifact d) (d_scope d)) | Panic c => Panic c end
           else Ok d) with
    | Panic c => Panic c
    | Ok d1 =>
      match (if String.eqb name "artifactId" then
               match last_text sub (d_artifact d1) with
               | Ok a => Ok (mkDep (d_group d1) a (d_scope d1)) | Panic c => Panic c end
             else Ok d1) with
      | Panic c => Panic c
      | Ok d2 =>
        match (if String.eqb name "scope" then
                 match last_text sub (d_scope d2) with
                 | Ok s => Ok (mkDep (d_group d2) (d_artifact d2) s) | Panic c => Panic c end
               else Ok d2) with
        | Panic c => Panic c
        | Ok d3 => dep_fields r d3
        end
      end
    end.
Proof. reflexivity. Qed.

Lemma child_elems_E : forall name n sub r,
    child_elems name (XE n sub :: r) =
    if String.eqb n name then sub :: child_elems name r else child_elems name r.
Proof. reflexivity. Qed.

Lemma dep_fields_norm : forall cs d,
    no_loose_text cs = true -> fields_wf cs = true ->
    dep_fields (flat_map norm cs) d =
    Ok (mkDep (fld "groupId" cs (d_group d)) (fld "artifactId" cs (d_artifact d)) (fld "scope" cs (d_scope d))).
Proof.
  unfold no_loose_text, fields_wf, fld.
  induction cs as [|x cs IH]; intros d Hl Hf.
  - simpl. now rewrite dep_eta.
  - cbn [forallb] in Hl, Hf. apply andb_true_iff in Hl. destruct Hl as [Hlx Hl].
    apply andb_true_iff in Hf. destruct Hf as [Hfx Hf].
    destruct x as [n f| s | s | s | s | v e].
    + change (flat_map norm (XE n f :: cs)) with (GNode n (flat_map norm f) :: flat_map norm cs).
      rewrite dep_fields_node, !child_elems_E.
      destruct (String.eqb n "groupId") eqn:E1.
      { apply String.eqb_eq in E1. subst n. cbn [is_field_name String.eqb Ascii.eqb Bool.eqb orb] in Hfx.
        rewrite (last_text_norm f _ Hfx).
        change (String.eqb "groupId" "artifactId") with false.
        change (String.eqb "groupId" "scope") with false. cbv iota.
        rewrite IH by assumption. reflexivity. }
      destruct (String.eqb n "artifactId") eqn:E2.
      { apply String.eqb_eq in E2. subst n.
        assert (Hw : wf_field f = true) by exact Hfx.
        rewrite (last_text_norm f _ Hw).
        change (String.eqb "artifactId" "scope") with false. cbv iota.
        rewrite IH by assumption. reflexivity. }
      destruct (String.eqb n "scope") eqn:E3.
      { apply String.eqb_eq in E3. subst n.
        assert (Hw : wf_field f = true) by exact Hfx.
        rewrite (last_text_norm f _ Hw).
        rewrite IH by assumption. reflexivity. }
      rewrite IH by assumption. reflexivity.
    + cbn [flat_map]. rewrite (norm_blank_T s Hlx). cbn [app child_elems]. now apply IH.
    + cbn [flat_map]. rewrite (norm_blank_D s Hlx). cbn [app child_elems]. now apply IH.
    + cbn [flat_map norm app child_elems]. now apply IH.
    + cbn [flat_map norm app child_elems]. now apply IH.
    + cbn [flat_map norm app child_elems]. now apply IH.
Qed.

Lemma fld_unique : forall name cs,
    Nat.leb (List.length (child_elems name cs)) 1 = true -> fld name cs "" = field name cs.
Proof.
  unfold fld, field. intros name cs H. apply Nat.leb_le in H.
  destruct (child_elems name cs) as [|f [|g l]]; simpl in *; [reflexivity|reflexivity|lia].
Qed.

Lemma dep_fields_declared : forall cs,
    wf_dep cs = true -> dep_fields (flat_map norm cs) (mkDep "" "" "") = Ok (declared_dep cs).
Proof.
  unfold wf_dep. intros cs H.
  repeat (apply andb_true_iff in H; destruct H as [H ?]).
  rewrite dep_fields_norm by assumption. cbn [d_group d_artifact d_scope].
  unfold declared_dep. now rewrite !fld_unique by assumption.
Qed.

Lemma build_deps_norm : forall cs,
    wf_deps_block cs = true ->
    build_deps (flat_map norm cs) = Ok (map declared_dep (child_elems "dependency" cs)).
Proof.
  unfold wf_deps_block, no_loose_text. induction cs as [|x cs IH]; intros H; [reflexivity|].
  apply andb_true_iff in H. destruct H as [Hl Hf]. cbn [forallb] in Hl, Hf.
  apply andb_true_iff in Hl. destruct Hl as [Hlx Hl]. apply andb_true_iff in Hf. destruct Hf as [Hfx Hf].
  assert (Hrest : build_deps (flat_map norm cs) = Ok (map declared_dep (child_elems "dependency" cs))).
  { apply IH. apply andb_true_iff. split; assumption. }
  destruct x as [n sub| s | s | s | s | v e].
  - apply andb_true_iff in Hfx. destruct Hfx as [Hn Hsub].
    change (flat_map norm (XE n sub :: cs)) with (GNode n (flat_map norm sub) :: flat_map norm cs).
    cbn [build_deps]. rewrite (dep_fields_declared sub Hsub), Hrest.
    rewrite child_elems_E, Hn. reflexivity.
  - cbn [flat_map]. rewrite (norm_blank_T s Hlx). exact Hrest.
  - cbn [flat_map]. rewrite (norm_blank_D s Hlx). exact Hrest.
  - exact Hrest.
  - exact Hrest.
  - exact Hrest.
Qed.

Lemma analysis_root_norm : forall rc,
    no_loose_text rc = true ->
    analysis_root (flat_map norm rc) =
    match child_elems "dependencies" rc with
    | deps :: _ => build_deps (flat_map norm deps)
    | [] => Ok []
    end.
Proof.
  unfold no_loose_text. induction rc as [|x rc IH]; intros H; [reflexivity|].
  cbn [forallb] in H. apply andb_true_iff in H. destruct H as [Hx H].
  destruct x as [n sub| s | s | s | s | v e].
  - change (flat_map norm (XE n sub :: rc)) with (GNode n (flat_map norm sub) :: flat_map norm rc).
    cbn [analysis_root]. rewrite child_elems_E.
    change deps_pom_block with "dependencies".
    destruct (String.eqb n "dependencies"); [reflexivity | now apply IH].
  - cbn [flat_map]. rewrite (norm_blank_T s Hx). now apply IH.
  - cbn [flat_map]. rewrite (norm_blank_D s Hx). now apply IH.
  - now apply IH.
  - now apply IH.
  - now apply IH.
Qed.

(* every pom whose value elements hold one piece of character data yields exactly its declared
   dependencies: one entry per <dependency>, in order, with its own group / artifact / scope *)
Theorem maven_deps_exact : forall doc,
    wf_pom_b doc = true -> analysis_maven doc = Ok (spec_maven doc).
Proof.
  unfold wf_pom_b, analysis_maven, spec_maven. intros doc H.
  apply andb_true_iff in H. destruct H as [H Hd]. apply andb_true_iff in H. destruct H as [Hx Hl].
  rewrite xml_roundtrip, (readable_all doc Hx).
  change (@nil gelem) with (flat_map norm []). rewrite doc_frame_root.
  rewrite analysis_root_norm by assumption.
  destruct (child_elems "dependencies" (doc_root doc [])) as [|deps l]; [reflexivity|].
  now apply build_deps_norm.
Qed.

(* ================================================================== 3. build.gradle *)
Lemma has_char_app : forall c a b, has_char c (a ++ b)%string = has_char c a || has_char c b.
Proof. induction a as [|d a IH]; intros b; simpl; [reflexivity|]. now rewrite IH, orb_assoc. Qed.

Lemma remove_char_app : forall c a b,
    remove_char c (a ++ b)%string = (remove_char c a ++ remove_char c b)%string.
Proof.
  induction a as [|d a IH]; intros b; simpl; [reflexivity|].
  destruct (Ascii.eqb d c); simpl; now rewrite IH.
Qed.

Lemma remove_char_none : forall c s, has_char c s = false -> remove_char c s = s.
Proof.
  induction s as [|d s IH]; simpl; intros H; [reflexivity|].
  apply orb_false_iff in H. destruct H as [H1 H2]. rewrite H1. now rewrite IH.
Qed.

Lemma split_char_none : forall c s, has_char c s = false -> split_char c s = [s].
Proof.
  induction s as [|d s IH]; simpl; intros H; [reflexivity|].
  apply orb_false_iff in H. destruct H as [H1 H2]. rewrite H1, (IH H2). reflexivity.
Qed.

Lemma split_char_prefix : forall c g r,
    has_char c g = false -> split_char c (g ++ String c r)%string = g :: split_char c r.
Proof.
  induction g as [|d g IH]; intros r H; simpl.
  - now rewrite Ascii.eqb_refl.
  - simpl in H. apply orb_false_iff in H. destruct H as [H1 H2]. rewrite H1, (IH r H2). reflexivity.
Qed.

Lemma coord_sep_c_eq : coord_sep_c = ascii_of_nat 58.
Proof. reflexivity. Qed.

Lemma plain_name_spec : forall s,
    plain_name s = true ->
    has_char squote_c s = false /\ has_char c_dquote s = false /\ has_char (ascii_of_nat 58) s = false.
Proof.
  unfold plain_name. intros s H. apply andb_true_iff in H. destruct H as [H H3].
  apply andb_true_iff in H. destruct H as [H1 H2].
  apply negb_true_iff in H1. apply negb_true_iff in H2. apply negb_true_iff in H3. auto.
Qed.

Definition colon : string := String (ascii_of_nat 58) EmptyString.

Lemma coord_unfold : forall g a v,
    coord g a v = if String.eqb v "" then (g ++ colon ++ a)%string else (g ++ colon ++ a ++ colon ++ v)%string.
Proof. reflexivity. Qed.

Lemma strip_quotes_app : forall a b, strip_quotes (a ++ b)%string = (strip_quotes a ++ strip_quotes b)%string.
Proof. intros. unfold strip_quotes. now rewrite !remove_char_app. Qed.

Lemma strip_quotes_plain : forall s,
    has_char squote_c s = false -> has_char c_dquote s = false -> strip_quotes s = s.
Proof. intros s H1 H2. unfold strip_quotes. now rewrite (remove_char_none _ s H1), (remove_char_none _ s H2). Qed.

Lemma strip_quotes_quote : forall q, strip_quotes (quote_str q) = "".
Proof. intros [|]; reflexivity. Qed.

Lemma strip_quotes_colon : strip_quotes colon = colon.
Proof. reflexivity. Qed.

(* ConvertToJDep on a quoted group:artifact[:version] literal, single or double quotes *)
Lemma convert_quoted : forall q g a v,
    plain_name g = true -> plain_name a = true ->
    convert_to_jdep (quote_str q ++ coord g a v ++ quote_str q)%string = Ok (mkDep g a "").
Proof.
  intros q g a v Hg Ha.
  destruct (plain_name_spec g Hg) as [Hgq [Hgd Hgc]]. destruct (plain_name_spec a Ha) as [Haq [Had Hac]].
  unfold convert_to_jdep. rewrite coord_sep_c_eq, coord_unfold.
  destruct (String.eqb v "").
  - rewrite !strip_quotes_app, strip_quotes_quote, strip_quotes_colon,
      (strip_quotes_plain g Hgq Hgd), (strip_quotes_plain a Haq Had).
    rewrite append_nil_r. unfold colon. cbn [append].
    rewrite (split_char_prefix _ g _ Hgc), (split_char_none _ a Hac). reflexivity.
  - rewrite !strip_quotes_app, strip_quotes_quote, !strip_quotes_colon,
      (strip_quotes_plain g Hgq Hgd), (strip_quotes_plain a Haq Had).
    rewrite append_nil_r. unfold colon. cbn [append].
    rewrite (split_char_prefix _ g _ Hgc), (split_char_prefix _ a _ Hac).
    destruct (split_char (ascii_of_nat 58) (strip_quotes v)); reflexivity.
Qed.

Lemma stmt_dep_wf : forall s,
    wf_stmt s = true ->
    stmt_dep s = Ok (match spec_stmt s with d :: _ => Some d | [] => None end).
Proof.
  intros [cfg q p cl g a v | cfg p g a v | cfg p f args | c] H; simpl in H; try reflexivity.
  apply andb_true_iff in H. destruct H as [Hg Ha].
  cbn [stmt_dep spec_stmt]. rewrite (convert_quoted q g a v Hg Ha). reflexivity.
Qed.

Lemma block_loop_wf : forall stmts,
    forallb wf_stmt stmts = true -> block_loop stmts = Ok (flat_map spec_stmt stmts).
Proof.
  induction stmts as [|s stmts IH]; intros H; [reflexivity|].
  cbn [forallb] in H. apply andb_true_iff in H. destruct H as [Hs H].
  cbn [block_loop flat_map]. rewrite (stmt_dep_wf s Hs), (IH H).
  destruct s as [cfg q p cl g a v | cfg p g a v | cfg p f args | c]; reflexivity.
Qed.

Lemma comments_declare_nothing : forall stmts,
    forallb is_comment stmts = true -> flat_map spec_stmt stmts = [].
Proof.
  induction stmts as [|s stmts IH]; intros H; [reflexivity|].
  cbn [forallb] in H. apply andb_true_iff in H. destruct H as [Hs H].
  destruct s; try discriminate. simpl. now apply IH.
Qed.

Lemma build_block_wf : forall stmts,
    forallb wf_stmt stmts = true -> build_block_statements stmts = Ok (flat_map spec_stmt stmts).
Proof.
  intros stmts H. unfold build_block_statements.
  destruct (forallb is_comment stmts) eqn:E.
  - now rewrite (comments_declare_nothing stmts E).
  - now apply block_loop_wf.
Qed.

Lemma gradle_walk_wf : forall items acc,
    forallb wf_item items = true ->
    gradle_walk items acc = Ok (acc ++ spec_gradle items).
Proof.
  unfold spec_gradle. induction items as [|it items IH]; intros acc Hw.
  - simpl. now rewrite app_nil_r.
  - cbn [forallb] in Hw. apply andb_true_iff in Hw. destruct Hw as [Hit Hw].
    destruct it as [name stmts | t].
    + cbn [gradle_walk wf_item flat_map spec_item] in *. change deps_gradle_block with "dependencies".
      destruct (String.eqb name "dependencies").
      * rewrite (build_block_wf stmts Hit), (IH _ Hw). now rewrite <- app_assoc.
      * now rewrite (IH _ Hw).
    + cbn [gradle_walk flat_map spec_item app]. now apply IH.
Qed.

(* every script -- any number of dependencies blocks, empty ones included, any mix of
   notations -- yields exactly its string-notation entries (single or double quotes, plain,
   parenthesised, with closure): group, artifact, configuration, in order; map entries,
   project(..) / fileTree(..) / other calls and comments are skipped without disturbing the rest *)
Theorem gradle_deps_exact : forall items,
    wf_gradle_b items = true -> analysis_gradle items = Ok (spec_gradle items).
Proof.
  unfold wf_gradle_b, analysis_gradle. intros items H. now rewrite (gradle_walk_wf items [] H).
Qed.

(* in particular the listener never panics on such a script *)
Corollary gradle_no_crash : forall items c, wf_gradle_b items = true -> analysis_gradle items <> Panic c.
Proof. intros items c H. rewrite (gradle_deps_exact items H). discriminate. Qed.

(* ================================================================== 4. the unused report *)
Lemma need_remove_ge : forall ds imports i j, In j (need_remove i ds imports) -> i <= j.
Proof.
  induction ds as [|d ds IH]; intros imports i j H; simpl in H; [contradiction|].
  destruct (dep_used imports d).
  - destruct H as [H|H]; [lia|]. apply IH in H. lia.
  - apply IH in H. lia.
Qed.

Lemma existsb_eqb_in : forall i l, existsb (Nat.eqb i) l = true <-> In i l.
Proof.
  intros i l. rewrite existsb_exists. split.
  - intros [x [Hin He]]. apply Nat.eqb_eq in He. now subst.
  - intros H. exists i. split; [assumption|apply Nat.eqb_refl].
Qed.

Lemma keep_unmarked_filter : forall ds imports i pre,
    (forall j, In j pre -> j < i) ->
    keep_unmarked i ds (pre ++ need_remove i ds imports)
    = filter (fun d => negb (dep_used imports d)) ds.
Proof.
  induction ds as [|d ds IH]; intros imports i pre Hpre; [reflexivity|].
  cbn [need_remove keep_unmarked filter]. destruct (dep_used imports d) eqn:Hu.
  - assert (Hin : existsb (Nat.eqb i) (pre ++ i :: need_remove (S i) ds imports) = true).
    { apply existsb_eqb_in. apply in_or_app. right. now left. }
    rewrite Hin. cbn [negb].
    replace (pre ++ i :: need_remove (S i) ds imports)
      with ((pre ++ [i]) ++ need_remove (S i) ds imports) by now rewrite <- app_assoc.
    apply IH. intros j Hj. apply in_app_or in Hj. destruct Hj as [Hj|[Hj|[]]]; [apply Hpre in Hj; lia | lia].
  - assert (Hout : existsb (Nat.eqb i) (pre ++ need_remove (S i) ds imports) = false).
    { destruct (existsb (Nat.eqb i) (pre ++ need_remove (S i) ds imports)) eqn:E; [|reflexivity].
      apply existsb_eqb_in in E. apply in_app_or in E. destruct E as [E|E].
      - apply Hpre in E. lia.
      - apply need_remove_ge in E. lia. }
    rewrite Hout. cbn [negb]. f_equal. apply IH. intros j Hj. apply Hpre in Hj. lia.
Qed.

(* the index-map computation of AnalysisPath is a filter: order and multiplicity preserved *)
Theorem unused_is_filter : forall ds imports,
    unused_of ds imports = filter (fun d => negb (dep_used imports d)) ds.
Proof.
  intros. unfold unused_of. apply (keep_unmarked_filter ds imports 0 []). intros j [].
Qed.

Theorem unused_exact : forall ds imports d,
    In d (unused_of ds imports) <->
    In d ds /\ forall imp, In imp imports -> contains imp (d_group d) = false.
Proof.
  intros ds imports d. rewrite unused_is_filter, filter_In. unfold dep_used.
  split; intros [H1 H2]; split; try assumption.
  - intros imp Himp. apply negb_true_iff in H2.
    destruct (contains imp (d_group d)) eqn:E; [|reflexivity].
    assert (existsb (fun imp0 => contains imp0 (d_group d)) imports = true)
      by (apply existsb_exists; eauto). congruence.
  - apply negb_true_iff. destruct (existsb (fun imp => contains imp (d_group d)) imports) eqn:E; [|reflexivity].
    apply existsb_exists in E. destruct E as [imp [Hin Hc]]. rewrite (H2 imp Hin) in Hc. discriminate.
Qed.

Theorem used_never_reported : forall ds imports d imp,
    In imp imports -> contains imp (d_group d) = true -> ~ In d (unused_of ds imports).
Proof.
  intros ds imports d imp Hin Hc H. apply unused_exact in H. destruct H as [_ H].
  rewrite (H imp Hin) in Hc. discriminate.
Qed.

(* order preservation, stated without reference to filter *)
Inductive sublist {A : Type} : list A -> list A -> Prop :=
| sub_nil : sublist [] []
| sub_skip : forall x l1 l2, sublist l1 l2 -> sublist l1 (x :: l2)
| sub_take : forall x l1 l2, sublist l1 l2 -> sublist (x :: l1) (x :: l2).

Lemma filter_sublist : forall (A : Type) (p : A -> bool) l, sublist (filter p l) l.
Proof.
  induction l as [|x l IH]; simpl; [constructor|].
  destruct (p x); now constructor.
Qed.

Theorem unused_sublist : forall ds imports, sublist (unused_of ds imports) ds.
Proof. intros. rewrite unused_is_filter. apply filter_sublist. Qed.

(* strings.Contains as modelled: a decomposition of the import around the group id *)
Lemma index_from_sound : forall fuel pos sep s i,
    index_from fuel pos sep s = Some i ->
    exists a b, s = (a ++ sep ++ b)%string /\ i = pos + String.length a.
Proof.
  induction fuel as [|fuel IH]; intros pos sep s i H; simpl in H.
  - destruct (has_prefix sep s) eqn:E; [|discriminate]. inversion H; subst.
    apply has_prefix_spec in E. destruct E as [r E]. exists "", r. simpl. split; [assumption|lia].
  - destruct (has_prefix sep s) eqn:E.
    + inversion H; subst. apply has_prefix_spec in E. destruct E as [r E].
      exists "", r. simpl. split; [assumption|lia].
    + destruct s as [|c s]; [discriminate|].
      apply IH in H. destruct H as [a [b [Hs Hi]]]. exists (String c a), b. simpl.
      split; [now rewrite Hs | lia].
Qed.

Theorem contains_sound : forall s sub,
    contains s sub = true -> exists a b, s = (a ++ sub ++ b)%string.
Proof.
  unfold contains, str_index. intros s sub H.
  destruct (index_from (String.length s) 0 sub s) eqn:E; [|discriminate].
  apply index_from_sound in E. destruct E as [a [b [Hs _]]]. eauto.
Qed.

Lemma index_from_complete : forall a fuel pos sep b,
    String.length a <= fuel -> index_from fuel pos sep (a ++ sep ++ b)%string <> None.
Proof.
  induction a as [|c a IH]; intros fuel pos sep b Hf.
  - simpl. assert (E : has_prefix sep (sep ++ b)%string = true) by (apply has_prefix_spec; eauto).
    destruct fuel; simpl; rewrite E; discriminate.
  - destruct fuel as [|fuel]; [simpl in Hf; lia|].
    cbn [index_from]. destruct (has_prefix sep (String c a ++ sep ++ b)%string); [discriminate|].
    simpl. apply IH. simpl in Hf. lia.
Qed.

Theorem contains_complete : forall a sub b, contains (a ++ sub ++ b)%string sub = true.
Proof.
  intros a sub b. unfold contains, str_index.
  destruct (index_from (String.length (a ++ sub ++ b)) 0 sub (a ++ sub ++ b)%string) eqn:E; [reflexivity|].
  exfalso. revert E. apply index_from_complete. rewrite length_append. lia.
Qed.

(* ================================================================== 5. the whole pipeline and the verdicts *)
Theorem analysis_path_exact : forall p,
    wf_project_b p = true -> analysis_path p = Ok (spec_unused p).
Proof.
  unfold wf_project_b, analysis_path, spec_unused, spec_declared. intros [pom gr imps] H.
  cbn [p_pom p_gradle p_imports] in *. apply andb_true_iff in H. destruct H as [Hp Hg].
  assert (Hm : match pom with Some doc => analysis_maven doc | None => Ok [] end
               = Ok (match pom with Some doc => spec_maven doc | None => [] end)).
  { destruct pom; [now apply maven_deps_exact | reflexivity]. }
  assert (Hgr : match gr with Some items => analysis_gradle items | None => Ok [] end
                = Ok (match gr with Some items => spec_gradle items | None => [] end)).
  { destruct gr; [now apply gradle_deps_exact | reflexivity]. }
  rewrite Hm, Hgr, unused_is_filter. reflexivity.
Qed.

Lemma dep_eqb_refl : forall d, dep_eqb d d = true.
Proof. intros d. unfold dep_eqb. now rewrite !String.eqb_refl. Qed.

Lemma deps_eqb_refl : forall l, deps_eqb l l = true.
Proof. induction l as [|d l IH]; simpl; [reflexivity|]. now rewrite dep_eqb_refl, IH. Qed.

Lemma dep_eqb_eq : forall x y, dep_eqb x y = true -> x = y.
Proof.
  intros [g a s] [g' a' s'] H. unfold dep_eqb in H. simpl in H.
  apply andb_true_iff in H. destruct H as [H H3]. apply andb_true_iff in H. destruct H as [H1 H2].
  apply String.eqb_eq in H1, H2, H3. now subst.
Qed.

Lemma deps_eqb_eq : forall a b, deps_eqb a b = true -> a = b.
Proof.
  induction a as [|x a IH]; intros [|y b] H; simpl in H; try discriminate; [reflexivity|].
  apply andb_true_iff in H. destruct H as [H1 H2]. apply dep_eqb_eq in H1. apply IH in H2. now subst.
Qed.

(* the decider the check applies to the implementation's output accepts exactly the expected list *)
Theorem maven_verdict_sound : forall doc obs, c19_maven_verdict doc obs = [] <-> obs = spec_maven doc.
Proof.
  intros doc obs. unfold c19_maven_verdict. split.
  - destruct (deps_eqb obs (spec_maven doc)) eqn:E; [intros _; now apply deps_eqb_eq | discriminate].
  - intros ->. now rewrite deps_eqb_refl.
Qed.

Theorem gradle_verdict_sound : forall items obs, c19_gradle_verdict items obs = [] <-> obs = spec_gradle items.
Proof.
  intros items obs. unfold c19_gradle_verdict. split.
  - destruct (deps_eqb obs (spec_gradle items)) eqn:E; [intros _; now apply deps_eqb_eq | discriminate].
  - intros ->. now rewrite deps_eqb_refl.
Qed.

Theorem unused_verdict_sound : forall p obs, c19_unused_verdict p obs = [] <-> obs = spec_unused p.
Proof.
  intros p obs. unfold c19_unused_verdict. split.
  - destruct (deps_eqb obs (spec_unused p)) eqn:E; [intros _; now apply deps_eqb_eq | discriminate].
  - intros ->. now rewrite deps_eqb_refl.
Qed.

Theorem model_meets_spec_maven : forall doc ds,
    wf_pom_b doc = true -> analysis_maven doc = Ok ds -> c19_maven_verdict doc ds = [].
Proof.
  intros doc ds H E. rewrite (maven_deps_exact doc H) in E. inversion E. now apply maven_verdict_sound.
Qed.

Theorem model_meets_spec_gradle : forall items ds,
    wf_gradle_b items = true -> analysis_gradle items = Ok ds -> c19_gradle_verdict items ds = [].
Proof.
  intros items ds H E. rewrite (gradle_deps_exact items H) in E. inversion E. now apply gradle_verdict_sound.
Qed.

Theorem model_meets_spec_unused : forall p ds,
    wf_project_b p = true -> analysis_path p = Ok ds -> c19_unused_verdict p ds = [].
Proof.
  intros p ds H E. rewrite (analysis_path_exact p H) in E. inversion E. now apply unused_verdict_sound.
Qed.

(* ================================================================== 6. witnesses *)
Definition deps_block (stmts : list gstmt) : list gitem :=
  [GOther "plugins { id 'java' }"; GBlock "dependencies" stmts].

Definition ex_first : gstmt := GStr "implementation" QSingle false false "org.a" "aa" "1.0".
Definition ex_last : gstmt := GStr "runtimeOnly" QSingle true true "org.e" "ee" "".

(* non-vacuity of the gradle hypothesis: every notation, an empty block, a second block *)
Definition ex_gradle_ok : list gitem :=
  deps_block [ex_first;
              GStr "api" QDouble false false "org.b" "bb" "";
              GStr "compile" QDouble true false "org.c" "cc" "2";
              GMap "compile" false "org.g" "gg" "1";
              GMap "compile" true "org.g" "gg" "1";
              GCall "implementation" false "project" [("", ":core")];
              GCall "implementation" true "project" [("", ":core")];
              GCall "implementation" false "fileTree" [("dir", "libs"); ("include", "*.jar")];
              GCall "implementation" true "gradleApi" [];
              GComment "x"]
  ++ [GBlock "dependencies" []; GOther "test { }"; GBlock "dependencies" [ex_last]].

Lemma ex_gradle_ok_wf : wf_gradle_b ex_gradle_ok = true.
Proof. vm_compute. reflexivity. Qed.

Lemma ex_gradle_ok_value :
  analysis_gradle ex_gradle_ok
  = Ok [mkDep "org.a" "aa" "implementation"; mkDep "org.b" "bb" "api"; mkDep "org.c" "cc" "compile";
        mkDep "org.e" "ee" "runtimeOnly"].
Proof. vm_compute. reflexivity. Qed.

(* pom: non-vacuity, values in several pieces included *)
Definition ex_dep (g a : list xnode) (more : list xnode) : xnode :=
  XE "dependency" ([XT (nl ++ "    "); XE "groupId" g; XE "artifactId" a] ++ more ++ [XT nl]).

Definition ex_pom_enc (enc : string) (deps : list xnode) : list xnode :=
  [XX "1.0" enc; XT nl; XP "m2e ignore";
   XE "project"
      [XE "modelVersion" [XT "4.0.0"];
       XE "dependencyManagement" [XE "dependencies" [ex_dep [XT "m.g"] [XT "m-a"] []]];
       XC " deps "; XT (nl ++ "  ");
       XE "dependencies" deps;
       XE "build" [XE "plugins" [XE "plugin" [XE "groupId" [XT "p.g"]; XE "dependencies" [ex_dep [XT "p.d"] [XT "p-a"] []]]]]];
   XT nl].

Definition ex_pom := ex_pom_enc "utf-8".

Definition ex_pom_ok : list xnode :=
  ex_pom [ex_dep [XT "org.a"] [XD "aa"] [XE "scope" [XC "c"; XT " test "]];
          XC "second";
          ex_dep [XT (nl ++ " org.b" ++ nl)] [XT "bb"]
                 [XE "exclusions" [XE "exclusion" [XE "groupId" [XT "ex.g"]; XE "artifactId" [XT "ex-a"]]];
                  XE "optional" [XT "true"]];
          ex_dep [XT "org.c"; XC "x"; XT ".d"] [XT "c"; XD "c"] []].

Lemma ex_pom_ok_wf : wf_pom_b ex_pom_ok = true.
Proof. vm_compute. reflexivity. Qed.

Lemma ex_pom_ok_value :
  analysis_maven ex_pom_ok = Ok [mkDep "org.a" "aa" "test"; mkDep "org.b" "bb" ""; mkDep "org.c.d" "cc" ""].
Proof. vm_compute. reflexivity. Qed.

(* repaired finding C19-pom-encoding (ParseXML installs a CharsetReader): a pom that declares another
   ASCII-compatible encoding is read like one that declares UTF-8; what remains outside [decls_ok] is a
   label the reader does not know (or a version other than 1.0), where the decoder stops *)
Lemma maven_encoding_repaired :
  analysis_maven (ex_pom_enc "ISO-8859-1" [ex_dep [XT "org.a"] [XT "aa"] []]) = Ok [mkDep "org.a" "aa" ""]
  /\ spec_maven (ex_pom_enc "ISO-8859-1" [ex_dep [XT "org.a"] [XT "aa"] []]) = [mkDep "org.a" "aa" ""]
  /\ wf_pom_b (ex_pom_enc "ISO-8859-1" [ex_dep [XT "org.a"] [XT "aa"] []]) = true
  /\ analysis_maven (ex_pom_enc "UTF-8" [ex_dep [XT "org.a"] [XT "aa"] []]) = Ok [mkDep "org.a" "aa" ""]
  /\ analysis_maven (ex_pom_enc "x-unknown" [ex_dep [XT "org.a"] [XT "aa"] []]) = Ok []
  /\ wf_pom_b (ex_pom_enc "x-unknown" [ex_dep [XT "org.a"] [XT "aa"] []]) = false.
Proof. repeat split; vm_compute; reflexivity. Qed.

(* the report over a project: the double-quoted dependency that is imported is not reported *)
Definition ex_project : project :=
  mkProject (Some ex_pom_ok)
            (Some (deps_block [GStr "api" QDouble false false "org.b" "bb" "1"; ex_last]))
            ["org.b.Api"; "java.util.List"; "org.c.d.X"].

Lemma ex_project_wf : wf_project_b ex_project = true.
Proof. vm_compute. reflexivity. Qed.

Lemma ex_project_value :
  analysis_path ex_project = Ok [mkDep "org.a" "aa" "test"; mkDep "org.e" "ee" "runtimeOnly"].
Proof. vm_compute. reflexivity. Qed.

Lemma ex_unused_value :
  unused_of [mkDep "org.a" "aa" ""; mkDep "mysql" "c" "runtime"; mkDep "org.a.b" "x" "test"; mkDep "mysql" "c" "runtime"]
            ["java.util.List"; "shaded.org.a.util.Helper"]
  = [mkDep "mysql" "c" "runtime"; mkDep "org.a.b" "x" "test"; mkDep "mysql" "c" "runtime"].
Proof. vm_compute. reflexivity. Qed.
