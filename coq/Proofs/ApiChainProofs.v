(* C03, the per-API half: CallGraph.AnalysisByFiles.  For every list of APIs, every model and every DI map the
   text it prints is well-formed DOT whose edge list splits into one section per API -- the API's own edge
   followed by the chain of its handler -- every section is sound, root-complete and exact within the budget
   (the three clauses proved for `call` in CallGraphProofs.v, here with an arbitrary DI map), and the Size
   column (len(strings.Split(chain, " -> "))) is the number of edges of the section plus one. *)
From Coq Require Import String List Bool Arith Lia Ascii.
From Coca Require Import Lib.Str Lib.Sx Lib.GoMap Lib.Dot Lib.Cmp Lib.Reach Model.CodeModel Model.RCall
     Model.RCallSpec Model.CallGraph Model.CallGraphSpec Generated.Constants
     Proofs.DotProofs Proofs.RCallProofs Proofs.CallGraphProofs.
Import ListNotations.
Open Scope list_scope.
Open Scope string_scope.

(* ------------------------------------------------------------------ strings.Split(s, " -> ") *)
Definition sarrow : string := " -> ".
Definition c_gt : ascii := ">"%char.

(* no '>' anywhere: such a piece cannot contain, begin or end an occurrence of the separator's '>' *)
Fixpoint gt_free (s : string) : bool :=
  match s with
  | EmptyString => true
  | String c r => negb (Ascii.eqb c c_gt) && gt_free r
  end.

Lemma gt_free_app : forall a b, gt_free (a ++ b) = gt_free a && gt_free b.
Proof. induction a as [|c a IH]; intros b; cbn [String.append gt_free]; [reflexivity|]. now rewrite IH, andb_assoc. Qed.

(* inside (or at the start of) a '>'-free piece followed by the separator there is no occurrence of it *)
Lemma has_prefix_arrow_inside : forall a r,
    gt_free a = true -> a <> "" -> has_prefix sarrow (a ++ sarrow ++ r) = false.
Proof.
  intros a r H Hne. destruct a as [|c1 a]; [congruence|].
  destruct a as [|c2 a].
  - unfold sarrow. cbn [String.append has_prefix]. destruct (Ascii.eqb " " c1); reflexivity.
  - destruct a as [|c3 a].
    + unfold sarrow. cbn [String.append has_prefix]. destruct (Ascii.eqb " " c1); [|reflexivity].
      destruct (Ascii.eqb "-" c2); reflexivity.
    + cbn [gt_free] in H. apply andb_true_iff in H. destruct H as [_ H]. apply andb_true_iff in H. destruct H as [_ H].
      apply andb_true_iff in H. destruct H as [H3 _]. apply negb_true_iff in H3.
      unfold sarrow. cbn [String.append has_prefix]. destruct (Ascii.eqb " " c1); [|reflexivity].
      destruct (Ascii.eqb "-" c2); [|reflexivity]. unfold c_gt in H3. rewrite Ascii.eqb_sym in H3. now rewrite H3.
Qed.

Lemma has_prefix_arrow_none : forall a, gt_free a = true -> has_prefix sarrow a = false.
Proof.
  intros a H. destruct a as [|c1 [|c2 [|c3 a]]]; try reflexivity.
  - unfold sarrow. cbn [has_prefix]. destruct (Ascii.eqb " " c1); reflexivity.
  - unfold sarrow. cbn [has_prefix]. destruct (Ascii.eqb " " c1); [|reflexivity]. destruct (Ascii.eqb "-" c2); reflexivity.
  - cbn [gt_free] in H. apply andb_true_iff in H. destruct H as [_ H]. apply andb_true_iff in H. destruct H as [_ H].
    apply andb_true_iff in H. destruct H as [H3 _]. apply negb_true_iff in H3.
    unfold sarrow. cbn [has_prefix]. destruct (Ascii.eqb " " c1); [|reflexivity].
    destruct (Ascii.eqb "-" c2); [|reflexivity]. unfold c_gt in H3. rewrite Ascii.eqb_sym in H3. now rewrite H3.
Qed.

Lemma gt_free_tail : forall c a, gt_free (String c a) = true -> gt_free a = true.
Proof. intros c a H. cbn [gt_free] in H. apply andb_true_iff in H. tauto. Qed.

Lemma index_arrow_some : forall a r fuel pos,
    gt_free a = true -> String.length a <= fuel ->
    index_from fuel pos sarrow (a ++ sarrow ++ r) = Some (pos + String.length a).
Proof.
  induction a as [|c a IH]; intros r fuel pos H Hf.
  - cbn [String.append String.length]. destruct fuel; cbn; f_equal; lia.
  - cbn [String.length] in Hf. destruct fuel as [|fuel]; [lia|].
    cbn [index_from]. rewrite has_prefix_arrow_inside by (auto; discriminate).
    cbn [String.append]. rewrite IH by (eauto using gt_free_tail; lia). cbn [String.length]. f_equal. lia.
Qed.

Lemma index_arrow_none : forall a fuel pos, gt_free a = true -> index_from fuel pos sarrow a = None.
Proof.
  induction a as [|c a IH]; intros fuel pos H.
  - destruct fuel; reflexivity.
  - destruct fuel as [|fuel]; cbn [index_from]; rewrite has_prefix_arrow_none by assumption; [reflexivity|].
    apply IH. eauto using gt_free_tail.
Qed.

Fixpoint join_arrow (l : list string) : string :=
  match l with
  | [] => ""
  | [x] => x
  | x :: r => x ++ sarrow ++ join_arrow r
  end.

Lemma join_arrow_cons2 : forall x y l, join_arrow (x :: y :: l) = x ++ sarrow ++ join_arrow (y :: l).
Proof. reflexivity. Qed.

Lemma take_app_len' : forall a r, take (String.length a) (a ++ r) = a.
Proof. induction a; intros; simpl; auto. now rewrite IHa. Qed.

Lemma drop_app_len' : forall a r, drop (String.length a) (a ++ r) = r.
Proof. induction a; intros; simpl; auto. Qed.

Lemma split_join_arrow_fuel : forall l fuel,
    l <> [] -> forallb gt_free l = true -> List.length l <= fuel ->
    split_fuel fuel sarrow (join_arrow l) = l.
Proof.
  induction l as [|x l IH]; intros fuel Hne Hc Hf; [congruence|].
  cbn [forallb] in Hc. apply andb_true_iff in Hc. destruct Hc as [Hx Hl].
  destruct l as [|y l].
  - cbn [join_arrow]. destruct fuel; cbn [split_fuel]; auto.
    unfold str_index. now rewrite index_arrow_none.
  - cbn [List.length] in Hf. destruct fuel as [|fuel]; [lia|].
    rewrite join_arrow_cons2. cbn [split_fuel]. unfold str_index.
    rewrite index_arrow_some; [|assumption|rewrite !length_append; lia].
    cbn [plus]. rewrite take_app_len'.
    replace (String.length x + String.length sarrow) with (String.length (x ++ sarrow))
      by (rewrite length_append; reflexivity).
    rewrite <- append_assoc. rewrite drop_app_len'. f_equal.
    apply IH; [discriminate|assumption|cbn [List.length]; lia].
Qed.

Lemma join_arrow_length_ge : forall l, List.length l <= S (String.length (join_arrow l)).
Proof.
  induction l as [|x l IH]; [simpl; lia|].
  destruct l as [|y l]; [simpl; lia|].
  rewrite join_arrow_cons2. rewrite !length_append. cbn [List.length] in *. unfold sarrow at 1. cbn [String.length]. lia.
Qed.

Lemma split_join_arrow : forall l,
    l <> [] -> forallb gt_free l = true -> split sarrow (join_arrow l) = l.
Proof.
  intros l Hne Hc. unfold split. apply split_join_arrow_fuel; auto. apply join_arrow_length_ge.
Qed.

(* ------------------------------------------------------------------ the pieces between the arrows of a printed statement list *)
Definition prepend (p : string) (l : list string) : list string :=
  match l with [] => [p] | x :: t => (p ++ x) :: t end.

Fixpoint segs (l : list stmt) : list string :=
  match l with
  | [] => [""]
  | SBlank :: r => prepend nl (segs r)
  | SRankdir :: r => prepend ("rankdir = LR;" ++ nl) (segs r)
  | SEdge a b :: r =>
    (dquote ++ escape_quotes a ++ dquote) :: prepend (dquote ++ escape_quotes b ++ dquote ++ ";" ++ nl) (segs r)
  end.

Lemma prepend_nonempty : forall p l, prepend p l <> [].
Proof. intros p [|x t]; discriminate. Qed.

Lemma segs_nonempty : forall l, segs l <> [].
Proof. intros [|[a b| |] r]; cbn [segs]; try discriminate; apply prepend_nonempty. Qed.

Lemma join_arrow_prepend : forall p l, l <> [] -> join_arrow (prepend p l) = p ++ join_arrow l.
Proof.
  intros p [|x [|y t]] H; [congruence| |].
  - reflexivity.
  - cbn [prepend]. rewrite !join_arrow_cons2. now rewrite append_assoc.
Qed.

Lemma join_arrow_cons_ne : forall x l, l <> [] -> join_arrow (x :: l) = x ++ sarrow ++ join_arrow l.
Proof. intros x [|y t] H; [congruence|reflexivity]. Qed.

Lemma render_segs : forall l, render_stmts l = join_arrow (segs l).
Proof.
  induction l as [|s r IH]; [reflexivity|].
  rewrite render_stmts_cons, IH. destruct s as [a b| |]; cbn [segs render_stmt].
  - rewrite join_arrow_cons_ne by apply prepend_nonempty.
    rewrite join_arrow_prepend by apply segs_nonempty.
    unfold sarrow. now rewrite !append_assoc.
  - now rewrite join_arrow_prepend by apply segs_nonempty.
  - now rewrite join_arrow_prepend by apply segs_nonempty.
Qed.

Lemma prepend_length : forall p l, l <> [] -> List.length (prepend p l) = List.length l.
Proof. intros p [|x t] H; [congruence|reflexivity]. Qed.

Lemma segs_length : forall l, List.length (segs l) = S (List.length (stmt_edges l)).
Proof.
  induction l as [|s r IH]; [reflexivity|].
  destruct s as [a b| |]; cbn [segs].
  - cbn [List.length]. rewrite prepend_length by apply segs_nonempty. rewrite IH. reflexivity.
  - rewrite prepend_length by apply segs_nonempty. exact IH.
  - rewrite prepend_length by apply segs_nonempty. exact IH.
Qed.

Lemma gt_free_escape : forall s, gt_free (escape_quotes s) = gt_free s.
Proof.
  induction s as [|c s IH]; [reflexivity|].
  cbn [escape_quotes]. destruct (Ascii.eqb c c_dquote) eqn:E.
  - apply Ascii.eqb_eq in E. subst c. cbn [gt_free]. rewrite IH. reflexivity.
  - cbn [gt_free]. now rewrite IH.
Qed.

Lemma forallb_prepend : forall p l, gt_free p = true -> forallb gt_free l = true -> forallb gt_free (prepend p l) = true.
Proof.
  intros p [|x t] Hp Hl; cbn [prepend forallb].
  - now rewrite Hp.
  - cbn [forallb] in Hl. apply andb_true_iff in Hl. destruct Hl as [Hx Ht]. now rewrite gt_free_app, Hp, Hx, Ht.
Qed.

Definition edge_names_gt_free (l : list stmt) : Prop :=
  forall a b, In (a, b) (stmt_edges l) -> gt_free a = true /\ gt_free b = true.

Lemma edge_names_gt_free_tail : forall s r, edge_names_gt_free (s :: r) -> edge_names_gt_free r.
Proof.
  intros s r H a b Hin. apply H. unfold stmt_edges in *. cbn [flat_map]. apply in_or_app. now right.
Qed.

Lemma segs_gt_free : forall l, edge_names_gt_free l -> forallb gt_free (segs l) = true.
Proof.
  induction l as [|s r IH]; intros H; [reflexivity|].
  pose proof (IH (edge_names_gt_free_tail _ _ H)) as Hr.
  destruct s as [a b| |]; cbn [segs].
  - destruct (H a b) as [Ha Hb]; [unfold stmt_edges; cbn [flat_map]; now left|].
    cbn [forallb]. apply andb_true_iff. split.
    + rewrite !gt_free_app, gt_free_escape, Ha. reflexivity.
    + apply forallb_prepend; [|exact Hr]. rewrite !gt_free_app, gt_free_escape, Hb. reflexivity.
  - apply forallb_prepend; [reflexivity|exact Hr].
  - apply forallb_prepend; [reflexivity|exact Hr].
Qed.

(* len(strings.Split(text, " -> ")) of a printed statement list = its number of edges + 1 *)
Theorem split_count_render : forall l,
    edge_names_gt_free l -> split_count (render_stmts l) = S (List.length (stmt_edges l)).
Proof.
  intros l H. unfold split_count. rewrite render_segs.
  change " -> " with sarrow. rewrite split_join_arrow; [apply segs_length|apply segs_nonempty|now apply segs_gt_free].
Qed.

(* ------------------------------------------------------------------ the text AnalysisByFiles prints *)
Fixpoint no_dquote (s : string) : bool :=
  match s with
  | EmptyString => true
  | String c r => negb (Ascii.eqb c c_dquote) && no_dquote r
  end.

Lemma escape_no_dquote : forall s, no_dquote s = true -> escape_quotes s = s.
Proof.
  induction s as [|c s IH]; intros H; [reflexivity|].
  cbn [no_dquote] in H. apply andb_true_iff in H. destruct H as [Hc Hs]. apply negb_true_iff in Hc.
  cbn [escape_quotes]. rewrite Hc. now rewrite IH.
Qed.

Section ApiText.
  Variable m : list ds.
  Variable di : gomap string.
  Let mm := method_map m.

  Definition api_items (a : rest_api) : list citem := snd (chain cfuel mm di 0 (api_caller a)).

  (* blank line, the API's own edge, the chain of its handler *)
  Definition api_stmts (a : rest_api) : list stmt :=
    SBlank :: SEdge (api_label a) (api_caller a) :: map cstmt (api_items a).

  Lemma api_items_noof : forall a, ~ In COutOfFuel (api_items a).
  Proof. intros a. unfold api_items. exact (proj1 (chain_terminates_in_budget mm di (api_caller a))). Qed.

  Lemma api_chain_fst : forall a,
      no_dquote (api_label a) = true ->
      nl ++ fst (api_chain mm di a) = render_stmts (api_stmts a).
  Proof.
    intros a Hq. unfold api_chain, api_stmts. fold (api_items a).
    pose proof (api_items_noof a) as Hn. unfold api_items in *.
    destruct (chain cfuel mm di 0 (api_caller a)) as [c items]. cbn [fst snd] in *.
    rewrite !render_stmts_cons. cbn [render_stmt]. rewrite (escape_no_dquote _ Hq).
    rewrite (render_citems_stmts items Hn). unfold api_label, dquote.
    rewrite !append_assoc. reflexivity.
  Qed.

  Lemma api_chain_snd : forall a,
      snd (api_chain mm di a) = split_count (render_stmts (map cstmt (api_items a))).
  Proof.
    intros a. unfold api_chain. pose proof (api_items_noof a) as Hn. unfold api_items in *.
    destruct (chain cfuel mm di 0 (api_caller a)) as [c items]. cbn [fst snd] in *.
    now rewrite (render_citems_stmts items Hn).
  Qed.

  Lemma concat_render : forall apis,
      (forall a, In a apis -> no_dquote (api_label a) = true) ->
      String.concat "" (map (fun r : string * nat => nl ++ fst r) (map (api_chain mm di) apis)) =
      render_stmts (flat_map api_stmts apis).
  Proof.
    induction apis as [|a r IH]; intros H; [reflexivity|].
    cbn [map flat_map]. rewrite render_stmts_app, <- IH by (intros; apply H; now right).
    rewrite <- api_chain_fst by (apply H; now left).
    destruct (map (fun r0 : string * nat => nl ++ fst r0) (map (api_chain mm di) r)) eqn:E.
    - cbn [String.concat]. now rewrite append_nil_r.
    - cbn [String.concat]. reflexivity.
  Qed.

  Lemma analysis_by_files_text : forall apis,
      (forall a, In a apis -> no_dquote (api_label a) = true) ->
      fst (analysis_by_files apis m di) =
      "digraph G { " ++ nl ++ render_stmts (flat_map api_stmts apis) ++ "}" ++ nl.
  Proof.
    intros apis H. unfold analysis_by_files. cbn [fst]. fold mm. now rewrite concat_render.
  Qed.

  Lemma analysis_by_files_sizes : forall apis,
      snd (analysis_by_files apis m di) =
      map (fun a => split_count (render_stmts (map cstmt (api_items a)))) apis.
  Proof.
    intros apis. unfold analysis_by_files. cbn [snd]. fold mm. rewrite map_map.
    apply map_ext. intros a. apply api_chain_snd.
  Qed.
End ApiText.

(* the second header AnalysisByFiles prints ("digraph G { " with a blank before the line end) *)
Lemma dot_parse_render_api : forall l,
    names_plain l ->
    dot_parse ("digraph G { " ++ nl ++ render_stmts l ++ "}" ++ nl) = Some (stmt_edges l).
Proof.
  intros l Hn. unfold dot_parse.
  replace (chars ("digraph G { " ++ nl ++ render_stmts l ++ "}" ++ nl))
    with ((chars ("digraph G { " ++ nl)) ++ (chars (render_stmts l) ++ footer))%list.
  2: { rewrite !chars_app. rewrite <- !app_assoc. reflexivity. }
  assert (H1 : forall r, strip_prefix (chars ("digraph G {" ++ nl)) (chars ("digraph G { " ++ nl) ++ r)%list = None)
    by (intros r; vm_compute; reflexivity).
  rewrite H1. rewrite strip_prefix_app.
  rewrite parse_body_render; [reflexivity|assumption|].
  rewrite app_length. pose proof (length_render_stmts l). lia.
Qed.

(* ------------------------------------------------------------------ the edge list splits into one section per API *)
Lemma take_section_none : forall l, take_section l None = (l, []).
Proof. induction l as [|e r IH]; [reflexivity|]. cbn [take_section]. now rewrite IH. Qed.

Definition is_edge (n e : string * string) : bool := String.eqb (fst e) (fst n) && String.eqb (snd e) (snd n).

Lemma take_section_some : forall sec n rest,
    (forall e, In e sec -> is_edge n e = false) ->
    take_section (sec ++ n :: rest)%list (Some n) = (sec, n :: rest).
Proof.
  induction sec as [|e r IH]; intros n rest H.
  - cbn [app take_section]. now rewrite !String.eqb_refl.
  - cbn [app take_section]. fold (is_edge n e). rewrite (H e (or_introl eq_refl)).
    rewrite IH by (intros; apply H; now right). reflexivity.
Qed.

Section ApiSections.
  Variable m : list ds.
  Variable di : gomap string.
  Let mm := method_map m.

  Definition api_sec (a : rest_api) : list (string * string) := stmt_edges (map cstmt (api_items m di a)).

  Lemma api_edges : forall apis,
      stmt_edges (flat_map (api_stmts m di) apis) =
      flat_map (fun a => (api_label a, api_caller a) :: api_sec a) apis.
  Proof.
    induction apis as [|a r IH]; [reflexivity|].
    cbn [flat_map]. rewrite stmt_edges_app, IH. reflexivity.
  Qed.

  (* no edge of a handler's chain starts at an API label *)
  Variable apis0 : list rest_api.
  Hypothesis Hfresh : forall a a2 e, In a apis0 -> In a2 apis0 -> In e (api_sec a) -> fst e <> api_label a2.

  Lemma api_sections_ok : forall apis,
      (forall a, In a apis -> In a apis0) ->
      api_sections apis (flat_map (fun a => (api_label a, api_caller a) :: api_sec a) apis) =
      Some (map api_sec apis).
  Proof.
    induction apis as [|a r IH]; intros Hin; [reflexivity|].
    cbn [flat_map app api_sections fst snd]. rewrite !String.eqb_refl. cbn [andb].
    destruct r as [|a2 r2].
    - cbn [flat_map]. rewrite app_nil_r, take_section_none. reflexivity.
    - cbn [flat_map app]. rewrite take_section_some.
      + change ((api_label a2, api_caller a2) :: (api_sec a2 ++ flat_map (fun a0 => (api_label a0, api_caller a0) :: api_sec a0) r2))%list
          with (flat_map (fun a0 => (api_label a0, api_caller a0) :: api_sec a0) (a2 :: r2)).
        rewrite IH by (intros; apply Hin; now right). reflexivity.
      + intros e He. unfold is_edge. cbn [fst snd]. apply andb_false_iff. left. apply String.eqb_neq.
        apply (Hfresh a a2 e); [apply Hin; now left|apply Hin; right; now left|exact He].
  Qed.
End ApiSections.

(* ------------------------------------------------------------------ the three clauses, with a DI map *)
Section VerdictDI.
  Variable m : list ds.
  Variable di : gomap string.
  Variable root : string.
  Variable items : list citem.
  Variable bud : nat.
  Let mm := method_map m.
  Hypothesis Hsound : forall a b, In (CEdge a b) items ->
                                  In b (succ mm di a) /\ ReachN (succ mm di) cfuel root a.
  Hypothesis Hroot : forall b, In b (succ mm di root) -> In (CEdge root b) items.

  Lemma Hsucc_di : forall x, succ mm di x = spec_callees m di x.
  Proof. intros x. unfold succ, spec_callees, mm. now rewrite method_map_exact. Qed.

  Lemma verdict_sound_di : edges_sound_b m di root false (stmt_edges (map cstmt items)) = true.
  Proof.
    unfold edges_sound_b. apply forallb_forall. intros [a b] Hin.
    apply cstmt_edges_in in Hin. destruct (Hsound a b Hin) as [H1 H2].
    apply orb_true_iff. left. unfold fwd_edge_ok. cbn [fst snd]. apply andb_true_iff. split.
    - apply str_mem_In. now rewrite <- Hsucc_di.
    - apply str_mem_In. unfold freach. eapply reach_within_complete.
      + eapply ReachN_ext; [exact Hsucc_di|exact H2].
      + pose proof cfuel_le_16. lia.
  Qed.

  Lemma verdict_root_di : root_complete_b m di root (stmt_edges (map cstmt items)) = true.
  Proof.
    unfold root_complete_b. apply forallb_forall. intros b Hb. unfold has_edge. apply existsb_exists.
    exists (root, b). split.
    - apply cstmt_edges_in. apply Hroot. now rewrite Hsucc_di.
    - cbn [fst snd]. now rewrite !String.eqb_refl.
  Qed.

  Hypothesis Hexact : forall n, expansions (S bud) (succ mm di) bud root = Some n ->
                                forall k x y, ReachN (succ mm di) k root x -> In y (succ mm di x) ->
                                              In (CEdge x y) items.

  Lemma verdict_exact_di : exact_in_budget_b bud m di root (stmt_edges (map cstmt items)) = true.
  Proof.
    unfold exact_in_budget_b. destruct (fits bud m di root) eqn:Hfit; [|reflexivity]. cbn [negb orb].
    assert (Hexp : exists n, expansions (S bud) (succ mm di) bud root = Some n).
    { unfold fits in Hfit.
      destruct (expansions (S bud) (spec_callees m di) bud root) as [n|] eqn:Hexp; [|discriminate].
      exists n. rewrite <- Hexp. apply expansions_ext. exact Hsucc_di. }
    destruct Hexp as [n Hexp].
    apply forallb_forall. intros a Ha. apply forallb_forall. intros b Hb.
    assert (Hk : exists k, ReachN (succ mm di) k root a).
    { unfold freach in Ha. apply reach_within_sound in Ha.
      apply Reach_ReachN. eapply Reach_ext; [|exact Ha]. intros x. symmetry. apply Hsucc_di. }
    destruct Hk as [k Hk].
    unfold has_edge. apply existsb_exists. exists (a, b). split.
    - apply cstmt_edges_in. apply (Hexact n Hexp k a b Hk). now rewrite Hsucc_di.
    - cbn [fst snd]. now rewrite !String.eqb_refl.
  Qed.
End VerdictDI.

(* ------------------------------------------------------------------ the names that can occur in a chain *)
Definition di_call_names (m : list ds) (di : gomap string) : list string :=
  map (subst_di di) (all_call_names m).

Lemma succ_in_di_call_names : forall m di x y,
    In y (succ (method_map m) di x) -> In y (di_call_names m di).
Proof.
  intros m di x y H. unfold succ in H. apply in_map_iff in H. destruct H as [c [Hc Hin]]. subst y.
  unfold di_call_names. apply in_map. rewrite method_map_exact in Hin. eapply spec_callees_raw_names; eassumption.
Qed.

Lemma api_sec_names : forall m di a x y,
    In (x, y) (api_sec m di a) ->
    (x = api_caller a \/ In x (di_call_names m di)) /\ In y (di_call_names m di).
Proof.
  intros m di a x y H. unfold api_sec in H. apply cstmt_edges_in in H. unfold api_items in H.
  destruct (chain_sound (method_map m) di cfuel 0 (api_caller a) x y H) as [H1 H2]. split.
  - apply ReachN_target_or_succ in H2. destruct H2 as [H2|[h H2]]; [now left|right].
    eapply succ_in_di_call_names; eassumption.
  - eapply succ_in_di_call_names; eassumption.
Qed.

(* the decidable hypotheses: API labels hold no quote, no backslash, no line end and are not method names; handler
   names and callee names (after the DI substitution) hold no backslash, no line end and no '>' *)
Definition api_names_ok_b (m : list ds) (di : gomap string) (apis : list rest_api) : bool :=
  forallb (fun a => no_dquote (api_label a) && plain (api_label a) && plain (api_caller a) && gt_free (api_caller a)) apis &&
  forallb (fun x => plain x && gt_free x) (di_call_names m di) &&
  forallb (fun a => negb (str_mem (api_label a) (map api_caller apis ++ di_call_names m di))) apis.

Lemma flat_map_nil : forall (A B : Type) (f : A -> list B) l, (forall x, In x l -> f x = []) -> flat_map f l = [].
Proof.
  induction l as [|x r IH]; intros H; [reflexivity|]. cbn [flat_map]. rewrite (H x (or_introl eq_refl)).
  apply IH. intros; apply H; now right.
Qed.

Lemma combine_maps : forall (A B C : Type) (f : A -> B) (g : A -> C) l,
    combine (combine l (map f l)) (map g l) = map (fun a => (a, f a, g a)) l.
Proof. induction l as [|a r IH]; [reflexivity|]. cbn [map combine]. now rewrite IH. Qed.

Theorem analysis_by_files_meets_spec : forall apis m di,
    api_names_ok_b m di apis = true ->
    c03_api_verdict (S maxLoopCount) m di apis
                    (fst (analysis_by_files apis m di)) (snd (analysis_by_files apis m di)) = [].
Proof.
  intros apis m di Hok. unfold api_names_ok_b in Hok.
  apply andb_true_iff in Hok. destruct Hok as [Hok Hfr]. apply andb_true_iff in Hok. destruct Hok as [Hap Hnm].
  rewrite forallb_forall in Hap, Hnm, Hfr.
  assert (Hlab : forall a, In a apis -> no_dquote (api_label a) = true /\ plain (api_label a) = true /\
                                        plain (api_caller a) = true /\ gt_free (api_caller a) = true).
  { intros a Ha. specialize (Hap a Ha). repeat (apply andb_true_iff in Hap; destruct Hap as [Hap ?]). auto. }
  assert (Hn : forall x, In x (di_call_names m di) -> plain x = true /\ gt_free x = true).
  { intros x Hx. specialize (Hnm x Hx). apply andb_true_iff in Hnm. exact Hnm. }
  unfold c03_api_verdict.
  rewrite analysis_by_files_text by (intros a Ha; apply (Hlab a Ha)).
  rewrite dot_parse_render_api.
  2: { intros x y Hin. apply in_flat_map in Hin. destruct Hin as [a [Ha Hin]].
       destruct (Hlab a Ha) as [_ [Hp1 [Hp2 _]]].
       destruct Hin as [Hin|[Hin|Hin]]; [discriminate|inversion Hin; subst; auto|].
       assert (He : In (x, y) (api_sec m di a)).
       { unfold api_sec, stmt_edges. apply in_flat_map. exists (SEdge x y). split; [exact Hin|now left]. }
       destruct (api_sec_names m di a x y He) as [[Hx|Hx] Hy].
       - subst x. split; [assumption|apply (Hn y Hy)].
       - split; [apply (Hn x Hx)|apply (Hn y Hy)]. }
  rewrite api_edges.
  rewrite (api_sections_ok m di apis); [| |auto].
  2: { intros a a2 [x y] Ha Ha2 He Heq. cbn [fst] in Heq. subst x.
       specialize (Hfr a2 Ha2). apply negb_true_iff in Hfr.
       assert (Hin : In (api_label a2) (map api_caller apis ++ di_call_names m di)%list).
       { destruct (api_sec_names m di a _ y He) as [[Hx|Hx] _].
         - apply in_or_app. left. rewrite Hx. now apply in_map.
         - apply in_or_app. now right. }
       apply str_mem_In in Hin. congruence. }
  rewrite analysis_by_files_sizes. rewrite !map_length, Nat.eqb_refl. cbn [negb].
  rewrite combine_maps. rewrite flat_map_concat_map, map_map, <- flat_map_concat_map.
  apply flat_map_nil. intros a Ha.
  destruct (Hlab a Ha) as [_ [_ [Hpc Hgc]]].
  unfold api_sec.
  rewrite (verdict_sound_di m di (api_caller a) (api_items m di a)).
  2: { exact (chain_sound (method_map m) di cfuel 0 (api_caller a)). }
  rewrite (verdict_root_di m di (api_caller a) (api_items m di a)).
  2: { intros b Hb. unfold api_items. apply root_complete; [lia|assumption]. }
  rewrite (verdict_exact_di m di (api_caller a) (api_items m di a) (S maxLoopCount)).
  2: { intros n He. pose proof (expansions_le _ _ _ _ _ _ He) as [_ Hle].
       destruct (chain_exact (method_map m) di _ _ _ _ He cfuel 0) as [_ G]; [unfold cfuel; lia|unfold B; lia|].
       exact G. }
  rewrite split_count_render.
  2: { intros x y Hin. destruct (api_sec_names m di a x y Hin) as [[Hx|Hx] Hy].
       - subst x. split; [assumption|apply (Hn y Hy)].
       - split; [apply (Hn x Hx)|apply (Hn y Hy)]. }
  rewrite Nat.eqb_refl. reflexivity.
Qed.

(* non-vacuity: two APIs over the diamond / cycle model of CallGraphProofs.v, one of them with a DI substitution:
   the hypotheses hold, the sizes are edges + 1, the second chain (a cycle) is cut by the budget *)
Definition ex_apis : list rest_api := [mkApi "GET" "/r" "p" "A" "r"; mkApi "POST" "/c/{id}" "p" "A" "c"].

Example ex_apis_ok : api_names_ok_b ex_cmodel [] ex_apis = true.
Proof. vm_compute. reflexivity. Qed.

Example ex_apis_output :
  snd (analysis_by_files ex_apis ex_cmodel []) = [6; 8] /\
  option_map (api_sections ex_apis) (dot_parse (fst (analysis_by_files ex_apis ex_cmodel []))) =
  Some (Some [[("p.A.a", "p.A.d"); ("p.A.r", "p.A.a"); ("p.A.b", "p.A.d"); ("p.A.b", "ext.E.x"); ("p.A.r", "p.A.b")];
              [("p.A.c", "p.A.c"); ("p.A.c", "p.A.c"); ("p.A.c", "p.A.c"); ("p.A.c", "p.A.c"); ("p.A.c", "p.A.c");
               ("p.A.c", "p.A.c"); ("p.A.c", "p.A.c")]]).
Proof. split; vm_compute; reflexivity. Qed.
