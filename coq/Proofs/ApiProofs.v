(* Lemmas about Model/ApiScan.v (C12, C07). *)
From Coq Require Import String List Bool Arith Lia.
From Coca Require Import Lib.Sx Lib.GoMap Lib.Str Model.ApiScan Model.ApiSpec.
Import ListNotations.
Open Scope string_scope.
Open Scope list_scope.

(* a new listener forgets everything the previous file left behind *)
Theorem new_listener_state_free : forall st1 st2, new_api_listener st1 = new_api_listener st2.
Proof. reflexivity. Qed.

Definition unit_apis (u : aunit) : option (list rest_entry) :=
  match api_unit (new_api_listener astate0) u with AOk s => Some (a_apis s) | APanic => None end.

(* the scan of a directory is the concatenation of what every file yields on its own: a
   controller's entries do not depend on which other files are scanned, nor on their order *)
Theorem api_files_concat : forall units st out,
    (forall u, In u units -> unit_apis u <> None) ->
    exists s', fold_left (fun acc u =>
                 match acc with
                 | None => None
                 | Some (s, out) =>
                   match api_unit (new_api_listener s) u with
                   | APanic => None
                   | AOk s1 => Some (s1, (out ++ a_apis s1)%list)
                   end
                 end) units (Some (st, out))
               = Some (s', out ++ flat_map (fun u => match unit_apis u with Some l => l | None => [] end) units).
Proof.
  induction units as [|u us IH]; intros st out H.
  - exists st. simpl. now rewrite app_nil_r.
  - cbn [fold_left flat_map].
    assert (Hu : unit_apis u <> None) by (apply H; now left).
    unfold unit_apis in *. rewrite (new_listener_state_free st astate0).
    destruct (api_unit (new_api_listener astate0) u) as [s1|] eqn:E; [|congruence].
    destruct (IH s1 (out ++ a_apis s1)) as [s' Hs']; [intros; apply H; now right|].
    exists s'. rewrite Hs'. now rewrite <- app_assoc.
Qed.

Corollary api_files_per_file : forall units,
    (forall u, In u units -> unit_apis u <> None) ->
    option_map snd (api_files astate0 units)
    = Some (flat_map (fun u => match unit_apis u with Some l => l | None => [] end) units).
Proof.
  intros units H. unfold api_files. destruct (api_files_concat units astate0 [] H) as [s' Hs'].
  rewrite Hs'. reflexivity.
Qed.

(* ---- classes without a controller annotation contribute nothing ---- *)
Definition no_controller_annot (l : list aannot) : Prop :=
  forall a, In a l -> aa_name a <> "RestController" /\ aa_name a <> "Controller".

Definition quiet (st : astate) : Prop := a_isController st = false /\ a_hasEnterRest st = false /\ a_apis st = [].

Lemma build_base_quiet : forall s0 a,
    quiet s0 ->
    match build_base s0 a with
    | AOk s => quiet s /\ a_hasEnterClass s = a_hasEnterClass s0
    | APanic => True
    end.
Proof.
  intros s0 a Hq. unfold build_base. destruct (negb (String.eqb (aa_name a) "RequestMapping")); [auto|].
  destruct (aa_has_pairs a).
  - assert (G : forall l s1, quiet s1 -> a_hasEnterClass s1 = a_hasEnterClass s0 ->
                match fold_left (fun acc kv =>
                        match acc with
                        | APanic => APanic
                        | AOk s => if String.eqb (fst kv) "value"
                                   then match strip1 (snd kv) with Some t => AOk (with_base s t) | None => APanic end
                                   else AOk s
                        end) l (AOk s1) with
                | AOk s => quiet s /\ a_hasEnterClass s = a_hasEnterClass s0
                | APanic => True
                end).
    { induction l as [|kv l IH]; intros s1 Hq1 Hc; cbn [fold_left]; [auto|].
      destruct (String.eqb (fst kv) "value").
      - destruct (strip1 (snd kv)).
        + apply IH; [destruct Hq1 as [? [? ?]]; unfold quiet, with_base; cbn; auto|exact Hc].
        + clear. induction l; cbn; auto.
      - apply IH; assumption. }
    apply G; auto.
  - destruct (aa_has_value a).
    + destruct (strip1 (aa_value a)); [|exact I]. destruct Hq as [? [? ?]]. unfold quiet, with_base; cbn; auto.
    + destruct Hq as [? [? ?]]. unfold quiet, with_base. cbn. auto.
Qed.

Lemma enter_annotation_quiet : forall st a,
    quiet st -> aa_name a <> "RestController" -> aa_name a <> "Controller" ->
    match enter_annotation st a with
    | AOk s => quiet s /\ a_hasEnterClass s = a_hasEnterClass st
    | APanic => True
    end.
Proof.
  intros st a [Q1 [Q2 Q3]] H1 H2. unfold enter_annotation. rewrite Q1.
  apply String.eqb_neq in H1, H2. rewrite H1, H2. cbn [orb].
  set (stc := mkAS (a_hasEnterClass st) false (a_hasEnterRest st) (a_baseUrl st) (a_current st) (a_apis st)
                   (a_clz st) (a_pkg st) (a_imports st) (a_implements st) (a_requestBody st)).
  assert (Qc : quiet stc) by (unfold quiet, stc; cbn; auto).
  assert (Hc : a_hasEnterClass stc = a_hasEnterClass st) by reflexivity.
  destruct (negb (a_hasEnterClass stc)).
  - pose proof (build_base_quiet stc a Qc) as Hb. destruct (build_base stc a); [|exact I].
    destruct Hb as [Hb1 Hb2]. split; [exact Hb1|congruence].
  - cbn [negb]. split; [exact Qc|exact Hc].
Qed.

Lemma enter_annotations_quiet : forall l st,
    quiet st -> no_controller_annot l ->
    match enter_annotations st l with
    | AOk s => quiet s /\ a_hasEnterClass s = a_hasEnterClass st
    | APanic => True
    end.
Proof.
  unfold enter_annotations. induction l as [|a l IH]; intros st Hq Hn; cbn [fold_left]; [auto|].
  destruct (Hn a (or_introl eq_refl)) as [H1 H2].
  pose proof (enter_annotation_quiet st a Hq H1 H2) as Ha.
  destruct (enter_annotation st a) as [s|].
  - destruct Ha as [Hq' Hc]. rewrite <- Hc. apply IH; [assumption|]. intros b Hb. apply Hn. now right.
  - clear. induction l; cbn; auto.
Qed.

Lemma enter_method_quiet : forall st m, quiet st -> enter_method st m = st.
Proof. intros st m [_ [Q2 _]]. unfold enter_method. now rewrite Q2. Qed.

Definition unit_has_no_controller (u : aunit) : Prop :=
  no_controller_annot (au_annots u) /\
  forall m, In m (au_members u) ->
            no_controller_annot (am_annots m) /\ no_controller_annot (flat_map ap_annots (am_params m)).

Theorem non_controller_nothing : forall u,
    unit_has_no_controller u -> unit_apis u = Some [] \/ unit_apis u = None.
Proof.
  intros u [Ha Hm]. unfold unit_apis, api_unit.
  set (st1 := mkAS _ _ _ _ _ _ _ _ _ _ _).
  assert (Q1 : quiet st1) by (unfold quiet, st1; cbn; auto).
  pose proof (enter_annotations_quiet (au_annots u) st1 Q1 Ha) as H2.
  destruct (enter_annotations st1 (au_annots u)) as [st2|]; [|now right].
  destruct H2 as [Q2 _].
  match goal with |- context [fold_left member_api (au_members u) (AOk ?s3)] => set (st3 := s3) end.
  assert (Q3 : quiet st3).
  { unfold st3. destruct (au_is_class u); [|exact Q2]. destruct Q2 as [? [? ?]]. unfold quiet. cbn. auto. }
  assert (G : forall ms s, quiet s -> (forall m, In m ms -> no_controller_annot (am_annots m) /\
                                                         no_controller_annot (flat_map ap_annots (am_params m))) ->
                match fold_left member_api ms (AOk s) with AOk s' => quiet s' | APanic => True end).
  { induction ms as [|m ms IH]; intros s Hq Hms; cbn [fold_left]; [exact Hq|].
    destruct (Hms m (or_introl eq_refl)) as [M1 M2].
    unfold member_api at 2.
    pose proof (enter_annotations_quiet (am_annots m) s Hq M1) as E1.
    destruct (enter_annotations s (am_annots m)) as [s1|].
    - destruct E1 as [Hq1 _]. destruct (am_is_method m).
      + rewrite enter_method_quiet by exact Hq1.
        pose proof (enter_annotations_quiet _ s1 Hq1 M2) as E2.
        destruct (enter_annotations s1 (flat_map ap_annots (am_params m))) as [s2|].
        * destruct E2 as [Hq2 _]. apply IH; [exact Hq2|intros; apply Hms; now right].
        * clear. induction ms; cbn; auto.
      + apply IH; [exact Hq1|intros; apply Hms; now right].
    - clear. induction ms; cbn; auto. }
  specialize (G (au_members u) st3 Q3 Hm).
  destruct (fold_left member_api (au_members u) (AOk st3)) as [st4|]; [|now right].
  left. destruct G as [_ [_ G3]]. cbn [a_apis]. now rewrite G3.
Qed.

(* ---- all annotation forms, computed ---- *)
Definition aa (n : string) : aannot := mkAA n false "" false [].
Definition aav (n v : string) : aannot := mkAA n true v false [].
Definition aap (n : string) (ps : list (string * string)) : aannot := mkAA n false "" true ps.
Definition q (s : string) : string := dquote ++ s ++ dquote.

Definition ex_controller : aunit :=
  mkAU "com.web" true [] true "BookController" "" false
       [aav "RequestMapping" (q "/books"); aa "RestController"]
       [ mkAM true "helper" [] [];
         mkAM true "get" [aav "GetMapping" (q "/{id}")] [mkAP false "Long" "id" [aav "PathVariable" (q "id")]];
         mkAM true "create" [aap "PostMapping" [("value", q "/new")]]
              [mkAP true "BookDto" "dto" [aa "RequestBody"]; mkAP false "String" "x" []];
         mkAM true "update" [aap "RequestMapping" [("value", q "/u"); ("method", "RequestMethod.PUT")]] [];
         mkAM true "all" [aa "RequestMapping"] [];
         mkAM true "plain" [] [mkAP false "int" "n" []] ].

Definition ex_plain : aunit :=
  mkAU "com.web" true [] true "Helper" "" false [aav "RequestMapping" (q "/h")]
       [ mkAM true "get" [aav "GetMapping" (q "/x")] [] ].

Example ex_api_entries :
  option_map (fun p => observed_rows (snd p)) (api_files astate0 [ex_plain; ex_controller; ex_plain])
  = Some [ entry_row "GET" "/books/{id}" "com.web" "BookController" "get" "";
           entry_row "POST" "/books/new" "com.web" "BookController" "create" "BookDto";
           entry_row "PUT" "/books/u" "com.web" "BookController" "update" "";
           entry_row "" "/books" "com.web" "BookController" "all" "" ].
Proof. vm_compute. reflexivity. Qed.

Example ex_plain_no_controller : unit_has_no_controller ex_plain.
Proof.
  split.
  - intros a [H|[]]; subst; split; discriminate.
  - intros m [H|[]]; subst. split.
    + intros a [H|[]]; subst; split; discriminate.
    + intros a [].
Qed.
