(* Lemmas about Model/GitLogParse.v (C14): the line state machine. *)
From Coq Require Import String List Bool Arith Lia Permutation.
From Coca Require Import Lib.Sx Lib.GoMap Lib.Str Model.GitSummary Model.GitLogParse Model.GitLogSpec.
Import ListNotations.
Open Scope string_scope.
Open Scope list_scope.

(* one entry of the log: header, numstat lines, summary lines, and whether a separator
   (any other line) follows -- git prints none after a header-only entry (merge / empty commit) *)
Record block := mkBlock {
  b_h : string; b_a : string; b_d : string; b_m : string;
  b_changes : list (nat * nat * string);
  b_modes : list (string * string);          (* (mode word, path) *)
  b_header_only : bool }.

Definition kinds_of (b : block) : list line_kind :=
  if b_header_only b then [LHeader (b_h b) (b_a b) (b_d b) (b_m b)]
  else LHeader (b_h b) (b_a b) (b_d b) (b_m b)
       :: map (fun c => LChange (fst (fst c)) (snd (fst c)) (snd c)) (b_changes b)
       ++ map (fun mk => LMode (fst mk) (snd mk)) (b_modes b) ++ [LOther].

Definition files_of (b : block) : list string := map snd (b_changes b).

Definition WFblock (b : block) : Prop :=
  b_h b <> "" /\
  NoDup (files_of b) /\
  NoDup (map snd (b_modes b)) /\
  (forall mk, In mk (b_modes b) -> In (snd mk) (files_of b) \/ fst mk <> "delete") /\
  (b_header_only b = true -> b_changes b = [] /\ b_modes b = []).

Definition mode_for (modes : list (string * string)) (f : string) : string :=
  match find (fun mk => String.eqb (snd mk) f) modes with
  | Some mk => fst mk
  | None => ""
  end.

Definition expected_commit (b : block) : commit :=
  mkCommit (b_h b) (b_a b) (b_d b) (b_m b)
           (map (fun c => mkChange (fst (fst c)) (snd (fst c)) (snd c) (mode_for (b_modes b) (snd c))) (b_changes b)).

Definition expected_commits (bs : list block) : list commit :=
  map expected_commit (filter (fun b => negb (b_header_only b)) bs).

(* ---- numstat lines fill the map, one entry per path, in order ---- *)
Lemma mput_fresh : forall (V : Type) (m : gomap V) k v, ~ In k (mkeys m) -> mput m k v = m ++ [(k, v)].
Proof.
  induction m as [|[k0 v0] m IH]; intros k v H; simpl; [reflexivity|].
  destruct (String.eqb k0 k) eqn:E.
  - apply String.eqb_eq in E. subst. exfalso. apply H. now left.
  - f_equal. apply IH. intros Hc. apply H. now right.
Qed.

Definition change_entry (c : nat * nat * string) : string * fchange :=
  (snd c, mkChange (fst (fst c)) (snd (fst c)) (snd c) "").

Lemma fold_changes : forall chs st,
    NoDup (mkeys (p_map st) ++ map snd chs) ->
    fold_left step (map (fun c => LChange (fst (fst c)) (snd (fst c)) (snd c)) chs) st =
    mkP (p_cur st) (p_map st ++ map change_entry chs) (p_changes st) (p_commits st).
Proof.
  induction chs as [|c chs IH]; intros st H.
  - simpl. rewrite app_nil_r. now destruct st.
  - cbn [map fold_left]. cbn [map] in H.
    pose proof (NoDup_remove_2 _ _ _ H) as Hn.
    assert (Hfresh : ~ In (snd c) (mkeys (p_map st))) by (intros Hc; apply Hn; apply in_or_app; now left).
    rewrite IH.
    + cbn [step p_cur p_map p_changes p_commits]. rewrite mput_fresh by exact Hfresh.
      rewrite <- app_assoc. reflexivity.
    + cbn [step p_map]. rewrite mput_fresh by exact Hfresh.
      unfold mkeys in *. rewrite map_app. cbn [map fst]. rewrite <- app_assoc. exact H.
Qed.

(* ---- summary lines set the mode of the change of the same path ---- *)
Definition set_mode (mode : string) (ch : fchange) : fchange :=
  mkChange (ch_added ch) (ch_deleted ch) (ch_file ch) mode.

Definition upd (m : gomap fchange) (k : string) (f : fchange -> fchange) : gomap fchange :=
  map (fun kv => if String.eqb (fst kv) k then (fst kv, f (snd kv)) else kv) m.

Lemma mkeys_upd : forall m k f, mkeys (upd m k f) = mkeys m.
Proof.
  unfold mkeys, upd. intros m k f. rewrite map_map. apply map_ext. intros [k0 v0]. simpl.
  now destruct (String.eqb k0 k).
Qed.

Lemma mput_is_upd : forall (m : gomap fchange) k ch f,
    NoDup (mkeys m) -> mget m k = Some ch -> mput m k (f ch) = upd m k f.
Proof.
  induction m as [|[k0 v0] m IH]; intros k ch f Hnd Hg; simpl in *; [discriminate|].
  inversion Hnd as [|? ? Hn Hnd']; subst.
  destruct (String.eqb k0 k) eqn:E.
  - inversion Hg. subst v0. f_equal. apply String.eqb_eq in E. subst k0.
    unfold upd. rewrite <- (map_id m) at 1. apply map_ext_in. intros [k1 v1] Hin. simpl.
    destruct (String.eqb k1 k) eqn:E1; [|reflexivity]. apply String.eqb_eq in E1. subst k1.
    exfalso. apply Hn. unfold mkeys. apply in_map_iff. exists (k, v1). auto.
  - f_equal. eapply IH; eassumption.
Qed.

Lemma upd_absent : forall (m : gomap fchange) k f, mget m k = None -> upd m k f = m.
Proof.
  induction m as [|[k0 v0] m IH]; intros k f H; simpl in *; [reflexivity|].
  destruct (String.eqb k0 k) eqn:E; [discriminate|]. f_equal. now apply IH.
Qed.

Definition mode_step (m : gomap fchange) (mk : string * string) : gomap fchange :=
  upd m (snd mk) (set_mode (fst mk)).

Lemma fold_modes : forall modes st,
    NoDup (mkeys (p_map st)) ->
    (forall mk, In mk modes -> In (snd mk) (mkeys (p_map st)) \/ fst mk <> "delete") ->
    fold_left step (map (fun mk => LMode (fst mk) (snd mk)) modes) st =
    mkP (p_cur st) (fold_left mode_step modes (p_map st)) (p_changes st) (p_commits st).
Proof.
  induction modes as [|mk modes IH]; intros st Hnd Hk.
  - simpl. now destruct st.
  - cbn [map fold_left].
    assert (Hstep : step st (LMode (fst mk) (snd mk)) =
                    mkP (p_cur st) (mode_step (p_map st) mk) (p_changes st) (p_commits st)).
    { cbn [step]. unfold mode_step. destruct (mget (p_map st) (snd mk)) as [ch|] eqn:Eg.
      - f_equal. apply (mput_is_upd (p_map st) (snd mk) ch (set_mode (fst mk))); assumption.
      - rewrite upd_absent by assumption.
        destruct (Hk mk (or_introl eq_refl)) as [Hin|Hne].
        + exfalso. apply mget_none_not_in_keys in Eg. contradiction.
        + apply String.eqb_neq in Hne. rewrite Hne. now destruct st. }
    rewrite Hstep. rewrite IH.
    + reflexivity.
    + cbn [p_map]. unfold mode_step. now rewrite mkeys_upd.
    + intros mk' Hin. cbn [p_map]. unfold mode_step. rewrite mkeys_upd. apply Hk. now right.
Qed.

Definition final_change (modes : list (string * string)) (k : string) (ch : fchange) : fchange :=
  fold_left (fun ch mk => if String.eqb k (snd mk) then set_mode (fst mk) ch else ch) modes ch.

Lemma fold_mode_step : forall modes (es : gomap fchange),
    fold_left mode_step modes es = map (fun kv => (fst kv, final_change modes (fst kv) (snd kv))) es.
Proof.
  induction modes as [|mk modes IH]; intros es.
  - simpl. rewrite <- (map_id es) at 1. apply map_ext. now intros [k v].
  - cbn [fold_left]. rewrite IH. unfold mode_step, upd. rewrite map_map. apply map_ext.
    intros [k v]. cbn [fst snd final_change fold_left].
    destruct (String.eqb k (snd mk)); reflexivity.
Qed.

Lemma final_notin : forall modes k ch, ~ In k (map snd modes) -> final_change modes k ch = ch.
Proof.
  induction modes as [|mk modes IH]; intros k ch H; [reflexivity|].
  cbn [final_change fold_left]. destruct (String.eqb k (snd mk)) eqn:E.
  - apply String.eqb_eq in E. exfalso. apply H. left. now symmetry.
  - apply IH. intros Hc. apply H. now right.
Qed.

Lemma final_mode : forall modes a d f m0,
    NoDup (map snd modes) ->
    final_change modes f (mkChange a d f m0) =
    mkChange a d f (match find (fun mk => String.eqb (snd mk) f) modes with Some mk => fst mk | None => m0 end).
Proof.
  induction modes as [|mk modes IH]; intros a d f m0 Hnd; [reflexivity|].
  cbn [map] in Hnd. inversion Hnd as [|? ? Hn Hnd']; subst.
  cbn [final_change fold_left find]. rewrite (String.eqb_sym (snd mk) f).
  destruct (String.eqb f (snd mk)) eqn:E.
  - apply String.eqb_eq in E. subst f. fold (final_change modes (snd mk) (set_mode (fst mk) (mkChange a d (snd mk) m0))).
    now rewrite final_notin.
  - fold (final_change modes f (mkChange a d f m0)). now apply IH.
Qed.

Lemma modes_applied : forall modes chs,
    NoDup (map snd modes) ->
    map snd (fold_left mode_step modes (map change_entry chs)) =
    map (fun c => mkChange (fst (fst c)) (snd (fst c)) (snd c) (mode_for modes (snd c))) chs.
Proof.
  intros modes chs Hnd. rewrite fold_mode_step. rewrite !map_map. apply map_ext.
  intros [[a d] f]. cbn [change_entry fst snd]. unfold mode_for. now rewrite final_mode.
Qed.

(* ---- one block, then all blocks ---- *)
Definition at_boundary (st : pstate) : Prop := p_map st = [] /\ p_changes st = [].

Lemma block_step : forall b st,
    WFblock b -> at_boundary st ->
    let st' := fold_left step (kinds_of b) st in
    at_boundary st' /\
    p_commits st' = (p_commits st ++ (if b_header_only b then [] else [expected_commit b]))%list.
Proof.
  intros b st [Hh [Hnd [Hndm [Hmodes Hho]]]] [Hm Hc]. unfold kinds_of.
  destruct (b_header_only b) eqn:Eho.
  - cbn [fold_left step p_map p_changes p_commits]. split; [split; assumption|]. now rewrite app_nil_r.
  - cbn [fold_left]. rewrite !fold_left_app.
    set (st1 := step st (LHeader (b_h b) (b_a b) (b_d b) (b_m b))).
    assert (H1 : p_map st1 = [] /\ p_changes st1 = [] /\ p_commits st1 = p_commits st /\
                 p_cur st1 = mkCommit (b_h b) (b_a b) (b_d b) (b_m b) []).
    { unfold st1. cbn [step p_map p_changes p_commits p_cur]. auto. }
    destruct H1 as [H1m [H1c [H1k H1cur]]].
    rewrite fold_changes by (rewrite H1m; exact Hnd).
    rewrite fold_modes.
    + cbn [p_cur p_map p_changes p_commits fold_left step].
      rewrite H1cur. cbn [cm_rev]. apply String.eqb_neq in Hh. rewrite Hh.
      cbn [p_map p_changes p_commits]. split; [split; reflexivity|].
      rewrite H1k, H1c, H1m. cbn [app cm_rev cm_author cm_date cm_msg].
      rewrite modes_applied by exact Hndm. reflexivity.
    + cbn [p_map]. rewrite H1m. cbn [app]. unfold mkeys. rewrite map_map. exact Hnd.
    + intros mk Hin. cbn [p_map]. rewrite H1m. cbn [app]. unfold mkeys. rewrite map_map.
      destruct (Hmodes mk Hin) as [H|H]; [left; exact H|now right].
Qed.

(* the parsed list contains, in order, exactly one entry per block that is followed by a
   separator, with that block's own header fields, one change per path with its counts, and
   the mode of the summary line of the same path: nothing is attributed to a neighbour *)
Theorem parse_blocks : forall bs st,
    Forall WFblock bs -> at_boundary st ->
    p_commits (fold_left step (flat_map kinds_of bs) st) = (p_commits st ++ expected_commits bs)%list.
Proof.
  induction bs as [|b bs IH]; intros st Hwf Hb.
  - simpl. now rewrite app_nil_r.
  - inversion Hwf as [|? ? Hw Hwf']; subst. cbn [flat_map]. rewrite fold_left_app.
    destruct (block_step b st Hw Hb) as [Hb' Hc].
    rewrite IH by assumption. rewrite Hc. unfold expected_commits. cbn [filter].
    destruct (b_header_only b); cbn [negb map]; rewrite <- app_assoc; reflexivity.
Qed.

Corollary parse_blocks_from_start : forall bs,
    Forall WFblock bs -> p_commits (fold_left step (flat_map kinds_of bs) pstate0) = expected_commits bs.
Proof. intros bs H. rewrite parse_blocks; [reflexivity|assumption|split; reflexivity]. Qed.

(* a parse never depends on what an earlier parse left behind *)
Theorem build_message_state_free : forall input, build_message_by_input input = p_commits (fold_left parse_line (split nl input) pstate0).
Proof. reflexivity. Qed.

(* ---- the scanners on concrete lines as git prints them (computed) ---- *)
Example classify_examples :
  classify "[828fe39523] Rossen Stoyanchev 2019-12-04 fix [abc1234] by Rossen Stoyanchev on 2019-12-04"
    = LHeader "828fe39523" "Rossen Stoyanchev" "2019-12-04" "fix [abc1234] by Rossen Stoyanchev on 2019-12-04" /\
  classify ("5" ++ tab ++ "3" ++ tab ++ "a b/{x => y}/[12345] 2020 01.txt") = LChange 5 3 "a b/{x => y}/[12345] 2020 01.txt" /\
  classify ("-" ++ tab ++ "-" ++ tab ++ "bin.dat") = LChange 0 0 "bin.dat" /\
  classify " create mode 100644 2020 01 notes.txt" = LMode "create" "2020 01 notes.txt" /\
  classify " delete mode 100644 a b.txt" = LMode "delete" "a b.txt" /\
  classify " rename a.txt => d/a.txt (60%)" = LMode "rename" "a.txt => d/a.txt (60%)" /\
  classify "" = LOther.
Proof. vm_compute. repeat split; reflexivity. Qed.

Definition ex_blocks : list block :=
  [ mkBlock "cfa3acd" "Al Ice" "2026-09-30" "feat: one [abc123]" [(1, 0, "a.txt")] [("create", "a.txt")] false;
    mkBlock "5aeb8a8" "Al Ice" "2026-09-30" "empty one" [] [] true;
    mkBlock "2e32690" "Al Ice" "2026-09-30" "second" [(0, 0, "bin.dat"); (1, 0, "a.txt => d/a.txt")]
            [("create", "bin.dat"); ("rename", "a.txt => d/a.txt (60%)")] false ].

Fixpoint nodup_strs (l : list string) : bool :=
  match l with [] => true | x :: r => negb (str_mem x r) && nodup_strs r end.

Lemma nodup_strs_sound : forall l, nodup_strs l = true -> NoDup l.
Proof.
  induction l as [|x l IH]; intros H; [constructor|]. simpl in H. apply andb_true_iff in H.
  destruct H as [H1 H2]. constructor; [|now apply IH]. intros Hc. apply str_mem_In in Hc.
  rewrite Hc in H1. discriminate.
Qed.

Definition wf_block_b (b : block) : bool :=
  negb (String.eqb (b_h b) "") && nodup_strs (files_of b) && nodup_strs (map snd (b_modes b)) &&
  forallb (fun mk => str_mem (snd mk) (files_of b) || negb (String.eqb (fst mk) "delete")) (b_modes b) &&
  (negb (b_header_only b) ||
   (match b_changes b with [] => true | _ => false end && match b_modes b with [] => true | _ => false end)).

Lemma wf_block_b_sound : forall b, wf_block_b b = true -> WFblock b.
Proof.
  intros b H. unfold wf_block_b in H. repeat (apply andb_true_iff in H; destruct H as [H ?]).
  repeat split.
  - apply negb_true_iff in H. now apply String.eqb_neq.
  - now apply nodup_strs_sound.
  - now apply nodup_strs_sound.
  - intros mk Hin. rewrite forallb_forall in H1. specialize (H1 mk Hin). apply orb_true_iff in H1.
    destruct H1 as [H1|H1]; [left; now apply str_mem_In|right].
    apply negb_true_iff in H1. now apply String.eqb_neq.
  - destruct (b_header_only b); [|discriminate]. simpl in H0. apply andb_true_iff in H0.
    destruct H0 as [Ha _]. now destruct (b_changes b).
  - destruct (b_header_only b); [|discriminate]. simpl in H0. apply andb_true_iff in H0.
    destruct H0 as [_ Hb]. now destruct (b_modes b).
Qed.

Example ex_blocks_wf : Forall WFblock ex_blocks.
Proof.
  assert (H : forallb wf_block_b ex_blocks = true) by (vm_compute; reflexivity).
  apply Forall_forall. intros b Hb. apply wf_block_b_sound. rewrite forallb_forall in H. now apply H.
Qed.

Example ex_blocks_parse :
  p_commits (fold_left step (flat_map kinds_of ex_blocks) pstate0) =
  [ mkCommit "cfa3acd" "Al Ice" "2026-09-30" "feat: one [abc123]" [mkChange 1 0 "a.txt" "create"];
    mkCommit "2e32690" "Al Ice" "2026-09-30" "second"
             [mkChange 0 0 "bin.dat" "create"; mkChange 1 0 "a.txt => d/a.txt" ""] ].
Proof. vm_compute. reflexivity. Qed.
