(* C01, identifier pass: one entry per unit with its own name / kind / package, and inside it one function
   entry per declared constructor / method / interface method, in source order, with name and return type. *)
From Coq Require Import String List Bool Arith Lia.
From Coca Require Import Lib.Sx Lib.GoMap Lib.Str Model.CodeModel Model.JavaFull Model.JavaIdent.
Import ListNotations.
Open Scope string_scope.
Open Scope list_scope.

Definition is_fun_member (m : jmember) : bool := negb (String.eqb (m_kind m) "field").

(* what the identifier pass records of a declared function: name, return type ("" for a constructor), whether
   it is a constructor, its modifiers in source order (class methods only) *)
Definition ident_sig (f : func) : string * string * bool * list string := (f_name f, f_ret f, f_isctor f, f_mods f).
Definition expected_ident_sig (m : jmember) : string * string * bool * list string :=
  if String.eqb (m_kind m) "ctor" then (m_name m, "", true, [])
  else (m_name m, m_ret m, false, if String.eqb (m_kind m) "method" then m_mods m else []).

Lemma ident_events_frame : forall evs st,
    i_node (ident_events st evs) = i_node st /\ i_nodes (ident_events st evs) = i_nodes st /\
    ident_sig (i_method (ident_events st evs)) = ident_sig (i_method st).
Proof.
  unfold ident_events. induction evs as [|e evs IH]; intros st; cbn [fold_left]; [repeat split|].
  destruct (IH (match e with
                | EReturn _ nulltok => mkI (i_node st) (i_nodes st) (set_retnull (i_method st) (f_retnull (i_method st) || nulltok))
                                           (i_hasEnterClass st) (i_imports st) (i_override st)
                | _ => st end)) as [H1 [H2 H3]].
  rewrite H1, H2, H3. destruct e; repeat split; reflexivity.
Qed.

Lemma annots_fold_frame : forall l st,
    let st' := fold_left (fun s a => if String.eqb a "Override"
                                     then mkI (i_node s) (i_nodes s) (i_method s) (i_hasEnterClass s) (i_imports s) true
                                     else s) l st in
    i_node st' = i_node st /\ i_nodes st' = i_nodes st.
Proof.
  induction l as [|a l IH]; intros st; cbn [fold_left]; [split; reflexivity|].
  cbv zeta in *. destruct (String.eqb a "Override"); [|apply IH].
  destruct (IH (mkI (i_node st) (i_nodes st) (i_method st) (i_hasEnterClass st) (i_imports st) true)) as [H1 H2].
  rewrite H1, H2. split; reflexivity.
Qed.

(* one member: a field adds nothing, a function adds exactly one entry at the end *)
Lemma ident_member_funcs : forall st m,
    i_nodes (ident_member st m) = i_nodes st /\
    d_node (i_node (ident_member st m)) = d_node (i_node st) /\ d_type (i_node (ident_member st m)) = d_type (i_node st) /\
    d_pkg (i_node (ident_member st m)) = d_pkg (i_node st) /\
    map ident_sig (d_funcs (i_node (ident_member st m))) =
    map ident_sig (d_funcs (i_node st)) ++ (if is_fun_member m then [expected_ident_sig m] else []).
Proof.
  intros st m. unfold ident_member, is_fun_member, expected_ident_sig.
  destruct (annots_fold_frame (m_annots m) st) as [A1 A2]. cbv zeta in A1, A2.
  set (st1 := fold_left _ (m_annots m) st) in *.
  destruct (String.eqb (m_kind m) "field") eqn:Ef; cbn [negb].
  - rewrite A1, A2, app_nil_r. repeat split.
  - destruct (String.eqb (m_kind m) "ctor") eqn:Ec.
    + match goal with |- context [ident_events ?s0 (m_events m)] => set (s0' := s0) end.
      destruct (ident_events_frame (m_events m) s0') as [H1 [H2 H3]].
      cbn [i_node i_nodes add_func d_node d_type d_pkg d_funcs]. rewrite H1, H2, map_app. cbn [map]. rewrite H3.
      subst s0'. cbn [i_node i_nodes i_method]. rewrite A1, A2. repeat split.
    + match goal with |- context [ident_events ?s0 (m_events m)] => set (s0' := s0) end.
      destruct (ident_events_frame (m_events m) s0') as [H1 [H2 H3]].
      destruct (String.eqb (m_kind m) "method") eqn:Em;
        cbn [i_node i_nodes add_func d_node d_type d_pkg d_funcs i_method]; rewrite H1, H2, map_app; cbn [map]; rewrite H3;
          subst s0'; cbn [i_node i_nodes i_method]; rewrite A1, A2; repeat split.
Qed.

Lemma ident_members_funcs : forall ms st,
    let st' := fold_left ident_member ms st in
    i_nodes st' = i_nodes st /\ d_node (i_node st') = d_node (i_node st) /\ d_type (i_node st') = d_type (i_node st) /\
    d_pkg (i_node st') = d_pkg (i_node st) /\
    map ident_sig (d_funcs (i_node st')) =
    map ident_sig (d_funcs (i_node st)) ++ map expected_ident_sig (filter is_fun_member ms).
Proof.
  induction ms as [|m ms IH]; intros st; cbn [fold_left filter].
  - cbv zeta. rewrite app_nil_r. repeat split.
  - cbv zeta in *. destruct (IH (ident_member st m)) as [I1 [I2 [I3 [I4 I5]]]].
    destruct (ident_member_funcs st m) as [M1 [M2 [M3 [M4 M5]]]].
    rewrite I1, I2, I3, I4, I5, M1, M2, M3, M4, M5. repeat split.
    destruct (is_fun_member m); cbn [map app]; rewrite <- app_assoc; reflexivity.
Qed.

(* the identifier pass on one file, whatever the process analysed before (the listener is created fresh):
   exactly one entry, carrying the unit's name, kind and package, and one function entry per declared
   constructor / method / interface method IN SOURCE ORDER with its name, return type and modifiers *)
Theorem ident_unit_exact : forall st u,
    u_name u <> "" ->
    exists n,
      i_nodes (ident_unit (new_ident_listener st) u) = [n] /\
      d_node n = u_name u /\
      d_type n = (if String.eqb (u_kind u) "class" then "Class" else "Interface") /\
      d_pkg n = (if u_has_pkg u then u_pkg u else "") /\
      map ident_sig (d_funcs n) = map expected_ident_sig (filter is_fun_member (u_members u)).
Proof.
  intros st u Hn. unfold ident_unit, new_ident_listener.
  cbn [i_imports i_node i_nodes i_hasEnterClass i_override i_method].
  match goal with |- context [fold_left _ (u_annots u) (?n1, false)] =>
    destruct (fold_left (fun acc a => let '(n, o) := acc in
                 let o' := if String.eqb (an_name a) "Override" then true else o in
                 if false then (n, o')
                 else (mkDs (d_node n) (d_type n) (d_pkg n) (d_path n) (d_fields n) (d_extend n) (d_impls n) (d_funcs n)
                            (d_annots n ++ [a]) (d_calls n) (d_imports n), o')) (u_annots u) (n1, false)) as [n2 ovr] eqn:EA;
    assert (HA : d_pkg n2 = d_pkg n1 /\ d_funcs n2 = d_funcs n1)
  end.
  { clear -EA.
    assert (G : forall l n o n' o',
               fold_left (fun acc a => let '(n, o) := acc in
                 let o' := if String.eqb (an_name a) "Override" then true else o in
                 if false then (n, o')
                 else (mkDs (d_node n) (d_type n) (d_pkg n) (d_path n) (d_fields n) (d_extend n) (d_impls n) (d_funcs n)
                            (d_annots n ++ [a]) (d_calls n) (d_imports n), o')) l (n, o) = (n', o') ->
               d_pkg n' = d_pkg n /\ d_funcs n' = d_funcs n).
    { induction l as [|a l IH]; intros n o n' o' H; cbn [fold_left] in H; [inversion H; auto|].
      apply IH in H. cbn [d_pkg d_funcs] in H. exact H. }
    eapply G. exact EA. }
  destruct HA as [HP HF]. cbn [d_pkg d_funcs empty_ds] in HP, HF.
  match goal with |- context [fold_left ident_member (u_members u) ?s1] => set (st1 := s1) end.
  destruct (ident_members_funcs (u_members u) st1) as [I1 [I2 [I3 [I4 I5]]]]. cbv zeta in *.
  assert (Hnode : d_node (i_node st1) = u_name u)
    by (subst st1; cbn [i_node]; destruct (String.eqb (u_kind u) "class"); reflexivity).
  assert (Hne : String.eqb (d_node (i_node (fold_left ident_member (u_members u) st1))) "" = false).
  { rewrite I2, Hnode. now apply String.eqb_neq. }
  rewrite Hne. cbn [i_nodes]. rewrite I1.
  exists (i_node (fold_left ident_member (u_members u) st1)).
  split; [subst st1; cbn [i_nodes app]; reflexivity|].
  rewrite I2, I3, I4, I5. subst st1. cbn [i_node].
  destruct (String.eqb (u_kind u) "class"); cbn [d_node d_type d_pkg d_funcs]; rewrite HP, HF; cbn [map app]; repeat split;
    destruct (u_has_pkg u); reflexivity.
Qed.
