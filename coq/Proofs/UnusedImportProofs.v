(* Theorems about the model of the unused-import removal (Model/UnusedImport.v) and the C06 decider
   (Model/UnusedImportSpec.v).  Part 1: line deletion. *)
From Coq Require Import String List Bool Arith Ascii Lia.
From Coca Require Import Lib.Str Lib.GoMap Model.UnusedImport Model.UnusedImportSpec Model.UnusedImportFacts.
Import ListNotations.
Open Scope string_scope.
Open Scope list_scope.

(* ------------------------------------------------------------------ lists *)
Lemma delete_nth_app : forall (A : Type) (pre : list A) x r,
    delete_nth (List.length pre) (pre ++ x :: r) = pre ++ r.
Proof. induction pre; simpl; intros; auto. now rewrite IHpre. Qed.

Lemma nth_error_app_mid : forall (A : Type) (pre : list A) x r,
    nth_error (pre ++ x :: r) (List.length pre) = Some x.
Proof. induction pre; simpl; intros; auto. Qed.

(* ------------------------------------------------------------------ removeImportByLines = filter *)
(* 1-based numbers, counted from n, of the lines that satisfy P *)
Fixpoint positions_from (n : nat) (P : jline -> bool) (ls : list jline) : list nat :=
  match ls with
  | [] => []
  | l :: r => if P l then n :: positions_from (S n) P r else positions_from (S n) P r
  end.

Definition keep (P : jline -> bool) (ls : list jline) : list jline := filter (fun l => negb (P l)) ls.

(* The loop of removeImportByLines/removeLine with its shifting counter, run on the numbers of the
   lines that satisfy P, deletes exactly those lines: every other line stays, byte-identical and in
   order; no panic; and when P-lines hold imports nothing but import lines goes. *)
Lemma remove_positions : forall P rest pre c corrupt,
    (forall l, P l = true -> ln_imps l <> []) ->
    pre ++ keep P rest <> [] ->
    remove_by_lines c (positions_from (List.length pre + c) P rest) (pre ++ rest) corrupt
    = mkRm (pre ++ keep P rest) corrupt false.
Proof.
  intros P rest. induction rest as [|x r IH]; intros pre c corrupt HP Hne; simpl.
  - reflexivity.
  - destruct (P x) eqn:Px; simpl.
    + assert (Hlt : Nat.ltb (List.length pre + c) c = false) by (apply Nat.ltb_ge; lia).
      rewrite Hlt. replace (List.length pre + c - c) with (List.length pre) by lia.
      assert (Hin : Nat.ltb (List.length pre) (List.length (pre ++ x :: r)) = true).
      { apply Nat.ltb_lt. rewrite app_length. simpl. lia. }
      rewrite Hin. rewrite delete_nth_app, nth_error_app_mid.
      assert (Hn : norm_lines (pre ++ r) = pre ++ r).
      { assert (Hne2 : pre ++ r <> []).
        { intros E. apply app_eq_nil in E. destruct E as [E1 E2]. apply Hne.
          unfold keep. simpl. rewrite Px. simpl. rewrite E1, E2. reflexivity. }
        unfold norm_lines. destruct (pre ++ r); [congruence|reflexivity]. }
      rewrite Hn.
      assert (Hc : (corrupt || match ln_imps x with [] => true | _ :: _ => false end)%bool = corrupt).
      { specialize (HP x Px). destruct (ln_imps x); [congruence|]. now rewrite orb_false_r. }
      rewrite Hc. replace (S (List.length pre + c)) with (List.length pre + S c) by lia.
      apply IH; auto.
      unfold keep in *. simpl in Hne. rewrite Px in Hne. exact Hne.
    + replace (S (List.length pre + c)) with (List.length (pre ++ [x]) + c)
        by (rewrite app_length; simpl; lia).
      replace (pre ++ x :: r) with ((pre ++ [x]) ++ r) by (rewrite <- app_assoc; reflexivity).
      assert (Hk : keep P (x :: r) = x :: keep P r) by (unfold keep; simpl; now rewrite Px).
      rewrite Hk in *.
      rewrite IH; auto.
      * now rewrite <- app_assoc.
      * rewrite <- app_assoc. exact Hne.
Qed.

Lemma positions_from_keep : forall P ls n, positions_from n P (keep P ls) = [].
Proof.
  induction ls as [|x r IH]; intros n; simpl; auto.
  destruct (P x) eqn:Px; simpl; auto. now rewrite Px.
Qed.

Lemma keep_all : forall P ls n, positions_from n P ls = [] -> keep P ls = ls.
Proof.
  induction ls as [|x r IH]; intros n; simpl; auto.
  destruct (P x) eqn:Px; simpl; [discriminate|]. intros H. f_equal. eauto.
Qed.

Lemma keep_idem : forall P ls, keep P (keep P ls) = keep P ls.
Proof. intros. eapply keep_all. apply positions_from_keep with (n := 0). Qed.

(* ------------------------------------------------------------------ BuildErrorLines = the removable lines *)
Definition imp_ok (cfg : ui_cfg) (fields : gomap string) (i : impfact) : bool :=
  import_ok cfg fields (mkImp (import_text i) 0).

Lemma import_ok_line : forall cfg fields t n,
    import_ok cfg fields (mkImp t n) = import_ok cfg fields (mkImp t 0).
Proof. reflexivity. Qed.

(* a line goes when it holds imports and none of them is in use *)
Definition line_removable (cfg : ui_cfg) (fields : gomap string) (l : jline) : bool :=
  match ln_imps l with
  | [] => false
  | _ => forallb (fun i => negb (imp_ok cfg fields i)) (ln_imps l)
  end.

Lemma line_removable_has_imports : forall cfg fields l,
    line_removable cfg fields l = true -> ln_imps l <> [].
Proof. unfold line_removable. intros cfg fields l. destruct (ln_imps l); [discriminate|congruence]. Qed.

Definition errs_raw (cfg : ui_cfg) (fields : gomap string) (imports : list jimport) : list nat :=
  map im_line (filter (fun im => negb (import_ok cfg fields im)) imports).
Definition used_raw (cfg : ui_cfg) (fields : gomap string) (imports : list jimport) : list nat :=
  map im_line (filter (import_ok cfg fields) imports).

Lemma errs_raw_app : forall cfg fields a b,
    errs_raw cfg fields (a ++ b) = errs_raw cfg fields a ++ errs_raw cfg fields b.
Proof. intros. unfold errs_raw. now rewrite filter_app, map_app. Qed.
Lemma used_raw_app : forall cfg fields a b,
    used_raw cfg fields (a ++ b) = used_raw cfg fields a ++ used_raw cfg fields b.
Proof. intros. unfold used_raw. now rewrite filter_app, map_app. Qed.

Definition line_imports (n : nat) (imps : list impfact) : list jimport :=
  map (fun i => mkImp (import_text i) n) imps.

Lemma nat_mem_app : forall n a b, nat_mem n (a ++ b) = (nat_mem n a || nat_mem n b)%bool.
Proof. intros. unfold nat_mem. apply existsb_app. Qed.

Lemma used_raw_line_mem : forall cfg fields n m imps,
    nat_mem m (used_raw cfg fields (line_imports n imps)) =
    (Nat.eqb m n && existsb (imp_ok cfg fields) imps)%bool.
Proof.
  intros cfg fields n m. induction imps as [|i r IH]; simpl.
  - now rewrite andb_false_r.
  - unfold used_raw in *. simpl. rewrite import_ok_line. fold (imp_ok cfg fields i).
    destruct (imp_ok cfg fields i) eqn:E; simpl.
    + rewrite IH. destruct (Nat.eqb m n); simpl; auto.
    + exact IH.
Qed.

Lemma used_raw_ge : forall cfg fields lines n m,
    In m (used_raw cfg fields (imports_from n lines)) -> n <= m.
Proof.
  intros cfg fields. induction lines as [|l r IH]; intros n m; simpl; [tauto|].
  rewrite used_raw_app. rewrite in_app_iff. intros [H|H].
  - unfold used_raw in H. apply in_map_iff in H. destruct H as [im [Hl Hin]].
    apply filter_In in Hin. destruct Hin as [Hin _]. apply in_map_iff in Hin.
    destruct Hin as [i [Hi _]]. subst im. simpl in Hl. lia.
  - apply IH in H. lia.
Qed.

Lemma nat_mem_false_lt : forall cfg fields lines n m,
    m < n -> nat_mem m (used_raw cfg fields (imports_from n lines)) = false.
Proof.
  intros. destruct (nat_mem m (used_raw cfg fields (imports_from n lines))) eqn:E; auto.
  unfold nat_mem in E. apply existsb_exists in E. destruct E as [x [Hin He]].
  apply Nat.eqb_eq in He. subst x. apply used_raw_ge in Hin. lia.
Qed.

(* the set of lines that hold an import in use, as BuildErrorLines' usedLines sees it *)
Lemma used_mem : forall cfg fields lines n k l,
    nth_error lines k = Some l ->
    nat_mem (n + k) (used_raw cfg fields (imports_from n lines)) = existsb (imp_ok cfg fields) (ln_imps l).
Proof.
  intros cfg fields. induction lines as [|x r IH]; intros n k l H.
  - destruct k; discriminate.
  - simpl. rewrite used_raw_app, nat_mem_app. fold (line_imports n (ln_imps x)).
    rewrite used_raw_line_mem. destruct k as [|k]; simpl in H.
    + inversion H; subst x. replace (n + 0) with n by lia. rewrite Nat.eqb_refl. simpl.
      rewrite nat_mem_false_lt by lia. now rewrite orb_false_r.
    + replace (Nat.eqb (n + S k) n) with false by (symmetry; apply Nat.eqb_neq; lia). simpl.
      replace (n + S k) with (S n + k) by lia. now apply IH.
Qed.

Definition last_is (last : option nat) (n : nat) : bool :=
  match last with Some k => Nat.eqb k n | None => false end.

Lemma removable_skip : forall cfg fields n imps E U last,
    (nat_mem n U || last_is last n)%bool = true ->
    removable_lines (errs_raw cfg fields (line_imports n imps) ++ E) U last = removable_lines E U last.
Proof.
  intros cfg fields n imps E U last H. induction imps as [|i r IH]; simpl; auto.
  unfold errs_raw in *. simpl. destruct (negb (import_ok cfg fields (mkImp (import_text i) n))); simpl; auto.
  unfold last_is in H. rewrite H. exact IH.
Qed.

Lemma removable_line : forall cfg fields n imps E U last,
    nat_mem n U = false -> last_is last n = false ->
    removable_lines (errs_raw cfg fields (line_imports n imps) ++ E) U last =
    if existsb (fun i => negb (imp_ok cfg fields i)) imps
    then n :: removable_lines E U (Some n) else removable_lines E U last.
Proof.
  intros cfg fields n imps E U last HU HL. induction imps as [|i r IH]; simpl; auto.
  unfold errs_raw in *. simpl. rewrite import_ok_line. fold (imp_ok cfg fields i).
  destruct (imp_ok cfg fields i) eqn:Ok; simpl.
  - exact IH.
  - unfold last_is in HL. rewrite HU, HL. simpl. f_equal.
    change (map im_line (filter (fun im => negb (import_ok cfg fields im)) (map (fun i0 => mkImp (import_text i0) n) r)))
      with (errs_raw cfg fields (line_imports n r)).
    apply removable_skip. simpl. rewrite Nat.eqb_refl. now rewrite orb_true_r.
Qed.

Lemma no_ok_all_bad : forall cfg fields imps,
    existsb (imp_ok cfg fields) imps = false ->
    forallb (fun i => negb (imp_ok cfg fields i)) imps = true.
Proof.
  induction imps as [|i r IH]; simpl; auto. intros H. apply orb_false_iff in H. destruct H as [H1 H2].
  rewrite H1. simpl. auto.
Qed.

Lemma some_ok_not_all_bad : forall cfg fields imps,
    existsb (imp_ok cfg fields) imps = true ->
    forallb (fun i => negb (imp_ok cfg fields i)) imps = false.
Proof.
  induction imps as [|i r IH]; simpl; [discriminate|]. intros H.
  destruct (imp_ok cfg fields i); simpl; auto.
Qed.

Lemma all_bad_exists : forall cfg fields imps,
    forallb (fun i => negb (imp_ok cfg fields i)) imps = true ->
    existsb (fun i => negb (imp_ok cfg fields i)) imps = match imps with [] => false | _ => true end.
Proof.
  intros cfg fields imps. destruct imps as [|i r]; simpl; auto. intros H.
  apply andb_true_iff in H. destruct H as [H _]. now rewrite H.
Qed.

(* the repaired BuildErrorLines (unused-shared-line.diff) *)
Lemma removable_lines_positions : forall cfg fields U lines n last,
    (forall k l, nth_error lines k = Some l -> nat_mem (n + k) U = existsb (imp_ok cfg fields) (ln_imps l)) ->
    match last with Some k => k < n | None => True end ->
    removable_lines (errs_raw cfg fields (imports_from n lines)) U last =
    positions_from n (line_removable cfg fields) lines.
Proof.
  intros cfg fields U. induction lines as [|x r IH]; intros n last HU HL; simpl; auto.
  rewrite errs_raw_app. fold (line_imports n (ln_imps x)).
  assert (H0 : nat_mem n U = existsb (imp_ok cfg fields) (ln_imps x)).
  { specialize (HU 0 x eq_refl). now replace (n + 0) with n in HU by lia. }
  assert (HU' : forall k l, nth_error r k = Some l ->
                            nat_mem (S n + k) U = existsb (imp_ok cfg fields) (ln_imps l)).
  { intros k l Hk. specialize (HU (S k) l Hk). now replace (n + S k) with (S n + k) in HU by lia. }
  assert (HLn : last_is last n = false).
  { unfold last_is. destruct last as [k|]; auto. apply Nat.eqb_neq. lia. }
  destruct (existsb (imp_ok cfg fields) (ln_imps x)) eqn:Ok.
  - rewrite removable_skip by (rewrite H0; reflexivity).
    assert (R : line_removable cfg fields x = false).
    { unfold line_removable. destruct (ln_imps x) eqn:E; auto. rewrite <- E in *.
      now apply some_ok_not_all_bad. }
    rewrite R. apply IH; auto. destruct last; auto; lia.
  - rewrite removable_line; auto. pose proof (no_ok_all_bad _ _ _ Ok) as Bad.
    rewrite (all_bad_exists _ _ _ Bad). unfold line_removable. destruct (ln_imps x) eqn:E.
    + apply IH; auto. destruct last; auto; lia.
    + rewrite <- E in *. rewrite Bad. f_equal. apply IH; auto.
Qed.

(* the original BuildErrorLines, on files with at most one import per line *)
Lemma errs_raw_positions : forall cfg fields lines n,
    forallb (fun ln => Nat.leb (List.length (ln_imps ln)) 1) lines = true ->
    errs_raw cfg fields (imports_from n lines) = positions_from n (line_removable cfg fields) lines.
Proof.
  intros cfg fields. induction lines as [|x r IH]; intros n H; simpl; auto.
  simpl in H. apply andb_true_iff in H. destruct H as [H1 H2].
  rewrite errs_raw_app, IH by auto. unfold line_removable.
  destruct (ln_imps x) as [|i [|j t]] eqn:E; simpl; auto.
  - unfold errs_raw. simpl. rewrite import_ok_line. fold (imp_ok cfg fields i).
    destruct (imp_ok cfg fields i); simpl; auto.
  - simpl in H1. discriminate.
Qed.

Definition one_import_per_line (lines : list jline) : bool :=
  forallb (fun ln => Nat.leb (List.length (ln_imps ln)) 1) lines.

Lemma build_error_lines_positions : forall cfg fields lines,
    (fx_lines cfg || one_import_per_line lines)%bool = true ->
    build_error_lines cfg fields (imports_from 1 lines) =
    positions_from 1 (line_removable cfg fields) lines.
Proof.
  intros cfg fields lines H. unfold build_error_lines.
  fold (errs_raw cfg fields (imports_from 1 lines)). fold (used_raw cfg fields (imports_from 1 lines)).
  destruct (fx_lines cfg) eqn:F.
  - apply removable_lines_positions; auto. intros k l Hk. now apply used_mem.
  - simpl in H. now apply errs_raw_positions.
Qed.

(* ------------------------------------------------------------------ the listener, abstractly *)
(* What Refactoring reads about a file, wherever the Go code keeps it (package-level tables or
   members of the node): node name, package, referenced names, imports. *)
Record ast := mkA { a_name : string; a_pkg : string; a_fields : gomap string; a_imports : list jimport }.

Definition proj (cfg : ui_cfg) (g : gstate) : ast :=
  mkA (id_name (g_node g)) (id_pkg (g_node g)) (get_fields cfg g (g_node g)) (get_imports cfg g (g_node g)).

Definition a_add_field (a : ast) (t : string) : ast :=
  mkA (a_name a) (a_pkg a) (mput (a_fields a) t (a_pkg a)) (a_imports a).
Definition a_add_import (a : ast) (i : jimport) : ast :=
  mkA (a_name a) (a_pkg a) (a_fields a) (a_imports a ++ [i]).
Definition a_set_name (a : ast) (n : string) : ast := mkA n (a_pkg a) (a_fields a) (a_imports a).
Definition a_set_pkg (a : ast) (p : string) : ast := mkA (a_name a) p (a_fields a) (a_imports a).

Definition a_occ (cfg : ui_cfg) (a : ast) (o : occ) : ast :=
  let r := oc_role o in
  let t := oc_text o in
  if String.eqb r "classDeclaration" then a_set_name a t
  else if String.eqb r "interfaceDeclaration" then a_set_name a t
  else if String.eqb r "enumDeclaration" then (if fx_decl cfg then a_set_name a t else a)
  else if String.eqb r "annotationTypeDeclaration" then (if fx_decl cfg then a_set_name a t else a)
  else if String.eqb r "explicitConstructorCall" then a
  else if str_mem r always_roles then a_add_field a t
  else if str_mem r upper_roles then (if is_uppercase_text t then a_add_field a t else a)
  else if String.eqb r "primary" then (if fx_primary cfg then a_add_field a t else a)
  else a.

Definition a_walk (cfg : ui_cfg) (a : ast) (f : jfile) : ast :=
  let a1 := if String.eqb (jf_pkg f) "" then a else a_set_pkg a (jf_pkg f) in
  let a2 := fold_left a_add_import (imports_from 1 (jf_lines f)) a1 in
  fold_left (a_occ cfg) (jf_occs f) a2.

Definition a0 : ast := mkA "" "" [] [].
Definition file_ast (cfg : ui_cfg) (f : jfile) : ast := a_walk cfg a0 f.

Lemma proj_add_field : forall cfg g t, proj cfg (add_field cfg g t) = a_add_field (proj cfg g) t.
Proof. intros. unfold proj, add_field, a_add_field, get_fields, get_imports. destruct (fx_perfile cfg); reflexivity. Qed.
Lemma proj_add_import : forall cfg g i, proj cfg (add_import cfg g i) = a_add_import (proj cfg g) i.
Proof. intros. unfold proj, add_import, a_add_import, get_fields, get_imports. destruct (fx_perfile cfg); reflexivity. Qed.
Lemma proj_add_method : forall cfg g m, proj cfg (add_method cfg g m) = proj cfg g.
Proof. intros. unfold proj, add_method, get_fields, get_imports. destruct (fx_perfile cfg); reflexivity. Qed.
Lemma proj_set_decl : forall cfg g ty n, proj cfg (set_decl g ty n) = a_set_name (proj cfg g) n.
Proof. intros. unfold proj, set_decl, a_set_name, get_fields, get_imports. destruct (fx_perfile cfg); reflexivity. Qed.
Lemma proj_enter_package : forall cfg g p, proj cfg (enter_package g p) = a_set_pkg (proj cfg g) p.
Proof. intros. unfold proj, enter_package, a_set_pkg, get_fields, get_imports. destruct (fx_perfile cfg); reflexivity. Qed.

Lemma proj_enter_occ : forall cfg g o, proj cfg (enter_occ cfg g o) = a_occ cfg (proj cfg g) o.
Proof.
  intros. unfold enter_occ, a_occ.
  repeat match goal with
         | |- context [if ?c then _ else _] => destruct c
         end;
    auto using proj_add_field, proj_set_decl, proj_add_method.
Qed.

Lemma proj_fold_occ : forall cfg occs g,
    proj cfg (fold_left (enter_occ cfg) occs g) = fold_left (a_occ cfg) occs (proj cfg g).
Proof. induction occs; simpl; intros; auto. now rewrite IHoccs, proj_enter_occ. Qed.
Lemma proj_fold_import : forall cfg imps g,
    proj cfg (fold_left (add_import cfg) imps g) = fold_left a_add_import imps (proj cfg g).
Proof. induction imps; simpl; intros; auto. now rewrite IHimps, proj_add_import. Qed.

Lemma proj_walk : forall cfg g f, proj cfg (walk cfg g f) = a_walk cfg (proj cfg g) f.
Proof.
  intros. unfold walk, a_walk. rewrite proj_fold_occ, proj_fold_import.
  destruct (String.eqb (jf_pkg f) ""); auto; try (now rewrite proj_enter_package).
Qed.

(* the path a node is filed under is the file just analysed, wherever it is kept *)
Definition path_of (cfg : ui_cfg) (g : gstate) : string :=
  if fx_perfile cfg then id_path (g_node g) else g_current_file g.

Lemma path_enter_occ : forall cfg g o, path_of cfg (enter_occ cfg g o) = path_of cfg g.
Proof.
  intros. unfold enter_occ.
  repeat match goal with
         | |- context [if ?c then _ else _] => destruct c
         end; auto;
    unfold path_of, add_field, add_method, set_decl; destruct (fx_perfile cfg); reflexivity.
Qed.
Lemma path_fold_occ : forall cfg occs g, path_of cfg (fold_left (enter_occ cfg) occs g) = path_of cfg g.
Proof. induction occs; simpl; intros; auto. now rewrite IHoccs, path_enter_occ. Qed.
Lemma path_fold_import : forall cfg imps g, path_of cfg (fold_left (add_import cfg) imps g) = path_of cfg g.
Proof.
  induction imps; simpl; intros; auto. rewrite IHimps.
  unfold path_of, add_import. destruct (fx_perfile cfg); reflexivity.
Qed.
Lemma path_walk : forall cfg g f, path_of cfg (walk cfg g f) = path_of cfg g.
Proof.
  intros. unfold walk. rewrite path_fold_occ, path_fold_import.
  destruct (String.eqb (jf_pkg f) ""); auto; try (unfold path_of, enter_package; destruct (fx_perfile cfg); reflexivity).
Qed.
Lemma cur_enter_occ : forall cfg g o, g_current_file (enter_occ cfg g o) = g_current_file g.
Proof.
  intros. unfold enter_occ.
  repeat match goal with
         | |- context [if ?c then _ else _] => destruct c
         end; auto;
    unfold add_field, add_method, set_decl; destruct (fx_perfile cfg); reflexivity.
Qed.
Lemma cur_walk : forall cfg g f, g_current_file (walk cfg g f) = g_current_file g.
Proof.
  intros. unfold walk.
  assert (H1 : forall occs g0, g_current_file (fold_left (enter_occ cfg) occs g0) = g_current_file g0).
  { induction occs; simpl; intros; auto. now rewrite IHoccs, cur_enter_occ. }
  assert (H2 : forall imps g0, g_current_file (fold_left (add_import cfg) imps g0) = g_current_file g0).
  { induction imps; simpl; intros; auto. rewrite IHimps. unfold add_import. destruct (fx_perfile cfg); reflexivity. }
  rewrite H1, H2. destruct (String.eqb (jf_pkg f) ""); reflexivity.
Qed.

(* Analysis' loop body: whatever the process state was, the listener ends up holding this file's view *)
Lemma analyse_file_view : forall cfg g f,
    proj cfg (analyse_file cfg g f) = file_ast cfg f /\
    path_of cfg (analyse_file cfg g f) = jf_path f /\
    g_current_file (analyse_file cfg g f) = jf_path f.
Proof.
  intros. unfold analyse_file, new_ident, file_ast.
  destruct (fx_perfile cfg) eqn:Pf; simpl; rewrite proj_walk, path_walk, cur_walk;
    unfold proj, path_of, get_fields, get_imports; rewrite Pf; simpl; auto.
Qed.

Lemma file_fields_ast : forall cfg f, file_fields cfg f = a_fields (file_ast cfg f).
Proof. intros. unfold file_fields. destruct (analyse_file_view cfg gstate0 f) as [H _]. now rewrite <- H. Qed.
Lemma file_name_ast : forall cfg f, file_name cfg f = a_name (file_ast cfg f).
Proof. intros. unfold file_name. destruct (analyse_file_view cfg gstate0 f) as [H _]. now rewrite <- H. Qed.

(* imports: exactly the declarations of the file, in order, with their lines *)
Lemma a_occ_imports : forall cfg a o, a_imports (a_occ cfg a o) = a_imports a.
Proof.
  intros. unfold a_occ.
  repeat match goal with
         | |- context [if ?c then _ else _] => destruct c
         end; reflexivity.
Qed.
Lemma file_ast_imports : forall cfg f, a_imports (file_ast cfg f) = imports_from 1 (jf_lines f).
Proof.
  intros. unfold file_ast, a_walk.
  assert (H1 : forall occs a, a_imports (fold_left (a_occ cfg) occs a) = a_imports a).
  { induction occs; simpl; intros; auto. now rewrite IHoccs, a_occ_imports. }
  assert (H2 : forall imps a, a_imports (fold_left a_add_import imps a) = a_imports a ++ imps).
  { induction imps; simpl; intros; [now rewrite app_nil_r|]. rewrite IHimps. simpl. now rewrite <- app_assoc. }
  rewrite H1, H2. destruct (String.eqb (jf_pkg f) ""); reflexivity.
Qed.

(* name and referenced names do not depend on the lines (imports) of the file *)
Definition core (a : ast) : string * string * gomap string := (a_name a, a_pkg a, a_fields a).
Lemma a_occ_core : forall cfg a b o, core a = core b -> core (a_occ cfg a o) = core (a_occ cfg b o).
Proof.
  intros cfg a b o H. unfold core in H. inversion H as [[H1 H2 H3]]. unfold a_occ.
  repeat match goal with
         | |- context [if ?c then _ else _] => destruct c
         end; unfold core, a_set_name, a_add_field; simpl; congruence.
Qed.
Lemma file_ast_core : forall cfg f f',
    jf_pkg f = jf_pkg f' -> jf_occs f = jf_occs f' -> core (file_ast cfg f) = core (file_ast cfg f').
Proof.
  intros cfg f f' Hp Ho. unfold file_ast, a_walk. rewrite Hp, Ho.
  assert (H1 : forall occs a b, core a = core b ->
                                core (fold_left (a_occ cfg) occs a) = core (fold_left (a_occ cfg) occs b)).
  { induction occs; simpl; intros; auto. apply IHoccs. now apply a_occ_core. }
  assert (H2 : forall imps a, core (fold_left a_add_import imps a) = core a).
  { induction imps; simpl; intros; auto. now rewrite IHimps. }
  apply H1. now rewrite !H2.
Qed.

(* ------------------------------------------------------------------ one file *)
Definition file_errs (cfg : ui_cfg) (f : jfile) : list nat :=
  build_error_lines cfg (a_fields (file_ast cfg f)) (imports_from 1 (jf_lines f)).

(* what Refactoring does to a file given that file's own view; the flag is a Go panic *)
Definition apply_file (cfg : ui_cfg) (f : jfile) : jfile * bool :=
  if String.eqb (a_name (file_ast cfg f)) "" then (f, false) else
  match file_errs cfg f with
  | [] => (f, false)
  | errs =>
    let res := remove_by_lines 1 errs (jf_lines f) (jf_corrupt f) in
    (mkFile (jf_path f) (jf_pkg f) (rm_lines res) (jf_occs f) (rm_corrupt res), rm_panic res)
  end.

Lemma apply_file_path : forall cfg f, jf_path (fst (apply_file cfg f)) = jf_path f.
Proof.
  intros. unfold apply_file. destruct (String.eqb (a_name (file_ast cfg f)) ""); auto.
  destruct (file_errs cfg f); auto.
Qed.

(* a node (and the process state behind it) describes file f *)
Definition node_ok (cfg : ui_cfg) (g : gstate) (f : jfile) (n : jident) : Prop :=
  id_name n = a_name (file_ast cfg f) /\
  get_fields cfg g n = a_fields (file_ast cfg f) /\
  get_imports cfg g n = imports_from 1 (jf_lines f) /\
  (if fx_perfile cfg then id_path n else g_current_file g) = jf_path f.

Lemma find_file_mid : forall d f t,
    ~ In (jf_path f) (map jf_path d) -> find_file (d ++ f :: t) (jf_path f) = Some f.
Proof.
  induction d as [|x d IH]; intros f t H; simpl.
  - now rewrite String.eqb_refl.
  - simpl in H. destruct (String.eqb (jf_path x) (jf_path f)) eqn:E.
    + apply String.eqb_eq in E. exfalso. apply H. now left.
    + apply IH. intros C. apply H. now right.
Qed.

Lemma put_file_other : forall w p lines c,
    ~ In p (map jf_path w) -> put_file w p lines c = w.
Proof.
  induction w as [|x w IH]; intros p lines c H; simpl; auto.
  simpl in H. destruct (String.eqb (jf_path x) p) eqn:E.
  - apply String.eqb_eq in E. exfalso. apply H. now left.
  - f_equal. apply IH. intros C. apply H. now right.
Qed.

Lemma put_file_mid : forall d f t lines c,
    ~ In (jf_path f) (map jf_path d) -> ~ In (jf_path f) (map jf_path t) ->
    put_file (d ++ f :: t) (jf_path f) lines c =
    d ++ mkFile (jf_path f) (jf_pkg f) lines (jf_occs f) c :: t.
Proof.
  intros d f t lines c Hd Ht. unfold put_file. rewrite map_app. simpl.
  rewrite String.eqb_refl. f_equal.
  - apply (put_file_other d (jf_path f) lines c Hd).
  - f_equal. apply (put_file_other t (jf_path f) lines c Ht).
Qed.

Lemma refactor_step : forall cfg g n f r d t,
    node_ok cfg g f n ->
    ~ In (jf_path f) (map jf_path d) -> ~ In (jf_path f) (map jf_path t) ->
    refactoring cfg g (d ++ f :: t) (n :: r) =
    if snd (apply_file cfg f) then (d ++ fst (apply_file cfg f) :: t, true)
    else refactoring cfg g (d ++ fst (apply_file cfg f) :: t) r.
Proof.
  intros cfg g n f r d t [Hn [Hf [Hi Hp]]] Hd Ht. simpl. unfold apply_file, file_errs.
  rewrite Hn, Hf, Hi, Hp. destruct (String.eqb (a_name (file_ast cfg f)) ""); simpl; auto.
  destruct (build_error_lines cfg (a_fields (file_ast cfg f)) (imports_from 1 (jf_lines f))) as [|e es] eqn:E;
    simpl; auto.
  rewrite find_file_mid by auto. rewrite put_file_mid by auto.
  destruct (rm_panic (remove_by_lines 1 (e :: es) (jf_lines f) (jf_corrupt f))); reflexivity.
Qed.

Lemma paths_distinct_NoDup : forall ps, paths_distinct_b ps = true -> NoDup ps.
Proof.
  induction ps as [|p r IH]; simpl; intros H; constructor.
  - apply andb_true_iff in H. destruct H as [H _]. intros C. apply str_mem_In in C. rewrite C in H. discriminate.
  - apply andb_true_iff in H. destruct H as [_ H]. auto.
Qed.

(* the files of a directory, each rewritten from its own view *)
Definition apply_all (cfg : ui_cfg) (w : world) : world := map (fun f => fst (apply_file cfg f)) w.
Definition no_panic (cfg : ui_cfg) (w : world) : Prop := forall f, In f w -> snd (apply_file cfg f) = false.

Lemma apply_all_paths : forall cfg w, map jf_path (apply_all cfg w) = map jf_path w.
Proof. intros. unfold apply_all. rewrite map_map. apply map_ext. intros. apply apply_file_path. Qed.

Lemma refactoring_all : forall cfg g t d nodes,
    Forall2 (node_ok cfg g) t nodes ->
    NoDup (map jf_path (d ++ t)) -> no_panic cfg t ->
    refactoring cfg g (d ++ t) nodes = (d ++ apply_all cfg t, false).
Proof.
  intros cfg g. induction t as [|f t IH]; intros d nodes HF ND NP; inversion HF; subst.
  - reflexivity.
  - rewrite map_app in ND. simpl in ND.
    assert (Hd : ~ In (jf_path f) (map jf_path d)).
    { intros C. apply NoDup_remove_2 in ND. apply ND. apply in_or_app. now left. }
    assert (Ht : ~ In (jf_path f) (map jf_path t)).
    { intros C. apply NoDup_remove_2 in ND. apply ND. apply in_or_app. now right. }
    rewrite refactor_step by auto. rewrite (NP f) by now left.
    replace (d ++ fst (apply_file cfg f) :: t) with ((d ++ [fst (apply_file cfg f)]) ++ t)
      by (rewrite <- app_assoc; reflexivity).
    rewrite IH; auto.
    + rewrite <- app_assoc. reflexivity.
    + rewrite <- app_assoc. simpl. rewrite map_app. simpl. now rewrite apply_file_path.
    + intros x Hx. apply NP. now right.
Qed.

Lemma analysis_snd : forall cfg g f r,
    snd (analysis cfg g (f :: r)) = g_node (analyse_file cfg g f) :: snd (analysis cfg (analyse_file cfg g f) r).
Proof. intros. simpl. destruct (analysis cfg (analyse_file cfg g f) r). reflexivity. Qed.
Lemma analysis_fst_one : forall cfg g f, analysis cfg g [f] = (analyse_file cfg g f, [g_node (analyse_file cfg g f)]).
Proof. reflexivity. Qed.

Lemma node_ok_perfile : forall cfg g g' f,
    fx_perfile cfg = true -> node_ok cfg g' f (g_node (analyse_file cfg g f)).
Proof.
  intros cfg g g' f Pf. destruct (analyse_file_view cfg g f) as [H1 [H2 _]].
  unfold proj, get_fields, get_imports in H1. rewrite Pf in H1.
  unfold path_of in H2. rewrite Pf in H2.
  pose proof (f_equal a_name H1) as N1. pose proof (f_equal a_fields H1) as N2.
  pose proof (f_equal a_imports H1) as N3. simpl in N1, N2, N3. rewrite file_ast_imports in N3.
  unfold node_ok, get_fields, get_imports. rewrite Pf. repeat split; auto.
Qed.

Lemma analysis_nodes_perfile : forall cfg w g g',
    fx_perfile cfg = true -> Forall2 (node_ok cfg g') w (snd (analysis cfg g w)).
Proof.
  intros cfg. induction w as [|f r IH]; intros g g' Pf.
  - simpl. constructor.
  - rewrite analysis_snd. constructor; auto. now apply node_ok_perfile.
Qed.

Lemma node_ok_single : forall cfg g f,
    node_ok cfg (analyse_file cfg g f) f (g_node (analyse_file cfg g f)).
Proof.
  intros cfg g f. destruct (analyse_file_view cfg g f) as [H1 [H2 H3]].
  unfold proj in H1.
  pose proof (f_equal a_name H1) as N1. pose proof (f_equal a_fields H1) as N2.
  pose proof (f_equal a_imports H1) as N3. simpl in N1, N2, N3. rewrite file_ast_imports in N3.
  unfold node_ok. repeat split; auto.
Qed.

(* Analysis + Refactoring on a directory, from any process state: every file is rewritten from its
   own view -- for any number of files once the tables travel with the node, for one file before *)
Lemma run_once_map : forall cfg g w,
    (fx_perfile cfg || Nat.leb (List.length w) 1)%bool = true ->
    NoDup (map jf_path w) -> no_panic cfg w ->
    exists g', run_once cfg g w = (g', apply_all cfg w, false).
Proof.
  intros cfg g w H ND NP. unfold run_once.
  destruct (analysis cfg (set_config g "dir") w) as [g1 nodes] eqn:EA.
  assert (Hn : nodes = snd (analysis cfg (set_config g "dir") w)) by now rewrite EA.
  destruct (fx_perfile cfg) eqn:Pf.
  - pose proof (analysis_nodes_perfile cfg w (set_config g "dir") g1 Pf) as HF. rewrite <- Hn in HF.
    pose proof (refactoring_all cfg g1 w [] nodes HF ND NP) as HR. simpl in HR. rewrite HR. eauto.
  - simpl in H. destruct w as [|f [|f2 r]]; try discriminate.
    + simpl in EA. inversion EA; subst. simpl. eauto.
    + rewrite analysis_fst_one in EA. inversion EA; subst.
      assert (HF : Forall2 (node_ok cfg (analyse_file cfg (set_config g "dir") f)) [f]
                           [g_node (analyse_file cfg (set_config g "dir") f)]).
      { constructor; [apply node_ok_single|constructor]. }
      pose proof (refactoring_all cfg _ [f] [] _ HF ND NP) as HR. simpl in HR. simpl. rewrite HR. eauto.
Qed.

(* ------------------------------------------------------------------ a well-formed file is cleaned *)
Definition rem (cfg : ui_cfg) (f : jfile) : jline -> bool := line_removable cfg (a_fields (file_ast cfg f)).

(* the file without its removable lines: every other line byte-identical, in order *)
Definition clean_file (cfg : ui_cfg) (f : jfile) : jfile :=
  mkFile (jf_path f) (jf_pkg f) (keep (rem cfg f) (jf_lines f)) (jf_occs f) false.

Record wf_file (cfg : ui_cfg) (f : jfile) : Prop := mkWf {
  wf_corrupt : jf_corrupt f = false;
  wf_name : String.eqb (a_name (file_ast cfg f)) "" = false;
  wf_body : exists l, In l (jf_lines f) /\ ln_imps l = [];
  wf_lines : (fx_lines cfg || one_import_per_line (jf_lines f))%bool = true;
  wf_star : (fx_wildcard cfg || negb (match a_fields (file_ast cfg f) with [] => true | _ => false end)
             || forallb (fun ln => forallb (fun i => negb (if_star i)) (ln_imps ln)) (jf_lines f))%bool = true;
  wf_nostar : forallb (fun ln => forallb (fun i => if_star i || negb (String.eqb (last_segment (import_text i)) "*"))
                                         (ln_imps ln)) (jf_lines f) = true }.

Lemma wf_file_b_sound : forall cfg f, wf_file_b cfg f = true -> wf_file cfg f.
Proof.
  intros cfg f H. unfold wf_file_b in H. rewrite file_name_ast, file_fields_ast in H.
  repeat (apply andb_true_iff in H; destruct H as [H ?]).
  constructor; auto.
  - now apply negb_true_iff in H.
  - now apply negb_true_iff.
  - match goal with X : existsb _ (jf_lines f) = true |- _ => apply existsb_exists in X; destruct X as [l [Hin Hl]] end.
    exists l. split; auto. destruct (ln_imps l); [reflexivity|discriminate].
Qed.

Lemma keep_nonempty : forall cfg f, wf_file cfg f -> keep (rem cfg f) (jf_lines f) <> [].
Proof.
  intros cfg f W. destruct (wf_body cfg f W) as [l [Hin Hl]].
  assert (In l (keep (rem cfg f) (jf_lines f))).
  { unfold keep. apply filter_In. split; auto. unfold rem, line_removable. now rewrite Hl. }
  intros C. rewrite C in H. inversion H.
Qed.

Lemma file_errs_positions : forall cfg f,
    wf_file cfg f -> file_errs cfg f = positions_from 1 (rem cfg f) (jf_lines f).
Proof. intros cfg f W. unfold file_errs, rem. apply build_error_lines_positions. apply (wf_lines cfg f W). Qed.

Theorem apply_file_wf : forall cfg f, wf_file cfg f -> apply_file cfg f = (clean_file cfg f, false).
Proof.
  intros cfg f W. unfold apply_file. rewrite (wf_name cfg f W). rewrite (file_errs_positions cfg f W).
  destruct (positions_from 1 (rem cfg f) (jf_lines f)) as [|e es] eqn:E.
  - unfold clean_file. rewrite (keep_all _ _ _ E). rewrite <- (wf_corrupt cfg f W). destruct f; reflexivity.
  - rewrite <- E.
    pose proof (remove_positions (rem cfg f) (jf_lines f) [] 1 (jf_corrupt f)) as R. simpl in R.
    rewrite R.
    + simpl. unfold clean_file. now rewrite (wf_corrupt cfg f W).
    + intros l Hl. unfold rem in Hl. now apply line_removable_has_imports in Hl.
    + now apply keep_nonempty.
Qed.

Lemma one_per_line_keep : forall P ls, one_import_per_line ls = true -> one_import_per_line (keep P ls) = true.
Proof.
  unfold one_import_per_line, keep. intros P ls H. rewrite forallb_forall in *. intros x Hx.
  apply filter_In in Hx. destruct Hx as [Hx _]. auto.
Qed.

Lemma clean_file_ast : forall cfg f,
    a_name (file_ast cfg (clean_file cfg f)) = a_name (file_ast cfg f) /\
    a_fields (file_ast cfg (clean_file cfg f)) = a_fields (file_ast cfg f).
Proof.
  intros cfg f. assert (H : core (file_ast cfg (clean_file cfg f)) = core (file_ast cfg f)).
  { apply file_ast_core; reflexivity. }
  unfold core in H. inversion H. auto.
Qed.

(* running the removal on its own result changes nothing *)
Theorem apply_file_clean : forall cfg f,
    wf_file cfg f -> apply_file cfg (clean_file cfg f) = (clean_file cfg f, false).
Proof.
  intros cfg f W. unfold apply_file. destruct (clean_file_ast cfg f) as [Hn Hf].
  rewrite Hn, (wf_name cfg f W). unfold file_errs. rewrite Hf.
  assert (E : build_error_lines cfg (a_fields (file_ast cfg f)) (imports_from 1 (jf_lines (clean_file cfg f))) = []).
  { rewrite build_error_lines_positions.
    - simpl. unfold rem. apply positions_from_keep.
    - simpl. pose proof (wf_lines cfg f W) as HL. destruct (fx_lines cfg); simpl in *; auto.
      now apply one_per_line_keep. }
  rewrite E. reflexivity.
Qed.

(* ------------------------------------------------------------------ a directory *)
Definition wf_world (cfg : ui_cfg) (w : world) : Prop :=
  Forall (wf_file cfg) w /\ NoDup (map jf_path w) /\
  (fx_perfile cfg || Nat.leb (List.length w) 1)%bool = true.

Lemma wf_world_b_sound : forall cfg w, wf_world_b cfg w = true -> wf_world cfg w.
Proof.
  intros cfg w H. unfold wf_world_b in H.
  apply andb_true_iff in H. destruct H as [H H3]. apply andb_true_iff in H. destruct H as [H1 H2].
  repeat split; auto.
  - apply Forall_forall. intros f Hf. rewrite forallb_forall in H1. apply wf_file_b_sound. auto.
  - now apply paths_distinct_NoDup.
Qed.

Definition clean_world (cfg : ui_cfg) (w : world) : world := map (clean_file cfg) w.

Lemma apply_all_wf : forall cfg w, Forall (wf_file cfg) w -> apply_all cfg w = clean_world cfg w /\ no_panic cfg w.
Proof.
  intros cfg w H. rewrite Forall_forall in H. split.
  - unfold apply_all, clean_world. apply map_ext_in. intros f Hf. now rewrite apply_file_wf by auto.
  - intros f Hf. now rewrite apply_file_wf by auto.
Qed.

Lemma apply_all_clean : forall cfg w,
    Forall (wf_file cfg) w -> apply_all cfg (clean_world cfg w) = clean_world cfg w /\ no_panic cfg (clean_world cfg w).
Proof.
  intros cfg w H. rewrite Forall_forall in H. split.
  - unfold apply_all, clean_world. rewrite map_map. apply map_ext_in. intros f Hf.
    now rewrite apply_file_clean by auto.
  - intros f Hf. unfold clean_world in Hf. apply in_map_iff in Hf. destruct Hf as [f0 [E Hf0]]. subst f.
    now rewrite apply_file_clean by auto.
Qed.

Lemma clean_world_paths : forall cfg w, map jf_path (clean_world cfg w) = map jf_path w.
Proof. intros. unfold clean_world. rewrite map_map. reflexivity. Qed.

Lemma clean_world_not_corrupt : forall cfg w, any_corrupt (clean_world cfg w) = false.
Proof. intros. unfold any_corrupt, clean_world. induction w; simpl; auto. Qed.

(* The whole observation on a well-formed directory: the first run cleans every file, and a second
   run -- in the same process or in a new one -- changes nothing; no run panics. *)
Theorem observe_wf : forall cfg w,
    wf_world cfg w ->
    observe cfg w = ((RunOk, clean_world cfg w), (RunOk, clean_world cfg w), (RunOk, clean_world cfg w)).
Proof.
  intros cfg w [WF [ND HL]]. unfold observe.
  destruct (apply_all_wf cfg w WF) as [A1 P1].
  destruct (run_once_map cfg gstate0 w HL ND P1) as [g1 E1]. rewrite E1, A1.
  rewrite clean_world_not_corrupt.
  destruct (apply_all_clean cfg w WF) as [A2 P2].
  assert (HL2 : (fx_perfile cfg || Nat.leb (List.length (clean_world cfg w)) 1)%bool = true).
  { unfold clean_world. now rewrite map_length. }
  assert (ND2 : NoDup (map jf_path (clean_world cfg w))) by now rewrite clean_world_paths.
  destruct (run_once_map cfg g1 _ HL2 ND2 P2) as [g2 E2]. rewrite E2, A2.
  destruct (run_once_map cfg gstate0 _ HL2 ND2 P2) as [g3 E3]. rewrite E3, A2.
  reflexivity.
Qed.

(* ------------------------------------------------------------------ in use <-> recorded *)
Lemma last_seg_star : forall q acc, last_seg_acc (q ++ ".*")%string acc = "*"%string.
Proof.
  induction q as [|c q IH]; intros acc; simpl.
  - reflexivity.
  - destruct (Ascii.eqb c "."%char); apply IH.
Qed.

Lemma last_segment_star : forall i, if_star i = true -> last_segment (import_text i) = "*"%string.
Proof. intros i H. unfold import_text, last_segment. rewrite H. apply last_seg_star. Qed.

Lemma existsb_impl : forall (A : Type) (p q : A -> bool) l,
    (forall x, p x = true -> q x = true) -> existsb p l = true -> existsb q l = true.
Proof.
  intros A p q l H E. apply existsb_exists in E. destruct E as [x [Hin Hp]].
  apply existsb_exists. exists x. auto.
Qed.

Lemma field_ok : forall cfg fields i,
    has_field fields (last_segment (import_text i)) = true -> imp_ok cfg fields i = true.
Proof.
  intros cfg fields i H. unfold imp_ok, import_ok. simpl. unfold has_field in H.
  destruct (fx_wildcard cfg).
  - rewrite H. apply orb_true_r.
  - eapply existsb_impl; [|exact H]. intros x Hx. simpl in Hx. rewrite Hx. reflexivity.
Qed.

Lemma nofield_notok : forall cfg fields i,
    String.eqb (last_segment (import_text i)) "*" = false ->
    has_field fields (last_segment (import_text i)) = false -> imp_ok cfg fields i = false.
Proof.
  intros cfg fields i Hs H. unfold imp_ok, import_ok. simpl. unfold has_field in H. rewrite Hs.
  destruct (fx_wildcard cfg); simpl.
  - exact H.
  - destruct (existsb (fun kv : string * string => (String.eqb (fst kv) (last_segment (import_text i)) || false)%bool) fields) eqn:E; auto.
    rewrite <- H. symmetry. eapply existsb_impl; [|exact E]. intros x Hx. simpl in Hx. now rewrite orb_false_r in Hx.
Qed.

Lemma star_ok : forall cfg f l i,
    wf_file cfg f -> In l (jf_lines f) -> In i (ln_imps l) -> if_star i = true ->
    imp_ok cfg (a_fields (file_ast cfg f)) i = true.
Proof.
  intros cfg f l i W Hl Hi Hs. unfold imp_ok, import_ok. simpl. rewrite (last_segment_star i Hs).
  pose proof (wf_star cfg f W) as HW. destruct (fx_wildcard cfg); simpl in *; auto.
  apply orb_true_iff in HW. destruct HW as [HW|HW].
  - destruct (a_fields (file_ast cfg f)) as [|kv r]; simpl in *; [discriminate|]. now rewrite orb_true_r.
  - rewrite forallb_forall in HW. specialize (HW l Hl). rewrite forallb_forall in HW. specialize (HW i Hi).
    rewrite Hs in HW. discriminate.
Qed.

(* wildcard imports are never deleted (unused-wildcard-empty-table.diff; before it: when the file
   references at least one name) *)
Theorem wildcard_line_kept : forall cfg f l i,
    wf_file cfg f -> In l (jf_lines f) -> In i (ln_imps l) -> if_star i = true ->
    In l (jf_lines (clean_file cfg f)).
Proof.
  intros cfg f l i W Hl Hi Hs. simpl. unfold keep. apply filter_In. split; auto.
  apply negb_true_iff. unfold rem, line_removable. destruct (ln_imps l) eqn:E; auto. rewrite <- E in *.
  destruct (forallb (fun i0 => negb (imp_ok cfg (a_fields (file_ast cfg f)) i0)) (ln_imps l)) eqn:F; auto.
  rewrite forallb_forall in F. specialize (F i Hi). rewrite (star_ok cfg f l i W Hl Hi Hs) in F. discriminate.
Qed.

(* ------------------------------------------------------------------ the decider accepts masked deletions *)
Fixpoint kept (l : list string) (m : list bool) : list string :=
  match l, m with
  | x :: r, b :: m' => if b then kept r m' else x :: kept r m'
  | _, _ => []
  end.
Fixpoint gone (l : list string) (m : list bool) : list string :=
  match l, m with
  | x :: r, b :: m' => if b then x :: gone r m' else gone r m'
  | _, _ => []
  end.

Lemma flip_first : forall r m x after',
    List.length m = List.length r -> kept r m = x :: after' ->
    exists m', List.length m' = List.length r /\ kept r m' = after' /\
               (forall t, In t (gone r m') -> t = x \/ In t (gone r m)).
Proof.
  induction r as [|y r IH]; intros m x after' HL HK; destruct m as [|b m]; simpl in *; try discriminate.
  destruct b.
  - destruct (IH m x after') as [m' [L' [K' G']]]; auto.
    exists (true :: m'). simpl. repeat split; auto.
    intros t [Ht|Ht]; auto. destruct (G' t Ht); auto.
  - inversion HK; subst. exists (true :: m). simpl. repeat split; auto.
    intros t [Ht|Ht]; auto.
Qed.

Lemma align_masked : forall a orig m,
    List.length m = List.length orig ->
    (forall t, In t (gone orig m) -> is_import_line a t = true) ->
    exists d, align a orig (kept orig m) = Some d /\ (forall t, In t d -> In t (gone orig m)).
Proof.
  intros a. induction orig as [|l r IH]; intros m HL HG; destruct m as [|b m]; simpl in *; try discriminate.
  - exists []. split; auto.
  - assert (HL' : List.length m = List.length r) by (injection HL; auto).
    destruct b.
    + assert (Himp : is_import_line a l = true) by (apply HG; now left).
      assert (HG' : forall t, In t (gone r m) -> is_import_line a t = true) by (intros t Ht; apply HG; now right).
      destruct (kept r m) as [|x after'] eqn:K.
      * rewrite Himp. destruct (IH m HL' HG') as [d [A D]]. rewrite K in A. rewrite A.
        exists (l :: d). split; auto. intros t [Ht|Ht]; simpl; auto.
      * destruct (String.eqb l x) eqn:E.
        -- apply String.eqb_eq in E. subst x.
           destruct (flip_first r m l after' HL' K) as [m' [L' [K' G']]].
           assert (HG2 : forall t, In t (gone r m') -> is_import_line a t = true).
           { intros t Ht. destruct (G' t Ht) as [->|H]; auto. }
           destruct (IH m' L' HG2) as [d [A D]].
           rewrite K' in A. exists d. split; auto.
           intros t Ht. destruct (G' t (D t Ht)); simpl; auto.
        -- rewrite Himp. destruct (IH m HL' HG') as [d [A D]]. rewrite K in A. rewrite A.
           exists (l :: d). split; auto. intros t [Ht|Ht]; simpl; auto.
    + rewrite String.eqb_refl. destruct (IH m HL' HG) as [d [A D]]. exists d. auto.
Qed.

Lemma kept_keep : forall P lines,
    kept (map ln_text lines) (map P lines) = map ln_text (keep P lines).
Proof.
  induction lines as [|l r IH]; simpl; auto. unfold keep in *. simpl.
  destruct (P l); simpl; now rewrite IH.
Qed.
Lemma gone_filter : forall P lines t,
    In t (gone (map ln_text lines) (map P lines)) -> exists l, In l lines /\ P l = true /\ ln_text l = t.
Proof.
  induction lines as [|l r IH]; simpl; intros t H; [tauto|].
  destruct (P l) eqn:E.
  - destruct H as [H|H]; [exists l; auto|]. destruct (IH t H) as [l' [A [B C]]]. exists l'; auto.
  - destruct (IH t H) as [l' [A [B C]]]. exists l'; auto.
Qed.

(* ------------------------------------------------------------------ the two views of a file agree *)
Record consistent (cfg : ui_cfg) (f : jfile) (a : afile) : Prop := mkCons {
  co_lines : map ln_text (jf_lines f) = af_lines a;
  co_table : forall ln, In ln (jf_lines f) -> imps_of a (ln_text ln) = map aimp_of (ln_imps ln);
  co_refs : forall rn, In rn (af_refs a) -> has_field (a_fields (file_ast cfg f)) (snd rn) = true;
  co_mentions : forall ln i, In ln (jf_lines f) -> In i (ln_imps ln) ->
      if_star i = true \/ has_field (a_fields (file_ast cfg f)) (last_segment (import_text i)) = false \/
      referenced a (last_segment (import_text i)) = true \/ mentioned a (last_segment (import_text i)) = true }.

Lemma lines_eqb_eq : forall x y, lines_eqb x y = true -> x = y.
Proof.
  induction x as [|a x IH]; destruct y as [|b y]; simpl; intros H; try discriminate; auto.
  apply andb_true_iff in H. destruct H as [H1 H2]. apply String.eqb_eq in H1. subst. f_equal. auto.
Qed.
Lemma lines_eqb_refl : forall x, lines_eqb x x = true.
Proof. induction x; simpl; auto. now rewrite String.eqb_refl. Qed.

Lemma aimps_eqb_eq : forall x y, aimps_eqb x y = true -> x = y.
Proof.
  induction x as [|a x IH]; destruct y as [|b y]; simpl; intros H; try discriminate; auto.
  apply andb_true_iff in H. destruct H as [H1 H2]. unfold aimp_eqb in H1.
  apply andb_true_iff in H1. destruct H1 as [K S]. apply String.eqb_eq in K. apply String.eqb_eq in S.
  destruct a, b; simpl in *; subst. f_equal. auto.
Qed.

Lemma consistent_b_sound : forall cfg f a, consistent_b cfg f a = true -> consistent cfg f a.
Proof.
  intros cfg f a H. unfold consistent_b in H. rewrite file_fields_ast in H.
  apply andb_true_iff in H. destruct H as [H H4].
  apply andb_true_iff in H. destruct H as [H H3].
  apply andb_true_iff in H. destruct H as [H1 H2].
  constructor.
  - now apply lines_eqb_eq.
  - intros ln Hl. rewrite forallb_forall in H2. apply aimps_eqb_eq. auto.
  - intros rn Hr. rewrite forallb_forall in H3. auto.
  - intros ln i Hl Hi. rewrite forallb_forall in H4. specialize (H4 ln Hl).
    rewrite forallb_forall in H4. specialize (H4 i Hi).
    apply orb_true_iff in H4. destruct H4 as [H4|H4]; auto.
    apply orb_true_iff in H4. destruct H4 as [H4|H4]; auto.
    apply orb_true_iff in H4. destruct H4 as [H4|H4]; auto.
    apply negb_true_iff in H4. auto.
Qed.

(* ------------------------------------------------------------------ the cleaned file meets the specification *)
Lemma flat_map_nil : forall (A B : Type) (f : A -> list B) l,
    (forall x, In x l -> f x = []) -> flat_map f l = [].
Proof. induction l as [|x r IH]; simpl; intros H; auto. rewrite H by now left. simpl. apply IH. intros. apply H. now right. Qed.

Lemma imp_wildcard_of : forall i, imp_wildcard (aimp_of i) = if_star i.
Proof. intros i. unfold imp_wildcard, aimp_of. simpl. destruct (if_star i); [reflexivity|]. destruct (if_static i); reflexivity. Qed.

Lemma referenced_in : forall a s, referenced a s = true -> exists rn, In rn (af_refs a) /\ snd rn = s.
Proof.
  intros a s H. unfold referenced in H. apply str_mem_In in H. apply in_map_iff in H.
  destruct H as [rn [E Hin]]. exists rn. auto.
Qed.

Lemma removable_all_bad : forall cfg fields l i,
    line_removable cfg fields l = true -> In i (ln_imps l) -> imp_ok cfg fields i = false.
Proof.
  intros cfg fields l i H Hi. unfold line_removable in H. destruct (ln_imps l) eqn:E; [discriminate|].
  rewrite <- E in *. rewrite forallb_forall in H. specialize (H i Hi). now apply negb_true_iff in H.
Qed.

Lemma dropped_ok : forall cfg f a l,
    wf_file cfg f -> consistent cfg f a -> In l (jf_lines f) -> rem cfg f l = true ->
    dropped_clauses a (ln_text l) = [].
Proof.
  intros cfg f a l W C Hl HR. unfold dropped_clauses. rewrite (co_table cfg f a C l Hl).
  assert (H1 : existsb imp_wildcard (map aimp_of (ln_imps l)) = false).
  { destruct (existsb imp_wildcard (map aimp_of (ln_imps l))) eqn:E; auto.
    apply existsb_exists in E. destruct E as [x [Hx Hw]]. apply in_map_iff in Hx. destruct Hx as [i [<- Hi]].
    rewrite imp_wildcard_of in Hw.
    pose proof (removable_all_bad _ _ _ _ HR Hi) as B. unfold rem in *.
    rewrite (star_ok cfg f l i W Hl Hi Hw) in B. discriminate. }
  assert (H2 : existsb (imp_used a) (map aimp_of (ln_imps l)) = false).
  { destruct (existsb (imp_used a) (map aimp_of (ln_imps l))) eqn:E; auto.
    apply existsb_exists in E. destruct E as [x [Hx Hu]]. apply in_map_iff in Hx. destruct Hx as [i [<- Hi]].
    unfold imp_used in Hu. apply andb_true_iff in Hu. destruct Hu as [_ Hr]. simpl in Hr.
    destruct (referenced_in a _ Hr) as [rn [Hin Hs]].
    pose proof (co_refs cfg f a C rn Hin) as HF. rewrite Hs in HF.
    pose proof (removable_all_bad _ _ _ _ HR Hi) as B. rewrite (field_ok cfg _ i HF) in B. discriminate. }
  rewrite H1, H2. reflexivity.
Qed.

Lemma kept_ok : forall cfg f a l,
    wf_file cfg f -> consistent cfg f a -> In l (jf_lines f) -> rem cfg f l = false ->
    kept_clauses a (ln_text l) = [].
Proof.
  intros cfg f a l W C Hl HR. unfold kept_clauses. rewrite (co_table cfg f a C l Hl).
  destruct (ln_imps l) as [|i0 r0] eqn:E; [reflexivity|]. rewrite <- E. simpl map at 1.
  destruct (map aimp_of (ln_imps l)) eqn:M; [reflexivity|]. rewrite <- M.
  destruct (forallb (imp_dead a) (map aimp_of (ln_imps l))) eqn:D; [|reflexivity].
  exfalso. rewrite forallb_forall in D.
  assert (B : forallb (fun i => negb (imp_ok cfg (a_fields (file_ast cfg f)) i)) (ln_imps l) = true).
  { apply forallb_forall. intros i Hi. apply negb_true_iff.
    specialize (D (aimp_of i) (in_map aimp_of _ _ Hi)). unfold imp_dead in D.
    apply andb_true_iff in D. destruct D as [D Dm]. apply andb_true_iff in D. destruct D as [Dk Dr].
    simpl in Dk, Dr, Dm. apply negb_true_iff in Dr. apply negb_true_iff in Dm.
    assert (Hs : if_star i = false).
    { destruct (if_star i); auto; try (simpl in Dk; discriminate). }
    pose proof (wf_nostar cfg f W) as NS. rewrite forallb_forall in NS. specialize (NS l Hl).
    rewrite forallb_forall in NS. specialize (NS i Hi). rewrite Hs in NS. simpl in NS. apply negb_true_iff in NS.
    apply nofield_notok; auto.
    destruct (co_mentions cfg f a C l i Hl Hi) as [H|[H|[H|H]]]; auto; congruence. }
  unfold rem, line_removable in HR. rewrite E in HR. rewrite <- E in HR. rewrite B in HR. discriminate.
Qed.

Theorem clean_file_meets_spec : forall cfg f a,
    wf_file cfg f -> consistent cfg f a ->
    file_clauses a (file_texts (clean_file cfg f)) = [].
Proof.
  intros cfg f a W C. unfold file_clauses, file_texts. simpl.
  rewrite <- (co_lines cfg f a C). rewrite <- kept_keep.
  destruct (align_masked a (map ln_text (jf_lines f)) (map (rem cfg f) (jf_lines f))) as [d [A D]].
  - now rewrite !map_length.
  - intros t Ht. apply gone_filter in Ht. destruct Ht as [l [Hl [HR <-]]].
    unfold is_import_line. rewrite (co_table cfg f a C l Hl).
    apply line_removable_has_imports in HR. destruct (ln_imps l); [congruence|reflexivity].
  - rewrite A.
    assert (Happ : forall (x y : list string), x = [] -> y = [] -> x ++ y = []) by (intros; subst; reflexivity).
    apply Happ.
    + apply flat_map_nil. intros t Ht. apply D in Ht. apply gone_filter in Ht.
      destruct Ht as [l [Hl [HR <-]]]. eapply dropped_ok; eauto.
    + rewrite kept_keep. apply flat_map_nil. intros t Ht. apply in_map_iff in Ht.
      destruct Ht as [l [<- Hl]]. unfold keep in Hl. apply filter_In in Hl. destruct Hl as [Hl HR].
      apply negb_true_iff in HR. eapply kept_ok; eauto.
Qed.

(* ------------------------------------------------------------------ the whole verdict *)
Definition obs_texts (w : world) : list (list string) := map file_texts w.

Definition verdict_of (afs : list afile)
           (o : (run_status * world) * (run_status * world) * (run_status * world)) : list string :=
  let '(r1, r2, r3) := o in
  c06_verdict afs (status_str (fst r1)) (obs_texts (snd r1))
              (status_str (fst r2)) (obs_texts (snd r2))
              (status_str (fst r3)) (obs_texts (snd r3)).

Lemma files_clauses_clean : forall cfg w afs,
    Forall (wf_file cfg) w -> Forall2 (consistent cfg) w afs ->
    files_clauses afs (obs_texts (clean_world cfg w)) = [].
Proof.
  intros cfg w afs WF HC. induction HC as [|f a w afs C HC IH]; simpl; auto.
  inversion WF; subst. rewrite (clean_file_meets_spec cfg f a); auto.
Qed.

Lemma second_clauses_same : forall which afs o,
    List.length afs = List.length o -> second_clauses which afs o o = [].
Proof.
  intros which. induction afs as [|a r IH]; destruct o as [|x o]; simpl; intros H; try discriminate; auto.
  rewrite lines_eqb_refl. simpl. apply IH. now injection H.
Qed.

(* C06 on the model: for every well-formed directory whose two descriptions agree, the decider finds
   nothing to object to in what the removal leaves behind -- first run, and both second runs. *)
Theorem model_meets_spec : forall cfg w afs,
    wf_world cfg w -> Forall2 (consistent cfg) w afs ->
    verdict_of afs (observe cfg w) = [].
Proof.
  intros cfg w afs W HC. rewrite (observe_wf cfg w W). destruct W as [WF _].
  unfold verdict_of, c06_verdict, run2_clauses. simpl.
  rewrite (files_clauses_clean cfg w afs WF HC).
  assert (HL : List.length afs = List.length (obs_texts (clean_world cfg w))).
  { unfold obs_texts, clean_world. rewrite !map_length. clear - HC. induction HC; simpl; auto. }
  rewrite !second_clauses_same by auto. reflexivity.
Qed.

Theorem model_meets_spec_b : forall cfg w afs,
    wf_world_b cfg w = true ->
    Forall2 (fun f a => consistent_b cfg f a = true) w afs ->
    verdict_of afs (observe cfg w) = [].
Proof.
  intros cfg w afs W HC. apply model_meets_spec.
  - now apply wf_world_b_sound.
  - clear W. induction HC; constructor; auto using consistent_b_sound.
Qed.

(* ------------------------------------------------------------------ the code with every repair, the code before *)
Theorem fixed_meets_spec : forall w afs,
    wf_world_b cfg_fixed w = true ->
    Forall2 (fun f a => consistent_b cfg_fixed f a = true) w afs ->
    verdict_of afs (observe cfg_fixed w) = [].
Proof. exact (model_meets_spec_b cfg_fixed). Qed.

(* before the repairs: one file, one import per line, and a wildcard import only next to a reference *)
Theorem prefix_single_file_meets_spec : forall f a,
    wf_world_b cfg_prefix [f] = true -> consistent_b cfg_prefix f a = true ->
    verdict_of [a] (observe cfg_prefix [f]) = [].
Proof. intros f a W C. apply model_meets_spec_b; auto. Qed.

(* the second run is the identity on the model: all three observations coincide *)
Theorem second_run_changes_nothing : forall cfg w,
    wf_world_b cfg w = true ->
    let '(r1, r2, r3) := observe cfg w in
    fst r1 = RunOk /\ r2 = r1 /\ r3 = r1.
Proof. intros cfg w W. rewrite (observe_wf cfg w (wf_world_b_sound cfg w W)). auto. Qed.

(* every file of the directory is cleaned, each from its own lines: the result is the original minus
   exactly the lines that hold imports none of which is in use *)
Theorem every_file_cleaned : forall cfg w,
    wf_world_b cfg w = true ->
    snd (fst (fst (observe cfg w))) =
    map (fun f => mkFile (jf_path f) (jf_pkg f)
                         (filter (fun l => negb (line_removable cfg (file_fields cfg f) l)) (jf_lines f))
                         (jf_occs f) false) w.
Proof.
  intros cfg w W. rewrite (observe_wf cfg w (wf_world_b_sound cfg w W)). simpl.
  unfold clean_world. apply map_ext. intros f. unfold clean_file, rem, keep. now rewrite file_fields_ast.
Qed.

(* ------------------------------------------------------------------ witnesses *)
Definition ln (t : string) : jline := mkLine t [].
Definition li (t q : string) : jline := mkLine t [mkIF q false false].

(* A.java: one import in use, one not *)
Definition ex_fA : jfile :=
  mkFile "A.java" "p"
         [ln "package p;"; li "import a.Used;" "a.Used"; li "import a.Unused;" "a.Unused";
          ln "public class A {"; ln "  Used u;"; ln "}"; ln ""]
         [mkOcc "classDeclaration" "A"; mkOcc "typeType" "Used"; mkOcc "classOrInterfaceType" "Used"] false.
Definition ex_aA : afile :=
  mkAF "A.java" ["package p;"; "import a.Used;"; "import a.Unused;"; "public class A {"; "  Used u;"; "}"; ""]
       [("import a.Used;", [mkAI "single" "Used"]); ("import a.Unused;", [mkAI "single" "Unused"])]
       [("field_type", "Used")] [].

(* B.java: the same shape, one more line in the body *)
Definition ex_fB : jfile :=
  mkFile "B.java" "p"
         [ln "package p;"; li "import b.Keep;" "b.Keep"; li "import b.Drop;" "b.Drop";
          ln "public class B {"; ln "  Keep k;"; ln "  int z;"; ln "}"; ln ""]
         [mkOcc "classDeclaration" "B"; mkOcc "typeType" "Keep"; mkOcc "classOrInterfaceType" "Keep";
          mkOcc "typeType" "int"] false.
Definition ex_aB : afile :=
  mkAF "B.java" ["package p;"; "import b.Keep;"; "import b.Drop;"; "public class B {"; "  Keep k;"; "  int z;"; "}"; ""]
       [("import b.Keep;", [mkAI "single" "Keep"]); ("import b.Drop;", [mkAI "single" "Drop"])]
       [("field_type", "Keep")] [].

(* the hypotheses of the theorems are satisfiable: each file alone is in the domain of the code
   before the repairs, the pair is in the domain of the repaired code *)
Example ex_A_alone_wf : wf_world_b cfg_prefix [ex_fA] = true /\ consistent_b cfg_prefix ex_fA ex_aA = true.
Proof. vm_compute. auto. Qed.
Example ex_B_alone_wf : wf_world_b cfg_prefix [ex_fB] = true /\ consistent_b cfg_prefix ex_fB ex_aB = true.
Proof. vm_compute. auto. Qed.
Example ex_AB_wf_fixed :
  wf_world_b cfg_fixed [ex_fA; ex_fB] = true /\
  consistent_b cfg_fixed ex_fA ex_aA = true /\ consistent_b cfg_fixed ex_fB ex_aB = true.
Proof. vm_compute. auto. Qed.

Example ex_A_alone_cleaned :
  map file_texts (snd (fst (fst (observe cfg_prefix [ex_fA])))) =
  [["package p;"; "import a.Used;"; "public class A {"; "  Used u;"; "}"; ""]].
Proof. vm_compute. reflexivity. Qed.

(* D14: with two files the tables and the `current file` of the LAST file serve every node: A.java is
   not cleaned, B.java loses line 3 twice -- the unused import and then `public class B {` *)
Theorem two_files_refuted :
  verdict_of [ex_aA; ex_aB] (observe cfg_prefix [ex_fA; ex_fB]) =
  ["unused_kept:A.java"; "non_import_line_changed:B.java"] /\
  map file_texts (snd (fst (fst (observe cfg_prefix [ex_fA; ex_fB])))) =
  [["package p;"; "import a.Used;"; "import a.Unused;"; "public class A {"; "  Used u;"; "}"; ""];
   ["package p;"; "import b.Keep;"; "  Keep k;"; "  int z;"; "}"; ""]].
Proof. vm_compute. auto. Qed.

Theorem two_files_fixed :
  verdict_of [ex_aA; ex_aB] (observe cfg_fixed [ex_fA; ex_fB]) = [] /\
  map file_texts (snd (fst (fst (observe cfg_fixed [ex_fA; ex_fB])))) =
  [["package p;"; "import a.Used;"; "public class A {"; "  Used u;"; "}"; ""];
   ["package p;"; "import b.Keep;"; "public class B {"; "  Keep k;"; "  int z;"; "}"; ""]].
Proof. vm_compute. auto. Qed.

(* with a used import right below the unused one, the second pass deletes the import in use *)
Definition ex_fB2 : jfile :=
  mkFile "B.java" "p"
         [ln "package p;"; li "import b.Drop;" "b.Drop"; li "import b.Keep;" "b.Keep";
          ln "public class B {"; ln "  Keep k;"; ln "}"; ln ""]
         [mkOcc "classDeclaration" "B"; mkOcc "typeType" "Keep"; mkOcc "classOrInterfaceType" "Keep"] false.
Definition ex_aB2 : afile :=
  mkAF "B.java" ["package p;"; "import b.Drop;"; "import b.Keep;"; "public class B {"; "  Keep k;"; "}"; ""]
       [("import b.Keep;", [mkAI "single" "Keep"]); ("import b.Drop;", [mkAI "single" "Drop"])]
       [("field_type", "Keep")] [].
Theorem two_files_used_import_refuted :
  verdict_of [ex_aA; ex_aB2] (observe cfg_prefix [ex_fA; ex_fB2]) =
  ["unused_kept:A.java"; "used_import_deleted:B.java"] /\
  verdict_of [ex_aA; ex_aB2] (observe cfg_fixed [ex_fA; ex_fB2]) = [].
Proof. vm_compute. auto. Qed.

(* two imports on one line *)
Definition ex_fS (used : bool) (with_package : bool) : jfile :=
  mkFile "S.java" (if with_package then "p" else "")
         ((if with_package then [ln "package p;"] else []) ++
          [mkLine "import a.X; import a.Y;" [mkIF "a.X" false false; mkIF "a.Y" false false];
           ln "public class S {"; ln (if used then "  X x;" else "  int x;"); ln "}"; ln ""])
         ([mkOcc "classDeclaration" "S"] ++
          (if used then [mkOcc "typeType" "X"; mkOcc "classOrInterfaceType" "X"] else [mkOcc "typeType" "int"])) false.
Definition ex_aS (used : bool) (with_package : bool) : afile :=
  mkAF "S.java"
       ((if with_package then ["package p;"] else []) ++
        ["import a.X; import a.Y;"; "public class S {"; (if used then "  X x;" else "  int x;"); "}"; ""])
       [("import a.X; import a.Y;", [mkAI "single" "X"; mkAI "single" "Y"])]
       (if used then [("field_type", "X")] else []) [].

(* both unused: line L and then line L-1 are deleted (here the package declaration) *)
Theorem same_line_refuted :
  verdict_of [ex_aS false true] (observe cfg_prefix [ex_fS false true]) = ["non_import_line_changed:S.java"] /\
  verdict_of [ex_aS false true] (observe cfg_fixed [ex_fS false true]) = [].
Proof. vm_compute. auto. Qed.
(* ... or, on line 1, index -1: a slice-bounds panic *)
Theorem same_line_first_line_panics :
  verdict_of [ex_aS false false] (observe cfg_prefix [ex_fS false false]) = ["crash:first"] /\
  verdict_of [ex_aS false false] (observe cfg_fixed [ex_fS false false]) = [].
Proof. vm_compute. auto. Qed.
(* one of the two in use: it goes with the line *)
Theorem same_line_used_refuted :
  verdict_of [ex_aS true true] (observe cfg_prefix [ex_fS true true]) = ["used_import_deleted:S.java"] /\
  verdict_of [ex_aS true true] (observe cfg_fixed [ex_fS true true]) = [].
Proof. vm_compute. auto. Qed.

(* D15: a wildcard import in a file that references nothing *)
Definition ex_fW : jfile :=
  mkFile "W.java" "" [mkLine "import java.util.*;" [mkIF "java.util" true false]; ln "public class W {"; ln "}"; ln ""]
         [mkOcc "classDeclaration" "W"] false.
Definition ex_aW : afile :=
  mkAF "W.java" ["import java.util.*;"; "public class W {"; "}"; ""]
       [("import java.util.*;", [mkAI "wildcard" "*"])] [] [].
Theorem wildcard_empty_table_refuted :
  verdict_of [ex_aW] (observe cfg_prefix [ex_fW]) = ["wildcard_deleted:W.java"] /\
  verdict_of [ex_aW] (observe cfg_fixed [ex_fW]) = [].
Proof. vm_compute. auto. Qed.

(* an enum: the node has no name, the file is skipped *)
Definition ex_fE : jfile :=
  mkFile "E.java" "p" [ln "package p;"; li "import a.Unused;" "a.Unused"; ln "public enum E { ONE }"; ln ""]
         [mkOcc "enumDeclaration" "E"] false.
Definition ex_aE : afile :=
  mkAF "E.java" ["package p;"; "import a.Unused;"; "public enum E { ONE }"; ""]
       [("import a.Unused;", [mkAI "single" "Unused"])] [] [].
Theorem enum_file_refuted :
  verdict_of [ex_aE] (observe cfg_prefix [ex_fE]) = ["unused_kept:E.java"] /\
  verdict_of [ex_aE] (observe cfg_fixed [ex_fE]) = [].
Proof. vm_compute. auto. Qed.

(* a statically imported constant used as an initialiser: a bare `primary` *)
Definition ex_fC : jfile :=
  mkFile "C.java" "p"
         [ln "package p;"; mkLine "import static a.S.MAX;" [mkIF "a.S.MAX" false true];
          ln "public class C {"; ln "  int x = MAX;"; ln "}"; ln ""]
         [mkOcc "classDeclaration" "C"; mkOcc "typeType" "int"; mkOcc "primary" "MAX"] false.
Definition ex_aC : afile :=
  mkAF "C.java" ["package p;"; "import static a.S.MAX;"; "public class C {"; "  int x = MAX;"; "}"; ""]
       [("import static a.S.MAX;", [mkAI "static" "MAX"])] [("static_const", "MAX")] [].
Theorem static_constant_refuted :
  verdict_of [ex_aC] (observe cfg_prefix [ex_fC]) = ["used_import_deleted:C.java"] /\
  verdict_of [ex_aC] (observe cfg_fixed [ex_fC]) = [].
Proof. vm_compute. auto. Qed.

(* all witnesses are in the domain of the repaired code *)
Example witnesses_wf_fixed :
  forallb (fun fa => wf_world_b cfg_fixed [fst fa] && consistent_b cfg_fixed (fst fa) (snd fa))
          [(ex_fA, ex_aA); (ex_fB, ex_aB); (ex_fB2, ex_aB2); (ex_fS false true, ex_aS false true);
           (ex_fS false false, ex_aS false false); (ex_fS true true, ex_aS true true);
           (ex_fW, ex_aW); (ex_fE, ex_aE); (ex_fC, ex_aC)] = true.
Proof. vm_compute. reflexivity. Qed.

(* the deletion loop, from the top of a file *)
Theorem remove_lines_exact : forall P lines corrupt,
    (forall l, P l = true -> ln_imps l <> []) -> keep P lines <> [] ->
    remove_by_lines 1 (positions_from 1 P lines) lines corrupt = mkRm (keep P lines) corrupt false.
Proof. intros P lines corrupt HP Hne. exact (remove_positions P lines [] 1 corrupt HP Hne). Qed.
