(* Lemmas about Model/RCall.v (C04). *)
From Coq Require Import String List Bool Arith Lia.
From Coca Require Import Lib.Sx Lib.GoMap Lib.Dot Lib.Cmp Lib.Reach Model.CodeModel Model.RCall
     Model.RCallSpec Generated.Constants Proofs.DotProofs.
Import ListNotations.
Open Scope list_scope.
Open Scope string_scope.

(* ------------------------------------------------------------------ the reverse map *)
Definition swap (p : string * string) : string * string := (snd p, fst p).

Lemma all_sites_swap : forall m, all_sites m = map swap (site_pairs m).
Proof.
  unfold all_sites, site_pairs. induction m as [|d m IH]; simpl; [reflexivity|].
  rewrite map_app, IH. f_equal.
  induction (d_funcs d) as [|f fs IHf]; simpl; [reflexivity|].
  rewrite map_app, IHf. f_equal.
  unfold call_sites_of. rewrite map_map. reflexivity.
Qed.

Lemma fold_add_site : forall pm sites acc k,
    mget_d [] (fold_left (add_site pm) sites acc) k =
    (mget_d [] acc k ++
     map snd (filter (fun s => String.eqb (fst s) k && declared pm k) sites))%list.
Proof.
  intros pm. induction sites as [|[callee caller] sites IH]; intros acc k.
  - simpl. now rewrite app_nil_r.
  - cbn [fold_left]. rewrite IH. cbn [filter fst snd]. unfold add_site.
    destruct (declared pm callee) eqn:Hd.
    + rewrite mget_d_mput. destruct (String.eqb callee k) eqn:E.
      * apply String.eqb_eq in E. subst k. rewrite Hd. simpl.
        now rewrite <- app_assoc.
      * reflexivity.
    + destruct (String.eqb callee k) eqn:E; [|reflexivity].
      apply String.eqb_eq in E. subst k. rewrite Hd. reflexivity.
Qed.

Lemma filter_swap : forall (b : bool) k l,
    map snd (filter (fun s => String.eqb (fst s) k && b) (map swap l)) =
    if b then map fst (filter (fun p => String.eqb (snd p) k) l) else [].
Proof.
  intros b k. induction l as [|[x y] l IH]; simpl.
  - now destruct b.
  - destruct b; simpl in *.
    + rewrite andb_true_r. destruct (String.eqb y k); simpl; now rewrite IH.
    + rewrite andb_false_r. exact IH.
Qed.

Lemma declared_is_str_mem : forall m k, declared (project_methods m) k = str_mem k (declared_methods m).
Proof. reflexivity. Qed.

Theorem rcall_map_exact : forall m k,
    mget_d [] (method_call_map m) k = spec_callers m k.
Proof.
  intros m k. unfold method_call_map. rewrite fold_add_site. simpl.
  rewrite all_sites_swap, filter_swap, declared_is_str_mem. unfold spec_callers.
  reflexivity.
Qed.

Lemma fold_add_site_keys : forall pm sites acc k,
    In k (mkeys (fold_left (add_site pm) sites acc)) -> In k (mkeys acc) \/ declared pm k = true.
Proof.
  intros pm. induction sites as [|[callee caller] sites IH]; intros acc k H; simpl in *; [auto|].
  apply IH in H. destruct H as [H|H]; [|auto].
  destruct (declared pm callee) eqn:Hd; [|auto].
  apply mkeys_mput_in in H. destruct H as [H|H]; [subst; auto | auto].
Qed.

Theorem rcall_map_keys_declared : forall m k,
    In k (mkeys (method_call_map m)) -> In k (project_methods m).
Proof.
  intros m k H. apply fold_add_site_keys in H. destruct H as [[]|H].
  unfold declared in H. apply existsb_exists in H. destruct H as [x [Hin He]].
  apply String.eqb_eq in He. now subst.
Qed.

Lemma site_pairs_caller_declared : forall m p, In p (site_pairs m) -> In (fst p) (declared_methods m).
Proof.
  unfold site_pairs, declared_methods. intros m p H.
  apply in_flat_map in H. destruct H as [d [Hd H]].
  apply in_flat_map in H. destruct H as [f [Hf H]].
  apply in_map_iff in H. destruct H as [c [Hc _]]. subst p. simpl.
  apply in_flat_map. exists d. split; [assumption|]. apply in_map. assumption.
Qed.

Theorem rcall_map_values_declared : forall m k c,
    In c (mget_d [] (method_call_map m) k) -> In c (project_methods m).
Proof.
  intros m k c H. rewrite rcall_map_exact in H. unfold spec_callers in H.
  destruct (str_mem k (declared_methods m)); [|contradiction].
  apply in_map_iff in H. destruct H as [p [Hp H]]. subst c.
  apply filter_In in H. destruct H as [H _].
  now apply site_pairs_caller_declared.
Qed.

(* the reverse map equals the decider's notion of exactness *)
Lemma count_str_refl_multiset : forall a, same_multiset a a = true.
Proof.
  intros a. unfold same_multiset. rewrite Nat.eqb_refl. simpl.
  apply forallb_forall. intros x _. apply Nat.eqb_refl.
Qed.

Theorem model_map_exact_b : forall m, map_exact_b m (method_call_map m) = true.
Proof.
  intros m. unfold map_exact_b. apply forallb_forall. intros k _.
  rewrite rcall_map_exact. apply count_str_refl_multiset.
Qed.

(* ------------------------------------------------------------------ the chain *)
Section Chain.
  Variable mm : gomap (list string).

  (* [ReachN (callers mm) k t g]: g lies on a caller chain of length <= k ending at t *)
  Definition EdgesSound (k : nat) (f : string) (items : list ritem) : Prop :=
    forall c g, In (REdge c g) items -> In c (callers mm g) /\ ReachN (callers mm) k f g.

  Lemma EdgesSound_app : forall k f a b, EdgesSound k f a -> EdgesSound k f b -> EdgesSound k f (a ++ b).
  Proof.
    intros k f a b Ha Hb c g H. apply in_app_or in H. destruct H; auto.
  Qed.

  Lemma rloop_sound : forall (rec : rstate -> string -> rstate * list ritem) f k,
      (forall st g, EdgesSound k g (snd (rec st g))) ->
      forall cs st acc,
        (forall c, In c cs -> In c (callers mm f)) ->
        EdgesSound (S k) f acc ->
        EdgesSound (S k) f (snd (rloop rec mm f cs st acc)).
  Proof.
    intros rec f k Hrec. induction cs as [|child rest IH]; intros st acc Hcs Hacc; simpl; [assumption|].
    assert (Hrest : forall c, In c rest -> In c (callers mm f)) by (intros; apply Hcs; now right).
    assert (Hchild : In child (callers mm f)) by (apply Hcs; now left).
    destruct (String.eqb f child); [now apply IH|].
    assert (Hedge : EdgesSound (S k) f [REdge child f]).
    { intros c g [H|[]]. inversion H; subst. split; [assumption|constructor]. }
    destruct (callers mm child) eqn:Hcc.
    - apply IH; [assumption|]. apply EdgesSound_app; assumption.
    - destruct (String.eqb child (r_last st)).
      + apply IH; [assumption|]. apply EdgesSound_app; assumption.
      + specialize (Hrec (mkRState (r_cnt st) child) child).
        destruct (rec (mkRState (r_cnt st) child) child) as [st' items]. simpl in Hrec.
        apply IH; [assumption|]. apply EdgesSound_app; [|assumption].
        apply EdgesSound_app; [assumption|].
        intros c g H. destruct (Hrec c g H) as [H1 H2]. split; [assumption|].
        eapply rn_step; eassumption.
  Qed.

  Lemma EdgesSound_trivial : forall k f i, (forall c g, i <> REdge c g) -> EdgesSound k f [i].
  Proof. intros k f i Hi c g [H|[]]. subst. exfalso. eapply Hi; eauto. Qed.

  Theorem rchain_sound : forall fuel st f, EdgesSound fuel f (snd (rchain fuel mm st f)).
  Proof.
    induction fuel as [|fuel IH]; intros st f; cbn [rchain].
    - destruct (cmp_eval _ _ _); cbn [snd]; apply EdgesSound_trivial; discriminate.
    - destruct (cmp_eval _ _ _); cbn [snd]; [apply EdgesSound_trivial; discriminate|].
      destruct (callers mm f) as [|c0 cs0] eqn:Hc; cbn [snd]; [apply EdgesSound_trivial; discriminate|].
      apply rloop_sound.
      + intros st0 g. apply IH.
      + rewrite Hc. auto.
      + intros c g [].
  Qed.

  (* every direct caller other than the target itself gets its edge *)
  Lemma rloop_acc_incl : forall rec f cs st acc x,
      In x acc -> In x (snd (rloop rec mm f cs st acc)).
  Proof.
    intros rec f. induction cs as [|child rest IH]; intros st acc x Hx; simpl; [assumption|].
    destruct (String.eqb f child); [now apply IH|].
    destruct (callers mm child).
    - apply IH. apply in_or_app. now left.
    - destruct (String.eqb child (r_last st)).
      + apply IH. apply in_or_app. now left.
      + destruct (rec _ _) as [st' items]. apply IH. apply in_or_app. left. apply in_or_app. now left.
  Qed.

  Lemma rloop_direct : forall rec f cs st acc c,
      In c cs -> c <> f -> In (REdge c f) (snd (rloop rec mm f cs st acc)).
  Proof.
    intros rec f. induction cs as [|child rest IH]; intros st acc c Hin Hne; simpl; [contradiction|].
    destruct Hin as [Heq|Hin].
    - subst child. destruct (String.eqb f c) eqn:E.
      + apply String.eqb_eq in E. congruence.
      + destruct (callers mm c).
        * apply rloop_acc_incl. apply in_or_app. right. now left.
        * destruct (String.eqb c (r_last st)).
          -- apply rloop_acc_incl. apply in_or_app. right. now left.
          -- destruct (rec _ _) as [st' items]. apply rloop_acc_incl. apply in_or_app. right. now left.
    - destruct (String.eqb f child); [now apply IH|].
      destruct (callers mm child).
      + now apply IH.
      + destruct (String.eqb child (r_last st)); [now apply IH|].
        destruct (rec _ _) as [st' items]. now apply IH.
  Qed.

  Theorem direct_callers_present : forall st target c,
      In c (callers mm target) -> c <> target ->
      In (REdge c target) (snd (build_rcall_chain st mm target)).
  Proof.
    intros st target c Hin Hne. unfold build_rcall_chain, rfuel.
    cbn [rchain]. change (cmp_eval loopDepth_cmp (r_cnt rstate0) loopDepth) with false.
    destruct (callers mm target) as [|c0 cs0] eqn:Hc; [contradiction|].
    apply rloop_direct; assumption.
  Qed.

  (* termination inside the fixed budget: with fuel loopDepth+2 the fuel never runs out,
     and the expansion counter never exceeds loopDepth *)
  Definition NoOOF (items : list ritem) : Prop := ~ In ROutOfFuel items.

  Lemma budget_test : forall n, cmp_eval loopDepth_cmp n loopDepth = Nat.leb loopDepth n.
  Proof. reflexivity. Qed.

  Lemma rloop_budget : forall (rec : rstate -> string -> rstate * list ritem) f K,
      (forall st g, K <= r_cnt st ->
                    NoOOF (snd (rec st g)) /\ r_cnt st <= r_cnt (fst (rec st g)) /\
                    (r_cnt st <= loopDepth -> r_cnt (fst (rec st g)) <= loopDepth)) ->
      forall cs st acc,
        K <= r_cnt st -> NoOOF acc ->
        NoOOF (snd (rloop rec mm f cs st acc)) /\ r_cnt st <= r_cnt (fst (rloop rec mm f cs st acc)) /\
        (r_cnt st <= loopDepth -> r_cnt (fst (rloop rec mm f cs st acc)) <= loopDepth).
  Proof.
    intros rec f K Hrec. induction cs as [|child rest IH]; intros st acc HK Hacc; simpl.
    - auto.
    - destruct (String.eqb f child); [now apply IH|].
      assert (Hadd : forall l, NoOOF l -> NoOOF (l ++ [REdge child f])).
      { intros l Hl H. apply in_app_or in H. destruct H as [H|[H|[]]]; [auto|discriminate]. }
      destruct (callers mm child).
      + apply IH; auto.
      + destruct (String.eqb child (r_last st)); [apply IH; auto|].
        specialize (Hrec (mkRState (r_cnt st) child) child HK).
        destruct (rec (mkRState (r_cnt st) child) child) as [st' items]. simpl in Hrec.
        destruct Hrec as [H1 [H2 H3]].
        assert (Hn : NoOOF ((acc ++ items) ++ [REdge child f])).
        { apply Hadd. intros H. apply in_app_or in H. destruct H; auto. }
        destruct (IH st' _ (Nat.le_trans _ _ _ HK H2) Hn) as [G1 [G2 G3]].
        split; [assumption|]. split; [lia|]. intros Hle. apply G3. auto.
  Qed.

  Lemma rchain_budget : forall fuel st f,
      loopDepth <= r_cnt st + fuel ->
      NoOOF (snd (rchain fuel mm st f)) /\ r_cnt st <= r_cnt (fst (rchain fuel mm st f)) /\
      (r_cnt st <= loopDepth -> r_cnt (fst (rchain fuel mm st f)) <= loopDepth).
  Proof.
    induction fuel as [|fuel IH]; intros st f Hf; cbn [rchain]; rewrite budget_test.
    - destruct (Nat.leb loopDepth (r_cnt st)) eqn:E; cbn [fst snd].
      + split; [intros [H|[]]; discriminate|]. auto.
      + apply Nat.leb_gt in E. lia.
    - destruct (Nat.leb loopDepth (r_cnt st)) eqn:E; cbn [fst snd].
      + split; [intros [H|[]]; discriminate|]. auto.
      + apply Nat.leb_gt in E.
        destruct (callers mm f) as [|c0 cs0] eqn:Hc; cbn [fst snd r_cnt].
        * split; [intros [H|[]]; discriminate|]. split; lia.
        * pose proof (rloop_budget (rchain fuel mm) f (S (r_cnt st))) as HL.
          destruct (HL (fun st0 g HK => IH st0 g ltac:(lia)) (c0 :: cs0)
                       (mkRState (S (r_cnt st)) (r_last st)) [] (le_n _) (fun H => H))
            as [G1 [G2 G3]].
          cbn [r_cnt] in *. split; [assumption|]. split; [lia|]. intros _. apply G3. lia.
  Qed.

  Theorem build_rcall_chain_terminates_in_budget : forall st target,
      NoOOF (snd (build_rcall_chain st mm target)) /\
      r_cnt (fst (build_rcall_chain st mm target)) <= loopDepth.
  Proof.
    intros st target. unfold build_rcall_chain.
    destruct (rchain_budget rfuel rstate0 target) as [H1 [_ H3]].
    - unfold rfuel. simpl. lia.
    - split; [assumption|]. apply H3. simpl. lia.
  Qed.

  (* the result of a query does not depend on the state the process is in *)
  Theorem build_rcall_chain_state_independent : forall st1 st2 target,
      build_rcall_chain st1 mm target = build_rcall_chain st2 mm target.
  Proof. reflexivity. Qed.
End Chain.

(* ------------------------------------------------------------------ DOT text and the verdict *)
Definition stmt_of (i : ritem) : stmt :=
  match i with REdge c f => SEdge c f | RNewline => SBlank | ROutOfFuel => SBlank end.

Lemma render_ritems_stmts : forall items,
    ~ In ROutOfFuel items -> render_ritems items = render_stmts (map stmt_of items).
Proof.
  intros items H. unfold render_ritems, render_stmts. rewrite map_map. f_equal.
  apply map_ext_in. intros i Hi. destruct i; try reflexivity. contradiction.
Qed.

Lemma stmt_edges_in : forall items c g,
    In (c, g) (stmt_edges (map stmt_of items)) <-> In (REdge c g) items.
Proof.
  intros items c g. unfold stmt_edges. rewrite in_flat_map. split.
  - intros [s [Hs Hin]]. apply in_map_iff in Hs. destruct Hs as [i [Hi Hs]]. subst s.
    destruct i; simpl in Hin; try contradiction. destruct Hin as [Hin|[]]. now inversion Hin; subst.
  - intros H. exists (SEdge c g). split; [|now left].
    apply in_map_iff. exists (REdge c g). split; [reflexivity|assumption].
Qed.

Lemma ReachN_ext : forall (s1 s2 : string -> list string), (forall x, s1 x = s2 x) ->
    forall k h g, ReachN s1 k h g -> ReachN s2 k h g.
Proof.
  intros s1 s2 He k h g H. induction H as [|k h h1 g Hin Hr IH]; [constructor|].
  eapply rn_step; [|exact IH]. now rewrite <- He.
Qed.

Lemma ReachN_target_or_succ : forall (s : string -> list string) k t g,
    ReachN s k t g -> g = t \/ exists h, In g (s h).
Proof.
  intros s k t g H. induction H as [|k h h1 g Hin Hr IH]; [now left|].
  destruct IH as [IH|IH]; [subst; right; eauto|now right].
Qed.

Lemma rfuel_le_16 : rfuel <= 16.
Proof. unfold rfuel. apply Nat.leb_le. reflexivity. Qed.

Definition names_ok (m : list ds) (target : string) : Prop :=
  plain target = true /\ forall x, In x (declared_methods m) -> plain x = true.

Lemma rchain_rev_edge_ok : forall m st target c g,
    In (REdge c g) (snd (build_rcall_chain st (method_call_map m) target)) ->
    str_mem c (spec_callers m g) = true /\ str_mem g (rreach m target) = true.
Proof.
  intros m st target c g Hin. unfold build_rcall_chain in Hin.
  set (mm := method_call_map m) in *.
  assert (Hcallers : forall x, callers mm x = spec_callers m x).
  { intros x. unfold callers, mm. apply rcall_map_exact. }
  destruct (rchain_sound mm rfuel rstate0 target c g Hin) as [H1 H2]. split.
  - apply str_mem_In. now rewrite <- Hcallers.
  - apply str_mem_In. unfold rreach. eapply reach_within_complete.
    + eapply ReachN_ext; [exact Hcallers|exact H2].
    + pose proof rfuel_le_16. lia.
Qed.

Lemma rchain_names_plain : forall m st target,
    names_ok m target ->
    names_plain (map stmt_of (snd (build_rcall_chain st (method_call_map m) target))).
Proof.
  intros m st target [Hpt Hpd] a b Hin.
  set (mm := method_call_map m) in *.
  assert (Hin' : In (REdge a b) (snd (build_rcall_chain st mm target))).
  { apply stmt_edges_in. unfold stmt_edges. apply in_flat_map. exists (SEdge a b). split; [assumption|now left]. }
  unfold build_rcall_chain in Hin'.
  destruct (rchain_sound mm rfuel rstate0 target a b Hin') as [H1 H2].
  assert (Hdecl : forall x y, In x (callers mm y) -> plain x = true).
  { intros x y Hx. apply Hpd. unfold callers, mm in Hx. now apply rcall_map_values_declared in Hx. }
  split; [eapply Hdecl; eassumption|].
  apply ReachN_target_or_succ in H2. destruct H2 as [H2|[h H2]]; [now subst|].
  eapply Hdecl; eassumption.
Qed.

Theorem ranalysis_meets_spec : forall st m target,
    names_ok m target ->
    let out := snd (ranalysis st target m) in
    c04_verdict m target (fst out) (snd out) = [].
Proof.
  intros st m target [Hpt Hpd]. unfold ranalysis.
  set (mm := method_call_map m).
  pose proof (rchain_sound mm rfuel rstate0 target) as Hsound.
  pose proof (build_rcall_chain_terminates_in_budget mm st target) as [Hoof _].
  pose proof (direct_callers_present mm st target) as Hdirect.
  unfold build_rcall_chain in *.
  destruct (rchain rfuel mm rstate0 target) as [st' items]. cbn [fst snd] in *.
  assert (Hcallers : forall x, callers mm x = spec_callers m x).
  { intros x. unfold callers, mm. apply rcall_map_exact. }
  unfold c04_verdict. rewrite model_map_exact_b. cbn [app].
  unfold rcall_to_graphviz. rewrite render_ritems_stmts by exact Hoof.
  rewrite dot_parse_render.
  - assert (Hs : edges_sound_b m target (stmt_edges (map stmt_of items)) = true).
    { unfold edges_sound_b. apply forallb_forall. intros [c g] Hin.
      apply stmt_edges_in in Hin. destruct (Hsound c g Hin) as [H1 H2]. cbn [fst snd].
      apply andb_true_iff. split.
      - apply str_mem_In. now rewrite <- Hcallers.
      - apply str_mem_In. unfold rreach.
        eapply reach_within_complete.
        + eapply ReachN_ext; [exact Hcallers|exact H2].
        + pose proof rfuel_le_16. lia. }
    assert (Hd : direct_callers_b m target (stmt_edges (map stmt_of items)) = true).
    { unfold direct_callers_b. apply forallb_forall. intros c Hc.
      destruct (String.eqb c target) eqn:E; [reflexivity|]. cbn [orb].
      apply String.eqb_neq in E. apply existsb_exists. exists (c, target). split.
      - apply stmt_edges_in. apply Hdirect; [now rewrite Hcallers|assumption].
      - cbn [fst snd]. now rewrite !String.eqb_refl. }
    now rewrite Hs, Hd.
  - intros a b Hin.
    assert (Hin' : In (REdge a b) items).
    { apply stmt_edges_in. unfold stmt_edges. apply in_flat_map. exists (SEdge a b). split; [assumption|now left]. }
    destruct (Hsound a b Hin') as [H1 H2].
    assert (Hdecl : forall x y, In x (callers mm y) -> plain x = true).
    { intros x y Hx. apply Hpd. unfold callers, mm in Hx.
      now apply rcall_map_values_declared in Hx. }
    split; [eapply Hdecl; eassumption|].
    apply ReachN_target_or_succ in H2. destruct H2 as [H2|[h H2]]; [now subst|].
    eapply Hdecl; eassumption.
Qed.

(* non-vacuity: a concrete model with a caller invoking the target twice, a caller with
   its own caller, a cycle through the target and a quoted name satisfies the hypotheses,
   and its graph is not empty *)
Definition ex_call (p n f : string) : call := mkCall p "" n f [] (mkPos 0 0 0 0).
Definition ex_func (n : string) (cs : list call) : func :=
  mkFunc n "void" [] cs false [] false false [] (mkPos 0 0 0 0).
Definition ex_model : list ds :=
  [ mkDs "T" "Class" "p" "" [] "" [] [ex_func "t" [ex_call "p" "A" "a"]] [] [] [];
    mkDs "A" "Class" "p" "" [] "" []
         [ex_func "a" [ex_call "p" "T" "t"; ex_call "p" "T" "t"];
          ex_func "b" [ex_call "p" "A" "a"; ex_call "p" "T" "t"];
          ex_func ("q" ++ dquote) [ex_call "p" "A" "b"]] [] [] [] ].

Example ex_model_names_ok : names_ok ex_model "p.T.t".
Proof.
  split; [reflexivity|]. intros x Hx. cbn in Hx.
  repeat (destruct Hx as [Hx|Hx]; [subst; reflexivity|]). contradiction.
Qed.

Example ex_model_graph_nonempty :
  exists es, dot_parse (snd (snd (ranalysis rstate0 "p.T.t" ex_model))) = Some (("p.T.t", "p.A.a") :: es)
             /\ In ("p.A.b", "p.T.t") es.
Proof. eexists. split; [vm_compute; reflexivity|]. cbn. tauto. Qed.

Definition ex_quote_model : list ds :=
  [ mkDs ("T" ++ dquote) "Class" "p" "" [] "" [] [ex_func "t" []] [] [] [];
    mkDs "A" "Class" "p" "" [] "" [] [ex_func ("a" ++ dquote ++ "b") [ex_call "p" ("T" ++ dquote) "t"]] [] [] [] ].

Example ex_quote_graph :
  dot_parse (snd (snd (ranalysis rstate0 ("p.T" ++ dquote ++ ".t") ex_quote_model)))
  = Some [("p.A.a" ++ dquote ++ "b", "p.T" ++ dquote ++ ".t")].
Proof. vm_compute. reflexivity. Qed.
