(* Lemmas about Model/Tbs.v (C11). *)
From Coq Require Import String List Bool Arith Lia.
From Coca Require Import Lib.Sx Lib.GoMap Lib.Str Model.CodeModel Model.Tbs Generated.Constants.
Import ListNotations.
Open Scope string_scope.
Open Scope list_scope.

Theorem assertion_list_documented :
  ASSERTION_LIST = ["assert"; "should"; "check"; "maynotbe"; "is"; "spec"; "verify"] /\
  DuplicatedAssertionLimitLength = 5.
Proof. split; reflexivity. Qed.

(* what one call contributes, whatever its position in the body *)
Definition per_call (file : string) (f : func) (c : call) : list tsmell :=
  if String.eqb (c_fn c) "" then [] else
  (if is_system_output c then [mkT file "RedundantPrintTest" (p_sl (c_pos c))] else []) ++
  (if is_thread_sleep c then [mkT file "SleepyTest" (p_sl (c_pos c))] else []) ++
  (if two_identical_args c then [mkT file "RedundantAssertionTest" (p_sl (f_pos f))] else []).

Definition named_assert (c : call) : bool := negb (String.eqb (c_fn c) "") && has_assertion c.

(* the mutable "has an assertion so far" flag threaded through the loop, and the check at the
   last index, amount to an order-free predicate over the calls *)
Theorem calls_loop_spec : forall file f calls idx total ha groups acc,
    idx + List.length calls = total ->
    fst (calls_loop file f calls idx total ha groups acc) =
    acc ++ flat_map (per_call file f) calls ++
    (if match calls with [] => false | _ => true end && negb (ha || existsb named_assert calls)
     then [mkT file "UnknownTest" (p_sl (f_pos f))] else []).
Proof.
  intros file f. induction calls as [|c rest IH]; intros idx total ha groups acc Hlen.
  - cbn. rewrite ?app_nil_r. reflexivity.
  - cbn [calls_loop]. cbn [List.length] in Hlen.
    assert (Hlast : Nat.eqb idx (total - 1) = match rest with [] => true | _ => false end).
    { destruct rest; cbn [List.length] in Hlen.
      - apply Nat.eqb_eq. lia.
      - apply Nat.eqb_neq. lia. }
    rewrite Hlast. cbn [flat_map existsb]. unfold per_call at 1. unfold named_assert at 1.
    destruct (String.eqb (c_fn c) "") eqn:Efn; cbn [negb andb orb app].
    + rewrite IH by lia. destruct rest as [|c2 rest2].
      * cbn [flat_map existsb app andb]. rewrite orb_false_r.
        destruct ha; cbn [negb andb]; now rewrite ?app_nil_r.
      * cbn [andb]. reflexivity.
    + rewrite IH by lia. destruct rest as [|c2 rest2].
      * cbn [flat_map existsb app andb]. rewrite !orb_false_r.
        destruct (is_system_output c), (is_thread_sleep c), (two_identical_args c), (ha || has_assertion c);
          cbn [negb andb app]; rewrite ?app_nil_r, <- ?app_assoc; reflexivity.
      * cbn [andb]. rewrite orb_assoc.
        destruct (is_system_output c), (is_thread_sleep c), (two_identical_args c);
          cbn [app]; rewrite <- ?app_assoc; reflexivity.
Qed.

(* methods without @Test / @Ignore never produce a finding *)
Theorem non_test_method_nothing : forall cmm d f, is_junit_test f = false -> method_smells cmm d f = [].
Proof. intros cmm d f H. unfold method_smells. now rewrite H. Qed.

(* every finding names the file of the class it was found in *)
Lemma calls_loop_files : forall file f calls idx total ha groups acc,
    (forall t, In t acc -> t_file t = file) ->
    forall t, In t (fst (calls_loop file f calls idx total ha groups acc)) -> t_file t = file.
Proof.
  intros file f. induction calls as [|c rest IH]; intros idx total ha groups acc Hacc t Ht; cbn [calls_loop] in Ht.
  - simpl in Ht. auto.
  - assert (Hadd : forall l x, (forall t, In t l -> t_file t = file) -> t_file x = file ->
                              forall t, In t (l ++ [x]) -> t_file t = file).
    { intros l x Hl Hx t0 H0. apply in_app_or in H0. destruct H0 as [H0|[H0|[]]]; [auto|now subst]. }
    destruct (String.eqb (c_fn c) "").
    + eapply IH; [|exact Ht]. destruct (_ && _); [apply Hadd; auto|assumption].
    + eapply IH; [|exact Ht].
      repeat match goal with
             | |- context [if ?b then _ else _] => destruct b
             end; repeat (apply Hadd; [|reflexivity]); assumption.
Qed.

Theorem findings_name_their_file : forall cmm d f t, In t (method_smells cmm d f) -> t_file t = d_path d.
Proof.
  intros cmm d f t H. unfold method_smells in H. destruct (negb (is_junit_test f)); [contradiction|].
  destruct (calls_loop _ _ _ _ _ _ _ _) as [loop groups] eqn:EL.
  apply in_app_or in H. destruct H as [H|H].
  - apply in_flat_map in H. destruct H as [a [_ H]]. apply in_app_or in H.
    destruct H as [H|H]; match type of H with In _ (if ?b then _ else _) => destruct b end;
      try contradiction; destruct H as [H|[]]; now subst.
  - apply in_app_or in H. destruct H as [H|H].
    + assert (E : loop = fst (calls_loop (d_path d) f (update_calls_for_self_call f d cmm) 0
                                        (List.length (update_calls_for_self_call f d cmm)) false [] []))
        by now rewrite EL.
      rewrite E in H. eapply calls_loop_files; [|exact H]. intros ? [].
    + match type of H with In _ (if ?b then _ else _) => destruct b end; [|contradiction].
      destruct H as [H|[]]. now subst.
Qed.

(* non-vacuity: a test that prints, sleeps, asserts twice identically and calls a helper *)
Definition ex_tc (node fn : string) (line : nat) (args : list string) : call :=
  mkCall "t" "" node fn (map (fun a => mkProp "" a) args) (mkPos line 4 line 9).
Definition ex_test_class : ds :=
  mkDs "KTest" "Class" "t" "t/KTest.java" [] "" []
       [ mkFunc "test1" "void" [] [ex_tc "System.out" "println" 11 ["x"]; ex_tc "Thread" "sleep" 12 ["1"];
                                   ex_tc "" "assertEquals" 13 ["1"; "1"]; ex_tc "KTest" "helper" 14 []]
                false [mkAnnot "Test" []; mkAnnot "Ignore" []] false false [] (mkPos 10 2 15 2);
         mkFunc "helper" "void" [] [ex_tc "" "verifyState" 20 []] false [] false false [] (mkPos 19 2 21 2);
         mkFunc "test2" "void" [] [ex_tc "repo" "save" 31 []; ex_tc "repo" "load" 32 []]
                false [mkAnnot "Test" []] false false [] (mkPos 30 2 33 2);
         mkFunc "test3" "void" [] [] false [mkAnnot "Test" []] false false [] (mkPos 40 2 41 2) ]
       [] [] [].

Example ex_tbs :
  map (fun t => (t_type t, t_line t)) (tbs_analysis [ex_test_class]) =
  [ ("IgnoreTest", 0); ("RedundantPrintTest", 11); ("SleepyTest", 12); ("RedundantAssertionTest", 10);
    ("UnknownTest", 30); ("EmptyTest", 40) ].
Proof. vm_compute. reflexivity. Qed.

(* ------------------------------------------------------------------ IgnoreTest / EmptyTest, exactly *)
Definition loop_type (ty : string) : Prop :=
  ty = "RedundantPrintTest" \/ ty = "SleepyTest" \/ ty = "RedundantAssertionTest" \/ ty = "UnknownTest".

Lemma per_call_types : forall file f c t, In t (per_call file f c) -> loop_type (t_type t).
Proof.
  intros file f c t H. unfold per_call in H. destruct (String.eqb (c_fn c) ""); [contradiction|].
  unfold loop_type.
  repeat (apply in_app_or in H; destruct H as [H|H]);
    match type of H with In _ (if ?b then _ else _) => destruct b end; try contradiction;
      destruct H as [H|[]]; subst t; cbn [t_type]; auto.
Qed.

Lemma loop_smells_types : forall file f calls t,
    In t (fst (calls_loop file f calls 0 (List.length calls) false [] [])) -> loop_type (t_type t).
Proof.
  intros file f calls t H. rewrite (calls_loop_spec file f calls 0 (List.length calls) false [] []) in H by lia.
  cbn [app] in H. apply in_app_or in H. destruct H as [H|H].
  - apply in_flat_map in H. destruct H as [c [_ H]]. eapply per_call_types; eauto.
  - match type of H with In _ (if ?b then _ else _) => destruct b end; [|contradiction].
    destruct H as [H|[]]. subst t. unfold loop_type. cbn [t_type]. auto.
Qed.

(* an IgnoreTest finding is reported exactly for the @Ignore annotations of a JUnit method *)
Theorem ignore_test_exact : forall cmm d f,
    In (mkT (d_path d) "IgnoreTest" 0) (method_smells cmm d f) <->
    exists a, In a (f_annots f) /\ an_name a = "Ignore".
Proof.
  intros cmm d f. unfold method_smells. split.
  - destruct (negb (is_junit_test f)); [contradiction|].
    destruct (calls_loop _ _ _ _ _ _ _ _) as [loop groups] eqn:EL. intros H.
    apply in_app_or in H. destruct H as [H|H].
    + apply in_flat_map in H. destruct H as [a [Ha H]]. apply in_app_or in H. destruct H as [H|H].
      * destruct (String.eqb (an_name a) "Ignore") eqn:E; [|contradiction]. apply String.eqb_eq in E. eauto.
      * match type of H with In _ (if ?b then _ else _) => destruct b end; [|contradiction].
        destruct H as [H|[]]. discriminate.
    + apply in_app_or in H. destruct H as [H|H].
      * assert (E : loop = fst (calls_loop (d_path d) f (update_calls_for_self_call f d cmm) 0
                                          (List.length (update_calls_for_self_call f d cmm)) false [] []))
          by now rewrite EL.
        rewrite E in H. apply loop_smells_types in H. cbn [t_type] in H.
        destruct H as [H|[H|[H|H]]]; discriminate.
      * match type of H with In _ (if ?b then _ else _) => destruct b end; [|contradiction].
        destruct H as [H|[]]. discriminate.
  - intros [a [Ha En]].
    assert (J : is_junit_test f = true).
    { unfold is_junit_test. apply existsb_exists. exists a. split; [assumption|].
      unfold is_ignore_or_test. rewrite En. reflexivity. }
    rewrite J. cbn [negb].
    destruct (calls_loop _ _ _ _ _ _ _ _) as [loop groups].
    apply in_or_app. left. apply in_flat_map. exists a. split; [assumption|].
    apply in_or_app. left. rewrite En. cbn. now left.
Qed.

(* EmptyTest, as the code has it: a @Test method with AT MOST ONE call (after helper expansion) - the
   property says "no call"; the difference is finding D21 *)
Theorem empty_test_as_implemented : forall cmm d f,
    In (mkT (d_path d) "EmptyTest" (p_sl (f_pos f))) (method_smells cmm d f) <->
    (exists a, In a (f_annots f) /\ an_name a = "Test") /\
    List.length (update_calls_for_self_call f d cmm) <= 1.
Proof.
  intros cmm d f. unfold method_smells. split.
  - destruct (negb (is_junit_test f)); [contradiction|].
    destruct (calls_loop _ _ _ _ _ _ _ _) as [loop groups] eqn:EL. intros H.
    apply in_app_or in H. destruct H as [H|H].
    + apply in_flat_map in H. destruct H as [a [Ha H]]. apply in_app_or in H. destruct H as [H|H].
      * match type of H with In _ (if ?b then _ else _) => destruct b end; [|contradiction].
        destruct H as [H|[]]. discriminate.
      * destruct (String.eqb (an_name a) "Test") eqn:E; cbn [andb] in H; [|contradiction].
        destruct (Nat.leb (List.length (update_calls_for_self_call f d cmm)) 1) eqn:L; [|contradiction].
        apply String.eqb_eq in E. apply Nat.leb_le in L. split; eauto.
    + apply in_app_or in H. destruct H as [H|H].
      * assert (E : loop = fst (calls_loop (d_path d) f (update_calls_for_self_call f d cmm) 0
                                          (List.length (update_calls_for_self_call f d cmm)) false [] []))
          by now rewrite EL.
        rewrite E in H. apply loop_smells_types in H. cbn [t_type] in H.
        destruct H as [H|[H|[H|H]]]; discriminate.
      * match type of H with In _ (if ?b then _ else _) => destruct b end; [|contradiction].
        destruct H as [H|[]]. discriminate.
  - intros [[a [Ha En]] L].
    assert (J : is_junit_test f = true).
    { unfold is_junit_test. apply existsb_exists. exists a. split; [assumption|].
      unfold is_ignore_or_test. rewrite En. reflexivity. }
    rewrite J. cbn [negb].
    destruct (calls_loop _ _ _ _ _ _ _ _) as [loop groups].
    apply in_or_app. left. apply in_flat_map. exists a. split; [assumption|].
    apply in_or_app. right. rewrite En. cbn [String.eqb Ascii.eqb Bool.eqb andb].
    apply Nat.leb_le in L. rewrite L. now left.
Qed.

(* D21, the witness: a test whose body makes exactly one call is reported as empty *)
Definition ex_one_call_class : ds :=
  mkDs "OTest" "Class" "t" "t/OTest.java" [] "" []
       [ mkFunc "test1" "void" [] [ex_tc "repo" "save" 11 []] false [mkAnnot "Test" []] false false [] (mkPos 10 2 12 2) ]
       [] [] [].

Example one_call_test_reported_empty_refuted :
  map (fun t => (t_type t, t_line t)) (tbs_analysis [ex_one_call_class]) = [("EmptyTest", 10); ("UnknownTest", 10)].
Proof. vm_compute. reflexivity. Qed.
